/-
  Helper definitions and run invariants for `CachedProofs/LayerB/Retained.lean` (C03 at ACTION granularity, from the
  ENGLISH premises: "the demand fits", "operations on the key one after another", "the time-to-live has not elapsed").

    1  `KAct`: one action of a client, as a relation that keeps the WEIGHTS, the RESULT of the call and the exact
       successor position (`CTrans` of Inv.lean forgets them)
    2  sums (`lsum`, `sumTo`)
    3  `NoShut`: no `shutdown()` was ever requested
    4  `Bud`: the budget invariant behind `C03_layerB_no_eviction_when_demand_fits`
    5  `Hd`: acknowledgement handles in flight are distinct;  `SoftInv`: a deletion mark has its `Delete` under way
    6  `EvInv` along a run on which the entry of the key never stood expired
    7  `Danger` / `Safe`: puts, value-carrying upserts and deletes of the key under way;  persistence of a stored value
    8  `WInv`: from the issue of a write to its acknowledgement
-/
import CachedProofs.LayerB.History
import CachedProofs.LayerB.IndexStep
import CachedProofs.LayerB.Closed

namespace Cached
namespace B
open Hist

/-! ## 1  one client action, in full -/

/-- positions of `shutdown()` (its `start` included) -/
def CPc.shutPos : CPc → Bool
  | .start .shutdown | .shutCas | .send .shutdown => true
  | pc => pc.afterCas

/-- the ways the tail of `put_or_update` ends, with the weight it sends -/
theorem upAfterIndex_cases (b : BState) (i id : Nat) (uw : Option Int) :
    (∃ p w, uw = some w ∧ upAfterIndex b i id uw = finishCall b i (.panic p)) ∨
    (∃ w, uw = some w ∧ 0 < w ∧ upAfterIndex b i id uw = setClient b i (.send (.updateWeight id w))) ∨
    (uw = none ∧ upAfterIndex b i id uw = spotFinish b i .accepted) := by
  unfold upAfterIndex
  split
  · split
    · exact Or.inl ⟨_, _, rfl, rfl⟩
    · split
      · exact Or.inl ⟨_, _, rfl, rfl⟩
      · rename_i w _ hw
        exact Or.inr (Or.inl ⟨w, rfl, by omega, rfl⟩)
  · exact Or.inr (Or.inr ⟨rfl, rfl⟩)

/-- the weight `upsert.weight_of` hands on when the call ADDS a time-to-live -/
def deriveAdd (b : BState) (id : Nat) (uw : Option Int) : Option Int :=
  match uw with
  | some x => some x
  | none => ((b.g.adm.kw.get? id).map (·.weight)).map (· + b.g.cfg.ttlEntry)

/-- … when the call REMOVES the time-to-live -/
def deriveDel (b : BState) (id : Nat) (uw : Option Int) : Option Int :=
  match uw with
  | some x => some x
  | none => ((b.g.adm.kw.get? id).map (·.weight)).map (· - b.g.cfg.ttlEntry)

/-- One action of client `i`, as a relation: one constructor per branch of `clientAct` outside `shutdown()`.
    (`shutting`, `shut`: the branches taken only once a `shutdown()` has been requested; nothing is said about them.) -/
inductive KAct (b : BState) (i : Nat) : BState → Prop where
  | shutting (r : Req) (b' : BState) : b.cl[i]? = some (.start r) → b.g.shutting = true → KAct b i b'
  | shut (pc : CPc) (b' : BState) : b.cl[i]? = some pc → pc.shutPos = true → KAct b i b'
  | startPutBad (k v w ttl) : b.cl[i]? = some (.start (.putW k v w ttl)) → b.g.shutting = false → w ≤ 0 →
      KAct b i (finishCall b i (.panic .weightNotPositive))
  | startPut (k v w ttl) : b.cl[i]? = some (.start (.putW k v w ttl)) → b.g.shutting = false → 0 < w →
      KAct b i (setClient b i (.putPresent k v w ttl))
  | startDelete (k) : b.cl[i]? = some (.start (.delete k)) → b.g.shutting = false → KAct b i (setClient b i (.delMark k))
  | startGet (k) : b.cl[i]? = some (.start (.get k)) → b.g.shutting = false → KAct b i (setClient b i (.getStore k))
  | startWeight : b.cl[i]? = some (.start .weight) → b.g.shutting = false → KAct b i (setClient b i .weightRead)
  | startUpsert (k v w ttl rm) : b.cl[i]? = some (.start (.upsert k v w ttl rm)) → b.g.shutting = false →
      KAct b i (setClient b i (.upUpdate k v w ttl rm))
  | startGetRef (k) : b.cl[i]? = some (.start (.getRef k)) → b.g.shutting = false → KAct b i (setClient b i (.refStore k))
  | startMget (ks iter) : b.cl[i]? = some (.start (.mget ks iter)) → b.g.shutting = false →
      KAct b i (mgetStart b i ks iter)
  | mgetFlag (outer ks acc iter) : b.cl[i]? = some (.mgetFlag outer ks acc iter) →
      KAct b i (mgetFlagAct b i outer ks acc iter)
  | putPresentHit (k v w ttl) : b.cl[i]? = some (.putPresent k v w ttl) → b.g.store.contains k = true →
      KAct b i (spotFinish b i (.rejected .keyAlreadyExists))
  | putPresentOk (k v w ttl) : b.cl[i]? = some (.putPresent k v w ttl) → b.g.store.contains k = false →
      KAct b i (setClient b i (.idNext k v w ttl))
  | idNext (k v w ttl) : b.cl[i]? = some (.idNext k v w ttl) →
      KAct b i (setClient { b with g := { b.g with nextId := b.g.nextId + 1 } } i
        (.send (match ttl with
          | some t => Cmd.putTtl b.g.nextId (b.g.cfg.hashOf k) w k v t
          | none => Cmd.put b.g.nextId (b.g.cfg.hashOf k) w k v)))
  | sendDead (cmd) : b.cl[i]? = some (.send cmd) → b.g.worker = .dead → KAct b i (finishCall b i .err)
  | sendOk (cmd) : b.cl[i]? = some (.send cmd) → b.g.worker ≠ .dead →
      KAct b i (finishCall { b with g := { b.g with queue := b.g.queue ++ [(cmd, some b.g.acks.length)],
                                                      acks := b.g.acks ++ [.pending] } } i (.ack b.g.acks.length .pending))
  | delMark (k) : b.cl[i]? = some (.delMark k) →
      KAct b i (setClient { b with g := { b.g with store := match b.g.store.get? k with
        | some e => b.g.store.set k { e with soft := true }
        | none => b.g.store } } i (.send (.delete k)))
  | getMiss (k st) : b.cl[i]? = some (.getStore k) → (∀ e, b.g.store.get? k = some e → e.alive b.g.now = false) →
      KAct b i (finishCall { b with g := { b.g with stats := st } } i (.value none))
  | getHit (k e) : b.cl[i]? = some (.getStore k) → b.g.store.get? k = some e → e.alive b.g.now = true →
      KAct b i (setClient { b with g := { b.g with stats := { b.g.stats with hits := b.g.stats.hits + 1 } } } i (.getPool k e.value))
  | getPool (k v g1) : b.cl[i]? = some (.getPool k v) →
      g1 = { b.g with pool := g1.pool, bufq := g1.bufq, stats := g1.stats } →
      KAct b i (finishCall { b with g := g1 } i (.value (some v)))
  | mgetMiss (k ks acc iter st) : b.cl[i]? = some (.mgetStore k ks acc iter) →
      (∀ e, b.g.store.get? k = some e → e.alive b.g.now = false) →
      KAct b i (mgetNext { b with g := { b.g with stats := st } } i ks (acc ++ [none]) iter)
  | mgetHit (k ks acc iter e) : b.cl[i]? = some (.mgetStore k ks acc iter) → b.g.store.get? k = some e →
      e.alive b.g.now = true →
      KAct b i (setClient { b with g := { b.g with stats := { b.g.stats with hits := b.g.stats.hits + 1 } } } i
        (.mgetPool k e.value ks acc iter))
  | mgetPool (k v ks acc iter g1) : b.cl[i]? = some (.mgetPool k v ks acc iter) →
      g1 = { b.g with pool := g1.pool, bufq := g1.bufq, stats := g1.stats } →
      KAct b i (mgetNext { b with g := g1 } i ks (acc ++ [some v]) iter)
  | weightRead : b.cl[i]? = some .weightRead → KAct b i (finishCall b i (.weight b.g.adm.used))
  | upAbsentPut (k v w ttl rm val weight) : b.cl[i]? = some (.upUpdate k v w ttl rm) → b.g.store.get? k = none →
      v = some val → upsertW b.g.cfg v w ttl = some weight → 0 < weight →
      KAct b i (setClient b i (.idNext k val weight ttl))
  | upAbsentPanic (k v w ttl rm p) : b.cl[i]? = some (.upUpdate k v w ttl rm) → b.g.store.get? k = none →
      KAct b i (finishCall b i (.panic p))
  | upOverflow (k v w ttl rm e) : b.cl[i]? = some (.upUpdate k v w ttl rm) → b.g.store.get? k = some e →
      upExpiry b.g.now ttl rm e.expiry = none → KAct b i (finishCall b i (.panic .timeOverflow))
  | upFound (k v w ttl rm e exp) : b.cl[i]? = some (.upUpdate k v w ttl rm) → b.g.store.get? k = some e →
      upExpiry b.g.now ttl rm e.expiry = some exp →
      KAct b i (setClient { b with g := { b.g with store := b.g.store.set k { e with expiry := exp, value := v.getD e.value } } } i
        (.upWeightOf e.id (upsertW b.g.cfg v w ttl) e.expiry exp))
  | upWAdded (id uw n) : b.cl[i]? = some (.upWeightOf id uw none (some n)) →
      KAct b i (setClient b i (.upTtlPut id n (deriveAdd b id uw)))
  | upWDeleted (id uw e) : b.cl[i]? = some (.upWeightOf id uw (some e) none) →
      KAct b i (setClient b i (.upTtlDelete id e (deriveDel b id uw)))
  | upWUpdated (id uw e n) : b.cl[i]? = some (.upWeightOf id uw (some e) (some n)) → e ≠ n →
      KAct b i (setClient b i (.upTtlRemove id e n uw))
  | upWNothing (id uw old new) : b.cl[i]? = some (.upWeightOf id uw old new) →
      typeOfExpiryUpdate old new = .nothing → KAct b i (upAfterIndex b i id uw)
  | upTtlPut (id e uw) : b.cl[i]? = some (.upTtlPut id e uw) → KAct b i (upAfterIndex { b with g := ttlPut b.g id e } i id uw)
  | upTtlDelete (id e uw) : b.cl[i]? = some (.upTtlDelete id e uw) →
      KAct b i (upAfterIndex { b with g := ttlDelete b.g id e } i id uw)
  | upTtlRemove (id old new uw) : b.cl[i]? = some (.upTtlRemove id old new uw) →
      KAct b i (setClient { b with g := ttlDelete b.g id old } i (.upTtlInsert id new uw))
  | upTtlInsert (id new uw) : b.cl[i]? = some (.upTtlInsert id new uw) →
      KAct b i (upAfterIndex { b with g := ttlPut b.g id new } i id uw)
  | refMiss (k st) : b.cl[i]? = some (.refStore k) → (∀ e, b.g.store.get? k = some e → e.alive b.g.now = false) →
      KAct b i (finishCall { b with g := { b.g with stats := st } } i (.value none))
  | refHit (k e) : b.cl[i]? = some (.refStore k) → b.g.store.get? k = some e → e.alive b.g.now = true →
      KAct b i (setClient { b with g := { b.g with stats := { b.g.stats with hits := b.g.stats.hits + 1 } },
                                    storeReaders := (i, storeShardOf b k) :: b.storeReaders } i (.refPool k e.value))
  | refPool (k v g1) : b.cl[i]? = some (.refPool k v) →
      g1 = { b.g with pool := g1.pool, bufq := g1.bufq, stats := g1.stats } →
      KAct b i (finishCall { b with g := g1, storeReaders := b.storeReaders.filter (fun p => p.1 != i) } i (.value (some v)))

theorem clientAct_cact {b b' : BState} {i : Nat} {o o' : Oracle} (h : clientAct b i o = .ok (b', o')) :
    KAct b i b' := by
  unfold clientAct at h
  simp only [] at h
  split at h
  · cases h
  · rename_i pc hpc
    cases pc with
    | idle => cases h
    | start r =>
      simp only [] at h
      split at h
      · rename_i hsh
        exact .shutting r _ hpc hsh
      · rename_i hsh
        have hsh : b.g.shutting = false := by simpa using hsh
        cases r <;> simp only [] at h
        case putW k v w ttl =>
          split at h
          all_goals simp only [Except.ok.injEq, Prod.mk.injEq] at h; obtain ⟨rfl, rfl⟩ := h
          · exact .startPutBad _ _ _ _ hpc hsh (by assumption)
          · exact .startPut _ _ _ _ hpc hsh (by omega)
        case shutdown => exact .shut _ _ hpc rfl
        all_goals simp only [Except.ok.injEq, Prod.mk.injEq] at h; obtain ⟨rfl, rfl⟩ := h
        · exact .startDelete _ hpc hsh
        · exact .startGet _ hpc hsh
        · exact .startWeight hpc hsh
        · exact .startUpsert _ _ _ _ _ hpc hsh
        · exact .startGetRef _ hpc hsh
        · exact .startMget _ _ hpc hsh
    | putPresent k v w ttl =>
      simp only [] at h
      split at h
      all_goals simp only [Except.ok.injEq, Prod.mk.injEq] at h; obtain ⟨rfl, rfl⟩ := h
      · exact .putPresentHit _ _ _ _ hpc (by assumption)
      · exact .putPresentOk _ _ _ _ hpc (Bool.eq_false_iff.mpr ‹¬ _›)
    | idNext k v w ttl =>
      simp only [Except.ok.injEq, Prod.mk.injEq] at h; obtain ⟨rfl, rfl⟩ := h
      exact .idNext _ _ _ _ hpc
    | send cmd =>
      simp only [] at h
      split at h
      · rename_i b1 hs
        simp only [Except.ok.injEq, Prod.mk.injEq] at h; obtain ⟨rfl, rfl⟩ := h
        unfold sendAct at hs
        simp only [] at hs
        split at hs
        · simp only [Except.ok.injEq] at hs; subst hs
          exact .sendDead _ hpc (by assumption)
        · split at hs
          · cases hs
          · simp only [Except.ok.injEq] at hs; subst hs
            exact .sendOk _ hpc (by assumption)
      · cases h
    | delMark k =>
      simp only [] at h
      split at h
      · cases h
      · simp only [Except.ok.injEq, Prod.mk.injEq] at h; obtain ⟨rfl, rfl⟩ := h
        exact .delMark _ hpc
    | getStore k =>
      simp only [] at h
      split at h
      · rename_i e he
        split at h
        all_goals simp only [Except.ok.injEq, Prod.mk.injEq] at h; obtain ⟨rfl, rfl⟩ := h
        · exact .getHit _ _ hpc he (by assumption)
        · refine .getMiss _ _ hpc ?_
          intro e' he'
          rw [he] at he'; cases he'
          exact Bool.eq_false_iff.mpr ‹¬ _›
      · rename_i he
        simp only [Except.ok.injEq, Prod.mk.injEq] at h; obtain ⟨rfl, rfl⟩ := h
        refine .getMiss _ _ hpc ?_
        intro e' he'
        rw [he] at he'; cases he'
    | getPool k v =>
      simp only [] at h
      split at h
      · rename_i g1 o1 hp
        simp only [Except.ok.injEq, Prod.mk.injEq] at h; obtain ⟨rfl, rfl⟩ := h
        exact .getPool _ _ _ hpc (poolAdd_frame hp)
      · cases h
    | weightRead =>
      simp only [] at h
      split at h
      · cases h
      · simp only [Except.ok.injEq, Prod.mk.injEq] at h; obtain ⟨rfl, rfl⟩ := h
        exact .weightRead hpc
    | upUpdate k v w ttl rm =>
      simp only [] at h
      split at h
      · cases h
      · split at h
        · rename_i hnone
          split at h
          · rename_i val weight hw
            split at h
            all_goals simp only [Except.ok.injEq, Prod.mk.injEq] at h; obtain ⟨rfl, rfl⟩ := h
            · exact .upAbsentPanic _ _ _ _ _ _ hpc hnone
            · exact .upAbsentPut _ _ _ _ _ val weight hpc hnone rfl (by unfold upsertW; exact hw) (by omega)
          · simp only [Except.ok.injEq, Prod.mk.injEq] at h; obtain ⟨rfl, rfl⟩ := h
            exact .upAbsentPanic _ _ _ _ _ _ hpc hnone
        · rename_i e he
          split at h
          all_goals simp only [Except.ok.injEq, Prod.mk.injEq] at h; obtain ⟨rfl, rfl⟩ := h
          · rename_i hx
            exact .upOverflow _ _ _ _ _ e hpc he (by unfold upExpiry; exact hx)
          · rename_i exp hx
            exact .upFound _ _ _ _ _ e exp hpc he (by unfold upExpiry; exact hx)
    | upWeightOf id uw old new =>
      simp only [] at h
      split at h
      all_goals simp only [Except.ok.injEq, Prod.mk.injEq] at h; obtain ⟨rfl, rfl⟩ := h
      · rename_i n hty
        cases old <;> cases new <;> simp [typeOfExpiryUpdate] at hty
        · subst hty; exact .upWAdded _ _ _ hpc
        · split at hty <;> cases hty
      · rename_i e hty
        cases old <;> cases new <;> simp [typeOfExpiryUpdate] at hty
        · subst hty; exact .upWDeleted _ _ _ hpc
        · split at hty <;> cases hty
      · rename_i e n hty
        cases old with
        | none => cases new <;> simp [typeOfExpiryUpdate] at hty
        | some a =>
          cases new with
          | none => simp [typeOfExpiryUpdate] at hty
          | some c =>
            simp only [typeOfExpiryUpdate] at hty
            split at hty
            · rename_i hne
              injection hty with h1 h2
              subst h1 h2
              exact .upWUpdated _ _ _ _ hpc hne
            · cases hty
      · rename_i hty
        exact .upWNothing _ _ _ _ hpc hty
    | upTtlPut id e uw =>
      simp only [] at h
      split at h
      · cases h
      · simp only [Except.ok.injEq, Prod.mk.injEq] at h; obtain ⟨rfl, rfl⟩ := h
        exact .upTtlPut _ _ _ hpc
    | upTtlDelete id e uw =>
      simp only [] at h
      split at h
      · cases h
      · simp only [Except.ok.injEq, Prod.mk.injEq] at h; obtain ⟨rfl, rfl⟩ := h
        exact .upTtlDelete _ _ _ hpc
    | upTtlRemove id old new uw =>
      simp only [] at h
      split at h
      · cases h
      · simp only [Except.ok.injEq, Prod.mk.injEq] at h; obtain ⟨rfl, rfl⟩ := h
        exact .upTtlRemove _ _ _ _ hpc
    | upTtlInsert id new uw =>
      simp only [] at h
      split at h
      · cases h
      · simp only [Except.ok.injEq, Prod.mk.injEq] at h; obtain ⟨rfl, rfl⟩ := h
        exact .upTtlInsert _ _ _ hpc
    | refStore k =>
      simp only [] at h
      split at h
      · rename_i e he
        split at h
        all_goals simp only [Except.ok.injEq, Prod.mk.injEq] at h; obtain ⟨rfl, rfl⟩ := h
        · exact .refHit _ _ hpc he (by assumption)
        · refine .refMiss _ _ hpc ?_
          intro e' he'
          rw [he] at he'; cases he'
          exact Bool.eq_false_iff.mpr ‹¬ _›
      · rename_i he
        simp only [Except.ok.injEq, Prod.mk.injEq] at h; obtain ⟨rfl, rfl⟩ := h
        refine .refMiss _ _ hpc ?_
        intro e' he'
        rw [he] at he'; cases he'
    | refPool k v =>
      simp only [] at h
      split at h
      · rename_i g1 o1 hp
        simp only [Except.ok.injEq, Prod.mk.injEq] at h; obtain ⟨rfl, rfl⟩ := h
        exact .refPool _ _ _ hpc (poolAdd_frame hp)
      · cases h
    | mgetStore k ks acc iter =>
      simp only [] at h
      split at h
      · rename_i e he
        split at h
        all_goals simp only [Except.ok.injEq, Prod.mk.injEq] at h; obtain ⟨rfl, rfl⟩ := h
        · exact .mgetHit _ _ _ _ _ hpc he (by assumption)
        · refine .mgetMiss _ _ _ _ _ hpc ?_
          intro e' he'
          rw [he] at he'; cases he'
          exact Bool.eq_false_iff.mpr ‹¬ _›
      · rename_i he
        simp only [Except.ok.injEq, Prod.mk.injEq] at h; obtain ⟨rfl, rfl⟩ := h
        refine .mgetMiss _ _ _ _ _ hpc ?_
        intro e' he'
        rw [he] at he'; cases he'
    | mgetPool k v ks acc iter =>
      simp only [] at h
      split at h
      · rename_i g1 o1 hp
        simp only [Except.ok.injEq, Prod.mk.injEq] at h; obtain ⟨rfl, rfl⟩ := h
        exact .mgetPool _ _ _ _ _ _ hpc (poolAdd_frame hp)
      · cases h
    | mgetFlag outer ks acc iter =>
      simp only [Except.ok.injEq, Prod.mk.injEq] at h; obtain ⟨rfl, rfl⟩ := h
      exact .mgetFlag _ _ _ _ hpc
    | shutCas => exact .shut _ _ hpc rfl
    | shutSendCmd => exact .shut _ _ hpc rfl
    | shutSendBuf => exact .shut _ _ hpc rfl
    | shutConsumerFlag => exact .shut _ _ hpc rfl
    | shutTickerFlag => exact .shut _ _ hpc rfl
    | shutStoreClear => exact .shut _ _ hpc rfl
    | shutKwClear => exact .shut _ _ hpc rfl
    | shutWuZero => exact .shut _ _ hpc rfl
    | shutAfClear => exact .shut _ _ hpc rfl
    | shutStatsClear => exact .shut _ _ hpc rfl
    | shutTtlClear => exact .shut _ _ hpc rfl


/-! ## 2  sums -/

/-- the sum of `f` over the client positions -/
def lsum (f : CPc → Int) : List CPc → Int
  | [] => 0
  | pc :: l => f pc + lsum f l

theorem lsum_set (f : CPc → Int) : ∀ (l : List CPc) (i : Nat) (pc pc' : CPc), l[i]? = some pc →
    lsum f (l.set i pc') = lsum f l - f pc + f pc'
  | [], i, pc, pc', h => by simp at h
  | x :: l, 0, pc, pc', h => by
    simp only [List.getElem?_cons_zero, Option.some.injEq] at h
    subst h
    simp only [List.set_cons_zero, lsum]
    omega
  | x :: l, i + 1, pc, pc', h => by
    simp only [List.getElem?_cons_succ] at h
    simp only [List.set_cons_succ, lsum, lsum_set f l i pc pc' h]
    omega

theorem lsum_replicate (f : CPc → Int) (pc : CPc) (hf : f pc = 0) : ∀ n, lsum f (List.replicate n pc) = 0
  | 0 => rfl
  | n + 1 => by simp [List.replicate_succ, lsum, hf, lsum_replicate f pc hf n]

theorem lsum_nonneg {f : CPc → Int} (hf : ∀ pc, 0 ≤ f pc) : ∀ l, 0 ≤ lsum f l
  | [] => Int.le_refl _
  | pc :: l => by have := hf pc; have := lsum_nonneg hf l; simp only [lsum]; omega

/-- `β 0 + … + β (n - 1)` -/
def sumTo (β : Nat → Int) : Nat → Int
  | 0 => 0
  | n + 1 => sumTo β n + β n

/-- `β` with `d` added at `a` -/
def bump (β : Nat → Int) (a : Nat) (d : Int) : Nat → Int := fun x => if x = a then β x + d else β x

theorem sumTo_bump_ge (β : Nat → Int) (a : Nat) (d : Int) : ∀ n, n ≤ a → sumTo (bump β a d) n = sumTo β n
  | 0, _ => rfl
  | n + 1, h => by
    have hne : n ≠ a := by omega
    simp only [sumTo, sumTo_bump_ge β a d n (by omega), bump, hne, if_false]

theorem sumTo_bump_lt (β : Nat → Int) (a : Nat) (d : Int) : ∀ n, a < n → sumTo (bump β a d) n = sumTo β n + d
  | 0, h => by omega
  | n + 1, h => by
    by_cases hn : n = a
    · subst hn
      simp only [sumTo, sumTo_bump_ge β n d n (Nat.le_refl _), bump, if_true]
      omega
    · simp only [sumTo, sumTo_bump_lt β a d n (by omega), bump, hn, if_false]
      omega

theorem bump_ge {β : Nat → Int} {a : Nat} {d : Int} (hd : 0 ≤ d) (x : Nat) : β x ≤ bump β a d x := by
  unfold bump; split <;> omega

theorem bump_self (β : Nat → Int) (a : Nat) (d : Int) : bump β a d a = β a + d := by simp [bump]

theorem sumTo_nonneg {β : Nat → Int} (hβ : ∀ x, 0 ≤ β x) : ∀ n, 0 ≤ sumTo β n
  | 0 => Int.le_refl _
  | n + 1 => by have := sumTo_nonneg hβ n; have := hβ n; simp only [sumTo]; omega

/-- the budgets of pairwise distinct ids below `n` sum to at most `sumTo β n` -/
theorem sum_map_le_sumTo : ∀ (l : List Nat) (β : Nat → Int) (n : Nat), (∀ x, 0 ≤ β x) → l.Nodup → (∀ x ∈ l, x < n) →
    (l.map β).sum ≤ sumTo β n
  | [], β, n, hβ, _, _ => by simpa using sumTo_nonneg hβ n
  | a :: l, β, n, hβ, hnd, hlt => by
    have ha : a < n := hlt a List.mem_cons_self
    obtain ⟨hal, hnd'⟩ := List.nodup_cons.mp hnd
    have hβ' : ∀ x, 0 ≤ bump β a (- β a) x := by
      intro x; unfold bump; split
      · rename_i hx; subst hx; omega
      · exact hβ x
    have ih := sum_map_le_sumTo l (bump β a (- β a)) n hβ' hnd' (fun x hx => hlt x (List.mem_cons_of_mem _ hx))
    have hmap : l.map (bump β a (- β a)) = l.map β := by
      apply List.map_congr_left
      intro x hx
      have : x ≠ a := fun e => hal (e ▸ hx)
      simp [bump, this]
    rw [hmap, sumTo_bump_lt β a _ n ha] at ih
    simp only [List.map_cons, List.sum_cons]
    omega

/-! ## 3  no `shutdown()` was ever requested -/

/-- nobody stands inside `shutdown()`, no `Shutdown` command waits, the worker is not draining, the flag is not set -/
structure NoShut (b : BState) : Prop where
  flag : b.g.shutting = false
  cl : ∀ (i : Nat) (pc : CPc), b.cl[i]? = some pc → pc.shutPos = false
  queue : ∀ p ∈ b.g.queue, p.1 ≠ .shutdown
  w : b.w ≠ .drain


/-- every action of Layer B, thread by thread -/
inductive BAct (b : BState) : Act → BState → Prop where
  | issue (i : Nat) (r : Req) : b.cl[i]? = some .idle → BAct b (.issue i r) (setClient b i (.start r))
  | client (i : Nat) (b' : BState) : KAct b i b' → BAct b (.client i) b'
  | worker (b' : BState) : WTrans b b' → BAct b .worker b'
  | sweeper (v : Option Nat) (b' : BState) : STrans b b' → BAct b (.sweeper v) b'
  | consumer (g' : State) : g' = { b.g with bufq := g'.bufq, lfu := g'.lfu, consumerAlive := g'.consumerAlive } →
      BAct b .consumer { b with g := g' }
  | advance (d : Nat) : BAct b (.advance d) { b with g := { b.g with now := b.g.now + d } }

theorem stepB_bact {b b' : BState} {a : Act} {o o' : Oracle} (h : stepB b a o = .ok (b', o')) : BAct b a b' := by
  cases a with
  | issue i r =>
    simp only [stepB] at h
    split at h
    · rename_i b1 hi
      simp only [Except.ok.injEq, Prod.mk.injEq] at h; obtain ⟨rfl, rfl⟩ := h
      unfold issue at hi
      split at hi
      · rename_i hidle
        simp only [Except.ok.injEq] at hi; subst hi
        exact .issue i r hidle
      · cases hi
    · cases h
  | client i => exact .client i _ (clientAct_cact h)
  | worker => exact .worker _ (workerAct_trans h)
  | sweeper v =>
    simp only [stepB] at h
    split at h
    · rename_i b1 hs
      simp only [Except.ok.injEq, Prod.mk.injEq] at h; obtain ⟨rfl, rfl⟩ := h
      exact .sweeper v _ (sweeperAct_trans hs)
    · cases h
  | consumer =>
    simp only [stepB] at h
    split at h
    · rename_i g' out o1 hc
      simp only [Except.ok.injEq, Prod.mk.injEq] at h; obtain ⟨rfl, rfl⟩ := h
      exact .consumer g' (consumerStep_frame hc)
    · cases h
  | advance d =>
    simp only [stepB, Except.ok.injEq, Prod.mk.injEq] at h; obtain ⟨rfl, rfl⟩ := h
    exact .advance d

theorem getElem?_set_cases {cl : List CPc} {i j : Nat} {x pc : CPc} (h : (cl.set i x)[j]? = some pc) :
    (j = i ∧ pc = x) ∨ (j ≠ i ∧ cl[j]? = some pc) := by
  by_cases hj : j = i
  · subst hj; exact Or.inl ⟨rfl, pc_of_set h⟩
  · rw [List.getElem?_set_ne (Ne.symm hj)] at h; exact Or.inr ⟨hj, h⟩

/-- the shape of the state after a client action: the client's new position, everything a client action never touches -/
structure KFrame (b b' : BState) (i : Nat) (pc' : CPc) : Prop where
  cl : b'.cl = b.cl.set i pc'
  w : b'.w = b.w
  sw : b'.sw = b.sw
  cfg : b'.g.cfg = b.g.cfg
  now : b'.g.now = b.g.now
  adm : b'.g.adm = b.g.adm
  shutting : b'.g.shutting = b.g.shutting
  worker : b'.g.worker = b.g.worker

theorem cframe_upAfterIndex {b b0 : BState} {i id : Nat} {uw : Option Int} (hcl : b0.cl = b.cl) (hw : b0.w = b.w)
    (hsw : b0.sw = b.sw) (hcfg : b0.g.cfg = b.g.cfg) (hnow : b0.g.now = b.g.now) (hadm : b0.g.adm = b.g.adm)
    (hsh : b0.g.shutting = b.g.shutting) (hwk : b0.g.worker = b.g.worker) :
    ∃ pc', KFrame b (upAfterIndex b0 i id uw) i pc' ∧
      (pc' = .idle ∨ ∃ w, uw = some w ∧ 0 < w ∧ pc' = .send (.updateWeight id w)) := by
  rcases upAfterIndex_cases b0 i id uw with ⟨p, w, _, e⟩ | ⟨w, hu, hpos, e⟩ | ⟨_, e⟩ <;> rw [e]
  · exact ⟨.idle, ⟨by simp [finishCall, hcl], hw, hsw, hcfg, hnow, hadm, hsh, hwk⟩, Or.inl rfl⟩
  · exact ⟨_, ⟨by simp [setClient, hcl], hw, hsw, hcfg, hnow, hadm, hsh, hwk⟩, Or.inr ⟨w, hu, hpos, rfl⟩⟩
  · exact ⟨.idle, ⟨by simp [spotFinish, finishCall, hcl], hw, hsw, hcfg, hnow, hadm, hsh, hwk⟩, Or.inl rfl⟩

theorem kframe_mgetNext {b b0 : BState} {i : Nat} {ks : List Nat} {acc : List (Option Nat)} {iter : Bool}
    (hcl : b0.cl = b.cl) (hw : b0.w = b.w)
    (hsw : b0.sw = b.sw) (hcfg : b0.g.cfg = b.g.cfg) (hnow : b0.g.now = b.g.now) (hadm : b0.g.adm = b.g.adm)
    (hsh : b0.g.shutting = b.g.shutting) (hwk : b0.g.worker = b.g.worker) :
    ∃ pc', KFrame b (mgetNext b0 i ks acc iter) i pc' ∧
      (pc' = .idle ∨ ∃ k rest, pc' = .mgetFlag iter (k :: rest) acc iter) := by
  rcases mgetNext_spec b0 i ks acc iter with ⟨out, e⟩ | ⟨k, rest, _, e⟩ <;> rw [e]
  · exact ⟨.idle, ⟨by simp [finishCall, hcl], hw, hsw, hcfg, hnow, hadm, hsh, hwk⟩, Or.inl rfl⟩
  · exact ⟨_, ⟨by simp [setClient, hcl], hw, hsw, hcfg, hnow, hadm, hsh, hwk⟩, Or.inr ⟨k, rest, rfl⟩⟩


/-- what a client action does to the command queue and the acknowledgement cells -/
inductive QEff (b b' : BState) (pc : CPc) : Prop where
  | none : b'.g.queue = b.g.queue → b'.g.acks = b.g.acks → QEff b b' pc
  | spot (st : Status) : b'.g.queue = b.g.queue → b'.g.acks = b.g.acks ++ [st] →
      st = .rejected .keyAlreadyExists ∨ st = .accepted → QEff b b' pc
  | send (cmd : Cmd) : pc = .send cmd → b.g.worker ≠ .dead → b'.g.queue = b.g.queue ++ [(cmd, some b.g.acks.length)] →
      b'.g.acks = b.g.acks ++ [.pending] → QEff b b' pc

theorem pool_fields {g g1 : State} (hg : g1 = { g with pool := g1.pool, bufq := g1.bufq, stats := g1.stats }) :
    g1.cfg = g.cfg ∧ g1.now = g.now ∧ g1.adm = g.adm ∧ g1.shutting = g.shutting ∧ g1.worker = g.worker ∧
    g1.queue = g.queue ∧ g1.acks = g.acks ∧ g1.nextId = g.nextId ∧ g1.store = g.store ∧ g1.ttl = g.ttl := by
  refine ⟨?_, ?_, ?_, ?_, ?_, ?_, ?_, ?_, ?_, ?_⟩ <;> rw [hg]

/-- the call of client `i` returns `out` -/
def Ret (b b' : BState) (i : Nat) (out : Out) : Prop := b'.res = b.res.set i (out :: b.res.getD i [])

/-- the tail of `put_or_update`: the positions from which `upAfterIndex` runs, with the key id and the weight carried -/
def CPc.tail? : CPc → Option (Nat × Option Int)
  | .upWeightOf id uw old new => if typeOfExpiryUpdate old new = .nothing then some (id, uw) else none
  | .upTtlPut id _ uw | .upTtlDelete id _ uw | .upTtlInsert id _ uw => some (id, uw)
  | _ => none

/-- One action of a client outside `shutdown()`, as a relation between its position before and after, with the
    conditions read from the state and the result recorded when the call returns. -/
inductive PcStep (b b' : BState) (i : Nat) : CPc → CPc → Prop where
  | startPutBad (k v w ttl) : w ≤ 0 → Ret b b' i (.panic .weightNotPositive) → PcStep b b' i (.start (.putW k v w ttl)) .idle
  | startPut (k v w ttl) : 0 < w → PcStep b b' i (.start (.putW k v w ttl)) (.putPresent k v w ttl)
  | startDelete (k) : PcStep b b' i (.start (.delete k)) (.delMark k)
  | startGet (k) : PcStep b b' i (.start (.get k)) (.getStore k)
  | startWeight : PcStep b b' i (.start .weight) .weightRead
  | startUpsert (k v w ttl rm) : PcStep b b' i (.start (.upsert k v w ttl rm)) (.upUpdate k v w ttl rm)
  | startGetRef (k) : PcStep b b' i (.start (.getRef k)) (.refStore k)
  | startMgetFin (ks iter out) : Ret b b' i out → PcStep b b' i (.start (.mget ks iter)) .idle
  | startMgetGo (ks iter) : PcStep b b' i (.start (.mget ks iter)) (.mgetFlag true ks [] iter)
  /-- a load of the shutdown flag inside a multi-key read (the flag is clear: these are the actions outside `shutdown()`
      of a cache that is running): the read returns (no key), or moves from the outer load to the load inside `get`, or
      from that one to the lookup -/
  | mgetFlagFin (outer ks acc iter out) : Ret b b' i out → PcStep b b' i (.mgetFlag outer ks acc iter) .idle
  | mgetFlagOuter (k rest acc iter) : PcStep b b' i (.mgetFlag true (k :: rest) acc iter) (.mgetFlag false (k :: rest) acc iter)
  | mgetFlagInner (k rest acc iter) : PcStep b b' i (.mgetFlag false (k :: rest) acc iter) (.mgetStore k rest acc iter)
  | putPresentHit (k v w ttl) : b.g.store.contains k = true →
      Ret b b' i (.ack b.g.acks.length (.rejected .keyAlreadyExists)) → b'.g.queue = b.g.queue →
      b'.g.acks = b.g.acks ++ [.rejected .keyAlreadyExists] → PcStep b b' i (.putPresent k v w ttl) .idle
  | putPresentOk (k v w ttl) : b.g.store.contains k = false → PcStep b b' i (.putPresent k v w ttl) (.idNext k v w ttl)
  | idNext (k v w ttl) : b'.g.nextId = b.g.nextId + 1 → PcStep b b' i (.idNext k v w ttl)
      (.send (match ttl with
        | some t => Cmd.putTtl b.g.nextId (b.g.cfg.hashOf k) w k v t
        | none => Cmd.put b.g.nextId (b.g.cfg.hashOf k) w k v))
  | sendDead (cmd) : b.g.worker = .dead → Ret b b' i .err → PcStep b b' i (.send cmd) .idle
  | sendOk (cmd) : b.g.worker ≠ .dead → Ret b b' i (.ack b.g.acks.length .pending) →
      b'.g.queue = b.g.queue ++ [(cmd, some b.g.acks.length)] → b'.g.acks = b.g.acks ++ [.pending] →
      PcStep b b' i (.send cmd) .idle
  | delMark (k) : PcStep b b' i (.delMark k) (.send (.delete k))
  | getMiss (k) : (∀ e, b.g.store.get? k = some e → e.alive b.g.now = false) → Ret b b' i (.value none) →
      PcStep b b' i (.getStore k) .idle
  | getHit (k e) : b.g.store.get? k = some e → e.alive b.g.now = true → PcStep b b' i (.getStore k) (.getPool k e.value)
  | getPool (k v) : Ret b b' i (.value (some v)) → PcStep b b' i (.getPool k v) .idle
  | mgetMissFin (k ks acc iter out) : (∀ e, b.g.store.get? k = some e → e.alive b.g.now = false) → Ret b b' i out →
      PcStep b b' i (.mgetStore k ks acc iter) .idle
  | mgetMissGo (k ks acc iter k' rest) : (∀ e, b.g.store.get? k = some e → e.alive b.g.now = false) → ks = k' :: rest →
      PcStep b b' i (.mgetStore k ks acc iter) (.mgetFlag iter (k' :: rest) (acc ++ [none]) iter)
  | mgetHit (k ks acc iter e) : b.g.store.get? k = some e → e.alive b.g.now = true →
      PcStep b b' i (.mgetStore k ks acc iter) (.mgetPool k e.value ks acc iter)
  | mgetPoolFin (k v ks acc iter out) : Ret b b' i out → PcStep b b' i (.mgetPool k v ks acc iter) .idle
  | mgetPoolGo (k v ks acc iter k' rest) : ks = k' :: rest →
      PcStep b b' i (.mgetPool k v ks acc iter) (.mgetFlag iter (k' :: rest) (acc ++ [some v]) iter)
  | weightRead : Ret b b' i (.weight b.g.adm.used) → PcStep b b' i .weightRead .idle
  | upAbsentPut (k v w ttl rm val weight) : b.g.store.get? k = none → v = some val →
      upsertW b.g.cfg v w ttl = some weight → 0 < weight → PcStep b b' i (.upUpdate k v w ttl rm) (.idNext k val weight ttl)
  | upAbsentPanic (k v w ttl rm p) : b.g.store.get? k = none → Ret b b' i (.panic p) →
      PcStep b b' i (.upUpdate k v w ttl rm) .idle
  | upOverflow (k v w ttl rm e) : b.g.store.get? k = some e → upExpiry b.g.now ttl rm e.expiry = none →
      Ret b b' i (.panic .timeOverflow) → PcStep b b' i (.upUpdate k v w ttl rm) .idle
  | upFound (k v w ttl rm e exp) : b.g.store.get? k = some e → upExpiry b.g.now ttl rm e.expiry = some exp →
      b'.g.store = b.g.store.set k { e with expiry := exp, value := v.getD e.value } →
      PcStep b b' i (.upUpdate k v w ttl rm) (.upWeightOf e.id (upsertW b.g.cfg v w ttl) e.expiry exp)
  | upWAdded (id uw n) : PcStep b b' i (.upWeightOf id uw none (some n)) (.upTtlPut id n (deriveAdd b id uw))
  | upWDeleted (id uw e) : PcStep b b' i (.upWeightOf id uw (some e) none) (.upTtlDelete id e (deriveDel b id uw))
  | upWUpdated (id uw e n) : e ≠ n → PcStep b b' i (.upWeightOf id uw (some e) (some n)) (.upTtlRemove id e n uw)
  | upTtlRemove (id old new uw) : PcStep b b' i (.upTtlRemove id old new uw) (.upTtlInsert id new uw)
  | tailPanic (pc id w p) : pc.tail? = some (id, some w) → Ret b b' i (.panic p) → PcStep b b' i pc .idle
  | tailSend (pc id w) : pc.tail? = some (id, some w) → 0 < w → PcStep b b' i pc (.send (.updateWeight id w))
  | tailSpot (pc id) : pc.tail? = some (id, none) → Ret b b' i (.ack b.g.acks.length .accepted) →
      b'.g.queue = b.g.queue → b'.g.acks = b.g.acks ++ [.accepted] → PcStep b b' i pc .idle
  | refMiss (k) : (∀ e, b.g.store.get? k = some e → e.alive b.g.now = false) → Ret b b' i (.value none) →
      PcStep b b' i (.refStore k) .idle
  | refHit (k e) : b.g.store.get? k = some e → e.alive b.g.now = true → PcStep b b' i (.refStore k) (.refPool k e.value)
  | refPool (k v) : Ret b b' i (.value (some v)) → PcStep b b' i (.refPool k v) .idle

/-- closes a goal in which a position outside the tail of `put_or_update` is assumed to have a tail -/
macro "tail_absurd" : tactic => `(tactic| (
  exfalso
  have ht : ∃ x, CPc.tail? _ = some x := ⟨_, by assumption⟩
  simp [CPc.tail?] at ht))

/-- the tail of `put_or_update`, as a `PcStep` -/
theorem pcstep_upAfterIndex {b b0 : BState} {i id : Nat} {uw : Option Int} {pc : CPc} (hcl : b0.cl = b.cl) (hw : b0.w = b.w)
    (hsw : b0.sw = b.sw) (hcfg : b0.g.cfg = b.g.cfg) (hnow : b0.g.now = b.g.now) (hadm : b0.g.adm = b.g.adm)
    (hsh : b0.g.shutting = b.g.shutting) (hwk : b0.g.worker = b.g.worker) (hq : b0.g.queue = b.g.queue)
    (ha : b0.g.acks = b.g.acks) (hn : b0.g.nextId = b.g.nextId) (hres : b0.res = b.res) (ht : pc.tail? = some (id, uw)) :
    ∃ pc', KFrame b (upAfterIndex b0 i id uw) i pc' ∧ QEff b (upAfterIndex b0 i id uw) pc ∧ pc'.shutPos = false ∧
      PcStep b (upAfterIndex b0 i id uw) i pc pc' ∧ (pc' ≠ .idle → (upAfterIndex b0 i id uw).res = b.res) ∧
      (upAfterIndex b0 i id uw).g.nextId = b.g.nextId := by
  rcases upAfterIndex_cases b0 i id uw with ⟨p, w, hu, e⟩ | ⟨w, hu, hpos, e⟩ | ⟨hu, e⟩ <;> rw [e]
  · exact ⟨.idle, ⟨by simp [finishCall, hcl], hw, hsw, hcfg, hnow, hadm, hsh, hwk⟩, .none hq ha, rfl,
      .tailPanic pc id w p (by rw [ht, hu]) (by simp [Ret, finishCall, hres]), fun h => absurd rfl h, hn⟩
  · exact ⟨_, ⟨by simp [setClient, hcl], hw, hsw, hcfg, hnow, hadm, hsh, hwk⟩, .none hq ha, rfl,
      .tailSend pc id w (by rw [ht, hu]) hpos, fun _ => hres, hn⟩
  · exact ⟨.idle, ⟨by simp [spotFinish, finishCall, hcl], hw, hsw, hcfg, hnow, hadm, hsh, hwk⟩,
      .spot .accepted hq (by simp [spotFinish, finishCall, ha]) (Or.inr rfl), rfl,
      .tailSpot pc id (by rw [ht, hu]) (by simp [Ret, spotFinish, finishCall, hres, ha]) hq
        (by simp [spotFinish, finishCall, ha]), fun h => absurd rfl h, hn⟩

/-- **one client action outside `shutdown()`**: the client's old and new position, the frame, the queue effect -/
theorem cact_frame {b b' : BState} {i : Nat} (h : KAct b i b') (hsh : b.g.shutting = false)
    (hns : ∀ pc, b.cl[i]? = some pc → pc.shutPos = false) :
    ∃ pc pc', b.cl[i]? = some pc ∧ KFrame b b' i pc' ∧ QEff b b' pc ∧ pc'.shutPos = false ∧ PcStep b b' i pc pc' ∧
      (pc' ≠ .idle → b'.res = b.res) ∧ ((∀ k v w ttl, pc ≠ .idNext k v w ttl) → b'.g.nextId = b.g.nextId) := by
  have F : ∀ {b0 : BState} {pc' : CPc}, b0.cl = b.cl.set i pc' → b0.w = b.w → b0.sw = b.sw → b0.g.cfg = b.g.cfg →
      b0.g.now = b.g.now → b0.g.adm = b.g.adm → b0.g.shutting = b.g.shutting → b0.g.worker = b.g.worker →
      KFrame b b0 i pc' := fun h1 h2 h3 h4 h5 h6 h7 h8 => ⟨h1, h2, h3, h4, h5, h6, h7, h8⟩
  cases h
  case shutting r hpc hs => rw [hsh] at hs; cases hs
  case shut pc hpc hs => rw [hns pc hpc] at hs; cases hs
  case startMget ks iter hpc _ =>
    rcases mgetStart_spec b i ks iter with ⟨_, _, e⟩ | ⟨_, e⟩ <;> rw [e]
    · exact ⟨_, .idle, hpc, F rfl rfl rfl rfl rfl rfl rfl rfl, .none rfl rfl, rfl, .startMgetFin ks iter _ rfl,
        fun h => absurd rfl h, fun _ => rfl⟩
    · exact ⟨_, _, hpc, F rfl rfl rfl rfl rfl rfl rfl rfl, .none rfl rfl, rfl, .startMgetGo ks iter,
        fun _ => rfl, fun _ => rfl⟩
  case mgetFlag outer ks acc iter hpc =>
    rcases mgetFlagAct_spec b i outer ks acc iter with ⟨_, e⟩ | ⟨k, rest, rfl, rfl, _, e⟩ | ⟨k, rest, _, _, hs', e⟩ |
      ⟨k, rest, rfl, rfl, _, e⟩
    · rw [e]
      exact ⟨_, .idle, hpc, F rfl rfl rfl rfl rfl rfl rfl rfl, .none rfl rfl, rfl, .mgetFlagFin outer ks acc iter _ rfl,
        fun h => absurd rfl h, fun _ => rfl⟩
    · rw [e]
      exact ⟨_, _, hpc, F rfl rfl rfl rfl rfl rfl rfl rfl, .none rfl rfl, rfl, .mgetFlagOuter k rest acc iter,
        fun _ => rfl, fun _ => rfl⟩
    · rw [hsh] at hs'; cases hs'
    · rw [e]
      exact ⟨_, _, hpc, F rfl rfl rfl rfl rfl rfl rfl rfl, .none rfl rfl, rfl, .mgetFlagInner k rest acc iter,
        fun _ => rfl, fun _ => rfl⟩
  case mgetMiss k ks acc iter st hpc hm =>
    rcases mgetNext_spec { b with g := { b.g with stats := st } } i ks (acc ++ [none]) iter with
      ⟨out, e⟩ | ⟨k', rest, hk, e⟩ <;> rw [e]
    · exact ⟨_, .idle, hpc, F rfl rfl rfl rfl rfl rfl rfl rfl, .none rfl rfl, rfl,
        .mgetMissFin k ks acc iter _ hm rfl, fun h => absurd rfl h, fun _ => rfl⟩
    · exact ⟨_, _, hpc, F rfl rfl rfl rfl rfl rfl rfl rfl, .none rfl rfl, rfl,
        .mgetMissGo k ks acc iter k' rest hm hk, fun _ => rfl, fun _ => rfl⟩
  case mgetPool k v ks acc iter g1 hpc hg =>
    obtain ⟨h1, h2, h3, h4, h5, h6, h7, h8, _, _⟩ := pool_fields hg
    rcases mgetNext_spec { b with g := g1 } i ks (acc ++ [some v]) iter with ⟨out, e⟩ | ⟨k', rest, hk, e⟩ <;> rw [e]
    · exact ⟨_, .idle, hpc, F rfl rfl rfl h1 h2 h3 h4 h5, .none h6 h7, rfl,
        .mgetPoolFin k v ks acc iter _ rfl, fun h => absurd rfl h, fun _ => h8⟩
    · exact ⟨_, _, hpc, F rfl rfl rfl h1 h2 h3 h4 h5, .none h6 h7, rfl,
        .mgetPoolGo k v ks acc iter k' rest hk, fun _ => rfl, fun _ => h8⟩
  case upWNothing id uw old new hpc hty =>
    obtain ⟨pc', h1, h2, h3, h4, h5, h6⟩ := pcstep_upAfterIndex (b := b) (b0 := b) (i := i) (id := id) (uw := uw)
      (pc := .upWeightOf id uw old new) rfl rfl rfl rfl rfl rfl rfl rfl rfl rfl rfl rfl (by simp [CPc.tail?, hty])
    exact ⟨_, pc', hpc, h1, h2, h3, h4, h5, fun _ => h6⟩
  case upTtlPut id e uw hpc =>
    obtain ⟨pc', h1, h2, h3, h4, h5, h6⟩ := pcstep_upAfterIndex (b := b) (b0 := { b with g := ttlPut b.g id e }) (i := i)
      (id := id) (uw := uw) (pc := .upTtlPut id e uw) rfl rfl rfl rfl rfl rfl rfl rfl rfl rfl rfl rfl rfl
    exact ⟨_, pc', hpc, h1, h2, h3, h4, h5, fun _ => h6⟩
  case upTtlDelete id e uw hpc =>
    obtain ⟨pc', h1, h2, h3, h4, h5, h6⟩ := pcstep_upAfterIndex (b := b) (b0 := { b with g := ttlDelete b.g id e }) (i := i)
      (id := id) (uw := uw) (pc := .upTtlDelete id e uw) rfl rfl rfl rfl rfl rfl rfl rfl rfl rfl rfl rfl rfl
    exact ⟨_, pc', hpc, h1, h2, h3, h4, h5, fun _ => h6⟩
  case upTtlInsert id new uw hpc =>
    obtain ⟨pc', h1, h2, h3, h4, h5, h6⟩ := pcstep_upAfterIndex (b := b) (b0 := { b with g := ttlPut b.g id new }) (i := i)
      (id := id) (uw := uw) (pc := .upTtlInsert id new uw) rfl rfl rfl rfl rfl rfl rfl rfl rfl rfl rfl rfl rfl
    exact ⟨_, pc', hpc, h1, h2, h3, h4, h5, fun _ => h6⟩
  case getPool k v g1 hpc hg =>
    obtain ⟨h1, h2, h3, h4, h5, h6, h7, h8, _, _⟩ := pool_fields hg
    exact ⟨_, .idle, hpc, F rfl rfl rfl h1 h2 h3 h4 h5, .none h6 h7, rfl, .getPool k v rfl, fun h => absurd rfl h, fun _ => h8⟩
  case refPool k v g1 hpc hg =>
    obtain ⟨h1, h2, h3, h4, h5, h6, h7, h8, _, _⟩ := pool_fields hg
    exact ⟨_, .idle, hpc, F rfl rfl rfl h1 h2 h3 h4 h5, .none h6 h7, rfl, .refPool k v rfl, fun h => absurd rfl h, fun _ => h8⟩
  case putPresentHit k v w ttl hpc hc =>
    exact ⟨_, .idle, hpc, F rfl rfl rfl rfl rfl rfl rfl rfl, .spot _ rfl rfl (Or.inl rfl), rfl, .putPresentHit k v w ttl hc rfl rfl rfl,
      fun h => absurd rfl h, fun _ => rfl⟩
  case idNext k v w ttl hpc =>
    exact ⟨_, _, hpc, F rfl rfl rfl rfl rfl rfl rfl rfl, .none rfl rfl, by cases ttl <;> rfl,
      .idNext k v w ttl rfl, fun _ => rfl, fun h => absurd rfl (h k v w ttl)⟩
  case sendOk cmd hpc hw =>
    exact ⟨_, .idle, hpc, F rfl rfl rfl rfl rfl rfl rfl rfl, .send cmd rfl hw rfl rfl, rfl, .sendOk cmd hw rfl rfl rfl,
      fun h => absurd rfl h, fun _ => rfl⟩
  case startPutBad k v w ttl hpc _ hw =>
    exact ⟨_, .idle, hpc, F rfl rfl rfl rfl rfl rfl rfl rfl, .none rfl rfl, rfl, .startPutBad k v w ttl hw rfl,
      fun h => absurd rfl h, fun _ => rfl⟩
  case startPut k v w ttl hpc _ hw =>
    exact ⟨_, _, hpc, F rfl rfl rfl rfl rfl rfl rfl rfl, .none rfl rfl, rfl, .startPut k v w ttl hw, fun _ => rfl, fun _ => rfl⟩
  case startDelete k hpc _ =>
    exact ⟨_, _, hpc, F rfl rfl rfl rfl rfl rfl rfl rfl, .none rfl rfl, rfl, .startDelete k, fun _ => rfl, fun _ => rfl⟩
  case startGet k hpc _ =>
    exact ⟨_, _, hpc, F rfl rfl rfl rfl rfl rfl rfl rfl, .none rfl rfl, rfl, .startGet k, fun _ => rfl, fun _ => rfl⟩
  case startWeight hpc _ =>
    exact ⟨_, _, hpc, F rfl rfl rfl rfl rfl rfl rfl rfl, .none rfl rfl, rfl, .startWeight, fun _ => rfl, fun _ => rfl⟩
  case startUpsert k v w ttl rm hpc _ =>
    exact ⟨_, _, hpc, F rfl rfl rfl rfl rfl rfl rfl rfl, .none rfl rfl, rfl, .startUpsert k v w ttl rm, fun _ => rfl, fun _ => rfl⟩
  case startGetRef k hpc _ =>
    exact ⟨_, _, hpc, F rfl rfl rfl rfl rfl rfl rfl rfl, .none rfl rfl, rfl, .startGetRef k, fun _ => rfl, fun _ => rfl⟩
  case putPresentOk k v w ttl hpc hc =>
    exact ⟨_, _, hpc, F rfl rfl rfl rfl rfl rfl rfl rfl, .none rfl rfl, rfl, .putPresentOk k v w ttl hc, fun _ => rfl, fun _ => rfl⟩
  case sendDead cmd hpc hw =>
    exact ⟨_, .idle, hpc, F rfl rfl rfl rfl rfl rfl rfl rfl, .none rfl rfl, rfl, .sendDead cmd hw rfl,
      fun h => absurd rfl h, fun _ => rfl⟩
  case delMark k hpc =>
    exact ⟨_, _, hpc, F rfl rfl rfl rfl rfl rfl rfl rfl, .none rfl rfl, rfl, .delMark k, fun _ => rfl, fun _ => rfl⟩
  case getMiss k st hpc hm =>
    exact ⟨_, .idle, hpc, F rfl rfl rfl rfl rfl rfl rfl rfl, .none rfl rfl, rfl, .getMiss k hm rfl,
      fun h => absurd rfl h, fun _ => rfl⟩
  case getHit k e hpc he hal =>
    exact ⟨_, _, hpc, F rfl rfl rfl rfl rfl rfl rfl rfl, .none rfl rfl, rfl, .getHit k e he hal, fun _ => rfl, fun _ => rfl⟩
  case mgetHit k ks acc iter e hpc he hal =>
    exact ⟨_, _, hpc, F rfl rfl rfl rfl rfl rfl rfl rfl, .none rfl rfl, rfl, .mgetHit k ks acc iter e he hal,
      fun _ => rfl, fun _ => rfl⟩
  case weightRead hpc =>
    exact ⟨_, .idle, hpc, F rfl rfl rfl rfl rfl rfl rfl rfl, .none rfl rfl, rfl, .weightRead rfl,
      fun h => absurd rfl h, fun _ => rfl⟩
  case upAbsentPut k v w ttl rm val weight hpc h1 h2 h3 h4 =>
    exact ⟨_, _, hpc, F rfl rfl rfl rfl rfl rfl rfl rfl, .none rfl rfl, rfl,
      .upAbsentPut k v w ttl rm val weight h1 h2 h3 h4, fun _ => rfl, fun _ => rfl⟩
  case upAbsentPanic k v w ttl rm p hpc h1 =>
    exact ⟨_, .idle, hpc, F rfl rfl rfl rfl rfl rfl rfl rfl, .none rfl rfl, rfl,
      .upAbsentPanic k v w ttl rm p h1 rfl, fun h => absurd rfl h, fun _ => rfl⟩
  case upOverflow k v w ttl rm e hpc h1 h2 =>
    exact ⟨_, .idle, hpc, F rfl rfl rfl rfl rfl rfl rfl rfl, .none rfl rfl, rfl,
      .upOverflow k v w ttl rm e h1 h2 rfl, fun h => absurd rfl h, fun _ => rfl⟩
  case upFound k v w ttl rm e exp hpc h1 h2 =>
    exact ⟨_, _, hpc, F rfl rfl rfl rfl rfl rfl rfl rfl, .none rfl rfl, rfl,
      .upFound k v w ttl rm e exp h1 h2 rfl, fun _ => rfl, fun _ => rfl⟩
  case upWAdded id uw n hpc =>
    exact ⟨_, _, hpc, F rfl rfl rfl rfl rfl rfl rfl rfl, .none rfl rfl, rfl, .upWAdded id uw n, fun _ => rfl, fun _ => rfl⟩
  case upWDeleted id uw e hpc =>
    exact ⟨_, _, hpc, F rfl rfl rfl rfl rfl rfl rfl rfl, .none rfl rfl, rfl, .upWDeleted id uw e, fun _ => rfl, fun _ => rfl⟩
  case upWUpdated id uw e n hpc hne =>
    exact ⟨_, _, hpc, F rfl rfl rfl rfl rfl rfl rfl rfl, .none rfl rfl, rfl, .upWUpdated id uw e n hne, fun _ => rfl, fun _ => rfl⟩
  case upTtlRemove id old new uw hpc =>
    exact ⟨_, _, hpc, F rfl rfl rfl rfl rfl rfl rfl rfl, .none rfl rfl, rfl, .upTtlRemove id old new uw, fun _ => rfl, fun _ => rfl⟩
  case refMiss k st hpc hm =>
    exact ⟨_, .idle, hpc, F rfl rfl rfl rfl rfl rfl rfl rfl, .none rfl rfl, rfl, .refMiss k hm rfl,
      fun h => absurd rfl h, fun _ => rfl⟩
  case refHit k e hpc he hal =>
    exact ⟨_, _, hpc, F rfl rfl rfl rfl rfl rfl rfl rfl, .none rfl rfl, rfl, .refHit k e he hal, fun _ => rfl, fun _ => rfl⟩

theorem shutPos_start {r : Req} (h : r ≠ .shutdown) : (CPc.start r).shutPos = false := by
  cases r <;> first | rfl | exact absurd rfl h

/-- **no `shutdown()` requested, none under way** -/
theorem noShut_step {b b' : BState} {a : Act} {o o' : Oracle} (hi : NoShut b) (h : stepB b a o = .ok (b', o'))
    (ha : ∀ i, a ≠ .issue i .shutdown) : NoShut b' := by
  cases stepB_bact h with
  | issue i r hidle =>
    refine ⟨hi.flag, ?_, hi.queue, hi.w⟩
    intro j pc hj
    rcases getElem?_set_cases hj with ⟨_, rfl⟩ | ⟨_, hj⟩
    · exact shutPos_start (fun e => ha i (by rw [e]))
    · exact hi.cl j pc hj
  | client i _ hc =>
    obtain ⟨pc, pc', hpc, hf, hq, hsp, _, _, _⟩ := cact_frame hc hi.flag (fun pc hpc => hi.cl i pc hpc)
    refine ⟨by rw [hf.shutting]; exact hi.flag, ?_, ?_, by rw [hf.w]; exact hi.w⟩
    · intro j pcj hj
      rw [hf.cl] at hj
      rcases getElem?_set_cases hj with ⟨_, rfl⟩ | ⟨_, hj⟩
      · exact hsp
      · exact hi.cl j pcj hj
    · intro p hp
      cases hq with
      | none hq _ => rw [hq] at hp; exact hi.queue p hp
      | spot st hq _ _ => rw [hq] at hp; exact hi.queue p hp
      | send cmd he _ hq _ =>
        rw [hq] at hp
        rcases List.mem_append.mp hp with hp | hp
        · exact hi.queue p hp
        · simp only [List.mem_singleton] at hp
          subst hp
          intro e
          simp only at e
          subst he e
          have := hi.cl i _ hpc
          simp [CPc.shutPos] at this
  | worker _ hw =>
    have hq := (wtrans_prov hw).1
    refine ⟨by rw [wtrans_shutting hw]; exact hi.flag, by rw [(wtrans_cl hw).1]; exact hi.cl,
      fun p hp => hi.queue p (hq p hp), ?_⟩
    cases hw
    case recvShutdown hh q hw hq' => exact absurd rfl (hi.queue (.shutdown, hh) (by rw [hq']; exact List.mem_cons_self))
    case drain cmd hh q hw hq' => exact absurd hw hi.w
    all_goals simp [finishCmd, rejectCmd]
  | sweeper v _ hs =>
    obtain ⟨h1, h2, h3, _⟩ := strans_frame hs
    exact ⟨by rw [(strans_frame2 hs).1]; exact hi.flag, by rw [h2]; exact hi.cl, by rw [h3]; exact hi.queue,
      by rw [h1]; exact hi.w⟩
  | consumer g' hg =>
    exact ⟨by show g'.shutting = false; rw [hg]; exact hi.flag, hi.cl, by show ∀ p ∈ g'.queue, _; rw [hg]; exact hi.queue, hi.w⟩
  | advance d => exact ⟨hi.flag, hi.cl, hi.queue, hi.w⟩

theorem noShut_init (cfg : Cfg) (now : Nat) (seeds : List Nat) (clients : Nat) (sm : List (Nat × Nat)) :
    NoShut { BState.init cfg now seeds clients with storeShard := sm } := by
  refine ⟨rfl, ?_, ?_, by simp [BState.init]⟩
  · intro i pc hpc
    have := List.mem_of_getElem? hpc
    simp only [BState.init, List.mem_replicate] at this
    rw [this.2]; rfl
  · intro p hp; simp [BState.init, State.init] at hp


/-! ## 4  the budget invariant -/

def posPart (x : Int) : Int := if 0 < x then x else 0

theorem posPart_nonneg (x : Int) : 0 ≤ posPart x := by unfold posPart; split <;> omega
theorem le_posPart (x : Int) : x ≤ posPart x := by unfold posPart; split <;> omega
theorem posPart_of_pos {x : Int} (h : 0 < x) : posPart x = x := by unfold posPart; simp [h]

/-- **the weight a request may add to the cache**: the weight of a put; the weight of a `put_or_update` (the explicit
    one, else the one computed for the value given); `ttl_ticker_entry_size` for a `put_or_update` that gives neither
    weight nor value but sets a time-to-live (the call then raises the key's charge by that much); nothing otherwise -/
def Req.demand (cfg : Cfg) : Req → Int
  | .putW _ _ w _ => posPart w
  | .upsert _ v w ttl rm =>
    match upsertW cfg v w ttl with
    | some x => posPart x
    | none => if ttl.isSome && !rm then cfg.ttlEntry else 0
  | _ => 0

theorem Req.demand_nonneg {cfg : Cfg} (hE : 0 ≤ cfg.ttlEntry) (r : Req) : 0 ≤ r.demand cfg := by
  cases r <;> simp only [Req.demand, Int.le_refl]
  · exact posPart_nonneg _
  · split
    · exact posPart_nonneg _
    · split <;> omega

/-- the part of its request's demand a client has not yet attributed to a key id -/
def CPc.pend (cfg : Cfg) : CPc → Int
  | .start r => r.demand cfg
  | .putPresent _ _ w _ | .idNext _ _ w _ => posPart w
  | .upUpdate k v w ttl rm => (Req.upsert k v w ttl rm).demand cfg
  | .upWeightOf _ none none (some _) => cfg.ttlEntry
  | _ => 0

theorem CPc.pend_nonneg {cfg : Cfg} (hE : 0 ≤ cfg.ttlEntry) (pc : CPc) : 0 ≤ pc.pend cfg := by
  unfold CPc.pend
  split
  · exact Req.demand_nonneg hE _
  · exact posPart_nonneg _
  · exact posPart_nonneg _
  · exact Req.demand_nonneg hE _
  · exact hE
  · exact Int.le_refl _

/-- the weight a command carries fits the budget of its key id -/
def cmdBud (β : Nat → Int) : Cmd → Prop
  | .put id _ w _ _ => w ≤ β id
  | .putTtl id _ w _ _ _ => w ≤ β id
  | .updateWeight id w => w ≤ β id
  | _ => True

def optBud (β : Nat → Int) (id : Nat) : Option Int → Prop
  | some x => x ≤ β id
  | none => True

def pcBud (β : Nat → Int) : CPc → Prop
  | .send cmd => cmdBud β cmd
  | .upWeightOf id uw _ _ | .upTtlPut id _ uw | .upTtlDelete id _ uw | .upTtlRemove id _ _ uw | .upTtlInsert id _ uw =>
    optBud β id uw
  | _ => True

def wBud (β : Nat → Int) (w : WPc) : Prop :=
  (∀ c, w.cmd? = some c → c.w ≤ β c.id) ∧
  (match w with
   | .evSub _ _ _ id wk | .evStore _ _ _ id wk | .delSub id wk _ _ => wk.weight ≤ β id
   | .update id x _ => x ≤ β id
   | _ => True)

def sBud (β : Nat → Int) : SPc → Prop
  | .sub _ _ _ id wk | .store _ _ _ id wk => wk.weight ≤ β id
  | _ => True

theorem cmdBud.mono {β β' : Nat → Int} (h : ∀ x, β x ≤ β' x) {c : Cmd} (hc : cmdBud β c) : cmdBud β' c := by
  cases c <;> simp only [cmdBud] at hc ⊢ <;> exact Int.le_trans hc (h _)

theorem optBud.mono {β β' : Nat → Int} (h : ∀ x, β x ≤ β' x) {id : Nat} {uw : Option Int} (hc : optBud β id uw) :
    optBud β' id uw := by
  cases uw
  · trivial
  · exact Int.le_trans hc (h _)

theorem pcBud.mono {β β' : Nat → Int} (h : ∀ x, β x ≤ β' x) {pc : CPc} (hc : pcBud β pc) : pcBud β' pc := by
  cases pc <;> first | trivial | exact cmdBud.mono h hc | exact optBud.mono h hc

theorem wBud.mono {β β' : Nat → Int} (h : ∀ x, β x ≤ β' x) {w : WPc} (hc : wBud β w) : wBud β' w := by
  refine ⟨fun c hcw => Int.le_trans (hc.1 c hcw) (h _), ?_⟩
  have h2 := hc.2
  cases w <;> first | trivial | exact Int.le_trans h2 (h _)

theorem sBud.mono {β β' : Nat → Int} (h : ∀ x, β x ≤ β' x) {sw : SPc} (hc : sBud β sw) : sBud β' sw := by
  cases sw <;> first | trivial | exact Int.le_trans hc (h _)

/-- **The budget invariant.**  `β id` is the budget of the key id `id`: the sum of the demands of the requests that have
    been attributed to it (the put that created it; every `put_or_update` that found it).  Every weight under way for
    `id` — its charge in the ledger, a command in the queue or in a client's hands, a local of the worker or the
    sweeper — is at most `β id`; the budgets handed out so far plus the demands not yet attributed are at most `D`. -/
structure Bud (D : Int) (β : Nat → Int) (b : BState) : Prop where
  nonneg : ∀ id, 0 ≤ β id
  zero : ∀ id, b.g.nextId ≤ id → β id = 0
  kw : ∀ id wk, b.g.adm.kw.get? id = some wk → wk.weight ≤ β id
  queue : ∀ p ∈ b.g.queue, cmdBud β p.1
  cl : ∀ (i : Nat) (pc : CPc), b.cl[i]? = some pc → pcBud β pc
  w : wBud β b.w
  sw : sBud β b.sw
  total : sumTo β b.g.nextId + lsum (CPc.pend b.g.cfg) b.cl ≤ D

/-- a client moves from `pc` to `pc'`; the budget may grow -/
theorem Bud.client {D : Int} {β β' : Nat → Int} {b b' : BState} {i : Nat} {pc pc' : CPc} (hb : Bud D β b)
    (hpc : b.cl[i]? = some pc) (hf : KFrame b b' i pc') (hq : QEff b b' pc)
    (hmono : ∀ x, β x ≤ β' x) (hzero : ∀ id, b'.g.nextId ≤ id → β' id = 0) (hbud : pcBud β' pc')
    (htot : sumTo β' b'.g.nextId + pc'.pend b.g.cfg ≤ sumTo β b.g.nextId + pc.pend b.g.cfg) : Bud D β' b' := by
  refine ⟨fun id => Int.le_trans (hb.nonneg id) (hmono id), hzero, ?_, ?_, ?_, ?_, ?_, ?_⟩
  · intro id wk hk
    rw [hf.adm] at hk
    exact Int.le_trans (hb.kw id wk hk) (hmono id)
  · intro p hp
    have hold : ∀ p ∈ b.g.queue, cmdBud β' p.1 := fun p hp => cmdBud.mono hmono (hb.queue p hp)
    cases hq with
    | none hq _ => rw [hq] at hp; exact hold p hp
    | spot st hq _ _ => rw [hq] at hp; exact hold p hp
    | send cmd he _ hq _ =>
      rw [hq] at hp
      rcases List.mem_append.mp hp with hp | hp
      · exact hold p hp
      · simp only [List.mem_singleton] at hp
        subst hp he
        exact cmdBud.mono hmono (hb.cl i _ hpc)
  · intro j pcj hj
    rw [hf.cl] at hj
    rcases getElem?_set_cases hj with ⟨_, rfl⟩ | ⟨_, hj⟩
    · exact hbud
    · exact pcBud.mono hmono (hb.cl j pcj hj)
  · rw [hf.w]; exact wBud.mono hmono hb.w
  · rw [hf.sw]; exact sBud.mono hmono hb.sw
  · have h1 := hb.total
    rw [hf.cl, hf.cfg, lsum_set _ _ _ _ _ hpc]
    omega

/-- … the budget stays -/
theorem Bud.client0 {D : Int} {β : Nat → Int} {b b' : BState} {i : Nat} {pc pc' : CPc} (hb : Bud D β b)
    (hpc : b.cl[i]? = some pc) (hf : KFrame b b' i pc') (hq : QEff b b' pc) (hn : b'.g.nextId = b.g.nextId)
    (hbud : pcBud β pc') (hpend : pc'.pend b.g.cfg ≤ pc.pend b.g.cfg) : Bud D β b' :=
  hb.client hpc hf hq (fun _ => Int.le_refl _) (by rw [hn]; exact hb.zero) hbud (by rw [hn]; omega)


theorem tail_bud {β : Nat → Int} {pc : CPc} {id : Nat} {uw : Option Int} (ht : pc.tail? = some (id, uw))
    (hb : pcBud β pc) : optBud β id uw := by
  cases pc <;> simp only [CPc.tail?] at ht <;> try cases ht
  case upWeightOf id' uw' old new =>
    split at ht
    · cases ht; exact hb
    · cases ht
  all_goals exact hb

theorem upExpiry_added {now : Nat} {ttl : Option Nat} {rm : Bool} {n : Nat}
    (h : upExpiry now ttl rm none = some (some n)) : (ttl.isSome && !rm) = true := by
  unfold upExpiry at h
  split at h
  · cases h
  · rename_i hrm
    cases ttl with
    | none => cases h
    | some t => simp at hrm ⊢; exact hrm

/-- **the budget invariant under a client action** -/
theorem bud_client {D : Int} {β : Nat → Int} {b b' : BState} {i : Nat} (hb : Bud D β b) (hE : 0 ≤ b.g.cfg.ttlEntry)
    (hI : BInv b) (hns : NoShut b) (hc : KAct b i b') : ∃ β', Bud D β' b' := by
  obtain ⟨pc, pc', hpc, hf, hq, hsp, hstep, hres, hnid⟩ := cact_frame hc hns.flag (fun pc h => hns.cl i pc h)
  have hp0 : ∀ pc : CPc, 0 ≤ pc.pend b.g.cfg := CPc.pend_nonneg hE
  have hpb := hb.cl i pc hpc
  have hused : ∀ u, pc.usedId? = some u → u < b.g.nextId := by
    intro u hu
    exact (hI.freshIds.2.2.2.2.1 u (mem_usedIds_of_client hpc hu)).2
  cases hstep
  case idNext k v w ttl hn =>
    refine ⟨bump β b.g.nextId (posPart w), hb.client hpc hf hq (bump_ge (posPart_nonneg w)) ?_ ?_ ?_⟩
    · intro id hid
      rw [hn] at hid
      have : id ≠ b.g.nextId := by omega
      simp only [bump, this, if_false]
      exact hb.zero id (by omega)
    · have h0 := hb.zero b.g.nextId (Nat.le_refl _)
      have h1 := le_posPart w
      cases ttl <;> simp only [pcBud, cmdBud, bump_self] <;> omega
    · rw [hn]
      cases ttl <;>
        simp only [sumTo, sumTo_bump_ge β _ _ _ (Nat.le_refl _), bump_self, hb.zero b.g.nextId (Nat.le_refl _), CPc.pend] <;>
        omega
  case upFound k v w ttl rm e exp he hx _ =>
    have hid : e.id < b.g.nextId := by
      have hm : e.id ∈ usedIds b := by
        unfold usedIds
        simp only [List.mem_append, List.mem_map]
        exact Or.inl (Or.inl (Or.inl (Or.inl ⟨(k, e), AMap.mem_of_get? he, rfl⟩)))
      exact (hI.freshIds.2.2.2.2.1 e.id hm).2
    have hn := hnid (by intro _ _ _ _ h; cases h)
    cases huw : upsertW b.g.cfg v w ttl with
    | some x =>
      refine ⟨bump β e.id (posPart x), hb.client hpc hf hq (bump_ge (posPart_nonneg x)) ?_ ?_ ?_⟩
      · intro id hid'
        rw [hn] at hid'
        have : id ≠ e.id := by omega
        simp only [bump, this, if_false]
        exact hb.zero id hid'
      · have h0 := hb.nonneg e.id
        have h1 := le_posPart x
        simp only [pcBud, huw, optBud, bump_self]
        omega
      · rw [hn, sumTo_bump_lt β _ _ _ hid]
        simp only [CPc.pend, Req.demand, huw]
        omega
    | none =>
      refine ⟨β, hb.client0 hpc hf hq hn (by simp [pcBud, huw, optBud]) ?_⟩
      simp only [CPc.pend, Req.demand, huw]
      cases hexp : e.expiry with
      | some t => simp only; split <;> omega
      | none =>
        cases exp with
        | none => simp only; split <;> omega
        | some n =>
          rw [hexp] at hx
          simp only [upExpiry_added hx, if_true]
          omega
  case upWAdded id uw n =>
    have hn := hnid (by intro _ _ _ _ h; cases h)
    have hid := hused id rfl
    cases uw with
    | some x =>
      exact ⟨β, hb.client0 hpc hf hq hn (by simpa [pcBud, optBud, deriveAdd] using hpb) (by simp [CPc.pend])⟩
    | none =>
      cases hk : b.g.adm.kw.get? id with
      | none =>
        refine ⟨β, hb.client0 hpc hf hq hn (by simp [pcBud, optBud, deriveAdd, hk]) ?_⟩
        simp only [CPc.pend]; omega
      | some wk =>
        refine ⟨bump β id b.g.cfg.ttlEntry, hb.client hpc hf hq (bump_ge hE) ?_ ?_ ?_⟩
        · intro id' hid'
          rw [hn] at hid'
          have : id' ≠ id := by omega
          simp only [bump, this, if_false]
          exact hb.zero id' hid'
        · have := hb.kw id wk hk
          simp only [pcBud, optBud, deriveAdd, hk, Option.map_some, bump_self]
          omega
        · rw [hn, sumTo_bump_lt β _ _ _ hid]
          simp only [CPc.pend]
          omega
  case upWDeleted id uw e =>
    have hn := hnid (by intro _ _ _ _ h; cases h)
    refine ⟨β, hb.client0 hpc hf hq hn ?_ (by simp [CPc.pend])⟩
    cases uw with
    | some x => simpa [pcBud, optBud, deriveDel] using hpb
    | none =>
      cases hk : b.g.adm.kw.get? id with
      | none => simp [pcBud, optBud, deriveDel, hk]
      | some wk =>
        have := hb.kw id wk hk
        simp only [pcBud, optBud, deriveDel, hk, Option.map_some]
        omega
  case tailSend id w hw ht =>
    have hn := hnid (by intro _ _ _ _ h; subst h; simp [CPc.tail?] at ht)
    refine ⟨β, hb.client0 hpc hf hq hn ?_ (hp0 _)⟩
    exact tail_bud ht hpb
  case upAbsentPut k v w ttl rm val weight h1 h2 h3 h4 =>
    have hn := hnid (by intro _ _ _ _ h; cases h)
    refine ⟨β, hb.client0 hpc hf hq hn trivial ?_⟩
    simp only [CPc.pend, Req.demand, h3]
    omega
  all_goals
    have hn := hnid (by first | (intro _ _ _ _ h; cases h; done) | (intro _ _ _ _ h; subst h; simp [CPc.tail?] at *))
    first
      | exact ⟨β, hb.client0 hpc hf hq hn trivial (hp0 _)⟩
      | exact ⟨β, hb.client0 hpc hf hq hn trivial (Int.le_refl _)⟩
      | exact ⟨β, hb.client0 hpc hf hq hn hpb (hp0 _)⟩
      | exact ⟨β, hb.client0 hpc hf hq hn hpb (Int.le_refl _)⟩


/-- a worker / sweeper action: clients, key-id counter and configuration stay -/
theorem Bud.frame {D : Int} {β : Nat → Int} {b b' : BState} (hb : Bud D β b) (hcl : b'.cl = b.cl)
    (hn : b'.g.nextId = b.g.nextId) (hcfg : b'.g.cfg = b.g.cfg)
    (hkw : ∀ id wk, b'.g.adm.kw.get? id = some wk → wk.weight ≤ β id)
    (hq : ∀ p ∈ b'.g.queue, cmdBud β p.1) (hw : wBud β b'.w) (hsw : sBud β b'.sw) : Bud D β b' :=
  ⟨hb.nonneg, by rw [hn]; exact hb.zero, hkw, hq, by rw [hcl]; exact hb.cl, hw, hsw, by rw [hn, hcl, hcfg]; exact hb.total⟩

theorem cmdBud_cmdOfPut {β : Nat → Int} {c : PutCmd} (h : cmdBud β (cmdOfPut c)) : c.w ≤ β c.id := by
  unfold cmdOfPut at h; split at h <;> exact h

theorem bud_wtrans {D : Int} {β : Nat → Int} {b b' : BState} (hb : Bud D β b) (h : WTrans b b') : Bud D β b' := by
  have hqsub := (wtrans_prov h).1
  have hq : ∀ p ∈ b'.g.queue, cmdBud β p.1 := fun p hp => hb.queue p (hqsub p hp)
  refine hb.frame (wtrans_cl h).1 (wtrans_nextId h) (wtrans_cfg h) ?_ hq ?_ ?_
  · -- the ledger
    intro id wk hk
    cases h
    case insert c hw =>
      simp only [] at hk
      rw [AMap.get?_set] at hk
      split at hk
      · rename_i he; cases hk; subst he
        have := hb.w.1 c (by rw [hw]; rfl)
        exact this
      · exact hb.kw id wk hk
    case updateApplied id0 w hh wk0 hw _ hg =>
      simp only [finishCmd] at hk
      rw [AMap.get?_set] at hk
      split at hk
      · rename_i he; cases hk; subst he
        have := hb.w.2
        rw [hw] at this
        exact this
      · exact hb.kw id wk hk
    case evRemoveSome c e s victim wk0 hw hg =>
      simp only [] at hk
      rw [AMap.get?_del] at hk
      split at hk
      · cases hk
      · exact hb.kw id wk hk
    case delKwSome id0 exp hh wk0 hw hg =>
      simp only [] at hk
      rw [AMap.get?_del] at hk
      split at hk
      · cases hk
      · exact hb.kw id wk hk
    all_goals exact hb.kw id wk (by simpa [finishCmd, rejectCmd, ttlPut, ttlDelete] using hk)
  · -- the worker's locals
    have hw0 := hb.w
    cases h
    case recvPut c q hw hq' =>
      have := hb.queue (cmdOfPut c, c.h) (by rw [hq']; exact List.mem_cons_self)
      exact ⟨fun c' hc' => by simp only [WPc.cmd?, Option.some.injEq] at hc'; subst hc'; exact cmdBud_cmdOfPut this, trivial⟩
    case recvUpdate id w hh q hw hq' =>
      have := hb.queue (.updateWeight id w, hh) (by rw [hq']; exact List.mem_cons_self)
      exact ⟨fun c' hc' => by simp [WPc.cmd?] at hc', this⟩
    case evRemoveSome c e s victim wk0 hw hg =>
      rw [hw] at hw0
      exact ⟨fun c' hc' => by simp only [WPc.cmd?, Option.some.injEq] at hc'; subst hc'; exact hw0.1 _ rfl, hb.kw _ _ hg⟩
    case delKwSome id0 exp hh wk0 hw hg =>
      exact ⟨fun c' hc' => by simp [WPc.cmd?] at hc', hb.kw _ _ hg⟩
    all_goals
      rw [‹b.w = _›] at hw0
      refine ⟨fun c' hc' => ?_, ?_⟩
      · first
          | (simp [WPc.cmd?, finishCmd, rejectCmd] at hc'; done)
          | (simp only [WPc.cmd?, Option.some.injEq] at hc'; subst hc'; exact hw0.1 _ rfl)
      · first
          | trivial
          | exact hw0.2
  · rw [show b'.sw = b.sw by cases h <;> simp [finishCmd, rejectCmd]]
    exact hb.sw


theorem sweepNext_cases (b : BState) (n sh : Nat) (r : List (Nat × Nat)) :
    (sweepNext b n sh r).sw = .fin ∨ (sweepNext b n sh r).sw = .entry n sh r := by
  unfold sweepNext; split <;> simp

theorem sBud_sweepNext (β : Nat → Int) (b : BState) (n sh : Nat) (r : List (Nat × Nat)) :
    sBud β (sweepNext b n sh r).sw := by
  rcases sweepNext_cases b n sh r with h | h <;> rw [h] <;> trivial

theorem bud_strans {D : Int} {β : Nat → Int} {b b' : BState} (hb : Bud D β b) (h : STrans b b') : Bud D β b' := by
  obtain ⟨h1, h2, h3, h4, h5, hmax⟩ := strans_frame h
  clear hmax
  refine hb.frame h2 h4 h5 (fun id wk hk => hb.kw id wk (strans_kw h id wk hk)) (by rw [h3]; exact hb.queue)
    (by rw [h1]; exact hb.w) ?_
  have hs0 := hb.sw
  cases h
  case kwRemoveSome now shard rest id wk hg hsw hu => exact hb.kw id wk hg
  case sub now shard rest id wk _ hsw => rw [hsw] at hs0; exact hs0
  case fin => trivial
  case entryExpired => trivial
  all_goals exact sBud_sweepNext β _ _ _ _

/-- the demand an action adds: that of the request it issues -/
def Act.demand (cfg : Cfg) : Act → Int
  | .issue _ r => r.demand cfg
  | _ => 0

/-- **the budget invariant, one action**: the issue of a request adds its demand to the bound -/
theorem bud_step {D : Int} {β : Nat → Int} {b b' : BState} {a : Act} {o o' : Oracle} (hb : Bud D β b)
    (hE : 0 ≤ b.g.cfg.ttlEntry) (hI : BInv b) (hns : NoShut b) (h : stepB b a o = .ok (b', o')) :
    ∃ β', Bud (D + a.demand b.g.cfg) β' b' := by
  cases stepB_bact h with
  | issue i r hidle =>
    refine ⟨β, hb.nonneg, hb.zero, hb.kw, hb.queue, ?_, hb.w, hb.sw, ?_⟩
    · intro j pc hj
      rcases getElem?_set_cases hj with ⟨_, rfl⟩ | ⟨_, hj⟩
      · trivial
      · exact hb.cl j pc hj
    · have := hb.total
      show sumTo β b.g.nextId + lsum (CPc.pend b.g.cfg) (b.cl.set i (.start r)) ≤ _
      rw [lsum_set _ _ _ _ _ hidle]
      simp only [CPc.pend, Act.demand]
      omega
  | client i _ hc =>
    obtain ⟨β', hb'⟩ := bud_client hb hE hI hns hc
    exact ⟨β', by simpa [Act.demand] using hb'⟩
  | worker _ hw => exact ⟨β, by simpa [Act.demand] using bud_wtrans hb hw⟩
  | sweeper v _ hs => exact ⟨β, by simpa [Act.demand] using bud_strans hb hs⟩
  | consumer g' hg =>
    refine ⟨β, ?_⟩
    simp only [Act.demand, Int.add_zero]
    have e1 : g'.nextId = b.g.nextId := by rw [hg]
    have e2 : g'.adm = b.g.adm := by rw [hg]
    have e3 : g'.queue = b.g.queue := by rw [hg]
    have e4 : g'.cfg = b.g.cfg := by rw [hg]
    exact ⟨hb.nonneg, by show ∀ id, g'.nextId ≤ id → _; rw [e1]; exact hb.zero,
      by show ∀ id wk, g'.adm.kw.get? id = some wk → _; rw [e2]; exact hb.kw,
      by show ∀ p ∈ g'.queue, _; rw [e3]; exact hb.queue, hb.cl, hb.w, hb.sw,
      by show sumTo β g'.nextId + lsum (CPc.pend g'.cfg) b.cl ≤ D; rw [e1, e4]; exact hb.total⟩
  | advance d =>
    refine ⟨β, ?_⟩
    simp only [Act.demand, Int.add_zero]
    exact ⟨hb.nonneg, hb.zero, hb.kw, hb.queue, hb.cl, hb.w, hb.sw, hb.total⟩

theorem bud_init (cfg : Cfg) (now : Nat) (seeds : List Nat) (clients : Nat) (sm : List (Nat × Nat)) :
    Bud 0 (fun _ => 0) { BState.init cfg now seeds clients with storeShard := sm } := by
  refine ⟨fun _ => Int.le_refl _, fun _ _ => rfl, ?_, ?_, ?_, ?_, trivial, ?_⟩
  · intro id wk hk; simp [BState.init, State.init] at hk
  · intro p hp; simp [BState.init, State.init] at hp
  · intro i pc hpc
    have := List.mem_of_getElem? hpc
    simp only [BState.init, List.mem_replicate] at this
    rw [this.2]; trivial
  · exact ⟨fun c hc => by simp [BState.init, WPc.cmd?] at hc, trivial⟩
  · have h1 : ∀ n, sumTo (fun _ => (0 : Int)) n = 0 := by
      intro n; induction n with
      | zero => rfl
      | succ n ih => simp [sumTo, ih]
    simp only [BState.init, h1]
    rw [lsum_replicate _ _ rfl]
    exact Int.le_refl _

/-! ### what the budget gives: the put the worker is about to weigh fits -/

theorem sumW_le_budget {β : Nat → Int} : ∀ (kw : AMap Nat WKey), (∀ p ∈ kw, p.2.weight ≤ β p.1) →
    sumW kw ≤ ((kw.map Prod.fst).map β).sum
  | [], _ => by simp
  | (k, wk) :: m, h => by
    have h1 := h (k, wk) List.mem_cons_self
    have h2 := sumW_le_budget m (fun p hp => h p (List.mem_cons_of_mem _ hp))
    rw [sumW_cons]
    simp only [List.map_cons, List.sum_cons]
    simp only at h1
    omega

/-- **The space check succeeds.**  At the worker's first free-space read of a put `c` (`space0`), in a reachable state
    with no `shutdown()` requested: `used + c.w ≤ D` — the charged ids, the id the sweeper may just have taken out of the
    ledger (not yet subtracted from the total) and the fresh id of `c` are pairwise distinct, each within its budget. -/
theorem bud_space0 {cfg : Cfg} {now : Nat} {seeds : List Nat} {clients : Nat} {D : Int} {β : Nat → Int} {b : BState}
    {c : PutCmd} (hr : Reach cfg now seeds clients b) (hsh : b.g.shutting = false) (hb : Bud D β b)
    (hE : 0 ≤ b.g.cfg.ttlEntry) (hw : b.w = .space0 c) : b.g.adm.used + c.w ≤ D := by
  have hI := binv_reach hr
  have hj := bbij_reach hr hsh
  have hacc := C05_layerB_accounting hr hsh
  have hadd : pendingAdd b = 0 := by simp [pendingAdd, hw]
  have hcw : c.w ≤ β c.id := hb.w.1 c (by rw [hw]; rfl)
  have hcnone : b.g.adm.kw.get? c.id = none := hI.freshIds.2.2.2.1 c.id (by rw [hw]; rfl)
  have hclt : c.id < b.g.nextId := hI.freshIds.2.1 c.id (by simp [occ, WPc.freshId?, hw])
  have hkwle : sumW b.g.adm.kw ≤ ((b.g.adm.kw.map Prod.fst).map β).sum :=
    sumW_le_budget _ (fun p hp => hb.kw p.1 p.2 (AMap.get?_of_mem hI.kwNoDup hp))
  have hkeys : ∀ x ∈ b.g.adm.kw.map Prod.fst, x < b.g.nextId := by
    intro x hx
    obtain ⟨p, hp, rfl⟩ := List.mem_map.mp hx
    exact hI.freshIds.2.2.2.2.2 p.1 p.2 (AMap.get?_of_mem hI.kwNoDup hp)
  have hcnot : c.id ∉ b.g.adm.kw.map Prod.fst := AMap.get?_eq_none_iff.mp hcnone
  have htot := hb.total
  have hpend : 0 ≤ lsum (CPc.pend b.g.cfg) b.cl := lsum_nonneg (CPc.pend_nonneg hE) _
  -- the sweeper's local
  by_cases hs : ∃ n sh r id wk, b.sw = .sub n sh r id wk
  · obtain ⟨n, sh, r, id, wk, hsw⟩ := hs
    have hsub : pendingSub b = wk.weight := by simp [pendingSub, hw, hsw]
    have hst := hj.sEvictStale id wk (by rw [hsw]; rfl)
    have hwk : wk.weight ≤ β id := by have := hb.sw; rw [hsw] at this; exact this
    have hidnot : id ∉ b.g.adm.kw.map Prod.fst := AMap.get?_eq_none_iff.mp hst.1
    have hne : id ≠ c.id := by
      intro e
      have : 0 < occ b c.id := by simp [occ, WPc.freshId?, hw]
      rw [← e] at this
      omega
    have hnd : (c.id :: id :: b.g.adm.kw.map Prod.fst).Nodup := by
      refine List.nodup_cons.mpr ⟨?_, List.nodup_cons.mpr ⟨hidnot, hI.kwNoDup⟩⟩
      intro hm
      rcases List.mem_cons.mp hm with e | hm
      · exact hne e.symm
      · exact hcnot hm
    have hle := sum_map_le_sumTo _ β b.g.nextId hb.nonneg hnd (by
      intro x hx
      rcases List.mem_cons.mp hx with rfl | hx
      · exact hclt
      · rcases List.mem_cons.mp hx with rfl | hx
        · exact hst.2.2
        · exact hkeys x hx)
    simp only [List.map_cons, List.sum_cons] at hle
    omega
  · have hsub : pendingSub b = 0 := by
      unfold pendingSub
      rw [hw]
      simp only [Int.zero_add]
      split
      · rename_i n sh r id wk hsw; exact absurd ⟨n, sh, r, id, wk, hsw⟩ hs
      · rfl
    have hnd : (c.id :: b.g.adm.kw.map Prod.fst).Nodup := List.nodup_cons.mpr ⟨hcnot, hI.kwNoDup⟩
    have hle := sum_map_le_sumTo _ β b.g.nextId hb.nonneg hnd (by
      intro x hx
      rcases List.mem_cons.mp hx with rfl | hx
      · exact hclt
      · exact hkeys x hx)
    simp only [List.map_cons, List.sum_cons] at hle
    omega


/-! ### along a run -/

/-- the requests issued along a history (latest first) -/
def issuedH : List (BState × Act) → List Req
  | [] => []
  | (_, .issue _ r) :: h => r :: issuedH h
  | _ :: h => issuedH h

/-- the total demand of the requests issued along a history -/
def demandH (cfg : Cfg) (h : List (BState × Act)) : Int := ((issuedH h).map (Req.demand cfg)).sum

/-- no `shutdown()` is requested along the history -/
def NoShutdownReq (h : List (BState × Act)) : Prop := ∀ p ∈ h, ∀ i, p.2 ≠ .issue i .shutdown

instance (h : List (BState × Act)) : Decidable (NoShutdownReq h) :=
  decidable_of_iff (h.all (fun p => match p.2 with | .issue _ .shutdown => false | _ => true) = true) (by
    unfold NoShutdownReq
    simp only [List.all_eq_true]
    constructor
    · intro hh p hp i e
      have := hh p hp
      rw [e] at this
      simp at this
    · intro hh p hp
      have := hh p hp
      split
      · rename_i i e; exact absurd e (this i)
      · rfl)

theorem demandH_cons (cfg : Cfg) (b : BState) (a : Act) (h : List (BState × Act)) :
    demandH cfg ((b, a) :: h) = demandH cfg h + a.demand cfg := by
  cases a <;> simp [demandH, issuedH, Act.demand] <;> omega

theorem demandH_nonneg {cfg : Cfg} (hE : 0 ≤ cfg.ttlEntry) : ∀ h, 0 ≤ demandH cfg h
  | [] => by simp [demandH, issuedH]
  | (b, a) :: h => by
    rw [demandH_cons]
    have := demandH_nonneg hE h
    cases a <;> simp only [Act.demand] <;> first | omega | (have := Req.demand_nonneg hE ‹Req›; omega)

/-- the demand of an initial segment is at most the demand of the whole -/
theorem demandH_suffix {cfg : Cfg} (hE : 0 ≤ cfg.ttlEntry) : ∀ (h1 h0 : List (BState × Act)),
    demandH cfg h0 ≤ demandH cfg (h1 ++ h0)
  | [], h0 => Int.le_refl _
  | (b, a) :: h1, h0 => by
    rw [List.cons_append, demandH_cons]
    have := demandH_suffix hE h1 h0
    cases a <;> simp only [Act.demand] <;> first | omega | (have := Req.demand_nonneg hE ‹Req›; omega)

/-- **the invariants of a run from the initial state on which no `shutdown()` is requested** -/
theorem bud_run {cfg : Cfg} {now : Nat} {seeds : List Nat} {clients : Nat} {sm : List (Nat × Nat)} {b : BState}
    {h : List (BState × Act)} (hE : 0 ≤ cfg.ttlEntry)
    (hrun : RunH { BState.init cfg now seeds clients with storeShard := sm } h b) (hns : NoShutdownReq h) :
    NoShut b ∧ ∃ β, Bud (demandH cfg h) β b := by
  induction hrun with
  | nil => exact ⟨noShut_init cfg now seeds clients sm, _, by simpa [demandH, issuedH] using bud_init cfg now seeds clients sm⟩
  | @step b1 b' h1 a o o' hrun' hs ih =>
    have hns' : NoShutdownReq h1 := fun p hp => hns p (List.mem_cons_of_mem _ hp)
    obtain ⟨hn1, β, hb1⟩ := ih hns'
    have hr := swB_reach_run (.init sm) hrun'
    have hcfg := reach_cfg hr
    refine ⟨noShut_step hn1 hs (fun i => hns (b1, a) List.mem_cons_self i), ?_⟩
    obtain ⟨β', hb'⟩ := bud_step hb1 (by rw [hcfg]; exact hE) (binv_reach hr) hn1 hs
    rw [hcfg] at hb'
    exact ⟨β', by rw [demandH_cons]; exact hb'⟩

/-- every state recorded in the history of a run is the end of a run whose history is a final segment of it -/
theorem runH_mem {b0 b : BState} {h : List (BState × Act)} (hrun : RunH b0 h b) {p : BState × Act} (hp : p ∈ h) :
    ∃ h1 h0, h = h1 ++ p :: h0 ∧ RunH b0 h0 p.1 := by
  induction hrun with
  | nil => cases hp
  | @step b1 b' h1 a o o' hrun' hs ih =>
    rcases List.mem_cons.mp hp with rfl | hp
    · exact ⟨[], h1, rfl, hrun'⟩
    · obtain ⟨h2, h0, e, hr0⟩ := ih hp
      exact ⟨(b1, a) :: h2, h0, by rw [e]; rfl, hr0⟩

theorem noShutdownReq_suffix {h1 h0 : List (BState × Act)} (h : NoShutdownReq (h1 ++ h0)) : NoShutdownReq h0 :=
  fun p hp => h p (List.mem_append_right _ hp)

/-- the positions of the eviction loop of `create_space` -/
def WPc.evicting : WPc → Bool
  | .sampleInit .. | .evRemove .. | .evSub .. | .evStore .. | .evSpace .. | .fill .. | .emptySpace .. => true
  | _ => false


theorem pressInv_entered {h : List (BState × Act)} {w : WPc} (hp : PressInv h w) (hw : w.evicting = true) :
    ∃ c, Entered h c := by
  cases w <;> simp only [WPc.evicting] at hw <;> try cases hw
  case sampleInit c _ _ => exact ⟨c, hp.2.2⟩
  case fill c _ _ _ => exact ⟨c, hp.2⟩
  case evRemove c _ _ _ => exact ⟨c, hp.2⟩
  case evSub c _ _ _ _ => exact ⟨c, hp.2⟩
  case evStore c _ _ _ _ => exact ⟨c, hp.2⟩
  case evSpace c _ _ => exact ⟨c, hp⟩
  case emptySpace c => exact ⟨c, hp.2⟩

theorem mem_setAck {acks : List Status} {h : Option Nat} {st x : Status} (hx : x ∈ setAck acks h st) :
    x ∈ acks ∨ x = st := by
  cases h with
  | none => exact Or.inl hx
  | some i =>
    simp only [setAck] at hx
    obtain ⟨j, hj, rfl⟩ := List.getElem_of_mem hx
    rw [List.getElem_set]
    split
    · exact Or.inr rfl
    · exact Or.inl (List.getElem_mem _)

/-- no acknowledgement cell holds `Rejected(NotEnoughSpace)` -/
def NoSpaceFree (b : BState) : Prop := ∀ st ∈ b.g.acks, st ≠ .rejected .noSpace

theorem noSpaceFree_step {b b' : BState} {a : Act} {o o' : Oracle} (hi : NoSpaceFree b) (hns : NoShut b)
    (hev : b.w.evicting = false) (h : stepB b a o = .ok (b', o')) : NoSpaceFree b' := by
  cases stepB_bact h with
  | issue i r hidle => exact hi
  | client i _ hc =>
    obtain ⟨pc, pc', hpc, hf, hq, hsp, hstep, hres, hnid⟩ := cact_frame hc hns.flag (fun pc hpc => hns.cl i pc hpc)
    intro st hst
    cases hq with
    | none _ ha => rw [ha] at hst; exact hi st hst
    | spot st' _ ha hor =>
      rw [ha] at hst
      rcases List.mem_append.mp hst with hst | hst
      · exact hi st hst
      · simp only [List.mem_singleton] at hst; subst hst
        rcases hor with rfl | rfl <;> simp
    | send cmd _ _ _ ha =>
      rw [ha] at hst
      rcases List.mem_append.mp hst with hst | hst
      · exact hi st hst
      · simp only [List.mem_singleton] at hst; subst hst; simp
  | worker _ hw =>
    intro st hst
    cases hw
    case initReject c e space hw => rw [hw] at hev; cases hev
    case fillReject c e s space hw => rw [hw] at hev; cases hev
    case emptyReject c hw _ => rw [hw] at hev; cases hev
    all_goals
      first
        | exact hi st hst
        | (simp only [finishCmd, rejectCmd] at hst
           rcases mem_setAck hst with hst | rfl
           · exact hi st hst
           · simp)
        | exact hi st (by simpa [finishCmd, rejectCmd, ttlPut, ttlDelete] using hst)
  | sweeper v _ hs =>
    have : b'.g.acks = b.g.acks := by cases hs <;> simp
    intro st hst; rw [this] at hst; exact hi st hst
  | consumer g' hg =>
    intro st hst
    have : g'.acks = b.g.acks := by rw [hg]
    exact hi st (by rw [← this]; exact hst)
  | advance d => exact hi


/-! ## 6  the eviction under way, on a run where the entry of the key never stands expired -/

/-- the entry stored under `k`, if any, has not expired by its own deadline -/
def LiveK (k : Nat) (b : BState) : Prop := ∀ e t, b.g.store.get? k = some e → e.expiry = some t → b.g.now ≤ t

instance (k : Nat) (b : BState) : Decidable (LiveK k b) :=
  match h : b.g.store.get? k with
  | none => isTrue (by intro e t he; rw [h] at he; cases he)
  | some e =>
    match hx : e.expiry with
    | none => isTrue (by intro e' t he' hx'; rw [h] at he'; cases he'; rw [hx] at hx'; cases hx')
    | some t => decidable_of_iff (b.g.now ≤ t) ⟨fun hle e' t' he' hx' => by
        rw [h] at he'; cases he'; rw [hx] at hx'; cases hx'; exact hle, fun hl => hl e t h hx⟩

/-- `EvInv` (IndexStep.lean) is kept by every action taken in a state in which the entry of `k` has not expired — without
    the hypothesis `SerialEv` of `evinv_step`: the one action that breaks `EvInv` is an `upsert.update` that REVIVES an
    entry whose eviction the sweeper is carrying through (it has expired: `EvInv`), and that entry is not live. -/
theorem evinv_step_live {cfg : Cfg} {now0 : Nat} {seeds : List Nat} {clients : Nat} {b b' : BState} {a : Act}
    {o o' : Oracle} {k : Nat} (hr : Reach cfg now0 seeds clients b) (hE : EvInv b k) (hlive : LiveK k b)
    (hsh : b'.g.shutting = false) (h : stepB b a o = .ok (b', o')) : EvInv b' k := by
  have hj := bbij_reach hr (stepB_running_before h hsh)
  have hmono := C10_layerB_clock_monotone h
  have hE' : ∀ e n, b.g.store.get? k = some e → eview b e.id = some n → ∃ t, e.expiry = some t ∧ b'.g.now > t := by
    intro e n hk hev
    obtain ⟨t, hx, hgt⟩ := hE e n hk hev
    exact ⟨t, hx, by omega⟩
  by_cases ha : ∀ v, a ≠ .sweeper v
  · obtain ⟨hsw, _, _, _⟩ := swB_other_step h ha
    intro e' now hk' hev'
    rw [eview_congr hsw] at hev'
    have hse := stepB_storeEff h
    cases hse
    case same hs => rw [hs] at hk'; exact hE' e' now hk' hev'
    case put c exp hw hx hwr hs =>
      rw [hs, AMap.get?_set] at hk'
      split at hk'
      · cases hk'
        exfalso
        obtain ⟨sh, rest, wk, hsub⟩ := eview_some.mp hev'
        have hev : b.sw.evicting? = some (c.id, wk) := by
          rcases hsub with hsub | hsub <;> rw [hsub] <;> rfl
        have h0 := (hj.sEvictStale c.id wk hev).2.1
        have : 0 < occ b c.id := by simp [occ, WPc.freshId?, hw]
        omega
      · exact hE' e' now hk' hev'
    case del k0 hh e0 hw hk0 hs =>
      rw [hs, AMap.get?_del] at hk'
      split at hk'
      · cases hk'
      · exact hE' e' now hk' hev'
    case evict c inc s id wk hw hs =>
      rw [hs, AMap.get?_del] at hk'
      split at hk'
      · cases hk'
      · exact hE' e' now hk' hev'
    case sweep v now1 sh rest id wk hw hm hs => exact absurd rfl (ha v)
    case mark i k0 e0 hpc hk0 hs =>
      rw [hs, AMap.get?_set] at hk'
      split at hk'
      · rename_i hkk
        cases hk'
        subst hkk
        exact hE' e0 now hk0 hev'
      · exact hE' e' now hk' hev'
    case upsert i k0 v w ttl rm e0 exp hpc hk0 hx hs =>
      rw [hs, AMap.get?_set] at hk'
      split at hk'
      · rename_i hkk
        cases hk'
        subst hkk
        exfalso
        obtain ⟨t, hxt, hgt⟩ := hE e0 now hk0 hev'
        have := hlive e0 t hk0 hxt
        omega
      · exact hE' e' now hk' hev'
    case clear i hpc hs => rw [hs] at hk'; cases hk'
  · obtain ⟨v, rfl⟩ := swB_is_sweeper ha
    have hact := swB_sweeper_step h
    intro e' now' hk' hev'
    cases hsw : b.sw with
    | begin =>
      obtain ⟨_, rfl⟩ := swB_begin_spec hsw hact
      rw [eview_none (by simp)] at hev'; cases hev'
    | fin =>
      have := swB_fin_spec hsw hact
      subst this
      rw [eview_none rfl] at hev'; cases hev'
    | entry now sh rest =>
      obtain ⟨id, ei, _, hf, ⟨_, rfl⟩ | ⟨_, rfl⟩⟩ := swB_entry_spec hsw hact
      · rw [eview_none rfl] at hev'; cases hev'
      · rw [eview_none (by simp)] at hev'; cases hev'
    | store now sh rest id wk =>
      obtain ⟨_, rfl⟩ := swB_store_spec hsw hact
      rw [eview_none (by simp)] at hev'; cases hev'
    | sub now sh rest id wk =>
      obtain ⟨_, hb'⟩ := swB_sub_spec hsw hact
      have hst : b'.g.store = b.g.store := by rw [hb']
      have hsw' : b'.sw = .store now sh rest id wk := by rw [hb']
      rw [hst] at hk'
      refine hE' e' now' hk' ?_
      obtain ⟨sh1, rest1, wk1, hh | hh⟩ := eview_some.mp hev'
      · rw [hsw'] at hh; cases hh
      · rw [hsw'] at hh
        injection hh with h1 h2 h3 h4 h5
        subst h1 h4
        exact eview_some.mpr ⟨sh, rest, wk, Or.inl hsw⟩
    | kwRemove now sh rest id =>
      rcases swB_kwRemove_spec hsw hact with ⟨wk, ⟨hg, hu⟩, hb'⟩ | ⟨_, rfl⟩
      · have hst : b'.g.store = b.g.store := by rw [hb']
        have hsw' : b'.sw = .sub now sh rest id wk := by rw [hb']
        have hnow : b'.g.now = b.g.now := by rw [hb']
        rw [hst] at hk'
        obtain ⟨sh1, rest1, wk1, hh | hh⟩ := eview_some.mp hev'
        · rw [hsw'] at hh
          injection hh with h1 h2 h3 h4 h5
          subst h1 h4
          have hkey := charged_key hj hk' hg
          rw [hnow]
          exact (unexpiredWithId_eq_false_iff _ _ _).mp hu e' (by rw [hkey]; exact hk') rfl
        · rw [hsw'] at hh; cases hh
      · rw [eview_none (by simp)] at hev'; cases hev'

/-- … hence no sweeper action takes a live entry of `k` away -/
theorem evinv_sweeper_keeps {b b' : BState} {v : Option Nat} {k : Nat} {e : Entry} (hE : EvInv b k) (hlive : LiveK k b)
    (hk : b.g.store.get? k = some e) (heff : StoreEff b (.sweeper v) b') : b'.g.store.get? k = some e := by
  cases heff
  case same hs => rw [hs]; exact hk
  case sweep now sh rest id wk hsw hm hs =>
    rw [hs, AMap.get?_del]
    split
    · rename_i hkk
      exfalso
      obtain ⟨en, hen, hid⟩ := hm
      rw [hkk, hk] at hen
      cases hen
      obtain ⟨t, hx, hgt⟩ := hE e now hk (eview_some.mpr ⟨sh, rest, wk, by rw [hid]; exact Or.inr hsw⟩)
      have := hlive e t hk hx
      omega
    · exact hk

/-! ## 7  puts, value-carrying upserts and deletes of a key under way -/

/-- a put of `k` or a `Delete(k)` -/
def _root_.Cached.Cmd.danger (k : Nat) : Cmd → Bool
  | .put _ _ _ k' _ => k' == k
  | .putTtl _ _ _ k' _ _ => k' == k
  | .delete k' => k' == k
  | _ => false

/-- a put, a delete or a VALUE-carrying `put_or_update` of `k` -/
def Req.danger (k : Nat) : Req → Bool
  | .putW k' _ _ _ => k' == k
  | .delete k' => k' == k
  | .upsert k' (some _) _ _ _ => k' == k
  | _ => false

/-- the client stands inside a put / delete / value-carrying `put_or_update` of `k`, before the point at which that
    call has written the store for the last time -/
def CPc.danger (k : Nat) : CPc → Bool
  | .start r => r.danger k
  | .putPresent k' _ _ _ | .idNext k' _ _ _ => k' == k
  | .send cmd => cmd.danger k
  | .delMark k' => k' == k
  | .upUpdate k' (some _) _ _ _ => k' == k
  | _ => false

/-- the worker is applying a put of `k` (up to and including `store.put`) or stands at the `store.remove` of a `Delete(k)` -/
def WPc.danger (k : Nat) : WPc → Bool
  | .present c | .space0 c | .sampleInit c _ _ | .evRemove c _ _ _ | .evSub c _ _ _ _ | .evStore c _ _ _ _
  | .evSpace c _ _ | .fill c _ _ _ | .emptySpace c | .insert c | .add c | .storePut c => c.k == k
  | .delStore k' _ => k' == k
  | _ => false

/-- **nothing that can overwrite, hide or delete the entry of `k` is under way** -/
structure Safe (k : Nat) (b : BState) : Prop where
  cl : ∀ (i : Nat) (pc : CPc), b.cl[i]? = some pc → pc.danger k = false
  queue : ∀ p ∈ b.g.queue, p.1.danger k = false
  w : b.w.danger k = false

theorem danger_cmdOfPut (k : Nat) (c : PutCmd) : (cmdOfPut c).danger k = (c.k == k) := by
  unfold cmdOfPut; split <;> rfl

/-- a client action from a position that is not dangerous leads to one that is not -/
theorem pcstep_danger {b b' : BState} {i : Nat} {pc pc' : CPc} {k : Nat} (h : PcStep b b' i pc pc')
    (hd : pc.danger k = false) : pc'.danger k = false := by
  cases h
  case idNext k' v w ttl _ => cases ttl <;> simpa [CPc.danger, Cmd.danger] using hd
  case upAbsentPut k' v w ttl rm val weight _ hv _ _ => subst hv; simp [CPc.danger] at hd ⊢; exact hd
  case startUpsert k' v w ttl rm =>
    cases v with
    | none => rfl
    | some x => simpa [CPc.danger, Req.danger] using hd
  all_goals first
    | rfl
    | simpa [CPc.danger, Req.danger, Cmd.danger] using hd

/-- the worker never turns dangerous for `k` except by taking a dangerous command from the queue -/
theorem wtrans_danger {b b' : BState} {k : Nat} (h : WTrans b b') (hw : b.w.danger k = false)
    (hq : ∀ p ∈ b.g.queue, p.1.danger k = false) : b'.w.danger k = false := by
  cases h
  case recvPut c q hw' hq' =>
    have := hq (cmdOfPut c, c.h) (by rw [hq']; exact List.mem_cons_self)
    rw [danger_cmdOfPut] at this
    exact this
  case recvDelete k0 hh q hw' hq' =>
    exact hq (.delete k0, hh) (by rw [hq']; exact List.mem_cons_self)
  all_goals first
    | rfl
    | (rw [‹b.w = _›] at hw; exact hw)

theorem safe_step {b b' : BState} {a : Act} {o o' : Oracle} {k : Nat} (hs : Safe k b) (hns : NoShut b)
    (h : stepB b a o = .ok (b', o')) (ha : ∀ i r, a = .issue i r → r.danger k = false) : Safe k b' := by
  cases stepB_bact h with
  | issue i r hidle =>
    refine ⟨?_, hs.queue, hs.w⟩
    intro j pc hj
    rcases getElem?_set_cases hj with ⟨_, rfl⟩ | ⟨_, hj⟩
    · exact ha i r rfl
    · exact hs.cl j pc hj
  | client i _ hc =>
    obtain ⟨pc, pc', hpc, hf, hq, hsp, hstep, hres, hnid⟩ := cact_frame hc hns.flag (fun pc hpc => hns.cl i pc hpc)
    refine ⟨?_, ?_, by rw [hf.w]; exact hs.w⟩
    · intro j pcj hj
      rw [hf.cl] at hj
      rcases getElem?_set_cases hj with ⟨_, rfl⟩ | ⟨_, hj⟩
      · exact pcstep_danger hstep (hs.cl i pc hpc)
      · exact hs.cl j pcj hj
    · intro p hp
      cases hq with
      | none hq _ => rw [hq] at hp; exact hs.queue p hp
      | spot st hq _ _ => rw [hq] at hp; exact hs.queue p hp
      | send cmd he _ hq _ =>
        rw [hq] at hp
        rcases List.mem_append.mp hp with hp | hp
        · exact hs.queue p hp
        · simp only [List.mem_singleton] at hp
          subst hp he
          exact hs.cl i _ hpc
  | worker _ hw =>
    exact ⟨by rw [(wtrans_cl hw).1]; exact hs.cl, fun p hp => hs.queue p ((wtrans_prov hw).1 p hp),
      wtrans_danger hw hs.w hs.queue⟩
  | sweeper v _ hsw =>
    obtain ⟨h1, h2, h3, _, _, _⟩ := strans_frame hsw
    exact ⟨by rw [h2]; exact hs.cl, by rw [h3]; exact hs.queue, by rw [h1]; exact hs.w⟩
  | consumer g' hg =>
    exact ⟨hs.cl, by show ∀ p ∈ g'.queue, _; rw [hg]; exact hs.queue, hs.w⟩
  | advance d => exact ⟨hs.cl, hs.queue, hs.w⟩

/-- **the value `v` stands under `k`, not hidden, and nothing that could change that is under way** -/
def Kept (k v : Nat) (b : BState) : Prop :=
  Safe k b ∧ EvInv b k ∧ ∃ e, b.g.store.get? k = some e ∧ e.value = v ∧ e.soft = false

/-- **persistence**: one action of any thread, taken in a state in which the entry of `k` is live and the worker is not
    inside the eviction loop, that does not begin a put / delete / value-carrying upsert of `k`, keeps `Kept` -/
theorem kept_step {cfg : Cfg} {now0 : Nat} {seeds : List Nat} {clients : Nat} {b b' : BState} {a : Act} {o o' : Oracle}
    {k v : Nat} (hr : Reach cfg now0 seeds clients b) (hk : Kept k v b) (hns : NoShut b) (hns' : NoShut b')
    (hev : b.w.evicting = false) (hlive : LiveK k b) (h : stepB b a o = .ok (b', o'))
    (ha : ∀ i r, a = .issue i r → r.danger k = false) : Kept k v b' := by
  obtain ⟨hs, hE, e, hke, hv, hsoft⟩ := hk
  refine ⟨safe_step hs hns h ha, evinv_step_live hr hE hlive hns'.flag h, ?_⟩
  have heff := stepB_storeEff h
  cases heff
  case same hst => exact ⟨e, by rw [hst]; exact hke, hv, hsoft⟩
  case put c exp hw hx hwr hst =>
    have hck : c.k ≠ k := by
      intro e0
      have := hs.w
      rw [hw] at this
      simp [WPc.danger, e0] at this
    exact ⟨e, by rw [hst, AMap.get?_set_other _ _ hck]; exact hke, hv, hsoft⟩
  case del k0 hh e0 hw hk0 hst =>
    have hck : k0 ≠ k := by
      intro e1
      have := hs.w
      rw [hw] at this
      simp [WPc.danger, e1] at this
    exact ⟨e, by rw [hst, AMap.get?_del_other _ hck]; exact hke, hv, hsoft⟩
  case evict c inc s id wk hw hst => rw [hw] at hev; cases hev
  case sweep vv now sh rest id wk hsw hm hst =>
    exact ⟨e, evinv_sweeper_keeps hE hlive hke (.sweep vv now sh rest id wk _ hsw hst hm), hv, hsoft⟩
  case mark i k0 e0 hpc hk0 hst =>
    have hck : k0 ≠ k := by
      intro e1
      have := hs.cl i _ hpc
      simp [CPc.danger, e1] at this
    exact ⟨e, by rw [hst, AMap.get?_set_other _ _ hck]; exact hke, hv, hsoft⟩
  case upsert i k0 v0 w ttl rm e0 exp hpc hk0 hx hst =>
    by_cases hck : k0 = k
    · subst hck
      have hv0 : v0 = none := by
        cases v0 with
        | none => rfl
        | some x =>
          have := hs.cl i _ hpc
          simp [CPc.danger] at this
      subst hv0
      rw [hke] at hk0; cases hk0
      exact ⟨{ e with expiry := exp, value := (none : Option Nat).getD e.value }, by rw [hst, AMap.get?_set_same], hv, hsoft⟩
    · exact ⟨e, by rw [hst, AMap.get?_set_other _ _ hck]; exact hke, hv, hsoft⟩
  case clear i hpc hst =>
    have := hns.cl i _ hpc
    simp [CPc.shutPos, CPc.afterCas] at this


/-! ## 5  a dead worker; a deletion mark has its `Delete` under way -/

/-- the worker's mode says `dead` exactly when its thread stands at `dead` -/
def DeadInv (b : BState) : Prop := b.g.worker = .dead ↔ b.w = .dead

theorem deadInv_step {b b' : BState} {a : Act} {o o' : Oracle} (hi : DeadInv b) (hns : NoShut b)
    (h : stepB b a o = .ok (b', o')) : DeadInv b' := by
  cases stepB_bact h with
  | issue i r hidle => exact hi
  | client i _ hc =>
    obtain ⟨pc, pc', hpc, hf, hq, hsp, hstep, hres, hnid⟩ := cact_frame hc hns.flag (fun pc hpc => hns.cl i pc hpc)
    unfold DeadInv
    rw [hf.worker, hf.w]
    exact hi
  | worker _ hw =>
    unfold DeadInv at hi ⊢
    have hnd : b.w ≠ .dead := by cases hw <;> simp_all
    have hgd : b.g.worker ≠ .dead := fun e => hnd (hi.mp e)
    cases hw <;> simp_all [finishCmd, rejectCmd, ttlPut, ttlDelete]
  | sweeper v _ hs =>
    obtain ⟨h1, _, _, _, _, _⟩ := strans_frame hs
    have : b'.g.worker = b.g.worker := by cases hs <;> simp
    unfold DeadInv
    rw [this, h1]
    exact hi
  | consumer g' hg =>
    unfold DeadInv
    show g'.worker = .dead ↔ _
    rw [hg]; exact hi
  | advance d => exact hi

theorem deadInv_init (cfg : Cfg) (now : Nat) (seeds : List Nat) (clients : Nat) (sm : List (Nat × Nat)) :
    DeadInv { BState.init cfg now seeds clients with storeShard := sm } := by
  simp [DeadInv, BState.init, State.init]

/-- a `Delete(k)` is on its way to the worker's `store.remove` -/
def DelItem (k : Nat) (b : BState) : Prop :=
  (∃ i : Nat, b.cl[i]? = some (CPc.send (Cmd.delete k))) ∨ (∃ h, (Cmd.delete k, h) ∈ b.g.queue) ∨ (∃ h, b.w = .delStore k h)

/-- **an entry carrying the deletion mark has its `Delete` command under way — unless the worker has died** -/
def SoftInv (k : Nat) (b : BState) : Prop :=
  ∀ e, b.g.store.get? k = some e → e.soft = true → DelItem k b ∨ b.w = .dead

/-- a `Delete(k)` under way stays under way, up to the worker's `store.remove` -/
theorem delItem_step {b b' : BState} {a : Act} {o o' : Oracle} {k : Nat} (hd : DelItem k b ∨ b.w = .dead)
    (hdi : DeadInv b) (hns : NoShut b) (h : stepB b a o = .ok (b', o')) :
    (DelItem k b' ∨ b'.w = .dead) ∨ (a = .worker ∧ ∃ hh, b.w = .delStore k hh) := by
  rcases hd with hd | hd
  rotate_left
  · exact Or.inl (Or.inr (dead_step h hd))
  cases stepB_bact h with
  | issue i r hidle =>
    refine Or.inl (Or.inl ?_)
    rcases hd with ⟨j, hj⟩ | hd | hd
    · refine Or.inl ⟨j, ?_⟩
      have hne : j ≠ i := by intro e; subst e; rw [hidle] at hj; cases hj
      show (b.cl.set i _)[j]? = _
      rw [List.getElem?_set_ne (Ne.symm hne)]; exact hj
    · exact Or.inr (Or.inl hd)
    · exact Or.inr (Or.inr hd)
  | client i _ hc =>
    obtain ⟨pc, pc', hpc, hf, hq, hsp, hstep, hres, hnid⟩ := cact_frame hc hns.flag (fun pc hpc => hns.cl i pc hpc)
    have hqsub : ∀ p ∈ b.g.queue, p ∈ b'.g.queue := by
      intro p hp
      cases hq with
      | none hq _ => rw [hq]; exact hp
      | spot st hq _ _ => rw [hq]; exact hp
      | send cmd _ _ hq _ => rw [hq]; exact List.mem_append_left _ hp
    rcases hd with ⟨j, hj⟩ | ⟨hh, hd⟩ | ⟨hh, hd⟩
    · by_cases hji : j = i
      · subst hji
        rw [hpc] at hj; cases hj
        cases hstep
        case sendDead =>
          have hwd : b.g.worker = .dead := by assumption
          exact Or.inl (Or.inr (by rw [hf.w]; exact hdi.mp hwd))
        case sendOk =>
          have hq' : b'.g.queue = b.g.queue ++ [(Cmd.delete k, some b.g.acks.length)] := by assumption
          exact Or.inl (Or.inl (Or.inr (Or.inl ⟨_, by rw [hq']; exact List.mem_append_right _ (List.mem_singleton.mpr rfl)⟩)))
        all_goals tail_absurd
      · refine Or.inl (Or.inl (Or.inl ⟨j, ?_⟩))
        rw [hf.cl, List.getElem?_set_ne (Ne.symm hji)]; exact hj
    · exact Or.inl (Or.inl (Or.inr (Or.inl ⟨hh, hqsub _ hd⟩)))
    · exact Or.inl (Or.inl (Or.inr (Or.inr ⟨hh, by rw [hf.w]; exact hd⟩)))
  | worker _ hw =>
    rcases hd with ⟨j, hj⟩ | ⟨hh, hd⟩ | ⟨hh, hd⟩
    · exact Or.inl (Or.inl (Or.inl ⟨j, by rw [(wtrans_cl hw).1]; exact hj⟩))
    · -- the command waits in the queue: it stays, or the worker takes it, or the worker dies
      by_cases hrecv : b.w = .recv
      · cases hw
        case recvPut c q hw' hq' =>
          rw [hq'] at hd
          rcases List.mem_cons.mp hd with e | hd
          · exfalso; injection e with e1 _; unfold cmdOfPut at e1; split at e1 <;> cases e1
          · exact Or.inl (Or.inl (Or.inr (Or.inl ⟨hh, hd⟩)))
        case recvUpdate id w h2 q hw' hq' =>
          rw [hq'] at hd
          rcases List.mem_cons.mp hd with e | hd
          · cases e
          · exact Or.inl (Or.inl (Or.inr (Or.inl ⟨hh, hd⟩)))
        case recvDelete k0 h2 q hw' hq' =>
          rw [hq'] at hd
          rcases List.mem_cons.mp hd with e | hd
          · cases e; exact Or.inl (Or.inl (Or.inr (Or.inr ⟨_, rfl⟩)))
          · exact Or.inl (Or.inl (Or.inr (Or.inl ⟨hh, hd⟩)))
        case recvShutdown h2 q hw' hq' =>
          exact absurd rfl (hns.queue (.shutdown, h2) (by rw [hq']; exact List.mem_cons_self))
        all_goals (rw [hrecv] at *; simp_all)
      · cases hw
        case recvPut hw' _ => exact absurd hw' hrecv
        case recvUpdate hw' _ => exact absurd hw' hrecv
        case recvDelete hw' _ => exact absurd hw' hrecv
        case recvShutdown hw' _ => exact absurd hw' hrecv
        case drain hw' _ => exact absurd hw' hns.w
        case storePutPanic => exact Or.inl (Or.inr rfl)
        case updatePanic => exact Or.inl (Or.inr rfl)
        case space0Overflow => exact Or.inl (Or.inr rfl)
        case evSpaceOverflow => exact Or.inl (Or.inr rfl)
        case emptyOverflow => exact Or.inl (Or.inr rfl)
        all_goals exact Or.inl (Or.inl (Or.inr (Or.inl ⟨hh, by simpa [finishCmd, rejectCmd, ttlPut, ttlDelete] using hd⟩)))
    · exact Or.inr ⟨rfl, hh, hd⟩
  | sweeper v _ hs =>
    obtain ⟨h1, h2, h3, _, _, _⟩ := strans_frame hs
    refine Or.inl (Or.inl ?_)
    unfold DelItem
    rw [h1, h2, h3]; exact hd
  | consumer g' hg =>
    refine Or.inl (Or.inl ?_)
    unfold DelItem at hd ⊢
    show _ ∨ (∃ h, _ ∈ g'.queue) ∨ _
    rw [hg]; exact hd
  | advance d => exact Or.inl (Or.inl (by unfold DelItem at hd ⊢; exact hd))


/-- the worker's `store.remove` of a `Delete(k)` leaves no entry under `k` -/
theorem delStore_removes {b b' : BState} {o o' : Oracle} {k : Nat} {hh : Option Nat} (hw : b.w = .delStore k hh)
    (h : stepB b .worker o = .ok (b', o')) : b'.g.store.get? k = none := by
  simp only [stepB] at h
  obtain ⟨_, _, ⟨hn, rfl⟩ | ⟨e, _, rfl⟩⟩ := ent_workerAct_delStore hw h
  · exact hn
  · simp

theorem softInv_step {b b' : BState} {a : Act} {o o' : Oracle} {k : Nat} (hi : SoftInv k b) (hdi : DeadInv b)
    (hns : NoShut b) (h : stepB b a o = .ok (b', o')) : SoftInv k b' := by
  intro e' hk' hsoft'
  -- the general argument: the marked entry stood in `b` already
  have gen : (∃ e, b.g.store.get? k = some e ∧ e.soft = true) → DelItem k b' ∨ b'.w = .dead := by
    rintro ⟨e, hk, hsoft⟩
    rcases delItem_step (hi e hk hsoft) hdi hns h with hd | ⟨rfl, hh, hw⟩
    · exact hd
    · rw [delStore_removes hw h] at hk'; cases hk'
  have heff := stepB_storeEff h
  cases heff
  case same hst => exact gen ⟨e', by rw [← hst]; exact hk', hsoft'⟩
  case put c exp hw hx hwr hst =>
    rw [hst, AMap.get?_set] at hk'
    split at hk'
    · cases hk'; cases hsoft'
    · exact gen ⟨e', hk', hsoft'⟩
  case del k0 hh e0 hw hk0 hst =>
    rw [hst, AMap.get?_del] at hk'
    split at hk'
    · cases hk'
    · exact gen ⟨e', hk', hsoft'⟩
  case evict c inc s id wk hw hst =>
    rw [hst, AMap.get?_del] at hk'
    split at hk'
    · cases hk'
    · exact gen ⟨e', hk', hsoft'⟩
  case sweep v now sh rest id wk hsw hm hst =>
    rw [hst, AMap.get?_del] at hk'
    split at hk'
    · cases hk'
    · exact gen ⟨e', hk', hsoft'⟩
  case mark i k0 e0 hpc hk0 hst =>
    rw [hst, AMap.get?_set] at hk'
    split at hk'
    · rename_i hkk
      subst hkk
      cases stepB_bact h with
      | client _ _ hc =>
        obtain ⟨pc, pc', hpc', hf, hq, hsp, hstep, hres, hnid⟩ := cact_frame hc hns.flag (fun pc hpc => hns.cl i pc hpc)
        rw [hpc] at hpc'; cases hpc'
        cases hstep
        case delMark =>
          refine Or.inl (Or.inl ⟨i, ?_⟩)
          rw [hf.cl]
          exact List.getElem?_set_self (List.getElem?_eq_some_iff.mp hpc).1
        all_goals tail_absurd
    · exact gen ⟨e', hk', hsoft'⟩
  case upsert i k0 v w ttl rm e0 exp hpc hk0 hx hst =>
    rw [hst, AMap.get?_set] at hk'
    split at hk'
    · rename_i hkk
      subst hkk
      cases hk'
      exact gen ⟨e0, hk0, hsoft'⟩
    · exact gen ⟨e', hk', hsoft'⟩
  case clear i hpc hst => rw [hst] at hk'; cases hk'

theorem softInv_init (cfg : Cfg) (now : Nat) (seeds : List Nat) (clients : Nat) (sm : List (Nat × Nat)) (k : Nat) :
    SoftInv k { BState.init cfg now seeds clients with storeShard := sm } := by
  intro e hk; simp [BState.init, State.init] at hk


/-! ## 8  from the issue of a write to its acknowledgement -/

/-- the `q`-th action is the FIRST return of client `j` after the `p₀`-th action: `j` returns `out` there and has begun
    no call strictly between `p₀` and `q` — it is the return of the call `j` began at `p₀` -/
def FirstRet (h : List (BState × Act)) (b : BState) (j p₀ q : Nat) (out : Out) : Prop :=
  p₀ < q ∧ Returned h b j q out ∧ ∀ q' r, p₀ < q' → q' < q → ¬ Issued h j r q'

/-- client `j` is through with the call it began at `p₀`: it is idle, or has begun another call since -/
def JDone (h : List (BState × Act)) (b : BState) (j p₀ : Nat) : Prop :=
  b.cl[j]? = some .idle ∨ ∃ q r, p₀ < q ∧ Issued h j r q

theorem at_cons_lt {h : List (BState × Act)} {y x : BState × Act} {n : Nat} (hn : n < h.length) :
    At (y :: h) n x ↔ At h n x := by
  rw [at_cons]
  constructor
  · rintro (⟨e, _⟩ | hx)
    · omega
    · exact hx
  · exact Or.inr

theorem at_cons_len {h : List (BState × Act)} {y x : BState × Act} : At (y :: h) h.length x ↔ x = y := by
  rw [at_cons]
  constructor
  · rintro (⟨_, e⟩ | hx)
    · exact e
    · have := hx.lt; omega
  · intro e; exact Or.inl ⟨rfl, e⟩

theorem issued_cons_lt {h : List (BState × Act)} {y : BState × Act} {i n : Nat} {r : Req} (hn : n < h.length) :
    Issued (y :: h) i r n ↔ Issued h i r n := by
  unfold Issued
  constructor
  · rintro ⟨s, hx⟩; exact ⟨s, (at_cons_lt hn).mp hx⟩
  · rintro ⟨s, hx⟩; exact ⟨s, (at_cons_lt hn).mpr hx⟩

theorem issued_cons_len {h : List (BState × Act)} {b : BState} {a : Act} {i : Nat} {r : Req} :
    Issued ((b, a) :: h) i r h.length ↔ a = .issue i r := by
  unfold Issued
  constructor
  · rintro ⟨s, hx⟩
    have := at_cons_len.mp hx
    exact (congrArg Prod.snd this).symm
  · intro e; exact ⟨b, at_cons_len.mpr (by rw [e])⟩

theorem issued_lt {h : List (BState × Act)} {i n : Nat} {r : Req} (hi : Issued h i r n) : n < h.length := by
  obtain ⟨s, hx⟩ := hi; exact hx.lt

theorem returned_lt {h : List (BState × Act)} {b : BState} {i n : Nat} {out : Out} (hr : Returned h b i n out) :
    n < h.length := by
  obtain ⟨s, s', hx, _⟩ := hr; exact hx.lt

theorem returned_cons_lt {h : List (BState × Act)} {b b' : BState} {a : Act} {i n : Nat} {out : Out}
    (hr : Returned ((b, a) :: h) b' i n out) (hn : n < h.length) : Returned h b i n out := by
  obtain ⟨s, s', hx, hst, h1, h2⟩ := hr
  refine ⟨s, s', (at_cons_lt hn).mp hx, ?_, h1, h2⟩
  rcases hst with ⟨e, _⟩ | ⟨a', ha'⟩
  · simp only [List.length_cons] at e; omega
  · by_cases hn1 : n + 1 = h.length
    · rw [hn1] at ha'
      have := at_cons_len.mp ha'
      cases this
      exact Or.inl ⟨hn1, rfl⟩
    · exact Or.inr ⟨a', (at_cons_lt (by omega)).mp ha'⟩

theorem returned_cons_len {h : List (BState × Act)} {b b' : BState} {a : Act} {i : Nat} {out : Out}
    (hr : Returned ((b, a) :: h) b' i h.length out) :
    a = .client i ∧ b'.cl[i]? = some .idle ∧ b'.res[i]? = some (out :: b.res.getD i []) := by
  obtain ⟨s, s', hx, hst, h1, h2⟩ := hr
  have := at_cons_len.mp hx
  cases this
  rcases hst with ⟨_, rfl⟩ | ⟨a', ha'⟩
  · exact ⟨rfl, h1, h2⟩
  · have := ha'.lt
    simp only [List.length_cons] at this
    omega

theorem firstRet_le {h : List (BState × Act)} {b b' : BState} {a : Act} {j p₀ q : Nat} {out : Out}
    (hf : FirstRet ((b, a) :: h) b' j p₀ q out) : q ≤ h.length := by
  have := returned_lt hf.2.1
  simp only [List.length_cons] at this
  omega

theorem firstRet_old {h : List (BState × Act)} {b b' : BState} {a : Act} {j p₀ q : Nat} {out : Out}
    (hf : FirstRet ((b, a) :: h) b' j p₀ q out) (hq : q < h.length) : FirstRet h b j p₀ q out :=
  ⟨hf.1, returned_cons_lt hf.2.1 hq, fun q' r h1 h2 hi => hf.2.2 q' r h1 h2 ((issued_cons_lt (by omega)).mpr hi)⟩

theorem firstRet_new {h : List (BState × Act)} {b b' : BState} {a : Act} {j p₀ : Nat} {out : Out}
    (hf : FirstRet ((b, a) :: h) b' j p₀ h.length out) :
    a = .client j ∧ b'.cl[j]? = some .idle ∧ b'.res[j]? = some (out :: b.res.getD j []) ∧
      ∀ q' r, p₀ < q' → q' < h.length → ¬ Issued h j r q' := by
  obtain ⟨h1, h2, h3⟩ := returned_cons_len hf.2.1
  exact ⟨h1, h2, h3, fun q' r hq1 hq2 hi => hf.2.2 q' r hq1 hq2 ((issued_cons_lt hq2).mpr hi)⟩

/-- a client that acts is not idle -/
theorem client_step_not_idle {b b' : BState} {j : Nat} {o o' : Oracle} (h : stepB b (.client j) o = .ok (b', o')) :
    b.cl[j]? ≠ some .idle := by
  intro hidle
  simp [stepB, clientAct, hidle] at h

/-- once through, always through -/
theorem jdone_step {h : List (BState × Act)} {b b' : BState} {a : Act} {o o' : Oracle} {j p₀ : Nat}
    (hd : JDone h b j p₀) (hp : p₀ < h.length) (hs : stepB b a o = .ok (b', o')) : JDone ((b, a) :: h) b' j p₀ := by
  rcases hd with hidle | ⟨q, r, hq, hi⟩
  · by_cases ha : a = .client j
    · subst ha; exact absurd hidle (client_step_not_idle hs)
    · by_cases hiss : ∃ r, a = .issue j r
      · obtain ⟨r, rfl⟩ := hiss
        exact Or.inr ⟨h.length, r, hp, issued_cons_len.mpr rfl⟩
      · left
        rw [other_threads_keep_pc hs ha (fun r e => hiss ⟨r, e⟩)]
        exact hidle
  · exact Or.inr ⟨q, r, hq, (issued_cons_lt (issued_lt hi)).mpr hi⟩

/-- … and a client that is through does not return from that call again -/
theorem jdone_no_new_ret {h : List (BState × Act)} {b b' : BState} {a : Act} {o o' : Oracle} {j p₀ : Nat} {out : Out}
    (hd : JDone h b j p₀) (hs : stepB b a o = .ok (b', o')) (hf : FirstRet ((b, a) :: h) b' j p₀ h.length out) : False := by
  obtain ⟨ha, _, _, hno⟩ := firstRet_new hf
  subst ha
  rcases hd with hidle | ⟨q, r, hq, hi⟩
  · exact client_step_not_idle hs hidle
  · exact hno q r hq (issued_lt hi) hi


/-- the cell `hd` holds an answer other than `Accepted` — or is pending — and no command carrying `hd` is under way any
    more: it will never hold `Accepted` -/
def Stale (hd : Nat) (b : BState) : Prop :=
  (∃ st, b.g.acks[hd]? = some st ∧ st ≠ .accepted) ∧ hd ∉ qHandles b.g.queue ∧ b.w.held ≠ some hd

theorem stale_step {b b' : BState} {a : Act} {o o' : Oracle} {hd : Nat} (hs : Stale hd b)
    (h : stepB b a o = .ok (b', o')) : Stale hd b' := by
  obtain ⟨⟨st, hst, hne⟩, hq, hheld⟩ := hs
  cases stepB_bstep h with
  | worker _ hw =>
    cases hw with
    | take cmd hh q hq0 hq' hw0 hb hheld' ha hns =>
      rw [hq0, qHandles_cons] at hq
      refine ⟨⟨st, by rw [ha]; exact hst, hne⟩, ?_, ?_⟩
      · rw [hq']; intro hm; exact hq (by simp [hm])
      · rw [hheld']; intro e; subst e; exact hq (by simp)
    | takeShutdown hh q hq0 hq' hw0 hw' ha =>
      rw [hq0, qHandles_cons] at hq
      refine ⟨⟨st, ?_, hne⟩, ?_, by rw [hw']; simp [WPc.held]⟩
      · rw [ha, setAck_get_ne]
        · exact hst
        · intro e; subst e; exact hq (by simp)
      · rw [hq']; intro hm; exact hq (by simp [hm])
    | takeDrain cmd hh q hq0 hq' hw0 hw' ha =>
      rw [hq0, qHandles_cons] at hq
      refine ⟨⟨st, ?_, hne⟩, ?_, by rw [hw']; simp [WPc.held]⟩
      · rw [ha, setAck_get_ne]
        · exact hst
        · intro e; subst e; exact hq (by simp)
      · rw [hq']; intro hm; exact hq (by simp [hm])
    | cont hb hb' hheld' hq' ha => exact ⟨⟨st, by rw [ha]; exact hst, hne⟩, by rw [hq']; exact hq, by rw [hheld']; exact hheld⟩
    | complete st' hb hw' hq' hst' ha =>
      refine ⟨⟨st, ?_, hne⟩, by rw [hq']; exact hq, by rw [hw']; simp [WPc.held]⟩
      rw [ha, setAck_get_ne _ _ hheld]; exact hst
    | die hb hw' hq' ha =>
      exact ⟨⟨st, by rw [ha]; exact hst, hne⟩, by rw [hq']; simp [qHandles], by rw [hw']; simp [WPc.held]⟩
  | client i _ hw hc _ =>
    cases hc with
    | none hq' ha => exact ⟨⟨st, by rw [ha]; exact hst, hne⟩, by rw [hq']; exact hq, by rw [hw]; exact hheld⟩
    | spot st' hq' ha =>
      exact ⟨⟨st, by rw [ha]; exact getElem?_append_some _ hst, hne⟩, by rw [hq']; exact hq, by rw [hw]; exact hheld⟩
    | send cmd _ hq' ha =>
      refine ⟨⟨st, by rw [ha]; exact getElem?_append_some _ hst, hne⟩, ?_, by rw [hw]; exact hheld⟩
      rw [hq', qHandles_append_one]
      simp only [Option.toList_some, List.mem_append, List.mem_singleton, not_or]
      exact ⟨hq, by have := lt_of_getElem?_some hst; omega⟩
    | sendShutdown _ _ hq' ha =>
      refine ⟨⟨st, by rw [ha]; exact hst, hne⟩, ?_, by rw [hw]; exact hheld⟩
      rw [hq', qHandles_append_one]; simpa using hq
  | other _ hw hq' ha => exact ⟨⟨st, by rw [ha]; exact hst, hne⟩, by rw [hq']; exact hq, by rw [hw]; exact hheld⟩

/-- the client stands in the tail of a `put_or_update` that CARRIES A WEIGHT (every value-carrying one does): the call
    ends in a panic or in `cmd.send` of `UpdateWeight` — never in an acknowledgement answered on the spot -/
def CPc.uwSome : CPc → Bool
  | .upWeightOf _ (some _) _ _ | .upTtlPut _ _ (some _) | .upTtlDelete _ _ (some _) | .upTtlRemove _ _ _ (some _)
  | .upTtlInsert _ _ (some _) => true
  | .send (.updateWeight _ _) => true
  | _ => false

theorem uwSome_tail {pc : CPc} {id : Nat} (hu : pc.uwSome = true) (ht : pc.tail? = some (id, none)) : False := by
  cases pc
  case upWeightOf id' uw old new =>
    cases uw with
    | none => simp [CPc.uwSome] at hu
    | some x =>
      simp only [CPc.tail?] at ht
      split at ht <;> simp at ht
  case upTtlPut id' e uw => cases uw <;> simp [CPc.uwSome, CPc.tail?] at hu ht
  case upTtlDelete id' e uw => cases uw <;> simp [CPc.uwSome, CPc.tail?] at hu ht
  case upTtlInsert id' e uw => cases uw <;> simp [CPc.uwSome, CPc.tail?] at hu ht
  all_goals simp [CPc.tail?] at ht

/-- **the write has failed**: nothing dangerous for `k` is under way, the call's acknowledgement (if it got one) will
    never hold `Accepted`, and client `j` is through with the call — or the worker is dead and `j` stands in the tail of
    its `put_or_update`, which can only end in a panic or in `Err(CommandSendError)` -/
structure WD (k j p₀ : Nat) (h : List (BState × Act)) (b : BState) : Prop where
  safe : Safe k b
  noAcc : ∀ q out, FirstRet h b j p₀ q out → ∀ hd st, out = .ack hd st → Stale hd b
  done : JDone h b j p₀ ∨
    (b.w = .dead ∧ (∃ pc, b.cl[j]? = some pc ∧ pc.uwSome = true) ∧ (∀ q out, ¬ FirstRet h b j p₀ q out) ∧
      ∀ q r, p₀ < q → ¬ Issued h j r q)

theorem res_head {b b' : BState} {i : Nat} {out out' : Out} (hr : Ret b b' i out)
    (h : b'.res[i]? = some (out' :: b.res.getD i [])) : out' = out := by
  rw [hr] at h
  exact (res_set_head h).symm

theorem wD_step {h : List (BState × Act)} {b b' : BState} {a : Act} {o o' : Oracle} {k j p₀ : Nat}
    (hd : WD k j p₀ h b) (hp : p₀ < h.length) (hns : NoShut b) (hdi : DeadInv b) (hs : stepB b a o = .ok (b', o'))
    (ha : ∀ i r, a = .issue i r → r.danger k = false) : WD k j p₀ ((b, a) :: h) b' := by
  have hsafe := safe_step hd.safe hns hs ha
  -- the acknowledgements of returns already in the history stay stale
  have hold : ∀ q out, FirstRet ((b, a) :: h) b' j p₀ q out → q < h.length → ∀ hd' st, out = .ack hd' st → Stale hd' b' :=
    fun q out hf hq hd' st e => stale_step (hd.noAcc q out (firstRet_old hf hq) hd' st e) hs
  rcases hd.done with hdone | ⟨hdead, ⟨pc, hpc, hu⟩, hnoret, hnoiss⟩
  · refine ⟨hsafe, ?_, Or.inl (jdone_step hdone hp hs)⟩
    intro q out hf
    rcases Nat.lt_or_ge q h.length with hq | hq
    · exact hold q out hf hq
    · have : q = h.length := Nat.le_antisymm (firstRet_le hf) hq
      subst this
      exact (jdone_no_new_ret hdone hs hf).elim
  · -- the worker is dead, client `j` in the tail of its upsert
    have hdead' : b'.w = .dead := dead_step hs hdead
    by_cases haj : a = .client j
    · subst haj
      cases stepB_bact hs with
      | client _ _ hc =>
        obtain ⟨pc0, pc', hpc0, hf, hq, hsp, hstep, hres, hnid⟩ := cact_frame hc hns.flag (fun pc hpc => hns.cl j pc hpc)
        rw [hpc] at hpc0; cases hpc0
        have hcl' : b'.cl[j]? = some pc' := by
          rw [hf.cl]; exact List.getElem?_set_self (List.getElem?_eq_some_iff.mp hpc).1
        -- what the step can be
        have key : (pc' = .idle ∧ ∃ out, Ret b b' j out ∧ ∀ hd' st, out ≠ .ack hd' st) ∨ pc'.uwSome = true := by
          cases hstep <;> simp only [CPc.uwSome] at hu <;> try (first | cases hu | (right; rfl))
          case sendDead => exact Or.inl ⟨rfl, _, ‹Ret b b' j .err›, fun _ _ e => by cases e⟩
          case sendOk =>
            exfalso
            have : b.g.worker ≠ .dead := by assumption
            exact this (hdi.mpr hdead)
          case upWAdded id uw n => right; cases uw <;> simp_all [CPc.uwSome, deriveAdd]
          case upWDeleted id uw e => right; cases uw <;> simp_all [CPc.uwSome, deriveDel]
          case upWUpdated id uw e n _ => right; cases uw <;> simp_all [CPc.uwSome]
          case upTtlRemove id old new uw => right; cases uw <;> simp_all [CPc.uwSome]
          case tailPanic id w p _ _ => exact Or.inl ⟨rfl, _, ‹Ret b b' j (.panic p)›, fun _ _ e => by cases e⟩
          case tailSpot =>
            exact (uwSome_tail hu (by assumption)).elim
        rcases key with ⟨rfl, out0, hret, hnack⟩ | hu'
        · refine ⟨hsafe, ?_, Or.inl (Or.inl hcl')⟩
          intro q out hfr
          rcases Nat.lt_or_ge q h.length with hq' | hq'
          · exact absurd (firstRet_old hfr hq') (hnoret q out)
          · have : q = h.length := Nat.le_antisymm (firstRet_le hfr) hq'
            subst this
            obtain ⟨_, _, hr', _⟩ := firstRet_new hfr
            have := res_head hret hr'
            subst this
            intro hd' st e
            exact absurd e (hnack hd' st)
        · refine ⟨hsafe, ?_, Or.inr ⟨hdead', ⟨pc', hcl', hu'⟩, ?_, ?_⟩⟩
          · intro q out hfr
            rcases Nat.lt_or_ge q h.length with hq' | hq'
            · exact absurd (firstRet_old hfr hq') (hnoret q out)
            · have : q = h.length := Nat.le_antisymm (firstRet_le hfr) hq'
              subst this
              obtain ⟨_, hidle, _, _⟩ := firstRet_new hfr
              rw [hcl'] at hidle; cases hidle
              cases hu'
          · intro q out hfr
            rcases Nat.lt_or_ge q h.length with hq' | hq'
            · exact hnoret q out (firstRet_old hfr hq')
            · have : q = h.length := Nat.le_antisymm (firstRet_le hfr) hq'
              subst this
              obtain ⟨_, hidle, _, _⟩ := firstRet_new hfr
              rw [hcl'] at hidle; cases hidle
              cases hu'
          · intro q r hq' hi
            rcases Nat.lt_or_ge q h.length with hq2 | hq2
            · exact hnoiss q r hq' ((issued_cons_lt hq2).mp hi)
            · have := issued_lt hi
              simp only [List.length_cons] at this
              have : q = h.length := by omega
              subst this
              cases issued_cons_len.mp hi
    · -- another thread acts: client `j` stays where it is
      have hiss : ∀ r, a ≠ .issue j r := by
        intro r e
        subst e
        cases stepB_bact hs with
        | issue _ _ hidle => rw [hpc] at hidle; cases hidle; cases hu
      have hcl' : b'.cl[j]? = some pc := by rw [other_threads_keep_pc hs haj hiss]; exact hpc
      have hnr' : ∀ q out, ¬ FirstRet ((b, a) :: h) b' j p₀ q out := by
        intro q out hfr
        rcases Nat.lt_or_ge q h.length with hq' | hq'
        · exact hnoret q out (firstRet_old hfr hq')
        · have : q = h.length := Nat.le_antisymm (firstRet_le hfr) hq'
          subst this
          exact haj (firstRet_new hfr).1
      refine ⟨hsafe, fun q out hfr => absurd hfr (hnr' q out), Or.inr ⟨hdead', ⟨pc, hcl', hu⟩, hnr', ?_⟩⟩
      intro q r hq' hi
      rcases Nat.lt_or_ge q h.length with hq2 | hq2
      · exact hnoiss q r hq' ((issued_cons_lt hq2).mp hi)
      · have := issued_lt hi
        simp only [List.length_cons] at this
        have : q = h.length := by omega
        subst this
        exact hiss r (issued_cons_len.mp hi)


/-- the put command of the write: in the queue, with handle `hd` — or in the worker's hands, up to `store.put` -/
def ItemQ (k v hd : Nat) (b : BState) : Prop :=
  b.w.danger k = false ∧ ∃ q1 q2 cmd, b.g.queue = q1 ++ (cmd, some hd) :: q2 ∧ cmdKV cmd = some (k, v) ∧
    (∀ p ∈ q1, p.1.danger k = false) ∧ (∀ p ∈ q2, p.1.danger k = false)

def ItemW (k v hd : Nat) (b : BState) : Prop :=
  (∀ p ∈ b.g.queue, p.1.danger k = false) ∧
    ∃ c, b.w.cmd? = some c ∧ b.w.danger k = true ∧ c.k = k ∧ c.v = v ∧ c.h = some hd

/-- what a worker action makes of the write's command -/
inductive ItemNext (k v hd : Nat) (b' : BState) : Prop where
  | queued : ItemQ k v hd b' → ItemNext k v hd b'
  | held : ItemW k v hd b' → ItemNext k v hd b'
  | stored (e : Entry) : b'.w.danger k = false → (∀ p ∈ b'.g.queue, p.1.danger k = false) →
      b'.g.store.get? k = some e → e.value = v → e.soft = false → ItemNext k v hd b'
  | failed : b'.w.danger k = false → (∀ p ∈ b'.g.queue, p.1.danger k = false) → Stale hd b' → ItemNext k v hd b'

theorem cmdKV_danger {cmd : Cmd} {k v : Nat} (h : cmdKV cmd = some (k, v)) : cmd.danger k = true := by
  cases cmd <;> simp [cmdKV, Cmd.danger] at h ⊢ <;> exact h.1

theorem itemQ_wtrans {b b' : BState} {k v hd : Nat} (hi : ItemQ k v hd b) (hH : HInv b) (hns : NoShut b)
    (h : WTrans b b') : ItemNext k v hd b' := by
  obtain ⟨hw, q1, q2, cmd, hq, hkv, h1, h2⟩ := hi
  have hmem : hd ∈ qHandles b.g.queue := mem_qHandles.mpr ⟨cmd, by rw [hq]; simp⟩
  have hpend := hH.queued hd hmem
  -- the worker dies: the command is dropped, its cell stays pending for ever
  have die : b'.w = .dead → b'.g.queue = [] → b'.g.acks = b.g.acks → ItemNext k v hd b' := by
    intro e1 e2 e3
    refine .failed (by rw [e1]; rfl) (by rw [e2]; simp) ⟨⟨.pending, by rw [e3]; exact hpend, by simp⟩, ?_, ?_⟩
    · rw [e2]; simp [qHandles]
    · rw [e1]; simp [WPc.held]
  -- the command stays where it is
  have stay : b'.g.queue = b.g.queue → b'.w.danger k = false → ItemNext k v hd b' := by
    intro e1 e2
    exact .queued ⟨e2, q1, q2, cmd, by rw [e1]; exact hq, hkv, h1, h2⟩
  -- the worker takes the head of the queue
  have take : ∀ (c0 : Cmd) (h0 : Option Nat) (q : List (Cmd × Option Nat)), b.g.queue = (c0, h0) :: q →
      b'.g.queue = q → (b'.w.danger k = c0.danger k) →
      (c0.danger k = true → ∃ c, b'.w.cmd? = some c ∧ c0 = cmdOfPut c ∧ c.h = h0) → ItemNext k v hd b' := by
    intro c0 h0 q hq0 hq' hdw hput
    cases q1 with
    | nil =>
      rw [hq0] at hq
      simp only [List.nil_append, List.cons.injEq, Prod.mk.injEq] at hq
      obtain ⟨⟨rfl, rfl⟩, rfl⟩ := hq
      have hdg := cmdKV_danger hkv
      obtain ⟨c, hc, hce, hch⟩ := hput hdg
      subst hce
      rw [cmdKV_cmdOfPut] at hkv
      simp only [Option.some.injEq, Prod.mk.injEq] at hkv
      exact .held ⟨by rw [hq']; exact h2, c, hc, by rw [hdw]; exact hdg, hkv.1, hkv.2, hch⟩
    | cons x q1' =>
      rw [hq0] at hq
      simp only [List.cons_append, List.cons.injEq] at hq
      obtain ⟨rfl, rfl⟩ := hq
      have hx := h1 (c0, h0) List.mem_cons_self
      exact .queued ⟨by rw [hdw]; exact hx, q1', q2, cmd, hq', hkv, fun p hp => h1 p (List.mem_cons_of_mem _ hp), h2⟩
  cases h
  case recvPut c q hw' hq' =>
    exact take _ _ q hq' rfl (by simp [WPc.danger, danger_cmdOfPut]) (fun _ => ⟨c, rfl, rfl, rfl⟩)
  case recvUpdate id w hh q hw' hq' =>
    exact take _ _ q hq' rfl rfl (fun e => by simp [Cmd.danger] at e)
  case recvDelete k0 hh q hw' hq' =>
    refine take _ _ q hq' rfl rfl (fun e => ?_)
    exfalso
    cases q1 with
    | nil =>
      rw [hq'] at hq
      simp only [List.nil_append, List.cons.injEq, Prod.mk.injEq] at hq
      obtain ⟨⟨rfl, _⟩, _⟩ := hq
      simp [cmdKV] at hkv
    | cons x q1' =>
      rw [hq'] at hq
      simp only [List.cons_append, List.cons.injEq] at hq
      obtain ⟨rfl, _⟩ := hq
      have := h1 _ List.mem_cons_self
      rw [this] at e; cases e
  case recvShutdown hh q hw' hq' =>
    exact absurd rfl (hns.queue (.shutdown, hh) (by rw [hq']; exact List.mem_cons_self))
  case drain cmd0 hh q hw' hq' => exact absurd hw' hns.w
  case storePutPanic => exact die rfl rfl rfl
  case updatePanic => exact die rfl rfl rfl
  case space0Overflow => exact die rfl rfl rfl
  case evSpaceOverflow => exact die rfl rfl rfl
  case emptyOverflow => exact die rfl rfl rfl
  all_goals
    refine stay (by simp [finishCmd, rejectCmd, ttlPut, ttlDelete]) ?_
    first
      | rfl
      | (rw [‹b.w = _›] at hw; exact hw)


theorem itemW_wtrans {b b' : BState} {k v hd : Nat} (hi : ItemW k v hd b) (hH : HInv b) (h : WTrans b b') :
    ItemNext k v hd b' := by
  obtain ⟨hq, c, hc, hdg, hck, hcv, hch⟩ := hi
  have hheld : b.w.held = some hd := by
    rw [← hch]
    cases hw : b.w <;> rw [hw] at hc <;> simp [WPc.cmd?] at hc <;> subst hc <;> rfl
  obtain ⟨hpend, hnq⟩ := hH.held hd hheld
  have hlt := lt_of_getElem?_some hpend
  -- the command goes on
  have go : b'.g.queue = b.g.queue → b'.w.cmd? = some c → b'.w.danger k = true → ItemNext k v hd b' :=
    fun e1 e2 e3 => .held ⟨by rw [e1]; exact hq, c, e2, e3, hck, hcv, hch⟩
  -- the command is answered with a status other than `Accepted`
  have fail : ∀ st, st ≠ .accepted → b'.w = .recv → b'.g.queue = b.g.queue →
      b'.g.acks = setAck b.g.acks (some hd) st → ItemNext k v hd b' := by
    intro st hst e1 e2 e3
    refine .failed (by rw [e1]; rfl) (by rw [e2]; exact hq) ⟨⟨st, by rw [e3]; exact setAck_get_self _ _ hlt, hst⟩, ?_, ?_⟩
    · rw [e2]; exact hnq
    · rw [e1]; simp [WPc.held]
  have die : b'.w = .dead → b'.g.queue = [] → b'.g.acks = b.g.acks → ItemNext k v hd b' := by
    intro e1 e2 e3
    refine .failed (by rw [e1]; rfl) (by rw [e2]; simp) ⟨⟨.pending, by rw [e3]; exact hpend, by simp⟩, ?_, ?_⟩
    · rw [e2]; simp [qHandles]
    · rw [e1]; simp [WPc.held]
  cases h
  case presentExists c0 hw =>
    rw [hw] at hc; simp only [WPc.cmd?, Option.some.injEq] at hc; subst hc
    exact fail (.rejected .keyAlreadyExists) (by simp) rfl rfl (by simp [finishCmd, hch])
  case presentHeavy c0 hw =>
    rw [hw] at hc; simp only [WPc.cmd?, Option.some.injEq] at hc; subst hc
    exact fail (.rejected .tooHeavy) (by simp) rfl rfl (by simp [finishCmd, rejectCmd, hch])
  case initReject c0 e space hw =>
    rw [hw] at hc; simp only [WPc.cmd?, Option.some.injEq] at hc; subst hc
    exact fail (.rejected .noSpace) (by simp) rfl rfl (by simp [finishCmd, rejectCmd, hch])
  case fillReject c0 e s space hw =>
    rw [hw] at hc; simp only [WPc.cmd?, Option.some.injEq] at hc; subst hc
    exact fail (.rejected .noSpace) (by simp) rfl rfl (by simp [finishCmd, rejectCmd, hch])
  case emptyReject c0 hw _ =>
    rw [hw] at hc; simp only [WPc.cmd?, Option.some.injEq] at hc; subst hc
    exact fail (.rejected .noSpace) (by simp) rfl rfl (by simp [finishCmd, rejectCmd, hch])
  case storePutPanic => exact die rfl rfl rfl
  case updatePanic => exact die rfl rfl rfl
  case space0Overflow => exact die rfl rfl rfl
  case evSpaceOverflow => exact die rfl rfl rfl
  case emptyOverflow => exact die rfl rfl rfl
  case storePutPlain c0 hw _ _ =>
    rw [hw] at hc; simp only [WPc.cmd?, Option.some.injEq] at hc; subst hc
    refine .stored { value := c0.v, id := c0.id, expiry := none, soft := false } rfl hq ?_ hcv rfl
    simp [finishCmd, hck]
  case storePutTtl c0 t e hw _ _ =>
    rw [hw] at hc; simp only [WPc.cmd?, Option.some.injEq] at hc; subst hc
    refine .stored { value := c0.v, id := c0.id, expiry := some e, soft := false } rfl hq ?_ hcv rfl
    simp [hck]
  all_goals
    rw [‹b.w = _›] at hc hdg
    first
      | (simp [WPc.cmd?] at hc; done)
      | (simp [WPc.danger] at hdg; done)
      | (simp only [WPc.cmd?, Option.some.injEq] at hc; subst hc
         exact go (by simp) rfl hdg)


theorem QEff.queue_eq {b b' : BState} {pc : CPc} (h : QEff b b' pc) (hp : ∀ cmd, pc ≠ .send cmd) :
    b'.g.queue = b.g.queue := by
  cases h with
  | none hq _ => exact hq
  | spot st hq _ _ => exact hq
  | send cmd he _ _ _ => exact absurd he (hp cmd)

/-- the call of client `j` is still under way, before its write point -/
structure WA1 (k v j p₀ : Nat) (h : List (BState × Act)) (b : BState) : Prop where
  pc : ∃ pc, b.cl[j]? = some pc ∧ pcKV pc = some (k, v)
  others : ∀ (i : Nat) (pc : CPc), b.cl[i]? = some pc → i ≠ j → pc.danger k = false
  queue : ∀ p ∈ b.g.queue, p.1.danger k = false
  w : b.w.danger k = false
  noRet : ∀ q out, ¬ FirstRet h b j p₀ q out
  noIssue : ∀ q r, p₀ < q → ¬ Issued h j r q

/-- the call has returned `Ok(ack hd)` with the cell pending; its put command waits or is being applied -/
structure WA2 (k v j p₀ hd : Nat) (h : List (BState × Act)) (b : BState) : Prop where
  cl : ∀ (i : Nat) (pc : CPc), b.cl[i]? = some pc → pc.danger k = false
  item : ItemQ k v hd b ∨ ItemW k v hd b
  done : JDone h b j p₀
  ret : ∀ q out, FirstRet h b j p₀ q out → out = .ack hd .pending

/-- **where a write of `(k, v)` issued by client `j` at `p₀` stands** -/
inductive WPhase (k v j p₀ : Nat) (h : List (BState × Act)) (b : BState) : Prop where
  | calling : WA1 k v j p₀ h b → WPhase k v j p₀ h b
  | queued (hd : Nat) : WA2 k v j p₀ hd h b → WPhase k v j p₀ h b
  | kept : Kept k v b → WPhase k v j p₀ h b
  | failed : WD k j p₀ h b → WPhase k v j p₀ h b

theorem wA2_step {cfg : Cfg} {now0 : Nat} {seeds : List Nat} {clients : Nat} {h : List (BState × Act)} {b b' : BState}
    {a : Act} {o o' : Oracle} {k v j p₀ hd : Nat} (h2 : WA2 k v j p₀ hd h b) (hp : p₀ < h.length)
    (hr : Reach cfg now0 seeds clients b) (hns : NoShut b) (hns' : NoShut b') (hE : EvInv b k) (hlive : LiveK k b)
    (hs : stepB b a o = .ok (b', o')) (ha : ∀ i r, a = .issue i r → r.danger k = false) :
    WPhase k v j p₀ ((b, a) :: h) b' := by
  have hret' : ∀ q out, FirstRet ((b, a) :: h) b' j p₀ q out → out = .ack hd .pending := by
    intro q out hf
    rcases Nat.lt_or_ge q h.length with hq | hq
    · exact h2.ret q out (firstRet_old hf hq)
    · have : q = h.length := Nat.le_antisymm (firstRet_le hf) hq
      subst this
      exact (jdone_no_new_ret h2.done hs hf).elim
  have hdone' := jdone_step h2.done hp hs
  cases stepB_bact hs with
  | issue i r hidle =>
    refine .queued hd ⟨?_, h2.item, hdone', hret'⟩
    intro i' pc hj
    rcases getElem?_set_cases hj with ⟨_, rfl⟩ | ⟨_, hj⟩
    · exact ha i r rfl
    · exact h2.cl i' pc hj
  | client i _ hc =>
    obtain ⟨pc, pc', hpc, hf, hq, hsp, hstep, hres, hnid⟩ := cact_frame hc hns.flag (fun pc hpc => hns.cl i pc hpc)
    have hpcs := h2.cl i pc hpc
    refine .queued hd ⟨?_, ?_, hdone', hret'⟩
    · intro i' pci hj
      rw [hf.cl] at hj
      rcases getElem?_set_cases hj with ⟨_, rfl⟩ | ⟨_, hj⟩
      · exact pcstep_danger hstep hpcs
      · exact h2.cl i' pci hj
    · -- the queue grows at the tail by a command that is not dangerous
      have hqq : b'.g.queue = b.g.queue ∨ ∃ p, b'.g.queue = b.g.queue ++ [p] ∧ p.1.danger k = false := by
        cases hq with
        | none hq _ => exact Or.inl hq
        | spot st hq _ _ => exact Or.inl hq
        | send cmd he _ hq _ => subst he; exact Or.inr ⟨_, hq, hpcs⟩
      rcases h2.item with ⟨hw, q1, q2, cmd, hqe, hkv, hh1, hh2⟩ | ⟨hqs, c, hc1, hc2, hc3⟩
      · left
        rcases hqq with e | ⟨p, e, hp'⟩
        · exact ⟨by rw [hf.w]; exact hw, q1, q2, cmd, by rw [e]; exact hqe, hkv, hh1, hh2⟩
        · refine ⟨by rw [hf.w]; exact hw, q1, q2 ++ [p], cmd, by rw [e, hqe]; simp, hkv, hh1, ?_⟩
          intro x hx
          rcases List.mem_append.mp hx with hx | hx
          · exact hh2 x hx
          · simp only [List.mem_singleton] at hx; subst hx; exact hp'
      · right
        refine ⟨?_, c, by rw [hf.w]; exact hc1, by rw [hf.w]; exact hc2, hc3⟩
        rcases hqq with e | ⟨p, e, hp'⟩
        · rw [e]; exact hqs
        · rw [e]
          intro x hx
          rcases List.mem_append.mp hx with hx | hx
          · exact hqs x hx
          · simp only [List.mem_singleton] at hx; subst hx; exact hp'
  | worker _ hw =>
    have hH := hinv_reach hr
    have hcl := (wtrans_cl hw).1
    have hnext : ItemNext k v hd b' := by
      rcases h2.item with hi | hi
      · exact itemQ_wtrans hi hH hns hw
      · exact itemW_wtrans hi hH hw
    cases hnext with
    | queued hi => exact .queued hd ⟨by rw [hcl]; exact h2.cl, Or.inl hi, hdone', hret'⟩
    | held hi => exact .queued hd ⟨by rw [hcl]; exact h2.cl, Or.inr hi, hdone', hret'⟩
    | stored e hw' hq' hk hv hsoft =>
      exact .kept ⟨⟨by rw [hcl]; exact h2.cl, hq', hw'⟩, evinv_step_live hr hE hlive hns'.flag hs, e, hk, hv, hsoft⟩
    | failed hw' hq' hst =>
      refine .failed ⟨⟨by rw [hcl]; exact h2.cl, hq', hw'⟩, ?_, Or.inl hdone'⟩
      intro q out hf hd' st e
      have := hret' q out hf
      rw [this] at e
      cases e
      exact hst
  | sweeper vv _ hsw =>
    obtain ⟨e1, e2, e3, _, _, _⟩ := strans_frame hsw
    refine .queued hd ⟨by rw [e2]; exact h2.cl, ?_, hdone', hret'⟩
    unfold ItemQ ItemW
    rw [e1, e3]; exact h2.item
  | consumer g' hg =>
    refine .queued hd ⟨h2.cl, ?_, hdone', hret'⟩
    unfold ItemQ ItemW
    show (_ ∧ ∃ q1 q2 cmd, g'.queue = _ ∧ _) ∨ ((∀ p ∈ g'.queue, _) ∧ _)
    have : g'.queue = b.g.queue := by rw [hg]
    rw [this]; exact h2.item
  | advance d => exact .queued hd ⟨h2.cl, h2.item, hdone', hret'⟩


theorem pcKV_danger {pc : CPc} {k v : Nat} (h : pcKV pc = some (k, v)) : pc.danger k = true := by
  cases pc with
  | start r =>
    cases r with
    | putW k' v' w ttl =>
      simp only [pcKV, Option.some.injEq, Prod.mk.injEq] at h
      simp [CPc.danger, Req.danger, h.1]
    | upsert k' v' w ttl rm =>
      cases v' with
      | none => simp [pcKV] at h
      | some x =>
        simp only [pcKV, Option.some.injEq, Prod.mk.injEq] at h
        simp [CPc.danger, Req.danger, h.1]
    | _ => simp [pcKV] at h
  | putPresent k' v' w ttl =>
    simp only [pcKV, Option.some.injEq, Prod.mk.injEq] at h
    simp [CPc.danger, h.1]
  | idNext k' v' w ttl =>
    simp only [pcKV, Option.some.injEq, Prod.mk.injEq] at h
    simp [CPc.danger, h.1]
  | send cmd => exact cmdKV_danger h
  | upUpdate k' v' w ttl rm =>
    cases v' with
    | none => simp [pcKV] at h
    | some x =>
      simp only [pcKV, Option.some.injEq, Prod.mk.injEq] at h
      simp [CPc.danger, h.1]
  | _ => simp [pcKV] at h

theorem pcKV_tail {pc : CPc} {kv : Nat × Nat} {x : Nat × Option Int} (h : pcKV pc = some kv) (ht : pc.tail? = some x) :
    False := by
  cases pc <;> simp [CPc.tail?] at ht <;> simp [pcKV] at h

theorem pcKV_not_idle {pc : CPc} {k v : Nat} (h : pcKV pc = some (k, v)) : pc ≠ .idle := by
  intro e; subst e; simp [pcKV] at h

theorem upsertW_some (cfg : Cfg) (v : Nat) (w : Option Int) (ttl : Option Nat) : ∃ x, upsertW cfg (some v) w ttl = some x := by
  cases w <;> simp [upsertW]

theorem wA1_step {cfg : Cfg} {now0 : Nat} {seeds : List Nat} {clients : Nat} {h : List (BState × Act)} {b b' : BState}
    {a : Act} {o o' : Oracle} {k v j p₀ : Nat} (h1 : WA1 k v j p₀ h b)
    (hr : Reach cfg now0 seeds clients b) (hns : NoShut b) (hns' : NoShut b') (hsf : SoftInv k b)
    (hE : EvInv b k) (hlive : LiveK k b) (hs : stepB b a o = .ok (b', o'))
    (ha : ∀ i r, a = .issue i r → r.danger k = false) : WPhase k v j p₀ ((b, a) :: h) b' := by
  obtain ⟨pc, hpcj, hkv⟩ := h1.pc
  have hH := hinv_reach hr
  -- returns and issues already in the history
  have hnoRetOld : ∀ q out, FirstRet ((b, a) :: h) b' j p₀ q out → q < h.length → False :=
    fun q out hf hq => h1.noRet q out (firstRet_old hf hq)
  have hnoIssOld : ∀ q r, p₀ < q → Issued ((b, a) :: h) j r q → q < h.length → False :=
    fun q r hq hi hlt => h1.noIssue q r hq ((issued_cons_lt hlt).mp hi)
  -- the action is not client `j`'s: `j` stays where it is, nothing returns, nothing is issued by `j`
  have other : a ≠ .client j → (∀ r, a ≠ .issue j r) → b'.cl[j]? = some pc →
      (∀ (i : Nat) (pci : CPc), b'.cl[i]? = some pci → i ≠ j → pci.danger k = false) →
      (∀ p ∈ b'.g.queue, p.1.danger k = false) → b'.w.danger k = false → WPhase k v j p₀ ((b, a) :: h) b' := by
    intro haj hiss hcl' hoth hq' hw'
    refine .calling ⟨⟨pc, hcl', hkv⟩, hoth, hq', hw', ?_, ?_⟩
    · intro q out hf
      rcases Nat.lt_or_ge q h.length with hq | hq
      · exact hnoRetOld q out hf hq
      · have : q = h.length := Nat.le_antisymm (firstRet_le hf) hq
        subst this
        exact haj (firstRet_new hf).1
    · intro q r hq hi
      rcases Nat.lt_or_ge q h.length with hlt | hge
      · exact hnoIssOld q r hq hi hlt
      · have := issued_lt hi
        simp only [List.length_cons] at this
        have : q = h.length := by omega
        subst this
        exact hiss r (issued_cons_len.mp hi)
  cases stepB_bact hs with
  | issue i r hidle =>
    have hij : i ≠ j := by
      intro e; subst e
      rw [hpcj] at hidle; cases hidle
      exact pcKV_not_idle hkv rfl
    refine other (by simp) (fun r' e => by cases e; exact hij rfl) ?_ ?_ h1.queue h1.w
    · show (b.cl.set i _)[j]? = _
      rw [List.getElem?_set_ne hij]; exact hpcj
    · intro i' pci hj hne
      rcases getElem?_set_cases hj with ⟨_, rfl⟩ | ⟨_, hj⟩
      · exact ha i r rfl
      · exact h1.others i' pci hj hne
  | worker _ hw =>
    exact other (by simp) (by simp) (by rw [(wtrans_cl hw).1]; exact hpcj)
      (by rw [(wtrans_cl hw).1]; exact h1.others) (fun p hp' => h1.queue p ((wtrans_prov hw).1 p hp'))
      (wtrans_danger hw h1.w h1.queue)
  | sweeper vv _ hsw =>
    obtain ⟨e1, e2, e3, _, _, _⟩ := strans_frame hsw
    exact other (by simp) (by simp) (by rw [e2]; exact hpcj) (by rw [e2]; exact h1.others) (by rw [e3]; exact h1.queue)
      (by rw [e1]; exact h1.w)
  | consumer g' hg =>
    exact other (by simp) (by simp) hpcj h1.others (by show ∀ p ∈ g'.queue, _; rw [hg]; exact h1.queue) h1.w
  | advance d => exact other (by simp) (by simp) hpcj h1.others h1.queue h1.w
  | client i _ hc =>
    obtain ⟨pci, pc', hpci, hf, hq, hsp, hstep, hres, hnid⟩ := cact_frame hc hns.flag (fun pc hpc => hns.cl i pc hpc)
    by_cases hij : i ≠ j
    · -- another client
      have hsafe := h1.others i pci hpci hij
      refine other (by simp [hij]) (by simp) (by rw [hf.cl, List.getElem?_set_ne hij]; exact hpcj) ?_ ?_
        (by rw [hf.w]; exact h1.w)
      · intro i' pcx hj hne
        rw [hf.cl] at hj
        rcases getElem?_set_cases hj with ⟨_, rfl⟩ | ⟨_, hj⟩
        · exact pcstep_danger hstep hsafe
        · exact h1.others i' pcx hj hne
      · intro p hp'
        cases hq with
        | none hq _ => rw [hq] at hp'; exact h1.queue p hp'
        | spot st hq _ _ => rw [hq] at hp'; exact h1.queue p hp'
        | send cmd he _ hq _ =>
          rw [hq] at hp'
          rcases List.mem_append.mp hp' with hp' | hp'
          · exact h1.queue p hp'
          · simp only [List.mem_singleton] at hp'
            subst hp' he
            exact hsafe
    · -- client `j` itself
      have hij : i = j := Classical.byContradiction hij
      subst hij
      rw [hpcj] at hpci; cases hpci
      have hcl' : b'.cl[i]? = some pc' := by
        rw [hf.cl]; exact List.getElem?_set_self (List.getElem?_eq_some_iff.mp hpcj).1
      have hoth' : ∀ (i' : Nat) (pcx : CPc), b'.cl[i']? = some pcx → i' ≠ i → pcx.danger k = false := by
        intro i' pcx hj hne
        rw [hf.cl, List.getElem?_set_ne (Ne.symm hne)] at hj
        exact h1.others i' pcx hj hne
      have hw' : b'.w.danger k = false := by rw [hf.w]; exact h1.w
      -- (1) the call goes on, still before its write point
      have goOn : pcKV pc' = some (k, v) → (∀ cmd, pc ≠ .send cmd) → WPhase k v i p₀ ((b, .client i) :: h) b' := by
        intro hkv' hnsend
        refine .calling ⟨⟨pc', hcl', hkv'⟩, hoth', by rw [hq.queue_eq hnsend]; exact h1.queue, hw', ?_, ?_⟩
        · intro q out hfr
          rcases Nat.lt_or_ge q h.length with hq' | hq'
          · exact hnoRetOld q out hfr hq'
          · have : q = h.length := Nat.le_antisymm (firstRet_le hfr) hq'
            subst this
            have := (firstRet_new hfr).2.1
            rw [hcl'] at this; cases this
            exact pcKV_not_idle hkv' rfl
        · intro q r hq' hi
          rcases Nat.lt_or_ge q h.length with hlt | hge
          · exact hnoIssOld q r hq' hi hlt
          · have := issued_lt hi
            simp only [List.length_cons] at this
            have : q = h.length := by omega
            subst this
            cases issued_cons_len.mp hi
      -- nothing dangerous is left once `j` has left the call (or its dangerous part)
      have safe' : pc'.danger k = false → b'.g.queue = b.g.queue → Safe k b' := by
        intro hd' hqe
        refine ⟨?_, by rw [hqe]; exact h1.queue, hw'⟩
        intro i' pcx hj
        by_cases hne : i' = i
        · subst hne; rw [hcl'] at hj; cases hj; exact hd'
        · exact hoth' i' pcx hj hne
      -- (2) the call returns without having written
      have failRet : ∀ out, pc' = .idle → Ret b b' i out → (∀ cmd, pc ≠ .send cmd) →
          (∀ hd st, out = .ack hd st → Stale hd b') → WPhase k v i p₀ ((b, .client i) :: h) b' := by
        intro out hidle hret hnsend hst
        subst hidle
        refine .failed ⟨safe' rfl (hq.queue_eq hnsend), ?_, Or.inl (Or.inl hcl')⟩
        intro q out' hfr
        rcases Nat.lt_or_ge q h.length with hq' | hq'
        · exact (hnoRetOld q out' hfr hq').elim
        · have : q = h.length := Nat.le_antisymm (firstRet_le hfr) hq'
          subst this
          have := res_head hret (firstRet_new hfr).2.2.1
          subst this
          exact hst
      cases hstep
      case startPutBad k' v' w ttl hw0 hret =>
        exact failRet _ rfl hret (by intro _ e; cases e) (by intro _ _ e; cases e)
      case startPut k' v' w ttl hw0 => exact goOn hkv (by intro _ e; cases e)
      case startUpsert k' v' w ttl rm => exact goOn (by cases v' <;> exact hkv) (by intro _ e; cases e)
      case putPresentHit k' v' w ttl hc' hret hqe hae =>
        refine failRet _ rfl hret (by intro _ e; cases e) ?_
        intro hd st e
        cases e
        refine ⟨⟨.rejected .keyAlreadyExists, by rw [hae]; simp, by simp⟩, ?_, ?_⟩
        · rw [hqe]; intro hm; exact Nat.lt_irrefl _ (hH.lt_queued hm)
        · rw [hf.w]; intro e; exact Nat.lt_irrefl _ (hH.lt_held e)
      case putPresentOk k' v' w ttl hc' => exact goOn hkv (by intro _ e; cases e)
      case idNext k' v' w ttl hn =>
        exact goOn (by cases ttl <;> exact hkv) (by intro _ e; cases e)
      case sendDead cmd hwd hret =>
        refine .failed ⟨?_, ?_, Or.inl (Or.inl hcl')⟩
        · refine ⟨?_, ?_, hw'⟩
          · intro i' pcx hj
            by_cases hne : i' = i
            · subst hne; rw [hcl'] at hj; cases hj; rfl
            · exact hoth' i' pcx hj hne
          · cases hq with
            | none hq _ => rw [hq]; exact h1.queue
            | spot st hq _ _ => rw [hq]; exact h1.queue
            | send cmd' _ hnd _ _ => exact absurd hwd hnd
        · intro q out' hfr
          rcases Nat.lt_or_ge q h.length with hq' | hq'
          · exact (hnoRetOld q out' hfr hq').elim
          · have : q = h.length := Nat.le_antisymm (firstRet_le hfr) hq'
            subst this
            have := res_head hret (firstRet_new hfr).2.2.1
            subst this
            intro hd st e; cases e
      case sendOk cmd hwd hret hqe hae =>
        refine .queued b.g.acks.length ⟨?_, Or.inl ⟨hw', b.g.queue, [], cmd, hqe, hkv, h1.queue, by simp⟩, Or.inl hcl', ?_⟩
        · intro i' pcx hj
          by_cases hne : i' = i
          · subst hne; rw [hcl'] at hj; cases hj; rfl
          · exact hoth' i' pcx hj hne
        · intro q out' hfr
          rcases Nat.lt_or_ge q h.length with hq' | hq'
          · exact (hnoRetOld q out' hfr hq').elim
          · have : q = h.length := Nat.le_antisymm (firstRet_le hfr) hq'
            subst this
            exact res_head hret (firstRet_new hfr).2.2.1
      case upAbsentPut k' v' w ttl rm val weight hn hv hu hpos =>
        subst hv
        exact goOn hkv (by intro _ e; cases e)
      case upAbsentPanic k' v' w ttl rm p hn hret =>
        exact failRet _ rfl hret (by intro _ e; cases e) (by intro _ _ e; cases e)
      case upOverflow k' v' w ttl rm e he hx hret =>
        exact failRet _ rfl hret (by intro _ e; cases e) (by intro _ _ e; cases e)
      case upFound k' v' w ttl rm e exp he hx hst =>
        cases v' with
        | none => simp [pcKV] at hkv
        | some v0 =>
          simp only [pcKV, Option.some.injEq, Prod.mk.injEq] at hkv
          obtain ⟨rfl, rfl⟩ := hkv
          have hqe : b'.g.queue = b.g.queue := hq.queue_eq (by intro _ e; cases e)
          have hsafe' := safe' rfl hqe
          cases hso : e.soft with
          | false =>
            exact .kept ⟨hsafe', evinv_step_live hr hE hlive hns'.flag hs,
              { e with expiry := exp, value := (some v0).getD e.value }, by rw [hst, AMap.get?_set_same], rfl, hso⟩
          | true =>
            -- a marked entry with no `Delete` under way: the worker is dead, the call will end in `Err`
            have hdead : b.w = .dead := by
              rcases hsf e he hso with (⟨i', hi'⟩ | ⟨hh, hm⟩ | ⟨hh, hw0⟩) | hd
              · have hne : i' ≠ i := by intro e0; subst e0; rw [hpcj] at hi'; cases hi'
                have := h1.others i' _ hi' hne
                simp [CPc.danger, Cmd.danger] at this
              · have := h1.queue _ hm
                simp [Cmd.danger] at this
              · have := h1.w
                rw [hw0] at this
                simp [WPc.danger] at this
              · exact hd
            obtain ⟨x, hx'⟩ := upsertW_some b.g.cfg v0 w ttl
            refine .failed ⟨hsafe', ?_, Or.inr ⟨by rw [hf.w]; exact hdead, ⟨_, hcl', by simp [CPc.uwSome, hx']⟩, ?_, ?_⟩⟩
            · intro q out' hfr
              rcases Nat.lt_or_ge q h.length with hq' | hq'
              · exact (hnoRetOld q out' hfr hq').elim
              · have : q = h.length := Nat.le_antisymm (firstRet_le hfr) hq'
                subst this
                have := (firstRet_new hfr).2.1
                rw [hcl'] at this; cases this
            · intro q out' hfr
              rcases Nat.lt_or_ge q h.length with hq' | hq'
              · exact hnoRetOld q out' hfr hq'
              · have : q = h.length := Nat.le_antisymm (firstRet_le hfr) hq'
                subst this
                have := (firstRet_new hfr).2.1
                rw [hcl'] at this; cases this
            · intro q r hq' hi
              rcases Nat.lt_or_ge q h.length with hlt | hge
              · exact hnoIssOld q r hq' hi hlt
              · have := issued_lt hi
                simp only [List.length_cons] at this
                have : q = h.length := by omega
                subst this
                cases issued_cons_len.mp hi
      all_goals first
        | (simp [pcKV] at hkv; done)
        | exact (pcKV_tail hkv (by assumption)).elim


/-! ### along a run -/

theorem noShut_run {cfg : Cfg} {now : Nat} {seeds : List Nat} {clients : Nat} {sm : List (Nat × Nat)} {b : BState}
    {h : List (BState × Act)} (hrun : RunH { BState.init cfg now seeds clients with storeShard := sm } h b)
    (hns : NoShutdownReq h) : NoShut b ∧ DeadInv b ∧ ∀ k, SoftInv k b := by
  induction hrun with
  | nil => exact ⟨noShut_init cfg now seeds clients sm, deadInv_init cfg now seeds clients sm,
      fun k => softInv_init cfg now seeds clients sm k⟩
  | @step b1 b' h1 a o o' hrun' hs ih =>
    obtain ⟨h1', h2', h3'⟩ := ih (fun p hp => hns p (List.mem_cons_of_mem _ hp))
    exact ⟨noShut_step h1' hs (fun i => hns (b1, a) List.mem_cons_self i), deadInv_step h2' h1' hs,
      fun k => softInv_step (h3' k) h2' h1' hs⟩

/-- **from the issue of a write of `(k, v)` on**: along a run from the initial state on which no `shutdown()` is
    requested and the worker never enters the eviction loop — the write `req` issued by client `j` at `p₀` in a state in
    which nothing dangerous for `k` is under way and the sweeper is not carrying through the eviction of a revived entry
    of `k`; no other put / delete / value-carrying upsert of `k` issued since; the entry of `k` live in every state since —
    the write is in one of the four phases. -/
theorem wphase_run {cfg : Cfg} {now : Nat} {seeds : List Nat} {clients : Nat} {sm : List (Nat × Nat)} {b : BState}
    {h : List (BState × Act)} {k v j p₀ : Nat} {req : Req}
    (hrun : RunH { BState.init cfg now seeds clients with storeShard := sm } h b) (hns : NoShutdownReq h)
    (hev : ∀ p ∈ h, p.1.w.evicting = false)
    (hW : ∀ s a, At h p₀ (s, a) → a = .issue j req ∧ Safe k s ∧ EvInv s k) (hreq : WritesReq req k v)
    (hnd : ∀ q s i r, p₀ < q → At h q (s, .issue i r) → r.danger k = false)
    (hlive : ∀ q s a, p₀ ≤ q → At h q (s, a) → LiveK k s) (hp : p₀ < h.length) :
    WPhase k v j p₀ h b ∧ EvInv b k := by
  induction hrun with
  | nil => simp at hp
  | @step b1 b' h1 a o o' hrun' hs ih =>
    have hsub : Sub h1 ((b1, a) :: h1) := Sub.cons _ _
    have hns1 : NoShutdownReq h1 := fun p hp' => hns p (List.mem_cons_of_mem _ hp')
    obtain ⟨hn1, hd1, hs1⟩ := noShut_run hrun' hns1
    have hn' := (noShut_run (.step hrun' hs) hns).1
    have hr1 := swB_reach_run (.init sm) hrun'
    have hlast : At ((b1, a) :: h1) h1.length (b1, a) := at_cons_self _ _
    have hev1 : b1.w.evicting = false := hev (b1, a) List.mem_cons_self
    simp only [List.length_cons] at hp
    rcases Nat.lt_or_ge p₀ h1.length with hlt | hge
    · -- the write was issued earlier
      obtain ⟨hph, hE1⟩ := ih hns1 (fun p hp' => hev p (List.mem_cons_of_mem _ hp'))
        (fun s a' hx => hW s a' (hsub.at hx)) (fun q s i r hq hx => hnd q s i r hq (hsub.at hx))
        (fun q s a' hq hx => hlive q s a' hq (hsub.at hx)) hlt
      have hl1 : LiveK k b1 := hlive h1.length b1 a (Nat.le_of_lt hlt) hlast
      have ha : ∀ i r, a = .issue i r → r.danger k = false := by
        intro i r e; subst e; exact hnd h1.length b1 i r hlt hlast
      refine ⟨?_, evinv_step_live hr1 hE1 hl1 hn'.flag hs⟩
      cases hph with
      | calling hA1 => exact wA1_step hA1 hr1 hn1 hn' (hs1 k) hE1 hl1 hs ha
      | queued hd hA2 => exact wA2_step hA2 hlt hr1 hn1 hn' hE1 hl1 hs ha
      | kept hk => exact .kept (kept_step hr1 hk hn1 hn' hev1 hl1 hs ha)
      | failed hD => exact .failed (wD_step hD hlt hn1 hd1 hs ha)
    · -- this action is the issue of the write
      have hpe : p₀ = h1.length := by omega
      subst hpe
      obtain ⟨rfl, hsafe, hE1⟩ := hW b1 a hlast
      have hl1 : LiveK k b1 := hlive h1.length b1 _ (Nat.le_refl _) hlast
      refine ⟨?_, evinv_step_live hr1 hE1 hl1 hn'.flag hs⟩
      cases stepB_bact hs with
      | issue _ _ hidle =>
        have hlen : j < b1.cl.length := (List.getElem?_eq_some_iff.mp hidle).1
        refine .calling ⟨⟨.start req, List.getElem?_set_self hlen, ?_⟩, ?_, hsafe.queue, hsafe.w, ?_, ?_⟩
        · rcases hreq with ⟨w, ttl, rfl⟩ | ⟨w, ttl, rm, rfl⟩ <;> rfl
        · intro i pc hj hne
          rw [show (setClient b1 j (.start req)).cl = b1.cl.set j (.start req) from rfl,
            List.getElem?_set_ne (Ne.symm hne)] at hj
          exact hsafe.cl i pc hj
        · intro q out hf
          have := firstRet_le hf
          have := hf.1
          omega
        · intro q r hq hi
          have := issued_lt hi
          simp only [List.length_cons] at this
          omega


/-- the write was acknowledged `Accepted`: it is in the phase `kept` -/
theorem wphase_accepted {h : List (BState × Act)} {b : BState} {k v j p₀ : Nat} (hph : WPhase k v j p₀ h b)
    (hH : HInv b) (hacc : ∃ q hd st, FirstRet h b j p₀ q (.ack hd st) ∧ b.g.acks[hd]? = some .accepted) : Kept k v b := by
  obtain ⟨q, hd, st, hf, ha⟩ := hacc
  cases hph with
  | calling h1 => exact (h1.noRet q _ hf).elim
  | queued hd' h2 =>
    exfalso
    have := h2.ret q _ hf
    cases this
    have hpend : b.g.acks[hd]? = some .pending := by
      rcases h2.item with ⟨_, q1, q2, cmd, hq, _⟩ | ⟨_, c, hc, _, _, _, hch⟩
      · exact hH.queued hd (mem_qHandles.mpr ⟨cmd, by rw [hq]; simp⟩)
      · refine (hH.held hd ?_).1
        rw [← hch]
        cases hw : b.w <;> rw [hw] at hc <;> simp [WPc.cmd?] at hc <;> subst hc <;> rfl
    rw [hpend] at ha; cases ha
  | kept hk => exact hk
  | failed hD =>
    exfalso
    obtain ⟨⟨st', hs', hne⟩, _, _⟩ := hD.noAcc q _ hf hd st rfl
    rw [hs'] at ha
    cases ha
    exact hne rfl

/-- the `n`-th action of a run splits its history -/
theorem runH_at_append {b0 b : BState} {h : List (BState × Act)} (hrun : RunH b0 h b) {n : Nat} {x : BState × Act}
    (hx : At h n x) : ∃ h1 h0, h = h1 ++ x :: h0 ∧ h0.length = n ∧ RunH b0 h0 x.1 := by
  induction hrun with
  | nil => exact absurd hx.lt (by simp)
  | @step b1 b' h1' a1 o o' hrun' hs ih =>
    rcases at_cons.mp hx with ⟨rfl, rfl⟩ | hx1
    · exact ⟨[], h1', rfl, rfl, hrun'⟩
    · obtain ⟨h2, h0, e, hl, hr0⟩ := ih hx1
      exact ⟨(b1, a1) :: h2, h0, by rw [e]; rfl, hl, hr0⟩

theorem sub_append (h0 : List (BState × Act)) : ∀ h1 : List (BState × Act), Sub h0 (h1 ++ h0)
  | [] => Sub.refl h0
  | _ :: h1 => (sub_append h0 h1).trans (Sub.cons _ _)

/-- a return recorded in a run is a return of the run up to any later action -/
theorem returned_restrict {h0 h : List (BState × Act)} {b s₁ : BState} {a₁ : Act} {i q : Nat} {out : Out}
    (hsub : Sub h0 h) (hat : At h h0.length (s₁, a₁)) (hr : Returned h b i q out) (hq : q < h0.length) :
    Returned h0 s₁ i q out := by
  obtain ⟨s, s', hx, hst, h1, h2⟩ := hr
  refine ⟨s, s', (hsub q _).mpr ⟨hq, hx⟩, ?_, h1, h2⟩
  rcases hst with ⟨e, _⟩ | ⟨a', ha'⟩
  · have := hat.lt; omega
  · by_cases hq1 : q + 1 = h0.length
    · rw [hq1] at ha'
      have := ha'.inj hat
      cases this
      exact Or.inl ⟨hq1, rfl⟩
    · exact Or.inr ⟨a', (hsub _ _).mpr ⟨by omega, ha'⟩⟩

theorem firstRet_restrict {h0 h : List (BState × Act)} {b s₁ : BState} {a₁ : Act} {j p₀ q : Nat} {out : Out}
    (hsub : Sub h0 h) (hat : At h h0.length (s₁, a₁)) (hf : FirstRet h b j p₀ q out) (hq : q < h0.length) :
    FirstRet h0 s₁ j p₀ q out :=
  ⟨hf.1, returned_restrict hsub hat hf.2.1 hq, fun q' r h1 h2 hi => hf.2.2 q' r h1 h2 (hi.sub hsub)⟩


/-! ### stability of an answer; the eviction invariant from the birth of an incarnation -/

/-- an answer recorded in a state of the run is still there at its end -/
theorem acks_stable_run {cfg : Cfg} {now : Nat} {seeds : List Nat} {clients : Nat} {sm : List (Nat × Nat)} {b : BState}
    {h : List (BState × Act)} (hrun : RunH { BState.init cfg now seeds clients with storeShard := sm } h b)
    {n hd : Nat} {s : BState} {a : Act} {st : Status} (hx : At h n (s, a)) (hs : s.g.acks[hd]? = some st)
    (hne : st ≠ .pending) : b.g.acks[hd]? = some st := by
  induction hrun with
  | nil => exact absurd hx.lt (by simp)
  | @step b1 b' h1 a1 o o' hrun' hst ih =>
    have hH := hinv_reach (swB_reach_run (.init sm) hrun')
    have hb1 : b1.g.acks[hd]? = some st := by
      rcases at_cons.mp hx with ⟨_, e⟩ | hx1
      · cases e; exact hs
      · exact ih hx1
    exact (C11_layerB_acks_grow hH hst).2 hd st hb1 hne

/-- the `store.put` of a put of `k` establishes `EvInv` for `k`: the sweeper cannot be carrying through the eviction of
    the key id that is being born -/
theorem evinv_birth {cfg : Cfg} {now0 : Nat} {seeds : List Nat} {clients : Nat} {b b' : BState} {a : Act} {o o' : Oracle}
    {k : Nat} (hr : Reach cfg now0 seeds clients b) (hsh : b.g.shutting = false) (hs : stepB b a o = .ok (b', o'))
    (hp : isPutAny k (b, a)) : EvInv b' k := by
  obtain ⟨v, id, hput⟩ := hp
  have hj := bbij_reach hr hsh
  obtain ⟨exp, he⟩ := put_effect hs hput
  obtain ⟨ha, c, _, hw, _, _, hid, _⟩ := hput
  simp only at ha hw hid
  subst ha
  have hsw := (swB_other_step hs (fun v hv => by cases hv)).1
  intro e' n hk' hev'
  rw [he] at hk'; cases hk'
  exfalso
  rw [eview_congr hsw] at hev'
  obtain ⟨sh, rest, wk, hsub⟩ := eview_some.mp hev'
  simp only at hsub
  have hev : b.sw.evicting? = some (id, wk) := by
    rcases hsub with hsub | hsub <;> rw [hsub] <;> rfl
  have h0 := (hj.sEvictStale id wk hev).2.1
  have : 0 < occ b id := by rw [← hid]; simp [occ, WPc.freshId?, hw]
  omega

/-- **`EvInv` from the birth of an incarnation**: if the `c`-th action is a `store.put` of `k` (that stores) and in every
    state after it the entry of `k` is live, `EvInv` holds for `k` at the end of the run -/
theorem evinv_run_born {cfg : Cfg} {now : Nat} {seeds : List Nat} {clients : Nat} {sm : List (Nat × Nat)} {b : BState}
    {h : List (BState × Act)} {k c : Nat} (hrun : RunH { BState.init cfg now seeds clients with storeShard := sm } h b)
    (hns : NoShutdownReq h) (hc : c < h.length) (hb : ∀ x, At h c x → isPutAny k x)
    (hl : ∀ q s a, c < q → At h q (s, a) → LiveK k s) : EvInv b k := by
  induction hrun with
  | nil => simp at hc
  | @step b1 b' h1 a o o' hrun' hs ih =>
    have hsub : Sub h1 ((b1, a) :: h1) := Sub.cons _ _
    have hns1 : NoShutdownReq h1 := fun p hp' => hns p (List.mem_cons_of_mem _ hp')
    have hn1 := (noShut_run hrun' hns1).1
    have hn' := (noShut_run (.step hrun' hs) hns).1
    have hr1 := swB_reach_run (.init sm) hrun'
    have hlast : At ((b1, a) :: h1) h1.length (b1, a) := at_cons_self _ _
    simp only [List.length_cons] at hc
    rcases Nat.lt_or_ge c h1.length with hlt | hge
    · have hE1 := ih hns1 hlt (fun x hx => hb x (hsub.at hx)) (fun q s a' hq hx => hl q s a' hq (hsub.at hx))
      exact evinv_step_live hr1 hE1 (hl h1.length b1 a hlt hlast) hn'.flag hs
    · have : c = h1.length := by omega
      subst this
      exact evinv_birth hr1 hn1.flag hs (hb _ hlast)


/-! ## 9  where a dangerous item comes from: the bridge from "operations on the key one after another" to `Safe` -/

/-- the command with handle `hd` was sent by a put / delete / value-carrying upsert of `k` that has returned
    `Ok(ack hd)`, pending -/
def Traced (k : Nat) (h : List (BState × Act)) (b : BState) (hd : Nat) : Prop :=
  ∃ i p r, Issued h i r p ∧ r.danger k = true ∧ JDone h b i p ∧ ∀ q out, FirstRet h b i p q out → out = .ack hd .pending

theorem traced_step {h : List (BState × Act)} {b b' : BState} {a : Act} {o o' : Oracle} {k hd : Nat}
    (ht : Traced k h b hd) (hs : stepB b a o = .ok (b', o')) : Traced k ((b, a) :: h) b' hd := by
  obtain ⟨i, p, r, hi, hd', hdone, hret⟩ := ht
  have hp := issued_lt hi
  refine ⟨i, p, r, (issued_cons_lt hp).mpr hi, hd', jdone_step hdone hp hs, ?_⟩
  intro q out hf
  rcases Nat.lt_or_ge q h.length with hq | hq
  · exact hret q out (firstRet_old hf hq)
  · have : q = h.length := Nat.le_antisymm (firstRet_le hf) hq
    subst this
    exact (jdone_no_new_ret hdone hs hf).elim

/-- **Provenance.**  Every dangerous item for `k` belongs to a call of the history that is not yet answered: a client at a
    dangerous position is inside a dangerous call it began at some `p` and has not returned from; a dangerous command in
    the queue or in the worker's hands was sent by a dangerous call that returned `Ok(ack hd)` with `hd` its handle. -/
structure Prov (k : Nat) (h : List (BState × Act)) (b : BState) : Prop where
  cl : ∀ (i : Nat) (pc : CPc), b.cl[i]? = some pc → pc.danger k = true →
    ∃ p r, Issued h i r p ∧ r.danger k = true ∧ (∀ q r', p < q → ¬ Issued h i r' q) ∧ ∀ q out, ¬ FirstRet h b i p q out
  queue : ∀ x ∈ b.g.queue, x.1.danger k = true → ∃ hd, x.2 = some hd ∧ Traced k h b hd
  w : b.w.danger k = true → ∃ hd, b.w.held = some hd ∧ Traced k h b hd

/-- a worker action that does not take a command keeps a dangerous position's handle -/
theorem wtrans_danger_held {b b' : BState} {k : Nat} (h : WTrans b b') (hnr : b.w ≠ .recv) (hd : b'.w.danger k = true) :
    b.w.danger k = true ∧ b'.w.held = b.w.held := by
  cases h
  case recvPut hw _ => exact absurd hw hnr
  case recvUpdate hw _ => exact absurd hw hnr
  case recvDelete hw _ => exact absurd hw hnr
  case recvShutdown hw _ => exact absurd hw hnr
  all_goals first
    | (simp [finishCmd, rejectCmd, WPc.danger] at hd; done)
    | (rw [‹b.w = _›]; exact ⟨hd, rfl⟩)

theorem prov_step {h : List (BState × Act)} {b b' : BState} {a : Act} {o o' : Oracle} {k : Nat} (hi : Prov k h b)
    (hns : NoShut b) (hs : stepB b a o = .ok (b', o')) : Prov k ((b, a) :: h) b' := by
  -- a client that does not act keeps its data
  have keep : ∀ (i : Nat) (pc : CPc), b.cl[i]? = some pc → pc.danger k = true → a ≠ .client i → (∀ r, a ≠ .issue i r) →
      ∃ p r, Issued ((b, a) :: h) i r p ∧ r.danger k = true ∧ (∀ q r', p < q → ¬ Issued ((b, a) :: h) i r' q) ∧
        ∀ q out, ¬ FirstRet ((b, a) :: h) b' i p q out := by
    intro i pc hpc hd hac hai
    obtain ⟨p, r, hiss, hrd, hno, hnr⟩ := hi.cl i pc hpc hd
    have hp := issued_lt hiss
    refine ⟨p, r, (issued_cons_lt hp).mpr hiss, hrd, ?_, ?_⟩
    · intro q r' hq hi'
      rcases Nat.lt_or_ge q h.length with hlt | hge
      · exact hno q r' hq ((issued_cons_lt hlt).mp hi')
      · have := issued_lt hi'
        simp only [List.length_cons] at this
        have : q = h.length := by omega
        subst this
        exact hai r' (issued_cons_len.mp hi')
    · intro q out hf
      rcases Nat.lt_or_ge q h.length with hlt | hge
      · exact hnr q out (firstRet_old hf hlt)
      · have : q = h.length := Nat.le_antisymm (firstRet_le hf) hge
        subst this
        exact hac (firstRet_new hf).1
  have hqold : ∀ x ∈ b.g.queue, x.1.danger k = true → ∃ hd, x.2 = some hd ∧ Traced k ((b, a) :: h) b' hd := by
    intro x hx hd
    obtain ⟨hd', e, ht⟩ := hi.queue x hx hd
    exact ⟨hd', e, traced_step ht hs⟩
  cases stepB_bact hs with
  | issue i r hidle =>
    refine ⟨?_, hqold, fun hd => by obtain ⟨hd', e, ht⟩ := hi.w hd; exact ⟨hd', e, traced_step ht hs⟩⟩
    intro i' pc hj hd
    rcases getElem?_set_cases hj with ⟨rfl, rfl⟩ | ⟨hne, hj⟩
    · refine ⟨h.length, r, issued_cons_len.mpr rfl, hd, ?_, ?_⟩
      · intro q r' hq hi'
        have := issued_lt hi'
        simp only [List.length_cons] at this
        omega
      · intro q out hf
        have := firstRet_le hf
        have := hf.1
        omega
    · exact keep i' pc hj hd (by simp) (by intro r' e; cases e; exact hne rfl)
  | client i _ hc =>
    obtain ⟨pc, pc', hpc, hf, hq, hsp, hstep, hres, hnid⟩ := cact_frame hc hns.flag (fun pc hpc => hns.cl i pc hpc)
    refine ⟨?_, ?_, fun hd => by
      rw [hf.w] at hd ⊢; obtain ⟨hd', e, ht⟩ := hi.w hd; exact ⟨hd', e, traced_step ht hs⟩⟩
    · intro i' pcx hj hd
      rw [hf.cl] at hj
      rcases getElem?_set_cases hj with ⟨rfl, rfl⟩ | ⟨hne, hj⟩
      · -- the acting client: still inside its dangerous call
        have hdpc : pc.danger k = true := by
          cases hdp : pc.danger k with
          | true => rfl
          | false => rw [pcstep_danger hstep hdp] at hd; cases hd
        obtain ⟨p, r, hiss, hrd, hno, hnr⟩ := hi.cl i' pc hpc hdpc
        have hp := issued_lt hiss
        refine ⟨p, r, (issued_cons_lt hp).mpr hiss, hrd, ?_, ?_⟩
        · intro q r' hq' hi'
          rcases Nat.lt_or_ge q h.length with hlt | hge
          · exact hno q r' hq' ((issued_cons_lt hlt).mp hi')
          · have := issued_lt hi'
            simp only [List.length_cons] at this
            have : q = h.length := by omega
            subst this
            cases issued_cons_len.mp hi'
        · intro q out hfr
          rcases Nat.lt_or_ge q h.length with hlt | hge
          · exact hnr q out (firstRet_old hfr hlt)
          · have : q = h.length := Nat.le_antisymm (firstRet_le hfr) hge
            subst this
            have hidle := (firstRet_new hfr).2.1
            rw [hf.cl, List.getElem?_set_self (List.getElem?_eq_some_iff.mp hpc).1] at hidle
            cases hidle
            cases hd
      · exact keep i' pcx hj hd (by intro e; cases e; exact hne rfl) (by simp)
    · intro x hx hd
      cases hq with
      | none hq _ => rw [hq] at hx; exact hqold x hx hd
      | spot st hq _ _ => rw [hq] at hx; exact hqold x hx hd
      | send cmd he hwd hq _ =>
        rw [hq] at hx
        rcases List.mem_append.mp hx with hx | hx
        · exact hqold x hx hd
        · simp only [List.mem_singleton] at hx
          subst hx he
          obtain ⟨p, r, hiss, hrd, hno, hnr⟩ := hi.cl i _ hpc hd
          have hp := issued_lt hiss
          -- the call returns `Ok(ack)` with the new handle
          have hidle : pc' = .idle ∧ Ret b b' i (.ack b.g.acks.length .pending) := by
            cases hstep
            case sendDead hwd' _ => exact absurd hwd' hwd
            case sendOk _ hret _ _ => exact ⟨rfl, hret⟩
            all_goals tail_absurd
          obtain ⟨rfl, hret⟩ := hidle
          have hcl' : b'.cl[i]? = some .idle := by
            rw [hf.cl]; exact List.getElem?_set_self (List.getElem?_eq_some_iff.mp hpc).1
          refine ⟨b.g.acks.length, rfl, i, p, r, (issued_cons_lt hp).mpr hiss, hrd, Or.inl hcl', ?_⟩
          intro q out hfr
          rcases Nat.lt_or_ge q h.length with hlt | hge
          · exact (hnr q out (firstRet_old hfr hlt)).elim
          · have : q = h.length := Nat.le_antisymm (firstRet_le hfr) hge
            subst this
            exact res_head hret (firstRet_new hfr).2.2.1
  | worker _ hw =>
    have hcl := (wtrans_cl hw).1
    refine ⟨?_, fun x hx hd => hqold x ((wtrans_prov hw).1 x hx) hd, ?_⟩
    · intro i pc hj hd
      rw [hcl] at hj
      exact keep i pc hj hd (by simp) (by simp)
    · intro hd
      by_cases hrecv : b.w = .recv
      · cases hw
        case recvPut c q hw' hq' =>
          have hx : (cmdOfPut c, c.h) ∈ b.g.queue := by rw [hq']; exact List.mem_cons_self
          obtain ⟨hd', e, ht⟩ := hqold _ hx (by rw [danger_cmdOfPut]; exact hd)
          exact ⟨hd', e, ht⟩
        case recvDelete k0 hh q hw' hq' =>
          have hx : (Cmd.delete k0, hh) ∈ b.g.queue := by rw [hq']; exact List.mem_cons_self
          obtain ⟨hd', e, ht⟩ := hqold _ hx hd
          exact ⟨hd', e, ht⟩
        all_goals first
          | (simp [WPc.danger, finishCmd, rejectCmd] at hd; done)
          | (rw [hrecv] at *; simp_all)
      · obtain ⟨hdb, hheld⟩ := wtrans_danger_held hw hrecv hd
        obtain ⟨hd', e, ht⟩ := hi.w hdb
        exact ⟨hd', by rw [hheld]; exact e, traced_step ht hs⟩
  | sweeper vv _ hsw =>
    obtain ⟨e1, e2, e3, _, _, _⟩ := strans_frame hsw
    refine ⟨?_, by rw [e3]; exact hqold, fun hd => by
      rw [e1] at hd ⊢; obtain ⟨hd', e, ht⟩ := hi.w hd; exact ⟨hd', e, traced_step ht hs⟩⟩
    intro i pc hj hd
    rw [e2] at hj
    exact keep i pc hj hd (by simp) (by simp)
  | consumer g' hg =>
    refine ⟨fun i pc hj hd => keep i pc hj hd (by simp) (by simp), ?_, fun hd => by
      obtain ⟨hd', e, ht⟩ := hi.w hd; exact ⟨hd', e, traced_step ht hs⟩⟩
    show ∀ x ∈ g'.queue, _
    have : g'.queue = b.g.queue := by rw [hg]
    rw [this]; exact hqold
  | advance d =>
    exact ⟨fun i pc hj hd => keep i pc hj hd (by simp) (by simp), hqold, fun hd => by
      obtain ⟨hd', e, ht⟩ := hi.w hd; exact ⟨hd', e, traced_step ht hs⟩⟩

theorem prov_run {cfg : Cfg} {now : Nat} {seeds : List Nat} {clients : Nat} {sm : List (Nat × Nat)} {b : BState}
    {h : List (BState × Act)} (k : Nat) (hrun : RunH { BState.init cfg now seeds clients with storeShard := sm } h b)
    (hns : NoShutdownReq h) : Prov k h b := by
  induction hrun with
  | nil =>
    refine ⟨?_, ?_, ?_⟩
    · intro i pc hpc hd
      have := List.mem_of_getElem? hpc
      simp only [BState.init, List.mem_replicate] at this
      rw [this.2] at hd; cases hd
    · intro x hx; simp [BState.init, State.init] at hx
    · intro hd; simp [BState.init, WPc.danger] at hd
  | @step b1 b' h1 a o o' hrun' hs ih =>
    have hns1 : NoShutdownReq h1 := fun p hp' => hns p (List.mem_cons_of_mem _ hp')
    exact prov_step (ih hns1) (noShut_run hrun' hns1).1 hs

/-- the call client `i` began at `p` has been ANSWERED as of the end of the history: it has returned, and if it returned
    `Ok(ack hd)` the cell `hd` is no longer pending (answered on the spot, or by the worker's completion of the command) -/
def AnsweredNow (h : List (BState × Act)) (b : BState) (i p : Nat) : Prop :=
  ∃ q out, FirstRet h b i p q out ∧ ∀ hd st, out = .ack hd st → ∃ st', b.g.acks[hd]? = some st' ∧ st' ≠ .pending

/-- **the bridge**: if every put / delete / value-carrying upsert of `k` begun so far has been answered, nothing
    dangerous for `k` is under way -/
theorem safe_of_answered {h : List (BState × Act)} {b : BState} {k : Nat} (hp : Prov k h b) (hH : HInv b)
    (hans : ∀ p i r, Issued h i r p → r.danger k = true → AnsweredNow h b i p) : Safe k b := by
  have traced_absurd : ∀ hd, Traced k h b hd → b.g.acks[hd]? = some .pending → False := by
    rintro hd ⟨i, p, r, hiss, hrd, _, hret⟩ hpend
    obtain ⟨q, out, hf, hack⟩ := hans p i r hiss hrd
    obtain ⟨st', hs', hne⟩ := hack hd .pending (hret q out hf)
    rw [hpend] at hs'; cases hs'; exact hne rfl
  refine ⟨?_, ?_, ?_⟩
  · intro i pc hpc
    cases hd : pc.danger k with
    | false => rfl
    | true =>
      obtain ⟨p, r, hiss, hrd, _, hnr⟩ := hp.cl i pc hpc hd
      obtain ⟨q, out, hf, _⟩ := hans p i r hiss hrd
      exact (hnr q out hf).elim
  · intro x hx
    cases hd : x.1.danger k with
    | false => rfl
    | true =>
      obtain ⟨hd', e, ht⟩ := hp.queue x hx hd
      exact (traced_absurd hd' ht (hH.queued hd' (mem_qHandles.mpr ⟨x.1, by rw [← e]; exact hx⟩))).elim
  · cases hd : b.w.danger k with
    | false => rfl
    | true =>
      obtain ⟨hd', e, ht⟩ := hp.w hd
      exact (traced_absurd hd' ht (hH.held hd' e).1).elim

end B
end Cached
