/-
  C18 at ACTION granularity (Layer B, `CachedModel/LayerB.lean`), TERMINATION:
  "every call returns" — `C18_layerB_no_deadlock` (NoDeadlock.lean) says that at every reachable state that is not
  quiescent SOME internal action is enabled; this file shows that internal actions cannot go on for ever, so that
  every schedule of the threads of the cache, fair or not, ends — within `mu b` actions — in a quiescent state: every
  client is back at `.idle` (its call has returned), both queues are drained, the worker waits for a command, the
  sweeper for its next tick.

  Definitions
    * `mu : BState → Nat`  (TerminatesLemmas.lean) — the measure, a plain SUM of four parts (no lexicographic
      weights): an action lowers the part of its own thread and raises no other part — with one exception that is paid
      for: an event a client hands to the consumer raises `|bufq|` by one and lowers the client's part by two:
        - clients    `Σ tm_own pc`: own actions left in the call, plus one for every event the call may still hand to
                     the consumer (`pool.add` of a full buffer, `buf.send_shutdown`).  A multi-key read: FIVE per key
                     still to do — every load of the shutdown flag is an action of its own (`CPc.mgetFlag`): the outer
                     load of `MultiGetIterator::next`, the load inside `get`, then the lookup, the access record and
                     the buffer it may hand over (`multi_get` has one outer load only, at its entry: four per key) —
                     `start (mget ks) ↦ 5·|ks| + 3`, outer load `↦ 5·|ks| + 2`, `get`'s load `↦ 5·|ks| + 1` (`ks` with
                     the key in hand), lookup `↦ 5·|rest| + 5`, `pool.add` `↦ 5·|rest| + 4`;
        - consumer   `|bufq|`: every consumer action takes at least one event;
        - sweeper    `tm_sw`: four actions per entry of the shard not yet visited, plus `sweep.end`;
        - worker     `tm_Wf q u w = q·(10 + 5·(u + q + ins)) + cur`, where
                       `q`   = commands still to be received = `|queue|` + clients that may still send one (`tm_cmds`),
                       `u`   = ids the eviction loop can still pop = `|kw|` + STALE sample entries (`tm_stale`: sampled,
                               then taken out of `kw` by the sweeper or by `shutdown()` — a round of the loop that pops
                               one of them removes nothing from `kw`, but it uses the entry up),
                       `ins` = 1 while the command in hand may still charge an id,
                       `cur` = actions left in the command in hand: `5·u + c`, every round of the eviction loop
                               `kw.remove → wu.sub → store.remove → wu.space → sample.fill` (5 actions) lowers `u`.
                     `u + q + ins` bounds `u` at every later time (a command charges at most one id), so `10 + 5·(…)`
                     bounds the actions of each command to come.  (The precedent: the fuel `5·|kw| + 12` of
                     `worker_refines` in Refine.lean — there the worker runs alone and no entry is ever stale.)
    * `InternalRun b l b'`  — `l` is a list of (action, oracle) pairs, each INTERNAL at the state it is taken in
                              (`Act.isInternal`: everything but `issue`, `advance` and the sweeper's timer tick at
                              `sweep.begin`) and each answered `.ok`, leading from `b` to `b'`;
      `ClockedRun b l b'`   — the same with clock moves (`advance`) allowed in between; `internalActs l` counts the others
    * `InternalStuck b`     — no internal action is enabled at `b`, for any oracle (the run is MAXIMAL)

  Theorems (every reachable state of every interleaving, any number of clients, any map of keys to store shards)
    * `C18_layerB_internal_step_decreases`      an internal action that answers `.ok` lowers `mu` strictly
                                                (`tm_mu_step`: at every state with the invariant `tm_VND`)
    * `C18_layerB_internal_runs_are_bounded`    `InternalRun b l b' → |l| + mu b' ≤ mu b`; in particular `|l| ≤ mu b`
    * `C18_layerB_clocked_runs_are_bounded`     … and with clock moves in between: they do not change `mu`
    * `C18_layerB_stuck_iff_quiescent`          at a reachable state: no internal action enabled ↔ `Quiescent`
    * `C18_layerB_every_call_returns`           every MAXIMAL internal run from a reachable state has at most `mu b`
                                                actions and ends in a `Quiescent` state; every client is idle there.
                                                NO exception is forced by the model.
    * `C18_layerB_call_returns`                 per call: a client inside a call at `b` is idle at the end
    * `C18_layerB_quiescence_is_reached`        such a maximal run exists from every reachable state (so the statement
                                                is not vacuous), and EVERY internal run can be extended to one
                                                (`C18_layerB_every_run_extends_to_quiescence`)
    * non-vacuity: `C18_layerB_terminates_witness` — a reachable state inside a put WITH EVICTION (worker at `kw.remove`
      with the victim in hand, a second client at `cmd.send`, a third inside a `get`): `mu = 40`, and a maximal internal
      run of 17 actions that ends quiescent (`mu = 0`) with the three clients idle (kernel-checked, `decide`);
      an `example` with a STALE sample entry (the sweeper takes the victim's id out of `kw` before the worker's
      `kw.remove`): `tm_stale = 1`, `mu = 14`, quiescent after 9 actions

  Hypotheses beyond the wording of the property
    * for the DECREASE and the BOUND: none but reachability (used for one invariant, `tm_vnd_reach`: the sample the
      worker carries, the victim in hand included, has pairwise distinct ids)
    * for "stuck → quiescent" (`C18_layerB_no_deadlock`): `seeds ≠ []`, `0 < cfg.cmdCap`, `0 < cfg.bufChanCap`,
      `0 < cfg.poolSize` — as in NoDeadlock.lean (each asserted by the crate's builder / a constant of the crate)

  Nothing false was found: no internal action of the model can be repeated for ever (no action answers `.ok` without
  moving its thread; the one retry loop, the eviction loop of `create_space`, uses up an id of `kw ∪ sample` per round).

  Fairness.  None is needed for this statement: EVERY schedule of internal actions — fair or not, whatever the oracles —
  is finite and, if it cannot be extended, ends quiescent.  What the statement does not cover is an environment that
  never stops: a NEW request (`issue`) or a sweeper tick raises `mu` (by a finite amount), so with infinitely many of
  them the cache as a whole keeps working, and one particular `cmd.send` can be overtaken again and again by other
  senders (strong fairness, see `C18_layerB_put_returns` in NoDeadlock.lean).  Clock moves do not matter
  (`C18_layerB_clocked_runs_are_bounded`).
-/
import CachedProofs.LayerB.TerminatesLemmas

namespace Cached
namespace B

/-! ## 1  every internal action lowers the measure -/

/-- **C18 — an internal action lowers the measure.**  At every reachable state, whatever thread takes whatever
    internal action (a client's, the worker's, the consumer's, the sweeper's inside a sweep) with whatever oracle: if
    the action is enabled, `mu` goes down strictly. -/
theorem C18_layerB_internal_step_decreases {cfg : Cfg} {now : Nat} {seeds : List Nat} {clients : Nat}
    {b b' : BState} {a : Act} {o o' : Oracle} (hr : Reach cfg now seeds clients b) (hi : a.isInternal b = true)
    (hs : stepB b a o = .ok (b', o')) : mu b' < mu b :=
  tm_mu_step (tm_vnd_reach hr) hi hs

/-- a clock move does not change the measure -/
theorem mu_advance (b : BState) (d : Nat) : mu { b with g := { b.g with now := b.g.now + d } } = mu b := rfl

/-! ## 2  internal runs are bounded -/

/-- a run of internal actions, each answered `.ok` -/
inductive InternalRun : BState → List (Act × Oracle) → BState → Prop where
  | nil (b : BState) : InternalRun b [] b
  | cons {b b1 b' : BState} {a : Act} {o o1 : Oracle} {l : List (Act × Oracle)} :
      a.isInternal b = true → stepB b a o = .ok (b1, o1) → InternalRun b1 l b' → InternalRun b ((a, o) :: l) b'

/-- the executable form of `InternalRun` -/
def internalRun? : BState → List (Act × Oracle) → Option BState
  | b, [] => some b
  | b, (a, o) :: l =>
    if a.isInternal b then
      match stepB b a o with
      | .ok (b1, _) => internalRun? b1 l
      | .error _ => none
    else none

theorem internalRun?_sound : ∀ (l : List (Act × Oracle)) {b b' : BState}, internalRun? b l = some b' →
    InternalRun b l b' := by
  intro l
  induction l with
  | nil =>
    intro b b' h
    simp only [internalRun?, Option.some.injEq] at h
    subst h
    exact .nil b
  | cons x l ih =>
    intro b b' h
    obtain ⟨a, o⟩ := x
    simp only [internalRun?] at h
    split at h
    · rename_i hi
      split at h
      · rename_i b1 o1 hs
        exact .cons hi hs (ih h)
      · cases h
    · cases h

/-- an internal run is a run: it stays among the reachable states, and `runB` computes it -/
theorem InternalRun.reach {cfg : Cfg} {now : Nat} {seeds : List Nat} {clients : Nat} {b b' : BState}
    {l : List (Act × Oracle)} (hrun : InternalRun b l b') (hr : Reach cfg now seeds clients b) :
    Reach cfg now seeds clients b' := by
  induction hrun with
  | nil b => exact hr
  | cons _ hs _ ih => exact ih (.step hr hs)

theorem InternalRun.runB {b b' : BState} {l : List (Act × Oracle)} (hrun : InternalRun b l b') :
    runB b l = .ok b' := by
  induction hrun with
  | nil b => rfl
  | cons _ hs _ ih => simp only [Cached.B.runB, hs]; exact ih

theorem InternalRun.append {b b1 b2 : BState} {l1 l2 : List (Act × Oracle)} (h1 : InternalRun b l1 b1)
    (h2 : InternalRun b1 l2 b2) : InternalRun b (l1 ++ l2) b2 := by
  induction h1 with
  | nil b => exact h2
  | cons hi hs _ ih => exact .cons hi hs (ih h2)

/-- **C18 — internal runs are bounded by the measure.**  From a reachable state `b`, every list of (action, oracle)
    pairs all of which are internal at the state they are taken in and all of which are answered `.ok` in sequence is at
    most `mu b` long; more precisely its length and the measure of the state it ends in add up to at most `mu b`. -/
theorem C18_layerB_internal_runs_are_bounded {cfg : Cfg} {now : Nat} {seeds : List Nat} {clients : Nat}
    {b b' : BState} {l : List (Act × Oracle)} (hr : Reach cfg now seeds clients b) (hrun : InternalRun b l b') :
    l.length + mu b' ≤ mu b ∧ l.length ≤ mu b := by
  have key : l.length + mu b' ≤ mu b := by
    induction hrun with
    | nil b => simp
    | @cons b b1 b' a o o1 l hi hs _ ih =>
      have h1 := C18_layerB_internal_step_decreases hr hi hs
      have h2 := ih (.step hr hs)
      simp only [List.length_cons]
      omega
  exact ⟨key, by omega⟩

/-- a run of internal actions and clock moves -/
inductive ClockedRun : BState → List (Act × Oracle) → BState → Prop where
  | nil (b : BState) : ClockedRun b [] b
  | internal {b b1 b' : BState} {a : Act} {o o1 : Oracle} {l : List (Act × Oracle)} :
      a.isInternal b = true → stepB b a o = .ok (b1, o1) → ClockedRun b1 l b' → ClockedRun b ((a, o) :: l) b'
  | clock {b b' : BState} {d : Nat} {o : Oracle} {l : List (Act × Oracle)} :
      ClockedRun { b with g := { b.g with now := b.g.now + d } } l b' → ClockedRun b ((.advance d, o) :: l) b'

/-- the actions of a schedule that are not clock moves -/
def internalActs (l : List (Act × Oracle)) : Nat :=
  l.countP (fun p => match p.1 with | .advance _ => false | _ => true)

/-- **… and the clock does not matter**: with clock moves allowed anywhere in between, the number of the other
    (internal) actions of a run from a reachable state `b` is still at most `mu b`. -/
theorem C18_layerB_clocked_runs_are_bounded {cfg : Cfg} {now : Nat} {seeds : List Nat} {clients : Nat}
    {b b' : BState} {l : List (Act × Oracle)} (hr : Reach cfg now seeds clients b) (hrun : ClockedRun b l b') :
    internalActs l + mu b' ≤ mu b := by
  induction hrun with
  | nil b => simp [internalActs]
  | @internal b b1 b' a o o1 l hi hs _ ih =>
    have h1 := C18_layerB_internal_step_decreases hr hi hs
    have h2 := ih (.step hr hs)
    have h3 : internalActs ((a, o) :: l) = internalActs l + 1 := by
      cases a <;> simp [internalActs, Act.isInternal] at hi ⊢
    omega
  | @clock b b' d o l _ ih =>
    have h2 := ih (.step (a := .advance d) (o := o) (o' := o) hr rfl)
    have h3 : internalActs ((.advance d, o) :: l) = internalActs l := by simp [internalActs]
    rw [mu_advance] at h2
    omega

/-! ## 3  maximal internal runs end quiescent: every call returns -/

/-- no internal action is enabled, whatever the oracle: an internal run that ends here cannot be extended -/
def InternalStuck (b : BState) : Prop :=
  ∀ (a : Act) (o : Oracle) (r : BState × Oracle), a.isInternal b = true → stepB b a o ≠ .ok r

/-- in a quiescent state no internal action is enabled (in EVERY state: no invariant needed) -/
theorem quiescent_stuck {b : BState} (hq : Quiescent b) : InternalStuck b := by
  intro a o r hi hs
  have hnw := quiescent_iff.mp hq
  cases a with
  | issue i q => simp [Act.isInternal] at hi
  | advance d => simp [Act.isInternal] at hi
  | sweeper v =>
    have := hq.2.2.2.2
    simp [Act.isInternal, this] at hi
  | worker => exact no_work_blocked (hnw .worker) (by simp) ⟨none, o, r, hs⟩
  | consumer => exact no_work_blocked (hnw .consumer) (by simp) ⟨none, o, r, hs⟩
  | client i => exact no_work_blocked (hnw (.client i)) (by simp) ⟨none, o, r, hs⟩

/-- **At a reachable state: stuck ↔ quiescent.**  `←` holds everywhere; `→` is `C18_layerB_no_deadlock`. -/
theorem C18_layerB_stuck_iff_quiescent {cfg : Cfg} {now : Nat} {seeds : List Nat} {clients : Nat} {b : BState}
    (hseeds : seeds ≠ []) (hcmd : 0 < cfg.cmdCap) (hbuf : 0 < cfg.bufChanCap) (hpool : 0 < cfg.poolSize)
    (hr : Reach cfg now seeds clients b) : InternalStuck b ↔ Quiescent b := by
  refine ⟨fun hst => Classical.byContradiction fun hnq => ?_, quiescent_stuck⟩
  obtain ⟨a, o, r, hi, hs⟩ := C18_layerB_no_deadlock hseeds hcmd hbuf hpool hr hnq
  exact hst a o r hi hs

/-- an internal action does not change the number of client threads -/
theorem internal_step_clients {b b' : BState} {a : Act} {o o' : Oracle} (hi : a.isInternal b = true)
    (hs : stepB b a o = .ok (b', o')) : b'.cl.length = b.cl.length := by
  cases a with
  | issue i r => simp [Act.isInternal] at hi
  | advance d => simp [Act.isInternal] at hi
  | client i =>
    obtain ⟨pc, _, pc', hcl, _⟩ := tm_client_step hs
    rw [hcl, List.length_set]
  | worker => cases workerAct_trans hs <;> rfl
  | sweeper v =>
    simp only [stepB] at hs
    split at hs
    · rename_i b1 hs'
      simp only [Except.ok.injEq, Prod.mk.injEq] at hs
      obtain ⟨rfl, -⟩ := hs
      rw [(strans_frame (sweeperAct_trans hs')).2.1]
    · cases hs
  | consumer =>
    simp only [stepB] at hs
    split at hs
    · simp only [Except.ok.injEq, Prod.mk.injEq] at hs
      obtain ⟨rfl, -⟩ := hs
      rfl
    · cases hs

theorem InternalRun.clients {b b' : BState} {l : List (Act × Oracle)} (hrun : InternalRun b l b') :
    b'.cl.length = b.cl.length := by
  induction hrun with
  | nil b => rfl
  | cons hi hs _ ih => rw [ih, internal_step_clients hi hs]

/-- **C18 — EVERY CALL RETURNS.**  From every reachable state `b`, every MAXIMAL internal run — a schedule of the
    threads of the cache, with any oracles, that cannot be extended by any internal action — has at most `mu b`
    actions and ends in a `Quiescent` state: both queues drained (or their consumer gone), the worker waiting for a
    command (or dead), the sweeper waiting for its next tick, and EVERY client thread back at `.idle`: every call that
    was under way at `b` has returned.  No exception: the model forces none (a call that meets a dead worker returns
    `Err`, a call during a shutdown returns at once). -/
theorem C18_layerB_every_call_returns {cfg : Cfg} {now : Nat} {seeds : List Nat} {clients : Nat} {b b' : BState}
    {l : List (Act × Oracle)} (hseeds : seeds ≠ []) (hcmd : 0 < cfg.cmdCap) (hbuf : 0 < cfg.bufChanCap)
    (hpool : 0 < cfg.poolSize) (hr : Reach cfg now seeds clients b) (hrun : InternalRun b l b')
    (hmax : InternalStuck b') :
    l.length ≤ mu b ∧ Quiescent b' ∧ (∀ i, i < b.cl.length → b'.cl[i]? = some .idle) := by
  have hq := (C18_layerB_stuck_iff_quiescent hseeds hcmd hbuf hpool (hrun.reach hr)).mp hmax
  refine ⟨(C18_layerB_internal_runs_are_bounded hr hrun).2, hq, ?_⟩
  intro i hi
  have hlt : i < b'.cl.length := by rw [hrun.clients]; exact hi
  have hidle := hq.1 b'.cl[i] (List.getElem_mem hlt)
  rw [List.getElem?_eq_getElem hlt]
  cases hpc : b'.cl[i] <;> simp [hpc, CPc.atIdle] at hidle
  rfl

/-- **C18, per call**: a client that stands inside a call at a reachable state `b` (at any position of any request)
    is back at `.idle` at the end of every maximal internal run from `b` — which comes after at most `mu b` actions. -/
theorem C18_layerB_call_returns {cfg : Cfg} {now : Nat} {seeds : List Nat} {clients : Nat} {b b' : BState}
    {l : List (Act × Oracle)} (hseeds : seeds ≠ []) (hcmd : 0 < cfg.cmdCap) (hbuf : 0 < cfg.bufChanCap)
    (hpool : 0 < cfg.poolSize) (hr : Reach cfg now seeds clients b) {i : Nat} {pc : CPc}
    (hpc : b.cl[i]? = some pc) (_hin : pc ≠ .idle) (hrun : InternalRun b l b') (hmax : InternalStuck b') :
    b'.cl[i]? = some .idle ∧ l.length ≤ mu b := by
  obtain ⟨hlen, _, hall⟩ := C18_layerB_every_call_returns hseeds hcmd hbuf hpool hr hrun hmax
  exact ⟨hall i (lt_of_getElem? hpc), hlen⟩

/-- **Quiescence IS reached**: from every reachable state some maximal internal run exists (of at most `mu b` actions,
    ending quiescent) — the hypotheses of `C18_layerB_every_call_returns` can always be met. -/
theorem C18_layerB_quiescence_is_reached {cfg : Cfg} {now : Nat} {seeds : List Nat} {clients : Nat}
    (hseeds : seeds ≠ []) (hcmd : 0 < cfg.cmdCap) (hbuf : 0 < cfg.bufChanCap) (hpool : 0 < cfg.poolSize) :
    ∀ (n : Nat) {b : BState}, mu b ≤ n → Reach cfg now seeds clients b →
      ∃ l b', InternalRun b l b' ∧ InternalStuck b' ∧ Quiescent b' ∧ l.length ≤ mu b := by
  intro n
  induction n with
  | zero =>
    intro b hn hr
    by_cases hq : Quiescent b
    · exact ⟨[], b, .nil b, quiescent_stuck hq, hq, Nat.zero_le _⟩
    · obtain ⟨a, o, r, hi, hs⟩ := C18_layerB_no_deadlock hseeds hcmd hbuf hpool hr hq
      have := C18_layerB_internal_step_decreases (b' := r.1) (o' := r.2) hr hi hs
      omega
  | succ n ih =>
    intro b hn hr
    by_cases hq : Quiescent b
    · exact ⟨[], b, .nil b, quiescent_stuck hq, hq, Nat.zero_le _⟩
    · obtain ⟨a, o, r, hi, hs⟩ := C18_layerB_no_deadlock hseeds hcmd hbuf hpool hr hq
      have hlt := C18_layerB_internal_step_decreases (b' := r.1) (o' := r.2) hr hi hs
      obtain ⟨l, b', hrun, hst, hq', hlen⟩ := ih (b := r.1) (by omega) (.step hr hs)
      exact ⟨(a, o) :: l, b', .cons hi hs hrun, hst, hq', by simp only [List.length_cons]; omega⟩

/-- … and every internal run, however it was scheduled, can be carried on to quiescence: no schedule paints the cache
    into a corner. -/
theorem C18_layerB_every_run_extends_to_quiescence {cfg : Cfg} {now : Nat} {seeds : List Nat} {clients : Nat}
    {b b1 : BState} {l1 : List (Act × Oracle)} (hseeds : seeds ≠ []) (hcmd : 0 < cfg.cmdCap)
    (hbuf : 0 < cfg.bufChanCap) (hpool : 0 < cfg.poolSize) (hr : Reach cfg now seeds clients b)
    (hrun : InternalRun b l1 b1) :
    ∃ l2 b', InternalRun b (l1 ++ l2) b' ∧ InternalStuck b' ∧ Quiescent b' ∧ (l1 ++ l2).length ≤ mu b := by
  obtain ⟨l2, b', h2, hst, hq, _⟩ :=
    C18_layerB_quiescence_is_reached hseeds hcmd hbuf hpool (mu b1) (Nat.le_refl _) (hrun.reach hr)
  have hall := hrun.append h2
  exact ⟨l2, b', hall, hst, hq, (C18_layerB_internal_runs_are_bounded hr hall).2⟩

/-! ## 4  non-vacuity -/

/-- `cfgQ1` (maximal weight 10, command queue of size 1).  Key 1 (weight 6) is put and stored.  Client 0 puts key 2
    (weight 6): no room — the worker receives the command, re-checks, reads the space, samples id 1 and pops it: it
    stands at `kw.remove` of the eviction with the victim in hand.  Client 1 has brought a put of key 3 up to `cmd.send`;
    client 2 stands at `store.get` of `get(1)`. -/
def tmSetup : List (Act × Oracle) :=
  call 0 (.putW 1 100 6 none) 4 ++ workerN 6 ++
  call 0 (.putW 2 200 6 none) 4 ++
  [(.worker, noO), (.worker, noO), (.worker, { dk := [false] }),
   (.worker, { ids := [1], dk := [false], pops := [some 1] })] ++
  call 1 (.putW 3 300 1 none) 3 ++ call 2 (.get 1) 1

/-- a maximal internal run from there: client 2 reads key 1 (a hit, before the eviction); the worker evicts key 1
    (`kw.remove`, `wu.sub`, `store.remove`, `wu.space`, `sample.fill`) and admits key 2 (`kw.insert`, `wu.add`,
    `store.put`); client 1 sends its put; client 2 counts the access and returns; the worker executes the put of key 3 -/
def tmRun : List (Act × Oracle) :=
  [(.client 2, noO)] ++ workerN 8 ++ [(.client 1, noO), (.client 2, { pool := [0] })] ++ workerN 6

def WPc.atEvRemove : WPc → Bool
  | .evRemove _ _ _ _ => true
  | _ => false

def CPc.atSend : CPc → Bool
  | .send _ => true
  | _ => false

/-- what `decide` checks of the state after `tmSetup` -/
def tmFacts (b : BState) : Bool :=
  decide (mu b = 40) && decide (¬ Quiescent b) &&
  (b.w.atEvRemove && (match b.cl[1]? with | some pc => pc.atSend | none => false) &&
   (match b.w, b.cl[0]?, b.cl[2]? with
    | WPc.evRemove _ _ _ v, some CPc.idle, some (CPc.getStore _) => decide (v.id = 1)
    | _, _, _ => false)) &&
  decide (tmRun.length = 17) &&
  (match internalRun? b tmRun with
   | some b' =>
     decide (Quiescent b') && decide (mu b' = 0) && decide (b'.cl.length = 3) &&
     decide (b'.g.store.contains 1 = false ∧ b'.g.store.contains 2 = true ∧ b'.g.store.contains 3 = true ∧
       b'.g.adm.used = 7) &&
     (match b'.res[1]?, b'.res[2]? with
      | some [Out.ack _ Status.pending], some [Out.value (some 100)] => true
      | _, _ => false)
   | none => false)

/-- **Non-vacuity: a reachable state inside a put WITH EVICTION, its measure, and a maximal internal run to
    quiescence.**  The worker stands at `kw.remove` of the eviction loop with victim id 1 in hand, client 1 at
    `cmd.send`, client 2 inside a `get`; `mu = 40` (clients 1 + 3; worker: one command to come at `10 + 5·3`, the
    command in hand at `6 + 5·1`); the run `tmRun` — 17 internal actions, each enabled — ends in a state where no
    internal action is enabled: it is quiescent, its measure is 0, the three clients are idle (client 1 got its
    acknowledgement, client 2 the value 100), key 1 is evicted, keys 2 and 3 are stored. -/
theorem C18_layerB_terminates_witness :
    ∃ b b', Reach cfgQ1 0 [1, 2, 3, 4] 3 b ∧ ¬ Quiescent b ∧ mu b = 40 ∧
      (∃ c e s v, b.w = .evRemove c e s v) ∧ (∃ cmd, b.cl[1]? = some (.send cmd)) ∧
      InternalRun b tmRun b' ∧ tmRun.length = 17 ∧ tmRun.length ≤ mu b ∧ InternalStuck b' ∧ Quiescent b' ∧
      mu b' = 0 ∧ (∀ i, i < 3 → b'.cl[i]? = some .idle) := by
  have hrun : ∃ b, runB (BState.init cfgQ1 0 [1, 2, 3, 4] 3) tmSetup = .ok b ∧ tmFacts b = true := by
    refine ⟨_, rfl, ?_⟩
    decide
  obtain ⟨b, hb, hf⟩ := hrun
  simp only [tmFacts, Bool.and_eq_true, decide_eq_true_eq] at hf
  obtain ⟨⟨⟨⟨hmu, hnq⟩, hpos⟩, hlen⟩, hfin⟩ := hf
  have hr : Reach cfgQ1 0 [1, 2, 3, 4] 3 b := reach_runB _ (.init []) hb
  cases hir : internalRun? b tmRun with
  | none => simp [hir] at hfin
  | some b' =>
    simp only [hir, Bool.and_eq_true, decide_eq_true_eq] at hfin
    obtain ⟨⟨⟨⟨hq, hmu'⟩, hcl⟩, _⟩, _⟩ := hfin
    have hrun' := internalRun?_sound _ hir
    refine ⟨b, b', hr, hnq, hmu, ?_, ?_, hrun', hlen, by omega, quiescent_stuck hq, hq, hmu', ?_⟩
    · have h1 := hpos.1.1
      cases hw : b.w <;> simp [hw, WPc.atEvRemove] at h1
      exact ⟨_, _, _, _, rfl⟩
    · have h1 := hpos.1.2
      cases hc : b.cl[1]? with
      | none => simp [hc] at h1
      | some pc =>
        simp only [hc] at h1
        cases pc <;> simp [CPc.atSend] at h1
        exact ⟨_, rfl⟩
    · intro i hi
      have hlt : i < b'.cl.length := by omega
      have hidle := hq.1 b'.cl[i] (List.getElem_mem hlt)
      rw [List.getElem?_eq_getElem hlt]
      cases hpc : b'.cl[i] <;> simp [hpc, CPc.atIdle] at hidle
      rfl

/-- key 1 (weight 6, TTL 5 ns) is put and stored; it expires; the put of key 2 (weight 6) finds no room, the worker
    samples id 1 and pops it — and BEFORE its `kw.remove` the sweeper visits the expired entry and takes id 1 out of
    `key_weights` itself (it stands at its `wu.sub`) -/
def tmSetupStale : List (Act × Oracle) :=
  call 0 (.putW 1 100 6 (some 5)) 4 ++ workerN 7 ++ [(.advance 10, noO)] ++
  call 0 (.putW 2 200 6 none) 4 ++
  [(.worker, noO), (.worker, noO), (.worker, { dk := [false] }),
   (.worker, { ids := [1], dk := [false], pops := [some 1] })] ++
  [(.sweeper none, noO), (.sweeper (some 1), noO), (.sweeper none, noO)]

/-- the worker's `kw.remove` finds nothing (a round of the loop that removes nothing from `kw`); the sweeper finishes
    its eviction and its sweep; the worker re-reads the space, finds room and admits key 2 -/
def tmRunStale : List (Act × Oracle) :=
  [(.worker, noO), (.sweeper none, noO), (.sweeper none, noO), (.sweeper none, noO)] ++ workerN 5

/-- **The stale sample entry is reachable** (why `mu` counts `tm_stale`): the worker stands at `kw.remove` with a victim
    whose id is no longer charged — `kw` is empty, `tm_stale = 1`, `mu = 14` (sweeper 3, worker `6 + 5·1`) — and the
    maximal internal run `tmRunStale` (9 actions) ends quiescent with key 2 stored and `weight_used = 6`. -/
example :
    (match runB (BState.init cfgQ1 0 [1, 2, 3, 4] 3) tmSetupStale with
     | .ok b =>
       decide (mu b = 14 ∧ b.g.adm.kw.length = 0 ∧ tm_stale b.g.adm.kw (tm_S b.w) = 1 ∧ tm_U b = 1 ∧ ¬ Quiescent b) &&
       (match b.w, b.sw with
        | .evRemove _ _ _ v, .sub _ _ _ id _ => decide (v.id = 1 ∧ id = 1)
        | _, _ => false) &&
       (match internalRun? b tmRunStale with
        | some b' =>
          decide (Quiescent b' ∧ mu b' = 0 ∧ tmRunStale.length = 9 ∧ b'.g.store.contains 2 = true ∧
            b'.g.store.contains 1 = false ∧ b'.g.adm.used = 6)
        | none => false)
     | _ => false) = true := by decide

/-- the measure of the initial state is 0, and issuing a request raises it: `issue` is not internal -/
example : mu (BState.init cfgQ1 0 [1, 2, 3, 4] 3) = 0 := by decide

example :
    (match stepB (BState.init cfgQ1 0 [1, 2, 3, 4] 3) (.issue 0 (.putW 1 100 6 none)) noO with
     | .ok (b, _) => decide (mu b = 5 + 1 * (10 + 5 * (0 + 1 + 0)))
     | _ => false) = true := by decide

end B
end Cached
