/-
  C10 at ACTION granularity, the POSITIVE part: when the expiry index and the store DO stay in step.

  At Layer A (one call = one step) `TtlInv` (Lemmas/TtlInv.lean) says: one index entry per key id, in the shard of its
  deadline; an index entry is stale or equals the CURRENT stored deadline; every charged entry with a deadline is indexed.
  At Layer B (CachedModel/LayerB.lean) the stored deadline and the index are changed in SEPARATE actions — by the worker
  for a put (`store.put`, then `ttl.put`), by the caller of `put_or_update` (`upsert.update` writes the stored deadline;
  `upsert.weight_of`; then `ttl.put` / `ttl.delete` / `ttl.update.remove` + `ttl.update.insert` take the index from the
  deadline THAT call read to the deadline THAT call wrote), by the sweeper (`sweep.entry` removes the visited index entry,
  `kw.remove` re-validates against the store) — and `TtlInv` is FALSE in general (`staleIndexRun` of Spec/RefineB.lean,
  `swB_outOfStep` of LayerB/Sweep.lean, corpus/C10_D15residue.in).  Here: it holds for a key as long as the activities
  on that key do not overlap.

  Definitions (section 1; `IdxIs`, `InStep`, the views `cview` / `wview` / `kview` / `eview` are in IndexStepLemmas.lean)
    `InStep b k`   for the entry `e` stored under `k` whose id is charged: a stored deadline `t` has its index entry
                   `(shardOf t, e.id) ↦ t` and no other shard holds an entry for `e.id`; without a stored deadline no
                   shard holds an entry for `e.id`                                              (`inStep_iff`)
    `Busy b k`     the EXACT list of in-flight exceptions, by thread position (`busy_iff`), `e` the entry stored under `k`:
                     * some client stands at `upsert.weight_of`, `ttl.put`, `ttl.delete`, `ttl.update.remove` or
                       `ttl.update.insert` of a `put_or_update` that read the id `e.id` (its `upsert.update` is done, its
                       index actions are not);
                     * the worker stands at `ttl.put` of the put that created `e.id` (`store.put` done);
                     * the sweeper stands at `kw.remove` of `e.id` (`sweep.entry` has removed the visited index entry,
                       the check has not run).
                   Each of the three is needed (`C10_layerB_busy_{client,worker,sweeper}_out_of_step`).  NOT in the list,
                   because `InStep` holds there anyway: the worker inside a `Delete` of `k` (past `store.remove` there is
                   no entry; `C10_layerB_delete_holds_no_stored_id`), the sweeper or the worker past the `kw.remove` of
                   an eviction (the id is not charged: `C10_layerB_evicting_id_uncharged`).  The positions carry the key
                   ID, not the key: "a `put_or_update` of `k`" is "a `put_or_update` that read the id of the entry NOW
                   stored under `k`" (ids are never reused, `BBij.storeIdInj`).
    `Serial b k`   (`serial_iff`) for the entry `e` stored under `k`: a client busy with `e.id` (positions above) excludes
                     (cc) a second client busy with `e.id`,
                     (cw) the worker at `ttl.put` of `e.id`,
                     (ce) the sweeper at `wu.sub` / `store.remove` of the eviction of `e.id` (past its check).
                   As a hypothesis on EVERY state of a run (`Along (Serial · k) h b`) it says in particular that no
                   `upsert.update` of `k` runs while another client or the worker's put is busy with `k`, or while the
                   sweeper carries the eviction of `k` through (the state after it would violate it).
                   NOT excluded, because harmless: a `put_or_update` overlapping the sweeper's CHECK of the id
                   (`sweep.entry` done, `kw.remove` not: the sweeper only ever REMOVES the entry the call expects, and the
                   shard lock orders the rest — `C10_layerB_in_step_upsert_during_check`); the worker's put and the
                   sweeper's check never overlap on one id at all (`C10_layerB_put_never_overlaps_check`).
    `SerialCore`   (cc) and (cw) for a CHARGED id: all the main theorem needs.   `SerialEv`: (ce), all the sweeper
                   corollary needs.

  Theorems (section 4)
    `C10_layerB_in_step_unless_busy` (`…_core`)  along any run from the initial state every state of which is `Serial`
        (`SerialCore`) for `k`, flag not set at the end: `¬ Busy b k → InStep b k`
    `C10_layerB_index_while_busy`                what the index holds WHILE a thread is busy, position by position
    `C10_layerB_expired_key_stays_sweepable`     an expired, charged key nobody is busy with is indexed in the shard of
        its deadline; the sweep of that shard lists it, may visit it, finds it due and starts the eviction
    `C10_layerB_kwRemove_if_store_expired`, `C10_layerB_check_evicts_expired`   the forward direction of
        `C10_layerB_kwRemove_only_if_store_expired`: at `kw.remove` a key expired by its own deadline is taken out
    `C03_layerB_serial_key_not_lost_to_sweeper`  under `SerialEv` a sweeper action removes an entry of `k` only if it has
        expired by its own stored deadline (`…_live_key_survives_sweeper`, `C09_layerB_serial_sweep_irrelevant_for_reads`)

  Hypotheses that cannot be dropped (section 5, all by `decide` on concrete runs)
    (cc):  `C10_layerB_in_step_needs_serial_two_upserts` (`swB_outOfStep`), `…_stale_index` (`staleIndexRun`)
    (cw):  `C10_layerB_in_step_needs_serial_put_upsert` (D15 residue)
           — each passes through a non-`Serial` state and ends, nobody busy, OUT of step;
    (ce):  `C03_layerB_serial_needed_against_sweeper` (D3) for the sweeper corollary;
    `shutting = false`:  FINDING `C10_layerB_in_step_after_shutdown_counterexample` — with NO overlap on the key,
           `shutdown()`'s `ttl_clear` racing with a put the worker is still applying leaves the key stored, charged
           and not indexed.
  Non-vacuity: `ixB_goodRun` (puts, extend / shorten / remove / re-add upserts, delete, expiry and sweep of ONE key, one
  after another, with the sweeper and another key's traffic in between): `C10_layerB_in_step_unless_busy_witness`, and
  the `example`s instantiating every corollary.
-/
import CachedProofs.LayerB.IndexStepLemmas
import CachedProofs.LayerB.Expiry

namespace Cached
namespace B

/-! ## 1  `Busy`, `Serial` -/

/-- a thread is in the middle of an index update of the key id `id` -/
def BusyId (b : BState) (id : Nat) : Prop :=
  (∃ j, j < b.cl.length ∧ cview b id j ≠ none) ∨ wview b id ≠ none ∨ kview b id ≠ none

/-- **`Busy b k`: somebody is in the middle of an index update of the key id of the entry stored under `k`** — a client
    between its `upsert.update` and the end of its index actions, the worker between `store.put` and `ttl.put`, or the
    sweeper between `sweep.entry` and its check at `kw.remove` (`busy_iff`) -/
def Busy (b : BState) (k : Nat) : Prop := ∃ e, b.g.store.get? k = some e ∧ BusyId b e.id

theorem cview_lt {b : BState} {id j : Nat} (h : cview b id j ≠ none) : j < b.cl.length := by
  unfold cview at h
  cases hj : b.cl[j]? with
  | none => rw [hj] at h; exact absurd rfl h
  | some pc => exact upsB_lt hj

theorem cview_ne_none {b : BState} {id j : Nat} :
    cview b id j ≠ none ↔ ∃ pc, b.cl[j]? = some pc ∧ pc.usedId? = some id := by
  unfold cview
  cases hj : b.cl[j]? with
  | none => simp
  | some pc => simpa using pcview_usedId

theorem wview_ne_none {b : BState} {id : Nat} : wview b id ≠ none ↔ ∃ c t, b.w = .ttlPut c t ∧ c.id = id := by
  constructor
  · intro h
    cases hw : wview b id with
    | none => exact absurd hw h
    | some t => obtain ⟨c, h1, h2⟩ := wview_some.mp hw; exact ⟨c, t, h1, h2⟩
  · rintro ⟨c, t, h1, h2⟩
    rw [wview_some.mpr ⟨c, h1, h2⟩]; simp

theorem kview_ne_none {b : BState} {id : Nat} : kview b id ≠ none ↔ ∃ now sh rest, b.sw = .kwRemove now sh rest id := by
  constructor
  · intro h
    cases hk : kview b id with
    | none => exact absurd hk h
    | some n => obtain ⟨sh, rest, h1⟩ := kview_some.mp hk; exact ⟨n, sh, rest, h1⟩
  · rintro ⟨n, sh, rest, h1⟩
    rw [kview_some.mpr ⟨sh, rest, h1⟩]; simp

theorem eview_ne_none {b : BState} {id : Nat} :
    eview b id ≠ none ↔ ∃ now sh rest wk, b.sw = .sub now sh rest id wk ∨ b.sw = .store now sh rest id wk := by
  constructor
  · intro h
    cases hk : eview b id with
    | none => exact absurd hk h
    | some n => obtain ⟨sh, rest, wk, h1⟩ := eview_some.mp hk; exact ⟨n, sh, rest, wk, h1⟩
  · rintro ⟨n, sh, rest, wk, h1⟩
    rw [eview_some.mpr ⟨sh, rest, wk, h1⟩]; simp

/-- **`Busy`, by thread position** -/
theorem busy_iff {b : BState} {k : Nat} : Busy b k ↔ ∃ e, b.g.store.get? k = some e ∧
    ((∃ (j : Nat) (pc : CPc), b.cl[j]? = some pc ∧ pc.usedId? = some e.id) ∨
     (∃ c t, b.w = .ttlPut c t ∧ c.id = e.id) ∨
     (∃ now sh rest, b.sw = .kwRemove now sh rest e.id)) := by
  unfold Busy BusyId
  constructor
  · rintro ⟨e, hk, h⟩
    refine ⟨e, hk, ?_⟩
    rcases h with ⟨j, _, h⟩ | h | h
    · exact Or.inl ⟨j, cview_ne_none.mp h⟩
    · exact Or.inr (Or.inl (wview_ne_none.mp h))
    · exact Or.inr (Or.inr (kview_ne_none.mp h))
  · rintro ⟨e, hk, h⟩
    refine ⟨e, hk, ?_⟩
    rcases h with ⟨j, h⟩ | h | h
    · have := cview_ne_none.mpr h
      exact Or.inl ⟨j, cview_lt this, this⟩
    · exact Or.inr (Or.inl (wview_ne_none.mpr h))
    · exact Or.inr (Or.inr (kview_ne_none.mpr h))

/-- for one id: a client in the middle of an index update of `id` excludes every other such client, the worker's
    `ttl.put` of `id`, and the sweeper's eviction of `id` past its check (NOT the sweeper's check itself) -/
def SerialId (b : BState) (id : Nat) : Prop :=
  ∀ j, j < b.cl.length → cview b id j ≠ none →
    (∀ j', j' < b.cl.length → cview b id j' ≠ none → j' = j) ∧ wview b id = none ∧ eview b id = none

/-- **`Serial b k`: a `put_or_update` in the middle of its index update of the id of `k`'s entry overlaps no other
    activity on that id** (`serial_iff`) -/
def Serial (b : BState) (k : Nat) : Prop := ∀ e, b.g.store.get? k = some e → SerialId b e.id

/-- the part of `Serial` the eviction invariant needs -/
def SerialEv (b : BState) (k : Nat) : Prop :=
  ∀ e, b.g.store.get? k = some e → ∀ j, cview b e.id j ≠ none → eview b e.id = none

theorem Serial.core {b : BState} {k : Nat} (h : Serial b k) : SerialCore b k := by
  intro e hk _ j hj
  obtain ⟨h1, h2, _⟩ := h e hk j (cview_lt hj) hj
  exact ⟨fun j' hj' => h1 j' (cview_lt hj') hj', h2⟩

theorem Serial.ev {b : BState} {k : Nat} (h : Serial b k) : SerialEv b k :=
  fun e hk j hj => (h e hk j (cview_lt hj) hj).2.2

/-- **`Serial`, by thread position** -/
theorem serial_iff {b : BState} {k : Nat} : Serial b k ↔ ∀ e, b.g.store.get? k = some e →
    ∀ (j : Nat) (pc : CPc), b.cl[j]? = some pc → pc.usedId? = some e.id →
      (∀ (j' : Nat) (pc' : CPc), b.cl[j']? = some pc' → pc'.usedId? = some e.id → j' = j) ∧
      (∀ c t, b.w = .ttlPut c t → c.id ≠ e.id) ∧
      (∀ now sh rest wk, b.sw ≠ .sub now sh rest e.id wk ∧ b.sw ≠ .store now sh rest e.id wk) := by
  constructor
  · intro h e hk j pc hj hu
    have hc : cview b e.id j ≠ none := cview_ne_none.mpr ⟨pc, hj, hu⟩
    obtain ⟨h1, h2, h4⟩ := h e hk j (cview_lt hc) hc
    refine ⟨?_, ?_, ?_⟩
    · intro j' pc' hj' hu'
      have hc' : cview b e.id j' ≠ none := cview_ne_none.mpr ⟨pc', hj', hu'⟩
      exact h1 j' (cview_lt hc') hc'
    · intro c t hw hid
      exact wview_ne_none.mpr ⟨c, t, hw, hid⟩ h2
    · intro now sh rest wk
      exact ⟨fun hs => eview_ne_none.mpr ⟨now, sh, rest, wk, Or.inl hs⟩ h4,
        fun hs => eview_ne_none.mpr ⟨now, sh, rest, wk, Or.inr hs⟩ h4⟩
  · intro h e hk j _ hc
    obtain ⟨pc, hj, hu⟩ := cview_ne_none.mp hc
    obtain ⟨h1, h2, h4⟩ := h e hk j pc hj hu
    refine ⟨?_, ?_, ?_⟩
    · intro j' _ hc'
      obtain ⟨pc', hj', hu'⟩ := cview_ne_none.mp hc'
      exact h1 j' pc' hj' hu'
    · cases hw : wview b e.id with
      | none => rfl
      | some t => obtain ⟨c, h5, h6⟩ := wview_some.mp hw; exact absurd h6 (h2 c t h5)
    · cases hev : eview b e.id with
      | none => rfl
      | some n =>
        obtain ⟨sh, rest, wk, h5 | h5⟩ := eview_some.mp hev
        · exact absurd h5 (h4 n sh rest wk).1
        · exact absurd h5 (h4 n sh rest wk).2

/-! ### decidability (for the concrete runs) -/

instance decForallGet {α : Type} (o : Option α) (p : α → Prop) [∀ a, Decidable (p a)] :
    Decidable (∀ a, o = some a → p a) :=
  match o with
  | none => isTrue (by intro a h; cases h)
  | some a => decidable_of_iff (p a) ⟨fun h a' h' => by cases h'; exact h, fun h => h a rfl⟩

instance decExistsGet {α : Type} (o : Option α) (p : α → Prop) [∀ a, Decidable (p a)] :
    Decidable (∃ a, o = some a ∧ p a) :=
  match o with
  | none => isFalse (by rintro ⟨a, h, _⟩; cases h)
  | some a => decidable_of_iff (p a) ⟨fun h => ⟨a, rfl, h⟩, fun ⟨a', h', h⟩ => by cases h'; exact h⟩

instance (b : BState) (id : Nat) : Decidable (BusyId b id) := by unfold BusyId; infer_instance
instance (b : BState) (k : Nat) : Decidable (Busy b k) := by unfold Busy; infer_instance
instance (b : BState) (id : Nat) : Decidable (SerialId b id) := by unfold SerialId; infer_instance
instance (b : BState) (k : Nat) : Decidable (Serial b k) := by unfold Serial; infer_instance

/-- `IdxIs`, as a check over the entries of the index -/
def idxIsB (cfg : Cfg) (t : AMap (Nat × Nat) Nat) (id : Nat) (x : Option Nat) : Bool :=
  (match x with
   | some d => t.get? (shardOf cfg d, id) == some d
   | none => true) &&
  t.all (fun p => p.1.2 != id || (match x with | some d => p.1.1 == shardOf cfg d | none => false))

theorem idxIsB_iff (cfg : Cfg) (t : AMap (Nat × Nat) Nat) (id : Nat) (x : Option Nat) :
    idxIsB cfg t id x = true ↔ IdxIs cfg t id x := by
  have hmem : ∀ sh, t.get? (sh, id) = none ↔ ∀ p ∈ t, ¬ (p.1.1 = sh ∧ p.1.2 = id) := by
    intro sh
    rw [AMap.get?_eq_none_iff]
    constructor
    · intro h p hp hh
      apply h
      exact List.mem_map.mpr ⟨p, hp, by rw [← hh.1, ← hh.2]⟩
    · intro h hm
      obtain ⟨p, hp, he⟩ := List.mem_map.mp hm
      exact h p hp ⟨by rw [he], by rw [he]⟩
  cases x with
  | none =>
    simp only [idxIsB, Bool.true_and, List.all_eq_true, Bool.or_false, bne_iff_ne, ne_eq, IdxIs]
    constructor
    · intro h sh
      rw [hmem]
      intro p hp hh
      exact h p hp hh.2
    · intro h p hp hid
      exact (hmem p.1.1).mp (h p.1.1) p hp ⟨rfl, hid⟩
  | some d =>
    simp only [idxIsB, Bool.and_eq_true, beq_iff_eq, List.all_eq_true, Bool.or_eq_true, bne_iff_ne, ne_eq, IdxIs]
    constructor
    · rintro ⟨h1, h2⟩
      refine ⟨h1, fun sh hsh => ?_⟩
      rw [hmem]
      intro p hp hh
      rcases h2 p hp with h3 | h3
      · exact h3 hh.2
      · exact hsh (by rw [← hh.1, h3])
    · rintro ⟨h1, h2⟩
      refine ⟨h1, fun p hp => ?_⟩
      by_cases hid : p.1.2 = id
      · right
        apply Classical.byContradiction
        intro hsh
        exact (hmem p.1.1).mp (h2 p.1.1 hsh) p hp ⟨rfl, hid⟩
      · exact Or.inl hid

instance (cfg : Cfg) (t : AMap (Nat × Nat) Nat) (id : Nat) (x : Option Nat) : Decidable (IdxIs cfg t id x) :=
  decidable_of_iff _ (idxIsB_iff cfg t id x)

instance (b : BState) (k : Nat) : Decidable (InStep b k) := by unfold InStep; infer_instance

/-- the charge of a stored, charged id is a charge for that very key -/
theorem charged_key {b : BState} (hj : BBij b) {k : Nat} {e : Entry} {wk : WKey} (hk : b.g.store.get? k = some e)
    (hg : b.g.adm.kw.get? e.id = some wk) : wk.key = k := by
  rcases hj.heldCharged k e hk with ⟨wk', h1, h2⟩ | ⟨wk', h1, _⟩ | ⟨wk', h1, _⟩
  · rw [hg] at h1; cases h1; exact h2
  · have := hj.wEvictUncharged e.id wk' h1
    rw [hg] at this; cases this
  · have := (hj.sEvictStale e.id wk' h1).1
    rw [hg] at this; cases this

/-! ## 2  the eviction under way -/

/-- while the sweeper carries the eviction of the id of `k`'s entry on past its check (`wu.sub`, `store.remove`), that
    entry has expired by its own stored deadline -/
def EvInv (b : BState) (k : Nat) : Prop :=
  ∀ e n, b.g.store.get? k = some e → eview b e.id = some n → ∃ t, e.expiry = some t ∧ b.g.now > t

theorem evinv_step {cfg : Cfg} {now0 : Nat} {seeds : List Nat} {clients : Nat} {b b' : BState} {a : Act}
    {o o' : Oracle} {k : Nat} (hr : Reach cfg now0 seeds clients b) (hE : EvInv b k)
    (hsE' : SerialEv b' k) (hsh : b'.g.shutting = false) (h : stepB b a o = .ok (b', o')) : EvInv b' k := by
  have hj := bbij_reach hr (stepB_running_before h hsh)
  have hmono := C10_layerB_clock_monotone h
  have hE' : ∀ e n, b.g.store.get? k = some e → eview b e.id = some n → ∃ t, e.expiry = some t ∧ b'.g.now > t := by
    intro e n hk hev
    obtain ⟨t, hx, hgt⟩ := hE e n hk hev
    exact ⟨t, hx, by omega⟩
  by_cases ha : ∀ v, a ≠ .sweeper v
  · obtain ⟨hsw, _, _, _⟩ := swB_other_step h ha
    intro e' now hk' hev'
    rw [eview_congr hsw] at hev'
    have hse := stepB_storeEff h
    cases hse
    case same hs => rw [hs] at hk'; exact hE' e' now hk' hev'
    case put c exp hw hx hwr hs =>
      rw [hs, AMap.get?_set] at hk'
      split at hk'
      · cases hk'
        exfalso
        obtain ⟨sh, rest, wk, hsub⟩ := eview_some.mp hev'
        have hev : b.sw.evicting? = some (c.id, wk) := by
          rcases hsub with hsub | hsub <;> rw [hsub] <;> rfl
        have h0 := (hj.sEvictStale c.id wk hev).2.1
        have : 0 < occ b c.id := by simp [occ, WPc.freshId?, hw]
        omega
      · exact hE' e' now hk' hev'
    case del k0 hh e0 hw hk0 hs =>
      rw [hs, AMap.get?_del] at hk'
      split at hk'
      · cases hk'
      · exact hE' e' now hk' hev'
    case evict c inc s id wk hw hs =>
      rw [hs, AMap.get?_del] at hk'
      split at hk'
      · cases hk'
      · exact hE' e' now hk' hev'
    case sweep v now1 sh rest id wk hw hm hs => exact absurd rfl (ha v)
    case mark i k0 e0 hpc hk0 hs =>
      rw [hs, AMap.get?_set] at hk'
      split at hk'
      · rename_i hkk
        cases hk'
        subst hkk
        exact hE' e0 now hk0 hev'
      · exact hE' e' now hk' hev'
    case upsert i k0 v w ttl rm e0 exp hpc hk0 hx hs =>
      rw [hs, AMap.get?_set] at hk'
      split at hk'
      · rename_i hkk
        cases hk'
        subst hkk
        exfalso
        obtain ⟨_, hov⟩ := upsB_upExpiry_some hx
        have heff := C08_layerB_update_effect hpc h hk0 hov
        have hcl := heff.2.2.2.2.2.2.2.2.2.2.2.2.2
        have hc : cview b' e0.id i ≠ none := cview_ne_none.mpr ⟨_, hcl, rfl⟩
        have hk'' : b'.g.store.get? k0 = some { e0 with expiry := exp, value := v.getD e0.value } := by
          rw [hs, AMap.get?_set_same]
        have := hsE' _ hk'' i hc
        rw [eview_congr hsw] at this
        simp only [] at this hev'
        rw [this] at hev'
        cases hev'
      · exact hE' e' now hk' hev'
    case clear i hpc hs => rw [hs] at hk'; cases hk'
  · obtain ⟨v, rfl⟩ := swB_is_sweeper ha
    have hact := swB_sweeper_step h
    intro e' now' hk' hev'
    cases hsw : b.sw with
    | begin =>
      obtain ⟨_, rfl⟩ := swB_begin_spec hsw hact
      rw [eview_none (by simp)] at hev'; cases hev'
    | fin =>
      have := swB_fin_spec hsw hact
      subst this
      rw [eview_none rfl] at hev'; cases hev'
    | entry now sh rest =>
      obtain ⟨id, ei, _, hf, ⟨_, rfl⟩ | ⟨_, rfl⟩⟩ := swB_entry_spec hsw hact
      · rw [eview_none rfl] at hev'; cases hev'
      · rw [eview_none (by simp)] at hev'; cases hev'
    | store now sh rest id wk =>
      obtain ⟨_, rfl⟩ := swB_store_spec hsw hact
      rw [eview_none (by simp)] at hev'; cases hev'
    | sub now sh rest id wk =>
      obtain ⟨_, hb'⟩ := swB_sub_spec hsw hact
      have hst : b'.g.store = b.g.store := by rw [hb']
      have hsw' : b'.sw = .store now sh rest id wk := by rw [hb']
      rw [hst] at hk'
      refine hE' e' now' hk' ?_
      obtain ⟨sh1, rest1, wk1, hh | hh⟩ := eview_some.mp hev'
      · rw [hsw'] at hh; cases hh
      · rw [hsw'] at hh
        injection hh with h1 h2 h3 h4 h5
        subst h1 h4
        exact eview_some.mpr ⟨sh, rest, wk, Or.inl hsw⟩
    | kwRemove now sh rest id =>
      rcases swB_kwRemove_spec hsw hact with ⟨wk, ⟨hg, hu⟩, hb'⟩ | ⟨_, rfl⟩
      · have hst : b'.g.store = b.g.store := by rw [hb']
        have hsw' : b'.sw = .sub now sh rest id wk := by rw [hb']
        have hnow : b'.g.now = b.g.now := by rw [hb']
        rw [hst] at hk'
        obtain ⟨sh1, rest1, wk1, hh | hh⟩ := eview_some.mp hev'
        · rw [hsw'] at hh
          injection hh with h1 h2 h3 h4 h5
          subst h1 h4
          have hkey := charged_key hj hk' hg
          rw [hnow]
          exact (unexpiredWithId_eq_false_iff _ _ _).mp hu e' (by rw [hkey]; exact hk') rfl
        · rw [hsw'] at hh; cases hh
      · rw [eview_none (by simp)] at hev'; cases hev'

/-! ## 3  along a run -/

/-- every state of the run, the last one included, satisfies `P` -/
def Along (P : BState → Prop) (h : List (BState × Act)) (b : BState) : Prop := P b ∧ ∀ p ∈ h, P p.1

theorem Along.tail {P : BState → Prop} {h : List (BState × Act)} {b b' : BState} {a : Act}
    (hs : Along P ((b, a) :: h) b') : Along P h b :=
  ⟨hs.2 (b, a) List.mem_cons_self, fun p hp => hs.2 p (List.mem_cons_of_mem _ hp)⟩

theorem Along.mono {P Q : BState → Prop} (hpq : ∀ b, P b → Q b) {h : List (BState × Act)} {b : BState}
    (hs : Along P h b) : Along Q h b :=
  ⟨hpq b hs.1, fun p hp => hpq p.1 (hs.2 p hp)⟩

/-- the initial state -/
theorem kinv_init (cfg : Cfg) (now : Nat) (seeds : List Nat) (clients : Nat) (sm : List (Nat × Nat)) (k : Nat) :
    KInv { BState.init cfg now seeds clients with storeShard := sm } k := by
  intro e hk
  simp [BState.init, State.init] at hk

theorem evinv_init (cfg : Cfg) (now : Nat) (seeds : List Nat) (clients : Nat) (sm : List (Nat × Nat)) (k : Nat) :
    EvInv { BState.init cfg now seeds clients with storeShard := sm } k := by
  intro e now hk
  simp [BState.init, State.init] at hk

/-- `KInv` along a run every state of which is serial (core form) for `k`, the flag not set at its end -/
theorem kinv_run {cfg : Cfg} {now0 : Nat} {seeds : List Nat} {clients : Nat} {b0 b : BState}
    {h : List (BState × Act)} {k : Nat} (hr : Reach cfg now0 seeds clients b0) (h0 : KInv b0 k)
    (hrun : RunH b0 h b) : Along (SerialCore · k) h b → b.g.shutting = false → KInv b k := by
  induction hrun with
  | nil => intro _ _; exact h0
  | step hrun' hs ih =>
    intro hal hsh
    have hK := ih hal.tail (stepB_running_before hs hsh)
    exact kinv_step (swB_reach_run hr hrun') hK hal.tail.1 hal.1 hsh hs

/-- `EvInv` along a run every state of which satisfies `SerialEv` for `k`, the flag not set at its end -/
theorem evinv_run {cfg : Cfg} {now0 : Nat} {seeds : List Nat} {clients : Nat} {b0 b : BState}
    {h : List (BState × Act)} {k : Nat} (hr : Reach cfg now0 seeds clients b0) (h0e : EvInv b0 k)
    (hrun : RunH b0 h b) : Along (SerialEv · k) h b → b.g.shutting = false → EvInv b k := by
  induction hrun with
  | nil => intro _ _; exact h0e
  | step hrun' hs ih =>
    intro hal hsh
    have hE := ih hal.tail (stepB_running_before hs hsh)
    exact evinv_step (swB_reach_run hr hrun') hE hal.1 hsh hs

/-! ## 4  the theorems -/

theorem not_busy_views {b : BState} {k : Nat} {e : Entry} (hk : b.g.store.get? k = some e) (hnb : ¬ Busy b k) :
    (∀ j, cview b e.id j = none) ∧ wview b e.id = none ∧ kview b e.id = none := by
  refine ⟨fun j => ?_, ?_, ?_⟩
  · cases hc : cview b e.id j with
    | none => rfl
    | some y =>
      have hne : cview b e.id j ≠ none := by rw [hc]; simp
      exact absurd ⟨e, hk, Or.inl ⟨j, cview_lt hne, hne⟩⟩ hnb
  · cases hc : wview b e.id with
    | none => rfl
    | some y => exact absurd ⟨e, hk, Or.inr (Or.inl (by rw [hc]; simp))⟩ hnb
  · cases hc : kview b e.id with
    | none => rfl
    | some y => exact absurd ⟨e, hk, Or.inr (Or.inr (by rw [hc]; simp))⟩ hnb

theorem KInv.inStep {b : BState} {k : Nat} (hK : KInv b k) (hnb : ¬ Busy b k) : InStep b k := by
  intro e hk hc
  obtain ⟨h1, h2, h3⟩ := not_busy_views hk hnb
  exact (hK e hk hc).idle h1 h2 h3

/-- **C10 at action granularity, the positive part (core form).**  Along any run from the initial state in which every
    state is serial for `k` in the core sense (`SerialCore`: for the CHARGED id of the entry stored under `k`, a client
    between its `upsert.update` and the end of its index actions is the only such CLIENT, and the worker does not stand
    between `store.put` and `ttl.put` of that id — the sweeper may stand anywhere), and whose last state has the shutdown
    flag not set: if nobody is busy with `k` in the last state, index and store are in step for `k`. -/
theorem C10_layerB_in_step_unless_busy_core {cfg : Cfg} {now : Nat} {seeds : List Nat} {clients : Nat}
    {sm : List (Nat × Nat)} {h : List (BState × Act)} {b : BState} {k : Nat}
    (hrun : RunH { BState.init cfg now seeds clients with storeShard := sm } h b)
    (hser : Along (SerialCore · k) h b) (hsh : b.g.shutting = false) (hnb : ¬ Busy b k) : InStep b k :=
  (kinv_run (.init sm) (kinv_init cfg now seeds clients sm k) hrun hser hsh).inStep hnb

/-- **C10 at action granularity: index and store stay in step unless somebody is busy with the key.**
    Along any run from the initial state in which every state is `Serial` for `k`, and whose last state has the shutdown
    flag not set: `¬ Busy b k → InStep b k`. -/
theorem C10_layerB_in_step_unless_busy {cfg : Cfg} {now : Nat} {seeds : List Nat} {clients : Nat}
    {sm : List (Nat × Nat)} {h : List (BState × Act)} {b : BState} {k : Nat}
    (hrun : RunH { BState.init cfg now seeds clients with storeShard := sm } h b)
    (hser : Along (Serial · k) h b) (hsh : b.g.shutting = false) (hnb : ¬ Busy b k) : InStep b k :=
  C10_layerB_in_step_unless_busy_core hrun (hser.mono (fun _ => Serial.core)) hsh hnb

/-- **The index of a key while somebody IS busy with it** (the invariant behind the theorem, `KInvId` of
    IndexStepLemmas.lean, at every state of a serial run): for the entry `e` of `k`, charged,
    * a client at `upsert.weight_of` / `ttl.put` / `ttl.delete` / `ttl.update.remove` / `ttl.update.insert` of a call that
      read `e.id`: the stored deadline is the one THAT call wrote (`st`), and the index holds for `e.id` exactly what the
      remaining index actions of that call expect (`idx`: the deadline it read, until its `ttl.delete` /
      `ttl.update.remove` has run; nothing before its `ttl.put` / `ttl.update.insert`) — or it holds nothing because the
      sweeper has meanwhile visited and removed that entry, which was due (`Gap`: the remaining index actions put the
      index right all the same);
    * the worker at `ttl.put` of the put that created `e.id`: the stored deadline is the put's, the index holds nothing
      for `e.id`;
    * the sweeper at `kw.remove` of `e.id`, no client busy with `e.id`: the index holds nothing for `e.id` and the stored
      deadline had passed when the sweep began — or a `put_or_update` has run to its end since the visit and the index
      is in step again. -/
theorem C10_layerB_index_while_busy {cfg : Cfg} {now : Nat} {seeds : List Nat} {clients : Nat}
    {sm : List (Nat × Nat)} {h : List (BState × Act)} {b : BState} {k : Nat}
    (hrun : RunH { BState.init cfg now seeds clients with storeShard := sm } h b)
    (hser : Along (SerialCore · k) h b) (hsh : b.g.shutting = false) {e : Entry}
    (hk : b.g.store.get? k = some e) (hc : Charged b e.id) :
    (∀ (j : Nat) (pc : CPc) idx st, b.cl[j]? = some pc → pc.idx? = some (e.id, idx, st) →
      e.expiry = st ∧ (IdxIs b.g.cfg b.g.ttl e.id idx ∨
        (IdxIs b.g.cfg b.g.ttl e.id none ∧ Gap (kview b e.id) idx st))) ∧
    (∀ c t, b.w = .ttlPut c t → c.id = e.id → e.expiry = some t ∧ IdxIs b.g.cfg b.g.ttl e.id none) ∧
    (∀ now sh rest, b.sw = .kwRemove now sh rest e.id → (∀ j, cview b e.id j = none) →
      IdxIs b.g.cfg b.g.ttl e.id e.expiry ∨
      (IdxIs b.g.cfg b.g.ttl e.id none ∧ ∃ t, e.expiry = some t ∧ now > t)) := by
  have hK := kinv_run (.init sm) (kinv_init cfg now seeds clients sm k) hrun hser hsh e hk hc
  refine ⟨?_, ?_, ?_⟩
  · intro j pc idx st hj hp
    exact hK.client j idx st (cview_some.mpr ⟨pc, hj, hp⟩)
  · intro c t hw hid
    obtain ⟨h1, h2, _⟩ := hK.worker t (wview_some.mpr ⟨c, hw, hid⟩)
    exact ⟨h1, h2⟩
  · intro now sh rest hs hcv
    exact hK.sweeper now (kview_some.mpr ⟨sh, rest, hs⟩) hcv

/-- **The worker's put and the sweeper's check never overlap on one id** (so `Serial` need not exclude it): while the
    worker stands between `store.put` and `ttl.put` of the put that created the charged id of `k`'s entry, the sweeper
    is not at `kw.remove` of that id — the index holds no entry for the id yet, so there was nothing to visit. -/
theorem C10_layerB_put_never_overlaps_check {cfg : Cfg} {now : Nat} {seeds : List Nat} {clients : Nat}
    {sm : List (Nat × Nat)} {h : List (BState × Act)} {b : BState} {k : Nat}
    (hrun : RunH { BState.init cfg now seeds clients with storeShard := sm } h b)
    (hser : Along (SerialCore · k) h b) (hsh : b.g.shutting = false) {e : Entry}
    (hk : b.g.store.get? k = some e) (hc : Charged b e.id) {c : PutCmd} {t : Nat} (hw : b.w = .ttlPut c t)
    (hid : c.id = e.id) : ∀ now' sh rest, b.sw ≠ .kwRemove now' sh rest e.id := by
  have hK := kinv_run (.init sm) (kinv_init cfg now seeds clients sm k) hrun hser hsh e hk hc
  intro now' sh rest hs
  have := (hK.worker t (wview_some.mpr ⟨c, hw, hid⟩)).2.2
  rw [kview_some.mpr ⟨sh, rest, hs⟩] at this
  cases this

/-- what is NOT an exception: with no entry under `k` (e.g. while the worker is inside a `Delete` of `k`, past its
    `store.remove`), or with the id of the entry not charged (e.g. while the sweeper or the worker carries its eviction
    on past `kw.remove`), `InStep` holds whatever the index says -/
theorem inStep_of_absent {b : BState} {k : Nat} (h : b.g.store.get? k = none) : InStep b k := by
  intro e hk; rw [h] at hk; cases hk

theorem inStep_of_uncharged {b : BState} {k : Nat} (h : ∀ e, b.g.store.get? k = some e → ¬ Charged b e.id) :
    InStep b k :=
  fun e hk hc => absurd hc (h e hk)

/-- not an exception (1): while the sweeper carries an eviction on past its check (`wu.sub`, `store.remove`), the id it
    evicts is NOT charged — so `InStep` holds for the key of that id whatever the index says -/
theorem C10_layerB_evicting_id_uncharged {cfg : Cfg} {now : Nat} {seeds : List Nat} {clients : Nat} {b : BState}
    (hr : Reach cfg now seeds clients b) (hsh : b.g.shutting = false) {id n : Nat} (hev : eview b id = some n) :
    ¬ Charged b id := by
  obtain ⟨sh, rest, wk, hs⟩ := eview_some.mp hev
  have hev' : b.sw.evicting? = some (id, wk) := by
    rcases hs with hs | hs <;> rw [hs] <;> rfl
  have := ((bbij_reach hr hsh).sEvictStale id wk hev').1
  intro hc
  obtain ⟨wk', hg⟩ := charged_iff.mp hc
  rw [hg] at this; cases this

/-- not an exception (2): the id the worker holds inside a `Delete` past its `store.remove` (`kw.remove`, `wu.sub`,
    `ttl.delete`) is not the (charged) id of the entry stored under `k` — its `ttl.delete` never touches the index entry
    of a stored key -/
theorem C10_layerB_delete_holds_no_stored_id {cfg : Cfg} {now : Nat} {seeds : List Nat} {clients : Nat}
    {sm : List (Nat × Nat)} {h : List (BState × Act)} {b : BState} {k : Nat}
    (hrun : RunH { BState.init cfg now seeds clients with storeShard := sm } h b)
    (hser : Along (SerialCore · k) h b) (hsh : b.g.shutting = false) {e : Entry}
    (hk : b.g.store.get? k = some e) (hc : Charged b e.id) : b.w.delId? ≠ some e.id :=
  (kinv_run (.init sm) (kinv_init cfg now seeds clients sm k) hrun hser hsh e hk hc).delGone

/-! ### corollary: an expired key stays sweepable -/

/-- the forward direction of `C10_layerB_kwRemove_only_if_store_expired` (no run, no `Serial`): when the sweeper's
    `kw.remove` action for `id` finds the charge `wk` and every entry stored under `wk.key` with this id has expired by
    its own deadline (`unexpiredWithId = false`), the charge goes and the sweeper moves on to `wu.sub` with it -/
theorem C10_layerB_kwRemove_if_store_expired {b b' : BState} {v : Option Nat} {now sh id : Nat}
    {rest : List (Nat × Nat)} {wk : WKey} (hs : b.sw = .kwRemove now sh rest id) (hg : b.g.adm.kw.get? id = some wk)
    (hexp : ∀ e, b.g.store.get? wk.key = some e → e.id = id → ∃ t, e.expiry = some t ∧ b.g.now > t)
    (h : sweeperAct b v = .ok b') :
    b' = { b with g := { b.g with adm := { b.g.adm with kw := b.g.adm.kw.del id } }, sw := .sub now sh rest id wk } ∧
    b'.g.adm.kw.get? id = none := by
  have hu : unexpiredWithId b.g wk.key id = false := (unexpiredWithId_eq_false_iff _ _ _).mpr hexp
  rcases swB_kwRemove_spec hs h with ⟨wk', ⟨hg', _⟩, rfl⟩ | ⟨hcase, _⟩
  · rw [hg] at hg'; cases hg'
    exact ⟨rfl, AMap.get?_del_same _ _⟩
  · rcases hcase with hn | ⟨wk', hg', hu'⟩
    · rw [hg] at hn; cases hn
    · rw [hg] at hg'; cases hg'
      rw [hu] at hu'; cases hu'

/-- **The check at `kw.remove` takes out every key that has expired by its own stored deadline** (any reachable state,
    flag not set; no seriality needed): when the sweeper stands at `kw.remove` of the id of the entry stored under `k`,
    the id is charged and the entry's own deadline has passed, then `unexpiredWithId = false`, the charge found is the
    charge of `k`, and the action takes it out and moves on to `wu.sub` with it. -/
theorem C10_layerB_check_evicts_expired {cfg : Cfg} {now0 : Nat} {seeds : List Nat} {clients : Nat}
    {b b' : BState} {k : Nat} {v : Option Nat} {now sh : Nat} {rest : List (Nat × Nat)} {e : Entry} {t : Nat}
    (hr : Reach cfg now0 seeds clients b) (hsh : b.g.shutting = false) (hk : b.g.store.get? k = some e)
    (hc : Charged b e.id) (ht : e.expiry = some t) (hexp : b.g.now > t)
    (hs : b.sw = .kwRemove now sh rest e.id) (hact : sweeperAct b v = .ok b') :
    ∃ wk, b.g.adm.kw.get? e.id = some wk ∧ wk.key = k ∧ unexpiredWithId b.g k e.id = false ∧
      b'.sw = .sub now sh rest e.id wk ∧ b'.g.adm.kw.get? e.id = none := by
  have hj := bbij_reach hr hsh
  obtain ⟨wk, hg⟩ := charged_iff.mp hc
  have hkey := charged_key hj hk hg
  have hexp' : ∀ e2, b.g.store.get? wk.key = some e2 → e2.id = e.id → ∃ t, e2.expiry = some t ∧ b.g.now > t := by
    intro e2 hk2 _
    rw [hkey, hk] at hk2; cases hk2
    exact ⟨t, ht, hexp⟩
  obtain ⟨hb', hn⟩ := C10_layerB_kwRemove_if_store_expired hs hg hexp' hact
  refine ⟨wk, hg, hkey, ?_, by rw [hb'], hn⟩
  rw [← hkey]
  exact (unexpiredWithId_eq_false_iff _ _ _).mpr hexp'

/-- **C10 (corollary): an expired key stays sweepable.**  Along any run from the initial state every state of which is
    serial (core form) for `k`, flag not set: whenever the entry of `k` (charged) has expired by its stored deadline `t`
    and nobody is busy with `k`,
    * the index holds its entry, in the shard of its deadline, and in no other shard;
    * so the next sweep of that shard lists it: a `sweep.begin` action at a second `≡` that shard leads to `sweep.entry`
      with `(e.id, t)` among the entries to visit, nothing else changed;
    * it may be visited next (`C10_layerB_visit_enabled`), and the visit finds it due, takes the index entry out and
      starts the eviction (`C10_layerB_visit_decision`): the sweeper stands at `kw.remove` of `e.id`
    (where — `C10_layerB_check_evicts_expired` — the charge is taken out, unless a `put_or_update` has extended the stored
    deadline in the meantime). -/
theorem C10_layerB_expired_key_stays_sweepable {cfg : Cfg} {now0 : Nat} {seeds : List Nat} {clients : Nat}
    {sm : List (Nat × Nat)} {h : List (BState × Act)} {b : BState} {k : Nat} {e : Entry} {t : Nat}
    (hrun : RunH { BState.init cfg now0 seeds clients with storeShard := sm } h b)
    (hser : Along (SerialCore · k) h b) (hsh : b.g.shutting = false) (hk : b.g.store.get? k = some e)
    (hc : Charged b e.id) (ht : e.expiry = some t) (hexp : b.g.now > t) (hnb : ¬ Busy b k) :
    b.g.ttl.get? (shardOf b.g.cfg t, e.id) = some t ∧
    (∀ sh, sh ≠ shardOf b.g.cfg t → b.g.ttl.get? (sh, e.id) = none) ∧
    (∀ v b', b.sw = .begin → secsOf b.g.now % b.g.cfg.shards = shardOf b.g.cfg t → sweeperAct b v = .ok b' →
      ∃ rest, b'.sw = .entry b.g.now (shardOf b.g.cfg t) rest ∧ (e.id, t) ∈ rest ∧ b'.g = b.g ∧
        ∃ b'', sweeperAct b' (some e.id) = .ok b'' ∧
          b'' = { b' with g := { b'.g with ttl := b'.g.ttl.del (shardOf b.g.cfg t, e.id) },
                          sw := .kwRemove b.g.now (shardOf b.g.cfg t) (rest.filter (fun p => p.1 != e.id)) e.id }) := by
  have hr := swB_reach_run (.init sm) hrun
  have hin := C10_layerB_in_step_unless_busy_core hrun hser hsh hnb e hk hc
  rw [ht] at hin
  refine ⟨hin.1, hin.2, ?_⟩
  intro v b' hs hsec hact
  obtain ⟨_, hb'⟩ := swB_begin_spec hs hact
  rw [hsec] at hb'
  have hmem : (e.id, t) ∈ (b.g.ttl.filter (fun p => p.1.1 == shardOf b.g.cfg t)).map (fun p => (p.1.2, p.2)) := by
    refine List.mem_map.mpr ⟨((shardOf b.g.cfg t, e.id), t), ?_, rfl⟩
    exact List.mem_filter.mpr ⟨AMap.mem_of_get? hin.1, by simp⟩
  rcases swB_sweepNext_sw { b with ttlOwner := some (shardOf b.g.cfg t) } b.g.now (shardOf b.g.cfg t)
      ((b.g.ttl.filter (fun p => p.1.1 == shardOf b.g.cfg t)).map (fun p => (p.1.2, p.2))) with ⟨hsw, _⟩ | ⟨_, hnil⟩
  · rw [← hb'] at hsw
    have hg' : b'.g = b.g := by rw [hb', sweepNext_g]
    refine ⟨_, hsw, hmem, hg', ?_⟩
    obtain ⟨b'', hact'⟩ := C10_layerB_visit_enabled hsw hmem
    have hr' : Reach cfg now0 seeds clients b' :=
      .step (a := .sweeper v) (o := noO) (o' := noO) hr (by simp [stepB, hact])
    have hdec := (C10_layerB_visit_decision (C10_layerB_sweepInv hr') hsw hmem hact').1 hexp
    exact ⟨b'', hact', hdec.1⟩
  · rw [hnil] at hmem; cases hmem

/-! ### corollary: a serial key is not lost to the sweeper -/

/-- **C03 (corollary): under `Serial k` the sweeper never removes an entry of `k` that is unexpired by its own stored
    deadline.**  Along any run from the initial state every state of which is `Serial` for `k` (its clause (ce), `SerialEv`,
    is all that is used), flag not set: if a sweeper action takes the entry `en` away from `k` (afterwards `k` is absent or
    holds another id), `en` has a stored deadline and the clock has passed it.
    (`C10_layerB_never_removes_live_own_deadline` leaves one exception: an `upsert.update` of `k` between the sweeper's
    check and its `store.remove`; the state after that `upsert.update` has a client busy with the id of `k`'s entry AND
    the sweeper past its check of that id, which (ce) excludes.) -/
theorem C03_layerB_serial_key_not_lost_to_sweeper {cfg : Cfg} {now0 : Nat} {seeds : List Nat} {clients : Nat}
    {sm : List (Nat × Nat)} {h : List (BState × Act)} {b b' : BState} {k : Nat} {v : Option Nat} {o o' : Oracle}
    {en : Entry} (hrun : RunH { BState.init cfg now0 seeds clients with storeShard := sm } h b)
    (hser : Along (SerialEv · k) h b) (hsh : b.g.shutting = false)
    (hs : stepB b (.sweeper v) o = .ok (b', o')) (hk : b.g.store.get? k = some en)
    (hne : ∀ en', b'.g.store.get? k = some en' → en'.id ≠ en.id) :
    ∃ t, en.expiry = some t ∧ b.g.now > t := by
  have hr := swB_reach_run (.init sm) hrun
  have hE := evinv_run (.init sm) (evinv_init cfg now0 seeds clients sm k) hrun hser hsh
  obtain ⟨now, sh, rest, wk, hsw, _, _⟩ := C10_layerB_never_removes_live hr hs hk rfl hne
  exact hE en now hk (eview_some.mpr ⟨sh, rest, wk, Or.inr hsw⟩)

/-- … hence an entry of `k` that has no deadline, or whose deadline the clock has not passed, is still there, unchanged,
    after every sweeper action -/
theorem C03_layerB_serial_live_key_survives_sweeper {cfg : Cfg} {now0 : Nat} {seeds : List Nat} {clients : Nat}
    {sm : List (Nat × Nat)} {h : List (BState × Act)} {b b' : BState} {k : Nat} {v : Option Nat} {o o' : Oracle}
    {en : Entry} (hrun : RunH { BState.init cfg now0 seeds clients with storeShard := sm } h b)
    (hser : Along (SerialEv · k) h b) (hsh : b.g.shutting = false)
    (hs : stepB b (.sweeper v) o = .ok (b', o')) (hk : b.g.store.get? k = some en)
    (hlive : ∀ t, en.expiry = some t → b.g.now ≤ t) : b'.g.store.get? k = some en := by
  apply Classical.byContradiction
  intro hne
  have hr := swB_reach_run (.init sm) hrun
  obtain ⟨_, _, _, _, _, _, _, _, _, _, hnone⟩ := C10_layerB_never_removes_live_partial hr hs hk hne
  obtain ⟨t, hx, hgt⟩ := C03_layerB_serial_key_not_lost_to_sweeper hrun hser hsh hs hk
    (fun en' hk' => by rw [hnone] at hk'; cases hk')
  have := hlive t hx
  omega

/-- … and no sweeper action changes what a lookup of `k` answers (`C09_layerB_sweep_irrelevant_for_reads` without its
    exception) -/
theorem C09_layerB_serial_sweep_irrelevant_for_reads {cfg : Cfg} {now0 : Nat} {seeds : List Nat} {clients : Nat}
    {sm : List (Nat × Nat)} {h : List (BState × Act)} {b b' : BState} {k : Nat} {v : Option Nat} {o o' : Oracle}
    (hrun : RunH { BState.init cfg now0 seeds clients with storeShard := sm } h b)
    (hser : Along (SerialEv · k) h b) (hsh : b.g.shutting = false)
    (hs : stepB b (.sweeper v) o = .ok (b', o')) : expB_lookup b'.g k = expB_lookup b.g k := by
  have hr := swB_reach_run (.init sm) hrun
  rcases (C09_layerB_sweep_irrelevant_for_reads hr hs k).2 with hsame | ⟨now, sh, rest, e, wk, _, _, _, hk, hal, _, hnone, _⟩
  · exact hsame
  · exfalso
    obtain ⟨t, hx, hgt⟩ := C03_layerB_serial_key_not_lost_to_sweeper hrun hser hsh hs hk
      (fun en' hk' => by rw [hnone] at hk'; cases hk')
    have := ((expB_alive_iff e b.g.now).mp hal).2 t hx
    omega

/-! ## 5  concrete runs

  `ixB_all f b0 l` runs the schedule `l` from `b0` and evaluates `f` on EVERY state it passes through (the first and the
  last included); `ixB_all_run` turns a successful check into a run with its history. -/

def ixB_all (f : BState → Bool) : BState → List (Act × Oracle) → Bool
  | b, [] => f b
  | b, (a, o) :: rest =>
    f b && (match stepB b a o with
      | .ok (b', _) => ixB_all f b' rest
      | .error _ => false)

theorem ixB_all_run {f : BState → Bool} {b00 : BState} : ∀ (l : List (Act × Oracle)) {b0 : BState}
    {h0 : List (BState × Act)}, RunH b00 h0 b0 → (∀ p ∈ h0, f p.1 = true) → ixB_all f b0 l = true →
    ∃ h b, RunH b00 h b ∧ runB b0 l = .ok b ∧ f b = true ∧ ∀ p ∈ h, f p.1 = true := by
  intro l
  induction l with
  | nil => intro b0 h0 hr hh ha; exact ⟨h0, b0, hr, rfl, ha, hh⟩
  | cons x l ih =>
    intro b0 h0 hr hh ha
    obtain ⟨a, o⟩ := x
    simp only [ixB_all, Bool.and_eq_true] at ha
    obtain ⟨hf, ha⟩ := ha
    cases hs : stepB b0 a o with
    | error m => rw [hs] at ha; cases ha
    | ok r =>
      obtain ⟨b1, o1⟩ := r
      rw [hs] at ha
      simp only [] at ha
      have hh' : ∀ p ∈ (b0, a) :: h0, f p.1 = true := by
        intro p hp
        rcases List.mem_cons.mp hp with rfl | hp
        · exact hf
        · exact hh p hp
      obtain ⟨h, b, hr', hrun, hfb, hall⟩ := ih (.step hr hs) hh' ha
      exact ⟨h, b, hr', by simp only [runB, hs]; exact hrun, hfb, hall⟩

/-- a schedule that passes the check `Serial · k` at every state is a run every state of which is `Serial` for `k` -/
theorem ixB_serial_run {cfg : Cfg} {now : Nat} {seeds : List Nat} {clients : Nat} {k : Nat} {l : List (Act × Oracle)}
    (h : ixB_all (fun b => decide (Serial b k)) (BState.init cfg now seeds clients) l = true) :
    ∃ hist b, RunH { BState.init cfg now seeds clients with storeShard := [] } hist b ∧
      runB (BState.init cfg now seeds clients) l = .ok b ∧ Along (Serial · k) hist b := by
  obtain ⟨hist, b, hr, hrun, hfb, hall⟩ :=
    ixB_all_run (b00 := { BState.init cfg now seeds clients with storeShard := [] }) l (.nil _) (by simp) h
  exact ⟨hist, b, hr, hrun, of_decide_eq_true hfb, fun p hp => of_decide_eq_true (hall p hp)⟩

theorem swB_at_ok {run : List (Act × Oracle)} {f : BState → Bool} (h : swB_at run f = true) :
    ∃ b, runB (BState.init cfgEx 0 [1, 2, 3, 4] 2) run = .ok b ∧ f b = true := by
  unfold swB_at at h
  split at h
  · exact ⟨_, by assumption, h⟩
  · cases h

theorem swB_at_of_run {run : List (Act × Oracle)} {f : BState → Bool} {b : BState}
    (hr : runB (BState.init cfgEx 0 [1, 2, 3, 4] 2) run = .ok b) (h : swB_at run f = true) : f b = true := by
  unfold swB_at at h
  rw [hr] at h
  exact h

/-! ### the hypothesis `Serial` cannot be dropped: the three known runs

  Each of them passes through a state that is not `Serial` for key 1 and ends — every client idle, the worker at `recv`,
  the sweeper at `sweep.begin`, the flag not set — with nobody busy and the index OUT of step. -/

/-- two overlapping `put_or_update`s of key 1 (`swB_outOfStep` of LayerB/Sweep.lean: A writes the deadline 1000, B runs
    completely — deadline 2000, index 2000 —, then A's index actions run: index 1000).  After B's `upsert.update` (19
    actions) both clients stand inside the index part of their call. -/
theorem C10_layerB_in_step_needs_serial_two_upserts :
    ∃ b1 b, runB (BState.init cfgEx 0 [1, 2, 3, 4] 2) (swB_outOfStep.take 19) = .ok b1 ∧ ¬ Serial b1 1 ∧
      runB (BState.init cfgEx 0 [1, 2, 3, 4] 2) swB_outOfStep = .ok b ∧ b.g.shutting = false ∧
      b.g.store.get? 1 = some ⟨100, 1, some 2000, false⟩ ∧ b.g.ttl = [((0, 1), 1000)] ∧ Charged b 1 ∧
      ¬ Busy b 1 ∧ ¬ InStep b 1 := by
  have h1 : swB_at (swB_outOfStep.take 19) (fun b => decide (¬ Serial b 1)) = true := by decide
  have h2 : swB_at swB_outOfStep (fun b => decide (b.g.shutting = false ∧
      b.g.store.get? 1 = some ⟨100, 1, some 2000, false⟩ ∧ b.g.ttl = [((0, 1), 1000)] ∧ Charged b 1 ∧
      ¬ Busy b 1 ∧ ¬ InStep b 1)) = true := by decide
  obtain ⟨b1, hr1, hf1⟩ := swB_at_ok h1
  obtain ⟨b, hr, hf⟩ := swB_at_ok h2
  exact ⟨b1, b, hr1, of_decide_eq_true hf1, hr, of_decide_eq_true hf⟩

/-- the run `staleIndexRun` of Spec/RefineB.lean up to its clock move: client 0 (`time_to_live 1000`) rewrites the stored
    deadline 5 → 1000, client 1 (`remove_time_to_live`) rewrites 1000 → none and brings the index up to date first
    (`ttl.delete`), then client 0 (`ttl.update`: remove, insert `(0, 1) ↦ 1000`); the worker runs both `UpdateWeight`s -/
def ixB_staleIndexRun : List (Act × Oracle) :=
  call 0 (.putW 1 100 3 (some 5)) 4 ++ workerN 7 ++ call 0 (.upsert 1 none (some 3) (some 1000) false) 2 ++
  call 1 (.upsert 1 none (some 3) none true) 5 ++ List.replicate 4 (.client 0, noO) ++ workerN 4

theorem C10_layerB_in_step_needs_serial_stale_index :
    ∃ b1 b, runB (BState.init cfgEx 0 [1, 2, 3, 4] 2) (ixB_staleIndexRun.take 18) = .ok b1 ∧ ¬ Serial b1 1 ∧
      runB (BState.init cfgEx 0 [1, 2, 3, 4] 2) ixB_staleIndexRun = .ok b ∧ b.g.shutting = false ∧
      b.g.store.get? 1 = some ⟨100, 1, none, false⟩ ∧ b.g.ttl = [((0, 1), 1000)] ∧ Charged b 1 ∧
      ¬ Busy b 1 ∧ ¬ InStep b 1 := by
  have h1 : swB_at (ixB_staleIndexRun.take 18) (fun b => decide (¬ Serial b 1)) = true := by decide
  have h2 : swB_at ixB_staleIndexRun (fun b => decide (b.g.shutting = false ∧
      b.g.store.get? 1 = some ⟨100, 1, none, false⟩ ∧ b.g.ttl = [((0, 1), 1000)] ∧ Charged b 1 ∧
      ¬ Busy b 1 ∧ ¬ InStep b 1)) = true := by decide
  obtain ⟨b1, hr1, hf1⟩ := swB_at_ok h1
  obtain ⟨b, hr, hf⟩ := swB_at_ok h2
  exact ⟨b1, b, hr1, of_decide_eq_true hf1, hr, of_decide_eq_true hf⟩

/-- the D15 residue (the schedule of corpus/C10_D15residue.in on `cfgEx`): a `put_or_update` of key 1 overtakes the
    `ttl.put` of the put that created it — the worker stands between `store.put` and `ttl.put` (deadline 5) while the
    client rewrites the deadline (5 → 1000) and moves the index entry (nothing to remove, insert 1000); then the
    worker's `ttl.put` overwrites it with the OLD deadline 5 -/
def ixB_d15Run : List (Act × Oracle) :=
  call 0 (.putW 1 100 3 (some 5)) 4 ++ workerN 6 ++ call 1 (.upsert 1 none none (some 1000) false) 5 ++ workerN 1

theorem C10_layerB_in_step_needs_serial_put_upsert :
    ∃ b1 b, runB (BState.init cfgEx 0 [1, 2, 3, 4] 2) (ixB_d15Run.take 14) = .ok b1 ∧ ¬ Serial b1 1 ∧
      runB (BState.init cfgEx 0 [1, 2, 3, 4] 2) ixB_d15Run = .ok b ∧ b.g.shutting = false ∧
      b.g.store.get? 1 = some ⟨100, 1, some 1000, false⟩ ∧ b.g.ttl = [((0, 1), 5)] ∧ Charged b 1 ∧
      ¬ Busy b 1 ∧ ¬ InStep b 1 := by
  have h1 : swB_at (ixB_d15Run.take 14) (fun b => decide (¬ Serial b 1)) = true := by decide
  have h2 : swB_at ixB_d15Run (fun b => decide (b.g.shutting = false ∧
      b.g.store.get? 1 = some ⟨100, 1, some 1000, false⟩ ∧ b.g.ttl = [((0, 1), 5)] ∧ Charged b 1 ∧
      ¬ Busy b 1 ∧ ¬ InStep b 1)) = true := by decide
  obtain ⟨b1, hr1, hf1⟩ := swB_at_ok h1
  obtain ⟨b, hr, hf⟩ := swB_at_ok h2
  exact ⟨b1, b, hr1, of_decide_eq_true hf1, hr, of_decide_eq_true hf⟩

/-- **`Serial` cannot be dropped from `C03_layerB_serial_key_not_lost_to_sweeper`** (known finding D3, the run of
    `C10_layerB_upsert_after_check_loses_key`): the sweeper has passed its check of id 1 and stands at `wu.sub`; a
    `put_or_update(1)` rewrites the (expired) deadline 5 → 1010 — the state after its `upsert.update` is not `Serial` for
    key 1 (clause (ce): the client is busy with id 1 AND the sweeper is past its check of id 1) —; the sweeper's
    `store.remove` then takes away an entry whose own deadline lies ahead. -/
theorem C03_layerB_serial_needed_against_sweeper :
    ∃ b1 b b', runB (BState.init cfgEx 0 [1, 2, 3, 4] 2)
        (swB_visited ++ [(.sweeper none, noO)] ++ call 0 (.upsert 1 none none (some 1000) false) 2) = .ok b1 ∧
      ¬ Serial b1 1 ∧
      runB (BState.init cfgEx 0 [1, 2, 3, 4] 2)
        (swB_visited ++ [(.sweeper none, noO)] ++ call 0 (.upsert 1 none none (some 1000) false) 2 ++
          [(.sweeper none, noO)]) = .ok b ∧
      stepB b (.sweeper none) noO = .ok (b', noO) ∧ b.g.now = 10 ∧
      b.g.store.get? 1 = some ⟨100, 1, some 1010, false⟩ ∧ b'.g.store.get? 1 = none := by
  have h1 : swB_at (swB_visited ++ [(.sweeper none, noO)] ++ call 0 (.upsert 1 none none (some 1000) false) 2)
      (fun b => decide (¬ Serial b 1)) = true := by decide
  have h2 : swB_at (swB_visited ++ [(.sweeper none, noO)] ++ call 0 (.upsert 1 none none (some 1000) false) 2 ++
      [(.sweeper none, noO)]) (fun b =>
        match stepB b (.sweeper none) noO with
        | .ok (b', _) => decide (b.g.now = 10 ∧ b.g.store.get? 1 = some ⟨100, 1, some 1010, false⟩ ∧
            b'.g.store.get? 1 = none)
        | .error _ => false) = true := by decide
  obtain ⟨b1, hr1, hf1⟩ := swB_at_ok h1
  obtain ⟨b, hr, hf⟩ := swB_at_ok h2
  cases hs : stepB b (.sweeper none) noO with
  | error m => rw [hs] at hf; cases hf
  | ok r =>
    obtain ⟨b', o'⟩ := r
    rw [hs] at hf
    have ho : o' = noO := by
      simp only [stepB] at hs
      split at hs
      · simp only [Except.ok.injEq, Prod.mk.injEq] at hs; exact hs.2.symm
      · cases hs
    subst ho
    exact ⟨b1, b, b', hr1, of_decide_eq_true hf1, hr, hs, of_decide_eq_true hf⟩

/-- an overlap `Serial` ALLOWS: a `put_or_update` between the sweeper's visit and its check of the same id (the run of
    `C10_layerB_second_race_fixed_end`: key 1, deadline 5, is due at clock 10; the sweeper has removed its index entry
    and stands at `kw.remove`; the upsert extends the stored deadline to 1010; the sweeper skips; the upsert's
    `ttl.update.insert` enters the new deadline).  Every state is `Serial` for key 1 — while client and sweeper are both
    busy the index holds nothing (`Gap`) — and the run ends in step, as the theorem says. -/
theorem C10_layerB_in_step_upsert_during_check :
    ∃ hist b, RunH { BState.init cfgEx 0 [1, 2, 3, 4] 2 with storeShard := [] } hist b ∧
      runB (BState.init cfgEx 0 [1, 2, 3, 4] 2)
        (swB_visited ++ call 0 (.upsert 1 none none (some 1000) false) 2 ++ [(.sweeper none, noO), (.sweeper none, noO)] ++
          List.replicate 3 (.client 0, noO)) = .ok b ∧
      Along (Serial · 1) hist b ∧ ¬ Busy b 1 ∧ Charged b 1 ∧
      b.g.store.get? 1 = some ⟨100, 1, some 1010, false⟩ ∧ b.g.ttl = [((0, 1), 1010)] ∧ InStep b 1 ∧
      -- in the middle (after the `upsert.update`): client AND sweeper busy with id 1, the index empty
      swB_at (swB_visited ++ call 0 (.upsert 1 none none (some 1000) false) 2) (fun b =>
        decide (cview b 1 0 = some (some 5, some 1010) ∧ kview b 1 = some 10 ∧ b.g.ttl = [] ∧ Serial b 1)) = true := by
  have h1 : ixB_all (fun b => decide (Serial b 1)) (BState.init cfgEx 0 [1, 2, 3, 4] 2)
      (swB_visited ++ call 0 (.upsert 1 none none (some 1000) false) 2 ++ [(.sweeper none, noO), (.sweeper none, noO)] ++
        List.replicate 3 (.client 0, noO)) = true := by decide
  have h2 : swB_at (swB_visited ++ call 0 (.upsert 1 none none (some 1000) false) 2 ++
      [(.sweeper none, noO), (.sweeper none, noO)] ++ List.replicate 3 (.client 0, noO)) (fun b =>
        decide (b.g.shutting = false ∧ ¬ Busy b 1 ∧ Charged b 1 ∧
          b.g.store.get? 1 = some ⟨100, 1, some 1010, false⟩ ∧ b.g.ttl = [((0, 1), 1010)])) = true := by decide
  obtain ⟨hist, b, hrun, hr, hal⟩ := ixB_serial_run h1
  obtain ⟨g1, g2, g3, g4, g5⟩ := of_decide_eq_true (swB_at_of_run hr h2)
  exact ⟨hist, b, hrun, hr, hal, g2, g3, g4, g5, C10_layerB_in_step_unless_busy hrun hal g1 g2, by decide⟩

/-! ### the hypothesis `shutting = false` cannot be dropped (FINDING)

  `C10_layerB_in_step_unless_busy` WITHOUT the guard is FALSE of the model, with NO overlap on the key at all:
  `shutdown()` clears the store, the charges and — four actions later — the index, while the worker goes on applying a
  put that was queued before the call.  The worker stands before `kw.insert` of `put(1, ttl 5)` while `shutdown()` runs
  `store_clear` and `kw_clear`; the worker then runs `kw.insert`, `wu.add`, `store.put`, `ttl.put` (key stored, charged,
  indexed); `shutdown()` finishes with `ttl_clear`: the key is stored, charged and NOT INDEXED, every state of the run is
  `Serial` for key 1, nobody is busy.  (The sweeper exits at its next tick — `sweeperKeep = false` — so nothing would
  visit the entry anyway; the cache is shut down, every later call is refused.) -/
def ixB_shutdownRun : List (Act × Oracle) :=
  call 0 (.putW 1 100 3 (some 5)) 4 ++ workerN 3 ++ call 1 .shutdown 8 ++ workerN 4 ++ List.replicate 4 (.client 1, noO)

theorem C10_layerB_in_step_after_shutdown_counterexample :
    ∃ hist b, RunH { BState.init cfgEx 0 [1, 2, 3, 4] 2 with storeShard := [] } hist b ∧
      runB (BState.init cfgEx 0 [1, 2, 3, 4] 2) ixB_shutdownRun = .ok b ∧ Along (Serial · 1) hist b ∧
      (match b.cl, b.w with | [.idle, .idle], .recv => true | _, _ => false) = true ∧
      b.g.shutting = true ∧ b.g.store.get? 1 = some ⟨100, 1, some 5, false⟩ ∧ Charged b 1 ∧ b.g.ttl = [] ∧
      ¬ Busy b 1 ∧ ¬ InStep b 1 := by
  have h1 : ixB_all (fun b => decide (Serial b 1)) (BState.init cfgEx 0 [1, 2, 3, 4] 2) ixB_shutdownRun = true := by
    decide
  have h2 : swB_at ixB_shutdownRun (fun b => (match b.cl, b.w with | [.idle, .idle], .recv => true | _, _ => false) &&
      decide (b.g.shutting = true ∧ b.g.store.get? 1 = some ⟨100, 1, some 5, false⟩ ∧ Charged b 1 ∧ b.g.ttl = [] ∧
        ¬ Busy b 1 ∧ ¬ InStep b 1)) = true := by decide
  obtain ⟨hist, b, hrun, hr, hal⟩ := ixB_serial_run h1
  have hf := swB_at_of_run hr h2
  simp only [Bool.and_eq_true] at hf
  exact ⟨hist, b, hrun, hr, hal, hf.1, of_decide_eq_true hf.2⟩

/-! ### non-vacuity: one key, everything one after another, the sweeper and another key's traffic in between

  Configuration `ixB_cfg`: weight limit 10, TWO expiry shards (a deadline of `0.x s` lies in shard 0, of `1.x s` in shard 1,
  of `3.x s` in shard 1), two clients.  Key 1 is put (deadline 0.5 s), its deadline extended (1.5 s: the index entry
  moves from shard 0 to shard 1), shortened (0.25 s: back to shard 0), removed, added again (1.5 s), the key is deleted,
  put again (new id 3, deadline 0.5 s), expires and is swept (clock 2.1 s: shard 0), and put once more (id 4, deadline
  3.1 s) — client 0 issues these calls one after another, the worker applies each before the next begins.  In between:
  client 1 puts key 2 and upserts it, the sweeper sweeps shard 0 twice at clock 0 (it visits the entry of key 1 while
  client 0 stands between `upsert.update` and its index actions — the entry is not due and the sweeper moves on, which
  is no activity on the key) and once at clock 2.1 s. -/

def ixB_cfg : Cfg := { maxWeight := 10, shards := 2, cmdCap := 4, poolSize := 1, bufSize := 2, counters := 2 }

/-- one second -/
def ixB_s : Nat := 1000000000

def ixB_init : BState := BState.init ixB_cfg 0 [1, 2, 3, 4] 2

def ixB_at (run : List (Act × Oracle)) (f : BState → Bool) : Bool :=
  match runB ixB_init run with
  | .ok b => f b
  | .error _ => false

theorem ixB_at_of_run {run : List (Act × Oracle)} {f : BState → Bool} {b : BState}
    (hr : runB ixB_init run = .ok b) (h : ixB_at run f = true) : f b = true := by
  unfold ixB_at at h
  rw [hr] at h
  exact h

theorem ixB_serial_run' {k : Nat} {l : List (Act × Oracle)}
    (h : ixB_all (fun b => decide (Serial b k)) ixB_init l = true) :
    ∃ hist b, RunH { BState.init ixB_cfg 0 [1, 2, 3, 4] 2 with storeShard := [] } hist b ∧
      runB ixB_init l = .ok b ∧ Along (Serial · k) hist b :=
  ixB_serial_run (cfg := ixB_cfg) (now := 0) (seeds := [1, 2, 3, 4]) (clients := 2) h

def ixB_c (i : Nat) : Act × Oracle := (.client i, noO)
def ixB_w : Act × Oracle := (.worker, noO)
def ixB_sw (v : Option Nat) : Act × Oracle := (.sweeper v, noO)

def ixB_goodRun : List (Act × Oracle) :=
  -- 0–25: put key 1 (deadline 0.5 s, shard 0); client 1 puts key 2 (deadline 1.5 s, shard 1) in between; two empty sweeps
  call 0 (.putW 1 100 3 (some (ixB_s / 2))) 4 ++
  [(.issue 1 (.putW 2 200 4 (some (3 * ixB_s / 2))), noO), ixB_c 1, ixB_w, ixB_w, ixB_c 1, ixB_w, ixB_sw none, ixB_w,
   ixB_c 1, ixB_w, ixB_w, ixB_sw none, ixB_c 1, ixB_w] ++ workerN 7 ++
  -- 26–37: extend 0.5 s → 1.5 s (shard 0 → shard 1); the sweeper sweeps shard 0 and visits id 1 (not due) meanwhile
  [(.issue 0 (.upsert 1 none (some 3) (some (3 * ixB_s / 2)) false), noO), ixB_c 0, ixB_sw none, ixB_c 0, ixB_c 0,
   ixB_sw (some 1), ixB_c 0, ixB_sw none, ixB_c 0, ixB_c 0, ixB_w, ixB_w] ++
  -- 38–46: shorten 1.5 s → 0.25 s (shard 1 → shard 0)
  call 0 (.upsert 1 none (some 3) (some (ixB_s / 4)) false) 6 ++ workerN 2 ++
  -- 47–54: remove the deadline
  call 0 (.upsert 1 none (some 3) none true) 5 ++ workerN 2 ++
  -- 55–69: add a deadline again (1.5 s), interleaved with client 1's upsert of key 2
  [(.issue 1 (.upsert 2 (some 201) none none false), noO), ixB_c 1,
   (.issue 0 (.upsert 1 none (some 3) (some (3 * ixB_s / 2)) false), noO), ixB_c 0, ixB_c 1, ixB_c 0, ixB_c 1, ixB_c 0,
   ixB_c 0, ixB_c 1, ixB_c 0, ixB_w, ixB_w, ixB_w, ixB_w] ++
  -- 70–78: delete key 1;  79–90: put it again (id 3, deadline 0.5 s)
  call 0 (.delete 1) 3 ++ workerN 5 ++ call 0 (.putW 1 101 3 (some (ixB_s / 2))) 4 ++ workerN 7 ++
  -- 91–97: clock 2.1 s: the sweep of shard 0 visits id 3 (due), checks it and evicts it
  [(.advance (21 * ixB_s / 10), noO), ixB_sw none, ixB_sw (some 3), ixB_sw none, ixB_sw none, ixB_sw none, ixB_sw none] ++
  -- 98–109: put it once more (id 4, deadline 3.1 s, shard 1)
  call 0 (.putW 1 102 3 (some ixB_s)) 4 ++ workerN 7

/-- every state of `ixB_goodRun` is `Serial` for key 1 -/
theorem ixB_goodRun_serial : ixB_all (fun b => decide (Serial b 1)) ixB_init ixB_goodRun = true := by decide

/-- **Non-vacuity of `C10_layerB_in_step_unless_busy`**: `ixB_goodRun` satisfies its hypotheses and ends with key 1 stored
    under id 4 with the deadline 3.1 s, charged, nobody busy; the theorem gives `InStep`, and indeed the index holds
    `(1, 4) ↦ 3.1 s` and no other entry for id 4. -/
theorem C10_layerB_in_step_unless_busy_witness :
    ∃ hist b, RunH { BState.init ixB_cfg 0 [1, 2, 3, 4] 2 with storeShard := [] } hist b ∧
      runB ixB_init ixB_goodRun = .ok b ∧ Along (Serial · 1) hist b ∧ b.g.shutting = false ∧ ¬ Busy b 1 ∧
      b.g.store.get? 1 = some ⟨102, 4, some 3100000000, false⟩ ∧ Charged b 4 ∧
      b.g.ttl = [((1, 4), 3100000000), ((1, 2), 1500000000)] ∧ InStep b 1 := by
  obtain ⟨hist, b, hrun, hr, hal⟩ := ixB_serial_run' ixB_goodRun_serial
  have h2 : ixB_at ixB_goodRun (fun b => decide (b.g.shutting = false ∧ ¬ Busy b 1 ∧
      b.g.store.get? 1 = some ⟨102, 4, some 3100000000, false⟩ ∧ Charged b 4 ∧
      b.g.ttl = [((1, 4), 3100000000), ((1, 2), 1500000000)])) = true := by decide
  obtain ⟨g1, g2, g3, g4, g5⟩ := of_decide_eq_true (ixB_at_of_run hr h2)
  exact ⟨hist, b, hrun, hr, hal, g1, g2, g3, g4, g5, C10_layerB_in_step_unless_busy hrun hal g1 g2⟩

/-- … and the end state IS in step (checked directly) -/
example : ixB_at ixB_goodRun (fun b => decide (InStep b 1 ∧ InStep b 2)) = true := by decide

/-! ### every exception of `Busy` is needed: states of the serial run `ixB_goodRun` in which ONE thread is busy with
    key 1 and the index is out of step -/

/-- the worker between `store.put` and `ttl.put` of the put of key 1 (after 16 actions): stored, charged, not indexed -/
theorem C10_layerB_busy_worker_out_of_step :
    ixB_all (fun b => decide (Serial b 1)) ixB_init (ixB_goodRun.take 16) = true ∧
    ixB_at (ixB_goodRun.take 16) (fun b =>
      (match b.w with | .ttlPut c t => decide (c.k = 1 ∧ c.id = 1 ∧ t = 500000000) | _ => false) &&
      decide (b.g.store.get? 1 = some ⟨100, 1, some 500000000, false⟩ ∧ Charged b 1 ∧ b.g.ttl = [] ∧
        Busy b 1 ∧ ¬ InStep b 1)) = true := by
  constructor <;> decide

/-- a client between `upsert.update` and its index actions (after 30 actions: at `upsert.weight_of`): the stored
    deadline is 1.5 s, the index still holds 0.5 s -/
theorem C10_layerB_busy_client_out_of_step :
    ixB_all (fun b => decide (Serial b 1)) ixB_init (ixB_goodRun.take 30) = true ∧
    ixB_at (ixB_goodRun.take 30) (fun b =>
      (match b.cl[0]? with | some (CPc.upWeightOf 1 _ (some 500000000) (some 1500000000)) => true | _ => false) &&
      decide (b.g.store.get? 1 = some ⟨100, 1, some 1500000000, false⟩ ∧ Charged b 1 ∧
        b.g.ttl.get? (0, 1) = some 500000000 ∧ b.g.ttl.get? (1, 1) = none ∧ Busy b 1 ∧ ¬ InStep b 1)) = true := by
  constructor <;> decide

/-- the sweeper between `sweep.entry` and its check (after 94 actions: at `kw.remove` of id 3): stored, charged, the
    index entry gone -/
theorem C10_layerB_busy_sweeper_out_of_step :
    ixB_all (fun b => decide (Serial b 1)) ixB_init (ixB_goodRun.take 94) = true ∧
    ixB_at (ixB_goodRun.take 94) (fun b =>
      (match b.sw with | .kwRemove 2100000000 0 [] 3 => true | _ => false) &&
      decide (b.g.store.get? 1 = some ⟨101, 3, some 500000000, false⟩ ∧ Charged b 3 ∧
        b.g.ttl.get? (0, 3) = none ∧ Busy b 1 ∧ ¬ InStep b 1)) = true := by
  constructor <;> decide

/-! ### the corollaries on `ixB_goodRun` -/

/-- hypotheses of `C10_layerB_expired_key_stays_sweepable` (after 92 actions: clock 2.1 s, key 1 — id 3, deadline 0.5 s —
    expired, charged, nobody busy, the sweeper at `sweep.begin`, second 2 ≡ shard 0): the theorem gives the index entry
    and the two sweeper actions that bring the sweeper to `kw.remove` of id 3 -/
example : ∃ hist b, RunH { BState.init ixB_cfg 0 [1, 2, 3, 4] 2 with storeShard := [] } hist b ∧
    runB ixB_init (ixB_goodRun.take 92) = .ok b ∧
    b.g.ttl.get? (0, 3) = some 500000000 ∧ b.g.ttl.get? (1, 3) = none ∧
    ∃ b' rest b'', sweeperAct b none = .ok b' ∧ b'.sw = .entry 2100000000 0 rest ∧ (3, 500000000) ∈ rest ∧
      sweeperAct b' (some 3) = .ok b'' ∧ kview b'' 3 = some 2100000000 := by
  have h1 : ixB_all (fun b => decide (Serial b 1)) ixB_init (ixB_goodRun.take 92) = true := by decide
  obtain ⟨hist, b, hrun, hr, hal⟩ := ixB_serial_run' h1
  have h2 : ixB_at (ixB_goodRun.take 92) (fun b => (match b.sw with | .begin => true | _ => false) &&
      (sweeperAct b none).toBool &&
      decide (b.g.shutting = false ∧ b.g.store.get? 1 = some ⟨101, 3, some 500000000, false⟩ ∧ Charged b 3 ∧
        b.g.now = 2100000000 ∧ b.g.cfg.shards = 2 ∧ ¬ Busy b 1)) = true := by decide
  have hf := ixB_at_of_run hr h2
  simp only [Bool.and_eq_true] at hf
  obtain ⟨⟨hsw, hact⟩, hf⟩ := hf
  obtain ⟨g1, g2, g3, g4, g5, g6⟩ := of_decide_eq_true hf
  have hbegin : b.sw = .begin := by
    revert hsw; cases b.sw <;> intro h <;> first | rfl | cases h
  obtain ⟨b', hact'⟩ : ∃ b', sweeperAct b none = .ok b' := by
    revert hact; cases sweeperAct b none <;> intro h <;> first | exact ⟨_, rfl⟩ | cases h
  obtain ⟨c1, c2, c3⟩ := C10_layerB_expired_key_stays_sweepable (t := 500000000) hrun
    (hal.mono (fun _ => Serial.core)) g1 g2 g3 rfl (by rw [g4]; decide) g6
  have hsh0 : shardOf b.g.cfg 500000000 = 0 := by unfold shardOf; rw [g5]; decide
  obtain ⟨rest, d1, d2, _, b'', d4, d5⟩ := c3 none b' hbegin (by rw [g4, g5, hsh0]; decide) hact'
  rw [g4, hsh0] at d1
  refine ⟨hist, b, hrun, hr, by rw [hsh0] at c1; exact c1, c2 1 (by rw [hsh0]; decide), b', rest, b'', hact', d1, d2, d4, ?_⟩
  exact kview_some.mpr ⟨0, _, by rw [d5, g4, hsh0]⟩

/-- hypotheses of `C10_layerB_check_evicts_expired` (after 94 actions: the sweeper at `kw.remove` of id 3, key 1 expired):
    the check takes the charge out -/
example : ∃ b, runB ixB_init (ixB_goodRun.take 94) = .ok b ∧
    ∃ b' wk sh rest, sweeperAct b none = .ok b' ∧ b.sw = .kwRemove 2100000000 sh rest 3 ∧
      b'.sw = .sub 2100000000 sh rest 3 wk ∧ wk.key = 1 ∧ b'.g.adm.kw.get? 3 = none := by
  have h2 : ixB_at (ixB_goodRun.take 94) (fun b => (sweeperAct b none).toBool &&
      decide (kview b 3 = some 2100000000 ∧ b.g.shutting = false ∧
        b.g.store.get? 1 = some ⟨101, 3, some 500000000, false⟩ ∧ Charged b 3 ∧ b.g.now = 2100000000)) = true := by
    decide
  obtain ⟨b, hr⟩ : ∃ b, runB ixB_init (ixB_goodRun.take 94) = .ok b := by
    unfold ixB_at at h2
    split at h2
    · exact ⟨_, by assumption⟩
    · cases h2
  have hreach : Reach ixB_cfg 0 [1, 2, 3, 4] 2 b :=
    reach_runB (b := { BState.init ixB_cfg 0 [1, 2, 3, 4] 2 with storeShard := [] }) _ (.init []) hr
  have hf := ixB_at_of_run hr h2
  simp only [Bool.and_eq_true] at hf
  obtain ⟨hact, hf⟩ := hf
  obtain ⟨g0, g1, g2, g3, g4⟩ := of_decide_eq_true hf
  obtain ⟨sh, rest, hkw⟩ := kview_some.mp g0
  obtain ⟨b', hact'⟩ : ∃ b', sweeperAct b none = .ok b' := by
    revert hact; cases sweeperAct b none <;> intro h <;> first | exact ⟨_, rfl⟩ | cases h
  obtain ⟨wk, _, hkey, _, hsub, hnone⟩ := C10_layerB_check_evicts_expired (e := ⟨101, 3, some 500000000, false⟩)
    (t := 500000000) hreach g1 g2 g3 rfl (by rw [g4]; decide) hkw hact'
  exact ⟨b, hr, b', wk, sh, rest, hact', hkw, hsub, hkey, hnone⟩

/-- hypotheses of `C03_layerB_serial_key_not_lost_to_sweeper` (after 96 actions: the sweeper's `store.remove` takes key
    1 away): the removed entry had expired by its own deadline -/
example : ∃ hist b b' o' en, RunH { BState.init ixB_cfg 0 [1, 2, 3, 4] 2 with storeShard := [] } hist b ∧
    runB ixB_init (ixB_goodRun.take 96) = .ok b ∧ stepB b (.sweeper none) noO = .ok (b', o') ∧
    b.g.store.get? 1 = some en ∧ b'.g.store.get? 1 = none ∧ ∃ t, en.expiry = some t ∧ b.g.now > t := by
  have h1 : ixB_all (fun b => decide (Serial b 1)) ixB_init (ixB_goodRun.take 96) = true := by decide
  obtain ⟨hist, b, hrun, hr, hal⟩ := ixB_serial_run' h1
  have h2 : ixB_at (ixB_goodRun.take 96) (fun b =>
      match stepB b (.sweeper none) noO with
      | .ok (b', _) => decide (b.g.shutting = false ∧ b.g.store.get? 1 = some ⟨101, 3, some 500000000, false⟩ ∧
          b'.g.store.get? 1 = none)
      | .error _ => false) = true := by decide
  have hf := ixB_at_of_run hr h2
  cases hs : stepB b (.sweeper none) noO with
  | error m => rw [hs] at hf; cases hf
  | ok r =>
    obtain ⟨b', o'⟩ := r
    rw [hs] at hf
    obtain ⟨g1, g2, g3⟩ := of_decide_eq_true hf
    exact ⟨hist, b, b', o', _, hrun, hr, hs, g2, g3,
      C03_layerB_serial_key_not_lost_to_sweeper hrun (hal.mono (fun _ => Serial.ev)) g1 hs g2 (fun en' hk' => by rw [g3] at hk'; cases hk')⟩

/-- hypotheses of `C03_layerB_serial_live_key_survives_sweeper` (after 31 actions: the sweeper visits the index entry of
    key 1, whose stored deadline 1.5 s is ahead, while client 0 stands inside its `put_or_update`): the entry stays -/
example : ∃ hist b b' o' en, RunH { BState.init ixB_cfg 0 [1, 2, 3, 4] 2 with storeShard := [] } hist b ∧
    runB ixB_init (ixB_goodRun.take 31) = .ok b ∧ stepB b (.sweeper (some 1)) noO = .ok (b', o') ∧
    b.g.store.get? 1 = some en ∧ b'.g.store.get? 1 = some en := by
  have h1 : ixB_all (fun b => decide (Serial b 1)) ixB_init (ixB_goodRun.take 31) = true := by decide
  obtain ⟨hist, b, hrun, hr, hal⟩ := ixB_serial_run' h1
  have h2 : ixB_at (ixB_goodRun.take 31) (fun b =>
      (stepB b (.sweeper (some 1)) noO).toBool &&
      decide (b.g.shutting = false ∧ b.g.store.get? 1 = some ⟨100, 1, some 1500000000, false⟩ ∧ b.g.now = 0)) = true := by
    decide
  have hf := ixB_at_of_run hr h2
  simp only [Bool.and_eq_true] at hf
  obtain ⟨hact, hf⟩ := hf
  obtain ⟨g1, g2, g3⟩ := of_decide_eq_true hf
  cases hs : stepB b (.sweeper (some 1)) noO with
  | error m => rw [hs] at hact; cases hact
  | ok r =>
    obtain ⟨b', o'⟩ := r
    exact ⟨hist, b, b', o', _, hrun, hr, hs, g2,
      C03_layerB_serial_live_key_survives_sweeper hrun (hal.mono (fun _ => Serial.ev)) g1 hs g2 (fun t ht => by cases ht; rw [g3]; decide)⟩

end B
end Cached
