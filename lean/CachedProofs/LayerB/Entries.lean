/-
  C07 ("put never overwrites") and the frame part of C03 ("only these remove / alter an entry") at ACTION granularity:
  for every atomic action of every thread of Layer B (CachedModel/LayerB.lean) and every interleaving.

  Layout
    0  `StoreEff`: the eight ways ONE action relates the store before and after it, `stepB_storeEff` (every action of
       every thread is one of them).  The worker's / clients' store-relevant actions as exact equations
       (`ent_workerAct_present`, `ent_workerAct_storePut`, `ent_workerAct_delStore`, `ent_clientAct_upUpdate`,
       `ent_clientAct_delMark`): `WTrans` / `CTrans` of Inv.lean forget the outcome of the presence checks and the deadline
       `upsert.update` writes.
    1  C07  the additional invariant `WAbsent` (`wabsent_step`, `wabsent_reach`) and
         (1) `C07_layerB_worker_key_absent`           between re-check and `store.put` of a put of `k`: no entry for `k`
         (2) `C07_layerB_store_put_never_overwrites`  `store.put` runs on an absent key and stores exactly the new entry
             `C07_layerB_id_never_replaced`           no action replaces an entry by one with another id
         (3) `C07_layerB_present_refused` (`…_client`, `…_worker`), `C07_layerB_absent_not_refused`
         (4) `C07_layerB_only_worker_creates`
    2  C03
         (5) `C03_layerB_only_these_remove_partial` (every state), `…_step` / `…_reach` (+ the evicting put is not a put
             of `k`), `C03_layerB_eviction_under_pressure` (along any run: the evicting put did not fit).
             The clause "the removed entry carries the id being evicted" HOLDS for the sweeper (its delete hook is
             `delete_if_key_id_matches`, `applyEvictId`): `C03_layerB_sweeper_removes_own_id`,
             `C03_layerB_only_these_remove_sweeper_id`, and the race that used to refute it now keeps the new
             incarnation (`C03_layerB_remove_id_race_keeps`).  It is FALSE for the worker's eviction, whose delete hook
             is still `store.delete(&key)` and removes whatever entry the KEY has:
             `C03_layerB_evict_id_counterexample` (the stale charge it needs is left by `shutdown()`'s two-step clear),
             `C03_layerB_only_these_remove_false`.  No relation between the two ids holds (ids are drawn before the
             commands are sent, so not even `evicted id ≤ removed id`).
         (6) `C03_layerB_only_these_alter` (`…_reach`)
         (7) `touches`, `Quiet`, `C03_layerB_quiet_run_retains` (`…'` from any state satisfying `WAbsent`);
             `creates`, `Still`, `C03_layerB_still_run_same` (no invariant at all); `quietRun` (executable check)
    3  concrete interleavings on `cfgEx` (`counters := 2`): the put race (two clients, same key, both pass the caller-side
       check; the worker's re-check refuses the second), the four removers, the two alterers, a quiet run, the
       counterexamples, a run under memory pressure.

  Hypothesis added to (6), (7) and to the `c.k ≠ k` clause of (5): `WAbsent b` — it holds at every reachable state
  (`wabsent_reach`); without it `store.put` could overwrite (in an unreachable state).
-/
import CachedProofs.LayerB.Theorems

namespace Cached
namespace B

/-! ## 0  what one action does to the store -/

/-- the deadline `store.put` writes for a put with time-to-live `ttl` at clock `now` (`none`: not representable, the
    worker panics and writes nothing) -/
def putExpiry (now : Nat) : Option Nat → Option (Option Nat)
  | none => some none
  | some t => (addTime now t).map some

/-- the deadline `upsert.update` writes (`none`: not representable, the caller panics and writes nothing) -/
def upExpiry (now : Nat) (ttl : Option Nat) (rm : Bool) (old : Option Nat) : Option (Option Nat) :=
  if rm then some none
  else match ttl with
    | some t => (match addTime now t with | some x => some (some x) | none => none)
    | none => some old

/-- The eight ways ONE atomic action relates the store before and after it. -/
inductive StoreEff (b : BState) : Act → BState → Prop where
  /-- every other action of every thread: the store is untouched -/
  | same (a : Act) (b' : BState) : b'.g.store = b.g.store → StoreEff b a b'
  /-- the worker's `store.put` of the put it is applying -/
  | put (c : PutCmd) (exp : Option Nat) (b' : BState) : b.w = .storePut c → putExpiry b.g.now c.ttl = some exp →
      storeWritable b c.k none = true →
      b'.g.store = b.g.store.set c.k { value := c.v, id := c.id, expiry := exp, soft := false } →
      StoreEff b .worker b'
  /-- the worker's `store.remove` of a `Delete` command that finds the key -/
  | del (k : Nat) (h : Option Nat) (e : Entry) (b' : BState) : b.w = .delStore k h → b.g.store.get? k = some e →
      b'.g.store = b.g.store.del k → StoreEff b .worker b'
  /-- the worker's `store.remove` inside an eviction (the delete hook of `CacheWeight::delete`) -/
  | evict (c : PutCmd) (inc : Nat) (s : List SKey) (id : Nat) (wk : WKey) (b' : BState) :
      b.w = .evStore c inc s id wk → b'.g.store = b.g.store.del wk.key → StoreEff b .worker b'
  /-- the sweeper's `store.remove` (the ticker's delete hook `delete_if_key_id_matches`) that finds the key stored under
      the id it is evicting (otherwise it leaves the store alone: `same`) -/
  | sweep (v : Option Nat) (now sh : Nat) (rest : List (Nat × Nat)) (id : Nat) (wk : WKey) (b' : BState) :
      b.sw = .store now sh rest id wk → b'.g.store = b.g.store.del wk.key →
      (∃ en, b.g.store.get? wk.key = some en ∧ en.id = id) → StoreEff b (.sweeper v) b'
  /-- a client's `delete.mark` that finds the key -/
  | mark (i k : Nat) (e : Entry) (b' : BState) : b.cl[i]? = some (.delMark k) → b.g.store.get? k = some e →
      b'.g.store = b.g.store.set k { e with soft := true } → StoreEff b (.client i) b'
  /-- a client's `upsert.update` that finds the key -/
  | upsert (i k : Nat) (v : Option Nat) (w : Option Int) (ttl : Option Nat) (rm : Bool) (e : Entry) (exp : Option Nat)
      (b' : BState) : b.cl[i]? = some (.upUpdate k v w ttl rm) → b.g.store.get? k = some e →
      upExpiry b.g.now ttl rm e.expiry = some exp →
      b'.g.store = b.g.store.set k { e with expiry := exp, value := v.getD e.value } → StoreEff b (.client i) b'
  /-- `shutdown()`'s `store.clear` -/
  | clear (i : Nat) (b' : BState) : b.cl[i]? = some .shutStoreClear → b'.g.store = [] → StoreEff b (.client i) b'

/-! ### the worker -/

theorem ent_wtrans_store_same {b b' : BState} (h : WTrans b b') (h1 : ∀ c, b.w ≠ .storePut c)
    (h2 : ∀ k hh, b.w ≠ .delStore k hh) (h3 : ∀ c e s i wk, b.w ≠ .evStore c e s i wk) :
    b'.g.store = b.g.store := by
  cases h
  case storePutPlain c hw _ _ => exact absurd hw (h1 c)
  case storePutPanic c t hw _ _ => exact absurd hw (h1 c)
  case storePutTtl c t e hw _ _ => exact absurd hw (h1 c)
  case delStoreNone k hh hw _ => exact absurd hw (h2 k hh)
  case delStoreSome k hh e hw _ _ => exact absurd hw (h2 k hh)
  case evStore c e s i wk hw _ => exact absurd hw (h3 c e s i wk)
  all_goals simp [finishCmd, rejectCmd, ttlPut, ttlDelete]

/-- the worker's `store.put` action, exactly -/
theorem ent_workerAct_storePut {b b' : BState} {o o' : Oracle} {c : PutCmd} (hw : b.w = .storePut c)
    (h : workerAct b o = .ok (b', o')) :
    storeWritable b c.k none = true ∧ o' = o ∧
    ((c.ttl = none ∧
        b' = finishCmd { b with g := { b.g with
                store := b.g.store.set c.k { value := c.v, id := c.id, expiry := none, soft := false },
                stats := { b.g.stats with keysAdded := b.g.stats.keysAdded + 1 } } } c.h .accepted) ∨
     (∃ t, c.ttl = some t ∧ addTime b.g.now t = none ∧
        b' = { b with w := .dead, g := { b.g with worker := .dead, queue := [] } }) ∨
     (∃ t e, c.ttl = some t ∧ addTime b.g.now t = some e ∧
        b' = { b with g := { b.g with
                store := b.g.store.set c.k { value := c.v, id := c.id, expiry := some e, soft := false },
                stats := { b.g.stats with keysAdded := b.g.stats.keysAdded + 1 } }, w := .ttlPut c e })) := by
  simp only [workerAct, hw] at h
  split at h
  · cases h
  · rename_i hwr
    simp only [Bool.not_eq_true, Bool.not_eq_false'] at hwr
    split at h
    · rename_i ht
      simp only [Except.ok.injEq, Prod.mk.injEq] at h; obtain ⟨rfl, rfl⟩ := h
      exact ⟨hwr, rfl, Or.inl ⟨ht, rfl⟩⟩
    · rename_i t ht
      split at h
      · rename_i ha
        simp only [Except.ok.injEq, Prod.mk.injEq] at h; obtain ⟨rfl, rfl⟩ := h
        exact ⟨hwr, rfl, Or.inr (Or.inl ⟨t, ht, ha, rfl⟩)⟩
      · rename_i e ha
        simp only [Except.ok.injEq, Prod.mk.injEq] at h; obtain ⟨rfl, rfl⟩ := h
        exact ⟨hwr, rfl, Or.inr (Or.inr ⟨t, e, ht, ha, rfl⟩)⟩

/-- the worker's `store.remove` action of a `Delete` command, exactly -/
theorem ent_workerAct_delStore {b b' : BState} {o o' : Oracle} {k : Nat} {hh : Option Nat} (hw : b.w = .delStore k hh)
    (h : workerAct b o = .ok (b', o')) :
    storeWritable b k none = true ∧ o' = o ∧
    ((b.g.store.get? k = none ∧ b' = finishCmd b hh (.rejected .keyDoesNotExist)) ∨
     (∃ e, b.g.store.get? k = some e ∧
        b' = { b with g := { b.g with store := b.g.store.del k,
                                      stats := { b.g.stats with keysDeleted := b.g.stats.keysDeleted + 1 } },
                      w := .delKw e.id e.expiry hh })) := by
  simp only [workerAct, hw] at h
  split at h
  · cases h
  · rename_i hwr
    simp only [Bool.not_eq_true, Bool.not_eq_false'] at hwr
    split at h
    · rename_i hk
      simp only [Except.ok.injEq, Prod.mk.injEq] at h; obtain ⟨rfl, rfl⟩ := h
      exact ⟨hwr, rfl, Or.inl ⟨hk, rfl⟩⟩
    · rename_i e hk
      simp only [Except.ok.injEq, Prod.mk.injEq] at h; obtain ⟨rfl, rfl⟩ := h
      exact ⟨hwr, rfl, Or.inr ⟨e, hk, rfl⟩⟩

/-- the worker's presence re-check, exactly -/
theorem ent_workerAct_present {b b' : BState} {o o' : Oracle} {c : PutCmd} (hw : b.w = .present c)
    (h : workerAct b o = .ok (b', o')) :
    o' = o ∧
    ((b.g.store.contains c.k = true ∧ b' = finishCmd b c.h (.rejected .keyAlreadyExists)) ∨
     (b.g.store.contains c.k = false ∧ c.w > b.g.adm.max ∧ b' = rejectCmd b c.h (.rejected .tooHeavy)) ∨
     (b.g.store.contains c.k = false ∧ ¬ c.w > b.g.adm.max ∧ b' = { b with w := .space0 c })) := by
  simp only [workerAct, hw] at h
  split at h
  · rename_i hc
    simp only [Except.ok.injEq, Prod.mk.injEq] at h; obtain ⟨rfl, rfl⟩ := h
    exact ⟨rfl, Or.inl ⟨hc, rfl⟩⟩
  · rename_i hc
    simp only [Bool.not_eq_true] at hc
    split at h
    · rename_i hm
      simp only [Except.ok.injEq, Prod.mk.injEq] at h; obtain ⟨rfl, rfl⟩ := h
      exact ⟨rfl, Or.inr (Or.inl ⟨hc, hm, rfl⟩)⟩
    · rename_i hm
      simp only [Except.ok.injEq, Prod.mk.injEq] at h; obtain ⟨rfl, rfl⟩ := h
      exact ⟨rfl, Or.inr (Or.inr ⟨hc, hm, rfl⟩)⟩

/-- one action of the worker, as a store effect -/
theorem ent_workerAct_storeEff {b b' : BState} {o o' : Oracle} (h : workerAct b o = .ok (b', o')) :
    StoreEff b .worker b' := by
  by_cases h1 : ∃ c, b.w = .storePut c
  · obtain ⟨c, hw⟩ := h1
    obtain ⟨hwr, _, ⟨ht, rfl⟩ | ⟨t, ht, ha, rfl⟩ | ⟨t, e, ht, ha, rfl⟩⟩ := ent_workerAct_storePut hw h
    · exact .put c none _ hw (by rw [ht]; rfl) hwr rfl
    · exact .same _ _ rfl
    · exact .put c (some e) _ hw (by rw [ht]; simp [putExpiry, ha]) hwr rfl
  by_cases h2 : ∃ k hh, b.w = .delStore k hh
  · obtain ⟨k, hh, hw⟩ := h2
    obtain ⟨_, _, ⟨_, rfl⟩ | ⟨e, hk, rfl⟩⟩ := ent_workerAct_delStore hw h
    · exact .same _ _ rfl
    · exact .del k hh e _ hw hk rfl
  by_cases h3 : ∃ c e s i wk, b.w = .evStore c e s i wk
  · obtain ⟨c, e, s, i, wk, hw⟩ := h3
    simp only [workerAct, hw] at h
    split at h
    · cases h
    · simp only [Except.ok.injEq, Prod.mk.injEq] at h; obtain ⟨rfl, rfl⟩ := h
      exact .evict c e s i wk _ hw (by simp [applyEvict_store])
  · exact .same _ _ (ent_wtrans_store_same (workerAct_trans h) (fun c hc => h1 ⟨c, hc⟩) (fun k hh hc => h2 ⟨k, hh, hc⟩)
      (fun c e s i wk hc => h3 ⟨c, e, s, i, wk, hc⟩))

/-! ### the sweeper -/

theorem ent_sweeperAct_storeEff {b b' : BState} {v : Option Nat} (h : sweeperAct b v = .ok b') :
    StoreEff b (.sweeper v) b' := by
  have ht := sweeperAct_trans h
  cases ht
  case store now sh rest id wk hs _ =>
    rcases Cached.applyEvictId_store_cases b.g (id, wk.key, wk.weight) with ⟨hm, hst⟩ | ⟨_, hst⟩
    · exact .sweep v now sh rest id wk _ hs (by simp only [sweepNext_g]; exact hst) (Cached.evictIdMatches_iff.mp hm)
    · exact .same _ _ (by simp only [sweepNext_g]; exact hst)
  all_goals exact .same _ _ (by simp [sweepNext_g])

/-! ### the clients -/

/-- the weight `put_or_update` goes on with -/
def upWeight (cfg : Cfg) (v : Option Nat) (w : Option Int) (ttl : Option Nat) : Option Int :=
  match w with
  | some x => some x
  | none => v.map (fun val => cfg.weightOf val ttl.isSome)

/-- a client's `upsert.update` action, exactly -/
theorem ent_clientAct_upUpdate {b b' : BState} {i : Nat} {o o' : Oracle} {k : Nat} {v : Option Nat} {w : Option Int}
    {ttl : Option Nat} {rm : Bool} (hpc : b.cl[i]? = some (.upUpdate k v w ttl rm))
    (h : clientAct b i o = .ok (b', o')) :
    storeWritable b k (some i) = true ∧ o' = o ∧
    ((b.g.store.get? k = none ∧ b'.g = b.g) ∨
     (∃ e, b.g.store.get? k = some e ∧ upExpiry b.g.now ttl rm e.expiry = none ∧
        b' = finishCall b i (.panic .timeOverflow)) ∨
     (∃ e exp, b.g.store.get? k = some e ∧ upExpiry b.g.now ttl rm e.expiry = some exp ∧
        b' = setClient { b with g := { b.g with store := b.g.store.set k { e with expiry := exp, value := v.getD e.value } } }
               i (.upWeightOf e.id (upWeight b.g.cfg v w ttl) e.expiry exp))) := by
  unfold clientAct at h
  simp only [hpc] at h
  split at h
  · cases h
  · rename_i hwr
    simp only [Bool.not_eq_true, Bool.not_eq_false'] at hwr
    refine ⟨hwr, ?_⟩
    split at h
    · rename_i hk
      split at h
      · split at h
        all_goals simp only [Except.ok.injEq, Prod.mk.injEq] at h; obtain ⟨rfl, rfl⟩ := h
        all_goals exact ⟨rfl, Or.inl ⟨hk, rfl⟩⟩
      · simp only [Except.ok.injEq, Prod.mk.injEq] at h; obtain ⟨rfl, rfl⟩ := h
        exact ⟨rfl, Or.inl ⟨hk, rfl⟩⟩
    · rename_i e hk
      split at h
      · rename_i hx
        simp only [Except.ok.injEq, Prod.mk.injEq] at h; obtain ⟨rfl, rfl⟩ := h
        exact ⟨rfl, Or.inr (Or.inl ⟨e, hk, hx, rfl⟩)⟩
      · rename_i exp hx
        simp only [Except.ok.injEq, Prod.mk.injEq] at h; obtain ⟨rfl, rfl⟩ := h
        exact ⟨rfl, Or.inr (Or.inr ⟨e, exp, hk, hx, rfl⟩)⟩

/-- a client's `delete.mark` action, exactly -/
theorem ent_clientAct_delMark {b b' : BState} {i : Nat} {o o' : Oracle} {k : Nat} (hpc : b.cl[i]? = some (.delMark k))
    (h : clientAct b i o = .ok (b', o')) :
    storeWritable b k (some i) = true ∧ o' = o ∧
    ((b.g.store.get? k = none ∧ b' = setClient b i (.send (.delete k))) ∨
     (∃ e, b.g.store.get? k = some e ∧
        b' = setClient { b with g := { b.g with store := b.g.store.set k { e with soft := true } } } i (.send (.delete k)))) := by
  unfold clientAct at h
  simp only [hpc] at h
  split at h
  · cases h
  · rename_i hwr
    simp only [Bool.not_eq_true, Bool.not_eq_false'] at hwr
    simp only [Except.ok.injEq, Prod.mk.injEq] at h; obtain ⟨rfl, rfl⟩ := h
    refine ⟨hwr, rfl, ?_⟩
    cases hk : b.g.store.get? k with
    | none => exact Or.inl ⟨rfl, rfl⟩
    | some e => exact Or.inr ⟨e, rfl, rfl⟩

theorem ent_upAfterIndex_store (b : BState) (i id : Nat) (uw : Option Int) : (upAfterIndex b i id uw).g.store = b.g.store := by
  rcases upAfterIndex_spec b i id uw with ⟨_, h⟩ | ⟨_, _, h⟩ | h <;> rw [h] <;> simp [finishCall, setClient, spotFinish]

/-- one action of a client, as a store effect -/
theorem ent_clientAct_storeEff {b b' : BState} {i : Nat} {o o' : Oracle} (h : clientAct b i o = .ok (b', o')) :
    StoreEff b (.client i) b' := by
  by_cases h1 : ∃ k v w ttl rm, b.cl[i]? = some (.upUpdate k v w ttl rm)
  · obtain ⟨k, v, w, ttl, rm, hpc⟩ := h1
    obtain ⟨_, _, ⟨_, hg⟩ | ⟨e, _, _, rfl⟩ | ⟨e, exp, hk, hx, rfl⟩⟩ := ent_clientAct_upUpdate hpc h
    · exact .same _ _ (by rw [hg])
    · exact .same _ _ rfl
    · exact .upsert i k v w ttl rm e exp _ hpc hk hx rfl
  by_cases h2 : ∃ k, b.cl[i]? = some (.delMark k)
  · obtain ⟨k, hpc⟩ := h2
    obtain ⟨_, _, ⟨_, rfl⟩ | ⟨e, hk, rfl⟩⟩ := ent_clientAct_delMark hpc h
    · exact .same _ _ rfl
    · exact .mark i k e _ hpc hk rfl
  have ht := clientAct_trans h
  cases ht
  case getPool hp => exact .same _ _ (by rw [poolAdd_frame hp]; rfl)
  case refPool hp => exact .same _ _ (by rw [poolAdd_frame hp]; rfl)
  case shutLocal hg => exact .same _ _ (by rw [hg]; rfl)
  case mgetStep hg => exact .same _ _ (by rw [hg]; rfl)
  case mgetFin hg => exact .same _ _ (by rw [hg]; rfl)
  case shutStoreClear hpc _ => exact .clear i _ hpc rfl
  case delMark k hpc _ => exact absurd ⟨k, hpc⟩ h2
  case upUpdate k v w ttl rm e ne uw hpc _ _ => exact absurd ⟨k, v, w, ttl, rm, hpc⟩ h1
  case upAfterSame => exact .same _ _ (ent_upAfterIndex_store _ _ _ _)
  case upAfterPut => exact .same _ _ (by rw [ent_upAfterIndex_store]; rfl)
  case upAfterDelete => exact .same _ _ (by rw [ent_upAfterIndex_store]; rfl)
  all_goals exact .same _ _ (by simp [finishCall, setClient, spotFinish, ttlDelete])

/-! ### every action -/

/-- **Every atomic action of every thread** relates the store before and after it in one of the eight ways of
    `StoreEff`: nothing else ever touches the store. -/
theorem stepB_storeEff {b b' : BState} {a : Act} {o o' : Oracle} (h : stepB b a o = .ok (b', o')) : StoreEff b a b' := by
  cases a with
  | issue i r =>
    simp only [stepB] at h
    split at h
    · rename_i b1 hi
      simp only [Except.ok.injEq, Prod.mk.injEq] at h; obtain ⟨rfl, rfl⟩ := h
      unfold issue at hi
      split at hi
      · simp only [Except.ok.injEq] at hi; subst hi; exact .same _ _ rfl
      · cases hi
    · cases h
  | client i => exact ent_clientAct_storeEff h
  | worker => exact ent_workerAct_storeEff h
  | sweeper v =>
    simp only [stepB] at h
    split at h
    · rename_i b1 hs'
      simp only [Except.ok.injEq, Prod.mk.injEq] at h; obtain ⟨rfl, rfl⟩ := h
      exact ent_sweeperAct_storeEff hs'
    · cases h
  | consumer =>
    simp only [stepB] at h
    split at h
    · rename_i g' out o1 hc
      simp only [Except.ok.injEq, Prod.mk.injEq] at h; obtain ⟨rfl, rfl⟩ := h
      exact .same _ _ (by show g'.store = b.g.store; rw [consumerStep_frame hc])
    · cases h
  | advance d =>
    simp only [stepB, Except.ok.injEq, Prod.mk.injEq] at h; obtain ⟨rfl, rfl⟩ := h
    exact .same _ _ rfl

/-! ## C07  put never overwrites -/

/-- the put the worker is applying, AFTER its presence re-check (`store.present`) and BEFORE / AT its `store.put`:
    the positions `space0`, `sampleInit`, the eviction positions, `fill`, `emptySpace`, `insert`, `add`, `storePut` -/
def WPc.applying? : WPc → Option PutCmd
  | .space0 c | .sampleInit c _ _ | .evRemove c _ _ _ | .evSub c _ _ _ _ | .evStore c _ _ _ _
  | .evSpace c _ _ | .fill c _ _ _ | .emptySpace c | .insert c | .add c | .storePut c => some c
  | _ => none

/-- The additional invariant (next to `BInv`): while the worker stands between the re-check and `store.put` of a put
    of key `k`, the store holds no entry for `k`. -/
def WAbsent (b : BState) : Prop := ∀ c, b.w.applying? = some c → b.g.store.get? c.k = none

/-- what an action that is not the worker's `store.put` does to absent keys: they stay absent -/
theorem StoreEff.noCreate {b b' : BState} {a : Act} (h : StoreEff b a b') (hn : a = .worker → ∀ c, b.w ≠ .storePut c)
    {k : Nat} (hk : b.g.store.get? k = none) : b'.g.store.get? k = none := by
  cases h
  case same hs => rw [hs]; exact hk
  case put c exp hw _ _ hs => exact absurd hw (hn rfl c)
  case del k' hh e hw he hs => rw [hs, AMap.get?_del]; split <;> simp [hk]
  case evict c inc s id wk hw hs => rw [hs, AMap.get?_del]; split <;> simp [hk]
  case sweep v now sh rest id wk hw hm hs => rw [hs, AMap.get?_del]; split <;> simp [hk]
  case mark i k' e hpc he hs =>
    rw [hs, AMap.get?_set]; split
    · rename_i hkk; subst hkk; rw [hk] at he; cases he
    · exact hk
  case upsert i k' v w ttl rm e exp hpc he hx hs =>
    rw [hs, AMap.get?_set]; split
    · rename_i hkk; subst hkk; rw [hk] at he; cases he
    · exact hk
  case clear i hpc hs => rw [hs]; rfl

/-- actions of the other threads do not move the worker -/
theorem ent_stepB_w_other {b b' : BState} {a : Act} {o o' : Oracle} (h : stepB b a o = .ok (b', o')) (ha : a ≠ .worker) :
    b'.w = b.w := by
  cases a with
  | issue i r =>
    simp only [stepB] at h
    split at h
    · rename_i b1 hi
      simp only [Except.ok.injEq, Prod.mk.injEq] at h; obtain ⟨rfl, rfl⟩ := h
      unfold issue at hi
      split at hi
      · simp only [Except.ok.injEq] at hi; subst hi; rfl
      · cases hi
    · cases h
  | client i => exact (ctrans_frame (clientAct_trans h)).1
  | worker => exact absurd rfl ha
  | sweeper v =>
    simp only [stepB] at h
    split at h
    · rename_i b1 hs'
      simp only [Except.ok.injEq, Prod.mk.injEq] at h; obtain ⟨rfl, rfl⟩ := h
      exact (strans_frame (sweeperAct_trans hs')).1
    · cases h
  | consumer =>
    simp only [stepB] at h
    split at h
    · simp only [Except.ok.injEq, Prod.mk.injEq] at h; obtain ⟨rfl, rfl⟩ := h
      rfl
    · cases h
  | advance d =>
    simp only [stepB, Except.ok.injEq, Prod.mk.injEq] at h; obtain ⟨rfl, rfl⟩ := h
    rfl

theorem wabsent_workerAct {b b' : BState} {o o' : Oracle} (hi : WAbsent b) (h : workerAct b o = .ok (b', o')) :
    WAbsent b' := by
  by_cases hp : ∃ c, b.w = .present c
  · obtain ⟨c, hw⟩ := hp
    obtain ⟨_, ⟨_, rfl⟩ | ⟨_, _, rfl⟩ | ⟨hc, _, rfl⟩⟩ := ent_workerAct_present hw h
    · intro c' hc'; simp [finishCmd, WPc.applying?] at hc'
    · intro c' hc'; simp [rejectCmd, finishCmd, WPc.applying?] at hc'
    · intro c' hc'
      simp only [WPc.applying?, Option.some.injEq] at hc'; subst hc'
      simpa [AMap.contains] using hc
  · have ht := workerAct_trans h
    unfold WAbsent at hi ⊢
    cases ht
    case presentExists c hw => exact absurd ⟨c, hw⟩ hp
    case presentHeavy c hw => exact absurd ⟨c, hw⟩ hp
    case presentOk c hw => exact absurd ⟨c, hw⟩ hp
    case evStore c e s id wk hw _ =>
      intro c' hc'
      simp only [WPc.applying?, Option.some.injEq] at hc'; subst hc'
      have := hi c (by rw [hw]; rfl)
      simp only [applyEvict_store, AMap.get?_del]
      split <;> simp [this]
    all_goals clear h hp
    all_goals simp_all [WPc.applying?, finishCmd, rejectCmd, ttlPut, ttlDelete]

/-- `WAbsent` is preserved by every atomic action of every thread -/
theorem wabsent_step {b b' : BState} {a : Act} {o o' : Oracle} (hi : WAbsent b) (h : stepB b a o = .ok (b', o')) :
    WAbsent b' := by
  by_cases ha : a = .worker
  · subst ha; exact wabsent_workerAct hi h
  · intro c hc
    rw [ent_stepB_w_other h ha] at hc
    exact (stepB_storeEff h).noCreate (fun e => absurd e ha) (hi c hc)

theorem wabsent_init (cfg : Cfg) (now : Nat) (seeds : List Nat) (clients : Nat) (shardMap : List (Nat × Nat)) :
    WAbsent { BState.init cfg now seeds clients with storeShard := shardMap } := by
  intro c hc; simp [BState.init, WPc.applying?] at hc

theorem wabsent_reach {cfg : Cfg} {now : Nat} {seeds : List Nat} {clients : Nat} {b : BState}
    (h : Reach cfg now seeds clients b) : WAbsent b := by
  induction h with
  | init sm => exact wabsent_init _ _ _ _ sm
  | step _ hs ih => exact wabsent_step ih hs

/-- **C07 (1).**  At every state any interleaving can reach: whenever the worker stands AFTER its presence re-check of a
    put of key `k` and BEFORE / AT its `store.put` (`space0`, `sampleInit`, `evRemove`, `evSub`, `evStore`, `evSpace`,
    `fill`, `emptySpace`, `insert`, `add`, `storePut`), the store holds NO entry for `k`.
    (Only the worker's `store.put` creates store entries — `C07_layerB_only_worker_creates` — and the worker is one
    thread; clients modify in place or read, the sweeper and evictions remove.) -/
theorem C07_layerB_worker_key_absent {cfg : Cfg} {now : Nat} {seeds : List Nat} {clients : Nat} {b : BState}
    (h : Reach cfg now seeds clients b) {c : PutCmd} (hc : b.w.applying? = some c) : b.g.store.get? c.k = none :=
  wabsent_reach h c hc

/-- the worker's `store.put` action in a state satisfying `WAbsent` (every reachable state does) -/
theorem C07_layerB_store_put_step {b b' : BState} {o o' : Oracle} {c : PutCmd} (hi : WAbsent b)
    (hw : b.w = .storePut c) (h : stepB b .worker o = .ok (b', o')) :
    b.g.store.get? c.k = none ∧
    ((∃ exp, putExpiry b.g.now c.ttl = some exp ∧
        b'.g.store.get? c.k = some { value := c.v, id := c.id, expiry := exp, soft := false } ∧
        ∀ k, k ≠ c.k → b'.g.store.get? k = b.g.store.get? k) ∨
     (putExpiry b.g.now c.ttl = none ∧ b'.g.store = b.g.store ∧ b'.w = .dead)) := by
  refine ⟨hi c (by rw [hw]; rfl), ?_⟩
  obtain ⟨_, _, ⟨ht, rfl⟩ | ⟨t, ht, ha, rfl⟩ | ⟨t, e, ht, ha, rfl⟩⟩ := ent_workerAct_storePut hw h
  · refine Or.inl ⟨none, by rw [ht]; rfl, by simp [finishCmd], fun k hk => ?_⟩
    simp only [finishCmd]
    exact AMap.get?_set_other _ _ (Ne.symm hk)
  · exact Or.inr ⟨by rw [ht]; simp [putExpiry, ha], rfl, rfl⟩
  · refine Or.inl ⟨some e, by rw [ht]; simp [putExpiry, ha], by simp, fun k hk => ?_⟩
    exact AMap.get?_set_other _ _ (Ne.symm hk)

/-- **C07 (2).**  The worker's `store.put` of a put of `k` is executed in a state whose store has NO entry for `k` — so
    value, id and deadline of an existing entry are never replaced by a put — and after it the store holds exactly the
    new entry for `k` (value and id of the command, deadline `now + ttl`, not deleted), every other key as before.
    (The one other outcome: a time-to-live whose deadline is not representable makes the worker panic; then nothing
    is written at all.) -/
theorem C07_layerB_store_put_never_overwrites {cfg : Cfg} {now : Nat} {seeds : List Nat} {clients : Nat}
    {b b' : BState} {o o' : Oracle} {c : PutCmd} (hr : Reach cfg now seeds clients b)
    (hw : b.w = .storePut c) (h : stepB b .worker o = .ok (b', o')) :
    b.g.store.get? c.k = none ∧
    ((∃ exp, putExpiry b.g.now c.ttl = some exp ∧
        b'.g.store.get? c.k = some { value := c.v, id := c.id, expiry := exp, soft := false } ∧
        ∀ k, k ≠ c.k → b'.g.store.get? k = b.g.store.get? k) ∨
     (putExpiry b.g.now c.ttl = none ∧ b'.g.store = b.g.store ∧ b'.w = .dead)) :=
  C07_layerB_store_put_step (wabsent_reach hr) hw h

/-- **C07 (2'), for every action.**  No action of any thread replaces an existing entry by one with another id: the
    id under which a key is stored changes only by the key being removed and put again. -/
theorem C07_layerB_id_never_replaced {b b' : BState} {a : Act} {o o' : Oracle} (hi : WAbsent b)
    (h : stepB b a o = .ok (b', o')) {k : Nat} {e e' : Entry} (hk : b.g.store.get? k = some e)
    (hk' : b'.g.store.get? k = some e') : e'.id = e.id := by
  have he := stepB_storeEff h
  cases he
  case same hs => rw [hs, hk] at hk'; cases hk'; rfl
  case put c exp hw _ _ hs =>
    have hn := hi c (by rw [hw]; rfl)
    rw [hs, AMap.get?_set] at hk'
    split at hk'
    · rename_i hkk; subst hkk; rw [hk] at hn; cases hn
    · rw [hk] at hk'; cases hk'; rfl
  case del k' hh e0 hw he0 hs =>
    rw [hs, AMap.get?_del] at hk'; split at hk'
    · cases hk'
    · rw [hk] at hk'; cases hk'; rfl
  case evict c inc s id wk hw hs =>
    rw [hs, AMap.get?_del] at hk'; split at hk'
    · cases hk'
    · rw [hk] at hk'; cases hk'; rfl
  case sweep v now sh rest id wk hw hm hs =>
    rw [hs, AMap.get?_del] at hk'; split at hk'
    · cases hk'
    · rw [hk] at hk'; cases hk'; rfl
  case mark i k' e0 hpc he0 hs =>
    rw [hs, AMap.get?_set] at hk'; split at hk'
    · rename_i hkk; subst hkk; rw [hk] at he0; cases he0; cases hk'; rfl
    · rw [hk] at hk'; cases hk'; rfl
  case upsert i k' v w ttl rm e0 exp hpc he0 hx hs =>
    rw [hs, AMap.get?_set] at hk'; split at hk'
    · rename_i hkk; subst hkk; rw [hk] at he0; cases he0; cases hk'; rfl
    · rw [hk] at hk'; cases hk'; rfl
  case clear i hpc hs => rw [hs] at hk'; cases hk'

/-- what an on-the-spot answer does: one more (completed) acknowledgement, handed to the caller; the client is idle
    again.  Nothing else changes. -/
theorem ent_spotFinish_eq (b : BState) (i : Nat) (st : Status) :
    spotFinish b i st =
      { b with g := { b.g with acks := b.g.acks ++ [st] }, cl := b.cl.set i .idle,
               res := b.res.set i (.ack b.g.acks.length st :: b.res.getD i []) } := rfl

/-- what the worker's refusal does: the command's acknowledgement is completed, the worker is back at `recv`. -/
theorem ent_finishCmd_eq (b : BState) (h : Option Nat) (st : Status) :
    finishCmd b h st = { b with g := { b.g with acks := setAck b.g.acks h st }, w := .recv } := rfl

/-- **C07 (3), caller side.**  The caller-side check (`store.present`, client at `putPresent`) of a put of a key that
    is physically present answers `Rejected(KeyAlreadyExists)` in that very action: a new, already completed
    acknowledgement is appended to `acks` and handed to the caller (`res`), the client is idle again — and NOTHING else
    changes: store, ledger (`adm`), expiry index, command queue, id counter, every other thread. -/
theorem C07_layerB_present_refused_client {b b' : BState} {i k v : Nat} {w : Int} {ttl : Option Nat} {o o' : Oracle}
    {e : Entry} (hpc : b.cl[i]? = some (.putPresent k v w ttl)) (hk : b.g.store.get? k = some e)
    (h : stepB b (.client i) o = .ok (b', o')) :
    o' = o ∧
    b' = { b with g := { b.g with acks := b.g.acks ++ [.rejected .keyAlreadyExists] }, cl := b.cl.set i .idle,
                  res := b.res.set i (.ack b.g.acks.length (.rejected .keyAlreadyExists) :: b.res.getD i []) } ∧
    b'.g.store = b.g.store ∧ b'.g.adm = b.g.adm ∧ b'.g.ttl = b.g.ttl ∧ b'.g.queue = b.g.queue ∧
    b'.res[i]? = (if i < b.res.length then
      some (.ack b.g.acks.length (.rejected .keyAlreadyExists) :: b.res.getD i []) else none) ∧
    b'.g.acks[b.g.acks.length]? = some (.rejected .keyAlreadyExists) := by
  have hc : b.g.store.contains k = true := by simp [AMap.contains, hk]
  simp only [stepB, clientAct, hpc, hc, if_true, Except.ok.injEq, Prod.mk.injEq] at h
  obtain ⟨rfl, rfl⟩ := h
  refine ⟨rfl, rfl, rfl, rfl, rfl, rfl, ?_, ?_⟩
  · simp only [spotFinish, finishCall]
    by_cases hlt : i < b.res.length
    · simp [hlt]
    · simp [hlt]
  · simp [spotFinish, finishCall]

/-- **C07 (3), worker side.**  The worker's re-check (`store.present`, worker at `present c`) of a put whose key is
    physically present — a duplicate that passed the caller-side check while the first put was still queued —
    completes the command's acknowledgement with `Rejected(KeyAlreadyExists)` in that very action and returns to
    `recv`; NOTHING else changes: store, ledger, expiry index, queue, statistics, the clients. -/
theorem C07_layerB_present_refused_worker {b b' : BState} {c : PutCmd} {o o' : Oracle} {e : Entry}
    (hw : b.w = .present c) (hk : b.g.store.get? c.k = some e) (h : stepB b .worker o = .ok (b', o')) :
    o' = o ∧
    b' = { b with g := { b.g with acks := setAck b.g.acks c.h (.rejected .keyAlreadyExists) }, w := .recv } ∧
    b'.g.store = b.g.store ∧ b'.g.adm = b.g.adm ∧ b'.g.ttl = b.g.ttl ∧ b'.g.queue = b.g.queue ∧
    b'.g.stats = b.g.stats ∧ b'.cl = b.cl ∧ b'.res = b.res := by
  have hc : b.g.store.contains c.k = true := by simp [AMap.contains, hk]
  obtain ⟨rfl, ⟨_, rfl⟩ | ⟨hc', _⟩ | ⟨hc', _⟩⟩ := ent_workerAct_present hw h
  · exact ⟨rfl, rfl, rfl, rfl, rfl, rfl, rfl, rfl, rfl⟩
  · rw [hc] at hc'; cases hc'
  · rw [hc] at hc'; cases hc'

/-- **C07 (3).**  Both checks together. -/
theorem C07_layerB_present_refused {b b' : BState} {a : Act} {o o' : Oracle} {k : Nat} {e : Entry}
    (hk : b.g.store.get? k = some e) (h : stepB b a o = .ok (b', o'))
    (ha : (∃ i v w ttl, a = .client i ∧ b.cl[i]? = some (.putPresent k v w ttl)) ∨
          (∃ c, a = .worker ∧ b.w = .present c ∧ c.k = k)) :
    b'.g.store = b.g.store ∧ b'.g.adm = b.g.adm ∧ b'.g.ttl = b.g.ttl ∧ b'.g.queue = b.g.queue ∧ o' = o ∧
    ((∃ i, a = .client i ∧ b'.g.acks = b.g.acks ++ [.rejected .keyAlreadyExists] ∧ b'.cl = b.cl.set i .idle ∧
        b'.res = b.res.set i (.ack b.g.acks.length (.rejected .keyAlreadyExists) :: b.res.getD i []) ∧ b'.w = b.w) ∨
     (∃ c, a = .worker ∧ b.w = .present c ∧ b'.g.acks = setAck b.g.acks c.h (.rejected .keyAlreadyExists) ∧
        b'.w = .recv ∧ b'.cl = b.cl ∧ b'.res = b.res)) := by
  rcases ha with ⟨i, v, w, ttl, rfl, hpc⟩ | ⟨c, rfl, hw, rfl⟩
  · obtain ⟨ho, hb, h1, h2, h3, h4, _⟩ := C07_layerB_present_refused_client hpc hk h
    refine ⟨h1, h2, h3, h4, ho, Or.inl ⟨i, rfl, ?_⟩⟩
    rw [hb]; exact ⟨rfl, rfl, rfl, rfl⟩
  · obtain ⟨ho, hb, h1, h2, h3, h4, _, h5, h6⟩ := C07_layerB_present_refused_worker hw hk h
    refine ⟨h1, h2, h3, h4, ho, Or.inr ⟨c, rfl, hw, ?_⟩⟩
    rw [hb]; exact ⟨rfl, rfl, rfl, rfl⟩

/-- the converse: a physically ABSENT key is not refused with `KeyAlreadyExists` by either check — the caller goes on
    to `id.next`, the worker goes on to the admission (or refuses the put as too heavy) -/
theorem C07_layerB_absent_not_refused {b b' : BState} {o o' : Oracle} :
    (∀ {i k v : Nat} {w : Int} {ttl : Option Nat}, b.cl[i]? = some (.putPresent k v w ttl) → b.g.store.get? k = none →
      stepB b (.client i) o = .ok (b', o') → b' = setClient b i (.idNext k v w ttl)) ∧
    (∀ {c : PutCmd}, b.w = .present c → b.g.store.get? c.k = none → stepB b .worker o = .ok (b', o') →
      b' = { b with w := .space0 c } ∨ (c.w > b.g.adm.max ∧ b' = rejectCmd b c.h (.rejected .tooHeavy))) := by
  constructor
  · intro i k v w ttl hpc hk h
    have hc : b.g.store.contains k = false := by simp [AMap.contains, hk]
    simp only [stepB, clientAct, hpc, hc, Bool.false_eq_true, if_false, Except.ok.injEq, Prod.mk.injEq] at h
    exact h.1.symm
  · intro c hw hk h
    have hc : b.g.store.contains c.k = false := by simp [AMap.contains, hk]
    obtain ⟨_, ⟨hc', _⟩ | ⟨_, hm, rfl⟩ | ⟨_, _, rfl⟩⟩ := ent_workerAct_present hw h
    · rw [hc] at hc'; cases hc'
    · exact Or.inr ⟨hm, rfl⟩
    · exact Or.inl rfl

/-- **C07 (4).**  For every action of every thread: if the store has no entry for `k` before and has one after, the
    action is the worker's `store.put` of a put of `k`, and the entry is the command's (value, id, `now + ttl`, not
    deleted). -/
theorem C07_layerB_only_worker_creates {b b' : BState} {a : Act} {o o' : Oracle} {k : Nat} {e' : Entry}
    (h : stepB b a o = .ok (b', o')) (hk : b.g.store.get? k = none) (hk' : b'.g.store.get? k = some e') :
    a = .worker ∧ ∃ c exp, b.w = .storePut c ∧ c.k = k ∧ putExpiry b.g.now c.ttl = some exp ∧
      e' = { value := c.v, id := c.id, expiry := exp, soft := false } := by
  have he := stepB_storeEff h
  by_cases hn : a = .worker → ∀ c, b.w ≠ .storePut c
  · rw [he.noCreate hn hk] at hk'; cases hk'
  · obtain ⟨ha, hc⟩ := Classical.not_imp.mp hn
    obtain ⟨c, hc⟩ := Classical.not_forall.mp hc
    have hw : b.w = .storePut c := Classical.not_not.mp hc
    subst ha
    refine ⟨rfl, ?_⟩
    cases he
    case same hs => rw [hs, hk] at hk'; cases hk'
    case put c' exp hw' hx _ hs =>
      rw [hs, AMap.get?_set] at hk'
      split at hk'
      · rename_i hkk
        simp only [Option.some.injEq] at hk'
        exact ⟨c', exp, hw', hkk, hx, hk'.symm⟩
      · rw [hk] at hk'; cases hk'
    case del hw' _ _ => rw [hw] at hw'; cases hw'
    case evict hw' _ => rw [hw] at hw'; cases hw'

/-! ## C03  only these remove / alter an entry -/

/-- **C03 (5), for every action of every thread, in every state.**  If the store holds an entry for `k` before the
    action and none after it, the action is one of
    * the worker's `store.remove` of a `Delete(k)` command (`delStore`),
    * the worker's `store.remove` inside an eviction (`evStore`) of a charge `wk` whose key is `k`,
    * the sweeper's `store.remove` of a charge `wk` whose key is `k`,
    * `shutdown()`'s `store.clear`.
    Named `_partial` because the requested clause "the removed entry carries the id the sweeper / the eviction is
    removing" is FALSE of the model for the worker's eviction: `C03_layerB_evict_id_counterexample` below (for the
    sweeper it holds: `C03_layerB_only_these_remove_sweeper_id`).  What is known about the evicting put
    (it is not a put of `k`; it did not fit) is in `C03_layerB_only_these_remove_reach` and
    `C03_layerB_eviction_under_pressure`. -/
theorem C03_layerB_only_these_remove_partial {b b' : BState} {a : Act} {o o' : Oracle} {k : Nat} {e : Entry}
    (h : stepB b a o = .ok (b', o')) (hk : b.g.store.get? k = some e) (hk' : b'.g.store.get? k = none) :
    (a = .worker ∧ ∃ hh, b.w = .delStore k hh) ∨
    (a = .worker ∧ ∃ c inc s id wk, b.w = .evStore c inc s id wk ∧ wk.key = k) ∨
    (∃ v now sh rest id wk, a = .sweeper v ∧ b.sw = .store now sh rest id wk ∧ wk.key = k) ∨
    (∃ i, a = .client i ∧ b.cl[i]? = some .shutStoreClear) := by
  have he := stepB_storeEff h
  cases he
  case same hs => rw [hs, hk] at hk'; cases hk'
  case put c exp hw _ _ hs =>
    rw [hs, AMap.get?_set] at hk'; split at hk'
    · cases hk'
    · rw [hk] at hk'; cases hk'
  case del k' hh e0 hw he0 hs =>
    rw [hs, AMap.get?_del] at hk'; split at hk'
    · rename_i hkk; subst hkk; exact Or.inl ⟨rfl, hh, hw⟩
    · rw [hk] at hk'; cases hk'
  case evict c inc s id wk hw hs =>
    rw [hs, AMap.get?_del] at hk'; split at hk'
    · rename_i hkk; exact Or.inr (Or.inl ⟨rfl, c, inc, s, id, wk, hw, hkk⟩)
    · rw [hk] at hk'; cases hk'
  case sweep v now sh rest id wk hw hm hs =>
    rw [hs, AMap.get?_del] at hk'; split at hk'
    · rename_i hkk; exact Or.inr (Or.inr (Or.inl ⟨v, now, sh, rest, id, wk, rfl, hw, hkk⟩))
    · rw [hk] at hk'; cases hk'
  case mark i k' e0 hpc he0 hs =>
    rw [hs, AMap.get?_set] at hk'; split at hk'
    · cases hk'
    · rw [hk] at hk'; cases hk'
  case upsert i k' v w ttl rm e0 exp hpc he0 hx hs =>
    rw [hs, AMap.get?_set] at hk'; split at hk'
    · cases hk'
    · rw [hk] at hk'; cases hk'
  case clear i hpc hs => exact Or.inr (Or.inr (Or.inr ⟨i, rfl, hpc⟩))

/-- … at a state satisfying `WAbsent` (every reachable one): the put whose eviction loop removes `k` is not a put of
    `k` — a put never evicts the key it is putting — and `k` is gone entirely after each of the four. -/
theorem C03_layerB_only_these_remove_step {b b' : BState} {a : Act} {o o' : Oracle} {k : Nat} {e : Entry}
    (hi : WAbsent b) (h : stepB b a o = .ok (b', o')) (hk : b.g.store.get? k = some e)
    (hk' : b'.g.store.get? k = none) :
    (a = .worker ∧ ∃ hh, b.w = .delStore k hh) ∨
    (a = .worker ∧ ∃ c inc s id wk, b.w = .evStore c inc s id wk ∧ wk.key = k ∧ c.k ≠ k) ∨
    (∃ v now sh rest id wk, a = .sweeper v ∧ b.sw = .store now sh rest id wk ∧ wk.key = k) ∨
    (∃ i, a = .client i ∧ b.cl[i]? = some .shutStoreClear) := by
  rcases C03_layerB_only_these_remove_partial h hk hk' with h1 | ⟨ha, c, inc, s, id, wk, hw, hkk⟩ | h3 | h4
  · exact Or.inl h1
  · refine Or.inr (Or.inl ⟨ha, c, inc, s, id, wk, hw, hkk, fun hck => ?_⟩)
    have := hi c (by rw [hw]; rfl)
    rw [hck, hk] at this; cases this
  · exact Or.inr (Or.inr (Or.inl h3))
  · exact Or.inr (Or.inr (Or.inr h4))

theorem C03_layerB_only_these_remove_reach {cfg : Cfg} {now : Nat} {seeds : List Nat} {clients : Nat}
    {b b' : BState} {a : Act} {o o' : Oracle} {k : Nat} {e : Entry} (hr : Reach cfg now seeds clients b)
    (h : stepB b a o = .ok (b', o')) (hk : b.g.store.get? k = some e) (hk' : b'.g.store.get? k = none) :
    (a = .worker ∧ ∃ hh, b.w = .delStore k hh) ∨
    (a = .worker ∧ ∃ c inc s id wk, b.w = .evStore c inc s id wk ∧ wk.key = k ∧ c.k ≠ k) ∨
    (∃ v now sh rest id wk, a = .sweeper v ∧ b.sw = .store now sh rest id wk ∧ wk.key = k) ∨
    (∃ i, a = .client i ∧ b.cl[i]? = some .shutStoreClear) :=
  C03_layerB_only_these_remove_step (wabsent_reach hr) h hk hk'

/-- **C03 (6), for every action of every thread** (in a state satisfying `WAbsent`: every reachable one).  If the
    store holds `e` for `k` before the action and `e' ≠ e` after it, then `e'.id = e.id` and the action is
    * a client's `upsert.update` of a `put_or_update` of `k`: the value is the given one (or the old one), the deadline
      is the requested one (`upExpiry`: removed, `now + ttl`, or the old one), id and deletion flag are unchanged; or
    * a client's `delete.mark` of a `delete(k)`: `e' = { e with soft := true }`. -/
theorem C03_layerB_only_these_alter {b b' : BState} {a : Act} {o o' : Oracle} {k : Nat} {e e' : Entry}
    (hi : WAbsent b) (h : stepB b a o = .ok (b', o')) (hk : b.g.store.get? k = some e)
    (hk' : b'.g.store.get? k = some e') (hne : e' ≠ e) :
    e'.id = e.id ∧
    ((∃ i v w ttl rm exp, a = .client i ∧ b.cl[i]? = some (.upUpdate k v w ttl rm) ∧
        upExpiry b.g.now ttl rm e.expiry = some exp ∧ e' = { e with expiry := exp, value := v.getD e.value }) ∨
     (∃ i, a = .client i ∧ b.cl[i]? = some (.delMark k) ∧ e' = { e with soft := true })) := by
  refine ⟨C07_layerB_id_never_replaced hi h hk hk', ?_⟩
  have he := stepB_storeEff h
  cases he
  case same hs => rw [hs, hk] at hk'; cases hk'; exact absurd rfl hne
  case put c exp hw _ _ hs =>
    have hn := hi c (by rw [hw]; rfl)
    rw [hs, AMap.get?_set] at hk'
    split at hk'
    · rename_i hkk; subst hkk; rw [hk] at hn; cases hn
    · rw [hk] at hk'; cases hk'; exact absurd rfl hne
  case del k' hh e0 hw he0 hs =>
    rw [hs, AMap.get?_del] at hk'; split at hk'
    · cases hk'
    · rw [hk] at hk'; cases hk'; exact absurd rfl hne
  case evict c inc s id wk hw hs =>
    rw [hs, AMap.get?_del] at hk'; split at hk'
    · cases hk'
    · rw [hk] at hk'; cases hk'; exact absurd rfl hne
  case sweep v now sh rest id wk hw hm hs =>
    rw [hs, AMap.get?_del] at hk'; split at hk'
    · cases hk'
    · rw [hk] at hk'; cases hk'; exact absurd rfl hne
  case mark i k' e0 hpc he0 hs =>
    rw [hs, AMap.get?_set] at hk'; split at hk'
    · rename_i hkk; subst hkk; rw [hk] at he0; cases he0; cases hk'
      exact Or.inr ⟨i, rfl, hpc, rfl⟩
    · rw [hk] at hk'; cases hk'; exact absurd rfl hne
  case upsert i k' v w ttl rm e0 exp hpc he0 hx hs =>
    rw [hs, AMap.get?_set] at hk'; split at hk'
    · rename_i hkk; subst hkk; rw [hk] at he0; cases he0; cases hk'
      exact Or.inl ⟨i, v, w, ttl, rm, exp, rfl, hpc, hx, rfl⟩
    · rw [hk] at hk'; cases hk'; exact absurd rfl hne
  case clear i hpc hs => rw [hs] at hk'; cases hk'

theorem C03_layerB_only_these_alter_reach {cfg : Cfg} {now : Nat} {seeds : List Nat} {clients : Nat}
    {b b' : BState} {a : Act} {o o' : Oracle} {k : Nat} {e e' : Entry} (hr : Reach cfg now seeds clients b)
    (h : stepB b a o = .ok (b', o')) (hk : b.g.store.get? k = some e)
    (hk' : b'.g.store.get? k = some e') (hne : e' ≠ e) :
    e'.id = e.id ∧
    ((∃ i v w ttl rm exp, a = .client i ∧ b.cl[i]? = some (.upUpdate k v w ttl rm) ∧
        upExpiry b.g.now ttl rm e.expiry = some exp ∧ e' = { e with expiry := exp, value := v.getD e.value }) ∨
     (∃ i, a = .client i ∧ b.cl[i]? = some (.delMark k) ∧ e' = { e with soft := true })) :=
  C03_layerB_only_these_alter (wabsent_reach hr) h hk hk' hne

/-! ### quiet runs -/

/-- the action `a`, taken in state `b`, is one of the kinds listed in C03 (5) / (6) and is aimed at key `k`:
    the worker's `store.remove` of `Delete(k)` or of an eviction of a charge of `k`, the sweeper's `store.remove` of a
    charge of `k`, a client's `upsert.update` / `delete.mark` of `k`, `shutdown()`'s `store.clear` -/
def touches (k : Nat) (b : BState) : Act → Bool
  | .worker =>
    (match b.w with
     | .delStore k' _ => k' == k
     | .evStore _ _ _ _ wk => wk.key == k
     | _ => false)
  | .sweeper _ =>
    (match b.sw with
     | .store _ _ _ _ wk => wk.key == k
     | _ => false)
  | .client i =>
    (match b.cl[i]? with
     | some (.delMark k') => k' == k
     | some (.upUpdate k' _ _ _ _) => k' == k
     | some .shutStoreClear => true
     | _ => false)
  | _ => false

/-- the action is the worker's `store.put` of a put of `k` -/
def creates (k : Nat) (b : BState) : Act → Bool
  | .worker => (match b.w with | .storePut c => c.k == k | _ => false)
  | _ => false

/-- one quiet action keeps the entry (in a state satisfying `WAbsent`) -/
theorem C03_layerB_quiet_step {b b' : BState} {a : Act} {o o' : Oracle} {k : Nat} {e : Entry} (hi : WAbsent b)
    (h : stepB b a o = .ok (b', o')) (hq : touches k b a = false) (hk : b.g.store.get? k = some e) :
    b'.g.store.get? k = some e := by
  cases hk' : b'.g.store.get? k with
  | none =>
    rcases C03_layerB_only_these_remove_partial h hk hk' with ⟨rfl, hh, hw⟩ | ⟨rfl, c, inc, s, id, wk, hw, hkk⟩ |
      ⟨v, now, sh, rest, id, wk, rfl, hw, hkk⟩ | ⟨i, rfl, hpc⟩
    · simp [touches, hw] at hq
    · simp [touches, hw, hkk] at hq
    · simp [touches, hw, hkk] at hq
    · simp [touches, hpc] at hq
  | some e' =>
    by_cases hne : e' = e
    · rw [hne]
    · rcases (C03_layerB_only_these_alter hi h hk hk' hne).2 with ⟨i, v, w, ttl, rm, exp, rfl, hpc, _⟩ | ⟨i, rfl, hpc, _⟩
      · simp [touches, hpc] at hq
      · simp [touches, hpc] at hq

/-- one action that neither touches nor creates `k` leaves the store's answer for `k` as it is — in EVERY state -/
theorem C03_layerB_quiet_step_same {b b' : BState} {a : Act} {o o' : Oracle} {k : Nat}
    (h : stepB b a o = .ok (b', o')) (hq : touches k b a = false) (hc : creates k b a = false) :
    b'.g.store.get? k = b.g.store.get? k := by
  have he := stepB_storeEff h
  cases he
  case same hs => rw [hs]
  case put c exp hw _ _ hs =>
    rw [hs, AMap.get?_set]; split
    · rename_i hkk; simp [creates, hw, hkk] at hc
    · rfl
  case del k' hh e0 hw he0 hs =>
    rw [hs, AMap.get?_del]; split
    · rename_i hkk; simp [touches, hw, hkk] at hq
    · rfl
  case evict c inc s id wk hw hs =>
    rw [hs, AMap.get?_del]; split
    · rename_i hkk; simp [touches, hw, hkk] at hq
    · rfl
  case sweep v now sh rest id wk hw hm hs =>
    rw [hs, AMap.get?_del]; split
    · rename_i hkk; simp [touches, hw, hkk] at hq
    · rfl
  case mark i k' e0 hpc he0 hs =>
    rw [hs, AMap.get?_set]; split
    · rename_i hkk; simp [touches, hpc, hkk] at hq
    · rfl
  case upsert i k' v w ttl rm e0 exp hpc he0 hx hs =>
    rw [hs, AMap.get?_set]; split
    · rename_i hkk; simp [touches, hpc, hkk] at hq
    · rfl
  case clear i hpc hs => simp [touches, hpc] at hq

/-- "none of the listed kinds of action touches `k`": the reflexive-transitive closure of actions that are not aimed at
    `k` (`touches k b a = false`).  Everything else is allowed — in particular puts of `k` itself (refused while `k` is
    present), operations on other keys, reads of any key, evictions and sweeps of other keys, weight updates, the
    consumer, clock moves. -/
inductive Quiet (k : Nat) : BState → BState → Prop where
  | refl (b : BState) : Quiet k b b
  | step {b b1 b' : BState} {a : Act} {o o' : Oracle} :
      Quiet k b b1 → stepB b1 a o = .ok (b', o') → touches k b1 a = false → Quiet k b b'

theorem Quiet.wabsent {k : Nat} {b b' : BState} (h : Quiet k b b') (hi : WAbsent b) : WAbsent b' := by
  induction h with
  | refl => exact hi
  | step _ hs _ ih => exact wabsent_step ih hs

theorem Quiet.reach {k : Nat} {cfg : Cfg} {now : Nat} {seeds : List Nat} {clients : Nat} {b b' : BState}
    (h : Quiet k b b') (hr : Reach cfg now seeds clients b) : Reach cfg now seeds clients b' := by
  induction h with
  | refl => exact hr
  | step _ hs _ ih => exact .step ih hs

/-- **C03 (7).**  Along any run — any interleaving of any threads — in which none of the listed kinds of action is aimed
    at `k`, the store entry of `k` at the end is THE VERY SAME entry as at the start: same value, id, deadline, flag. -/
theorem C03_layerB_quiet_run_retains' {k : Nat} {b b' : BState} {e : Entry} (hi : WAbsent b) (hq : Quiet k b b')
    (hk : b.g.store.get? k = some e) : b'.g.store.get? k = some e := by
  induction hq with
  | refl => exact hk
  | step hq1 hs ht ih => exact C03_layerB_quiet_step (hq1.wabsent hi) hs ht ih

theorem C03_layerB_quiet_run_retains {cfg : Cfg} {now : Nat} {seeds : List Nat} {clients : Nat} {k : Nat}
    {b b' : BState} {e : Entry} (hr : Reach cfg now seeds clients b) (hq : Quiet k b b')
    (hk : b.g.store.get? k = some e) : b'.g.store.get? k = some e :=
  C03_layerB_quiet_run_retains' (wabsent_reach hr) hq hk

/-- runs that, in addition, contain no `store.put` of `k` -/
inductive Still (k : Nat) : BState → BState → Prop where
  | refl (b : BState) : Still k b b
  | step {b b1 b' : BState} {a : Act} {o o' : Oracle} :
      Still k b b1 → stepB b1 a o = .ok (b', o') → touches k b1 a = false → creates k b1 a = false → Still k b b'

/-- … along such a run the store's answer for `k` — an entry or none — does not change, from ANY state. -/
theorem C03_layerB_still_run_same {k : Nat} {b b' : BState} (hq : Still k b b') :
    b'.g.store.get? k = b.g.store.get? k := by
  induction hq with
  | refl => rfl
  | step _ hs ht hc ih => rw [C03_layerB_quiet_step_same hs ht hc, ih]

/-- an executable check: run the actions, checking each for quietness -/
def quietRun (k : Nat) (b : BState) : List (Act × Oracle) → Option BState
  | [] => some b
  | (a, o) :: rest =>
    match stepB b a o with
    | .ok (b', _) => if touches k b a then none else quietRun k b' rest
    | .error _ => none

theorem quiet_of_quietRun {k : Nat} : ∀ (l : List (Act × Oracle)) (b b' : BState),
    quietRun k b l = some b' → Quiet k b b' ∧ runB b l = .ok b' := by
  intro l
  induction l with
  | nil =>
    intro b b' h
    simp only [quietRun, Option.some.injEq] at h
    subst h
    exact ⟨Quiet.refl _, rfl⟩
  | cons x l ih =>
    intro b b' h
    obtain ⟨a, o⟩ := x
    simp only [quietRun] at h
    split at h
    · rename_i b1 o1 hs
      split at h
      · cases h
      · rename_i ht
        obtain ⟨hq, hr⟩ := ih b1 b' h
        refine ⟨?_, by simp only [runB, hs]; exact hr⟩
        have ht' : touches k b a = false := by simpa using ht
        clear h hr ih
        induction hq with
        | refl => exact Quiet.step (Quiet.refl _) hs ht'
        | step _ hs2 ht2 ih2 => exact Quiet.step ih2 hs2 ht2
    · cases h

/-! ### evictions happen under memory pressure only

  What the model lets one say about the `evStore` case of C03 (5): along any run (with its history, `RunH`), whenever
  the worker stands inside the eviction loop of a put `c`, the history contains
    * the worker's first `wu.space` action of `c` (at `space0`), which found `max − used < c.w` — the put did not fit
      the free space when the eviction loop was entered (`Entered`), and
    * for every victim: a `wu.space` action of `c` (at `space0`, or at `evSpace` after the previous eviction) which found
      `max − used < c.w`, and which is the read the decision to evict this victim was based on (`SpaceRead`). -/

/-- the ways `loopDecide` can end, with the comparison it made -/
theorem ent_loopDecide_short {b : BState} {c : PutCmd} {e : Nat} {s : List SKey} {space : Int} {o : Oracle}
    {b' : BState} {o' : Oracle} (h : loopDecide b c e s space o = .ok (b', o')) :
    (space ≥ c.w ∧ b' = { b with w := .insert c }) ∨
    (space < c.w ∧ (b' = { b with w := .emptySpace c } ∨ b' = rejectCmd b c.h (.rejected .noSpace) ∨
      ∃ s' k, b' = { b with w := .evRemove c e s' k })) := by
  unfold loopDecide at h
  split at h
  · simp only [Except.ok.injEq, Prod.mk.injEq] at h
    exact Or.inl ⟨by assumption, h.1.symm⟩
  · rename_i hlt
    have hlt' : space < c.w := by omega
    refine Or.inr ⟨hlt', ?_⟩
    split at h
    · cases h
    · split at h
      · cases h
      · simp only [Except.ok.injEq, Prod.mk.injEq] at h
        exact Or.inl h.1.symm
    · split at h
      · cases h
      · split at h
        · cases h
        · split at h
          · simp only [Except.ok.injEq, Prod.mk.injEq] at h
            exact Or.inr (Or.inl h.1.symm)
          · simp only [Except.ok.injEq, Prod.mk.injEq] at h
            exact Or.inr (Or.inr ⟨_, _, h.1.symm⟩)

/-- the worker's first `wu.space` of a put, exactly (third case: `max_weight - weight_used` is outside `i64` and the
    worker dies) -/
theorem ent_workerAct_space0 {b b' : BState} {o o' : Oracle} {c : PutCmd} (hw : b.w = .space0 c)
    (h : workerAct b o = .ok (b', o')) :
    (b.g.adm.max - b.g.adm.used ≥ c.w ∧ b' = { b with w := .insert c }) ∨
    (b.g.adm.max - b.g.adm.used < c.w ∧ ∃ e, b' = { b with w := .sampleInit c (b.g.adm.max - b.g.adm.used) e }) ∨
    (b.g.adm.spaceOverflow = true ∧ b' = workerDies b) := by
  simp only [workerAct, hw] at h
  split at h
  · cases h
  · split at h
    · simp only [Except.ok.injEq, Prod.mk.injEq] at h
      exact Or.inr (Or.inr ⟨by assumption, h.1.symm⟩)
    split at h
    · simp only [Except.ok.injEq, Prod.mk.injEq] at h
      exact Or.inl ⟨by assumption, h.1.symm⟩
    · rename_i hlt
      split at h
      · cases h
      · simp only [Except.ok.injEq, Prod.mk.injEq] at h
        exact Or.inr (Or.inl ⟨by omega, _, h.1.symm⟩)

theorem ent_workerAct_sampleInit {b b' : BState} {o o' : Oracle} {c : PutCmd} {space : Int} {e : Nat}
    (hw : b.w = .sampleInit c space e) (h : workerAct b o = .ok (b', o')) :
    ∃ sample o2, loopDecide b c e sample space o2 = .ok (b', o') := by
  simp only [workerAct, hw] at h
  split at h
  · cases h
  · exact ⟨_, _, h⟩

theorem ent_workerAct_fill {b b' : BState} {o o' : Oracle} {c : PutCmd} {space : Int} {e : Nat} {s : List SKey}
    (hw : b.w = .fill c e s space) (h : workerAct b o = .ok (b', o')) :
    ∃ sample o2, loopDecide b c e sample space o2 = .ok (b', o') := by
  simp only [workerAct, hw] at h
  split at h
  · cases h
  · exact ⟨_, _, h⟩

/-- the history holds a `wu.space` action of the put `c` (its first one at `space0`, or one after an eviction at
    `evSpace`) that read the free space `space` -/
def SpaceRead (h : List (BState × Act)) (c : PutCmd) (space : Int) : Prop :=
  ∃ p ∈ h, p.2 = .worker ∧ (p.1.w = .space0 c ∨ ∃ e s, p.1.w = .evSpace c e s) ∧
    p.1.g.adm.max - p.1.g.adm.used = space

/-- the history holds the first `wu.space` action of the put `c`, and it found that `c` does not fit -/
def Entered (h : List (BState × Act)) (c : PutCmd) : Prop :=
  ∃ p ∈ h, p.2 = .worker ∧ p.1.w = .space0 c ∧ p.1.g.adm.max - p.1.g.adm.used < c.w

theorem SpaceRead.mono {h : List (BState × Act)} {c : PutCmd} {space : Int} (p : BState × Act)
    (hh : SpaceRead h c space) : SpaceRead (p :: h) c space := by
  obtain ⟨q, hq, rest⟩ := hh
  exact ⟨q, List.mem_cons_of_mem _ hq, rest⟩

theorem Entered.mono {h : List (BState × Act)} {c : PutCmd} (p : BState × Act) (hh : Entered h c) :
    Entered (p :: h) c := by
  obtain ⟨q, hq, rest⟩ := hh
  exact ⟨q, List.mem_cons_of_mem _ hq, rest⟩

/-- the position invariant of the eviction loop -/
def PressInv (h : List (BState × Act)) : WPc → Prop
  | .sampleInit c space _ => space < c.w ∧ SpaceRead h c space ∧ Entered h c
  | .fill c _ _ space => SpaceRead h c space ∧ Entered h c
  | .evRemove c _ _ _ => (∃ space, space < c.w ∧ SpaceRead h c space) ∧ Entered h c
  | .evSub c _ _ _ _ => (∃ space, space < c.w ∧ SpaceRead h c space) ∧ Entered h c
  | .evStore c _ _ _ _ => (∃ space, space < c.w ∧ SpaceRead h c space) ∧ Entered h c
  | .evSpace c _ _ => Entered h c
  | .emptySpace c => (∃ space, space < c.w ∧ SpaceRead h c space) ∧ Entered h c
  | _ => True

theorem PressInv.mono {h : List (BState × Act)} {w : WPc} (p : BState × Act) (hh : PressInv h w) :
    PressInv (p :: h) w := by
  cases w
  case sampleInit => exact ⟨hh.1, hh.2.1.mono p, hh.2.2.mono p⟩
  case fill => exact ⟨hh.1.mono p, hh.2.mono p⟩
  case evRemove => obtain ⟨⟨sp, h1, h2⟩, h3⟩ := hh; exact ⟨⟨sp, h1, h2.mono p⟩, h3.mono p⟩
  case evSub => obtain ⟨⟨sp, h1, h2⟩, h3⟩ := hh; exact ⟨⟨sp, h1, h2.mono p⟩, h3.mono p⟩
  case evStore => obtain ⟨⟨sp, h1, h2⟩, h3⟩ := hh; exact ⟨⟨sp, h1, h2.mono p⟩, h3.mono p⟩
  case evSpace => exact Entered.mono p hh
  case emptySpace => obtain ⟨⟨sp, h1, h2⟩, h3⟩ := hh; exact ⟨⟨sp, h1, h2.mono p⟩, h3.mono p⟩
  all_goals trivial

/-- after `loopDecide` on a free space `space` that a `wu.space` action of the history read -/
theorem pressInv_loopDecide {h : List (BState × Act)} {b b' : BState} {c : PutCmd} {e : Nat} {s : List SKey}
    {space : Int} {o o' : Oracle} (hr : SpaceRead h c space) (he : Entered h c)
    (hd : loopDecide b c e s space o = .ok (b', o')) : PressInv h b'.w := by
  rcases ent_loopDecide_short hd with ⟨_, rfl⟩ | ⟨hlt, rfl | rfl | ⟨s', k, rfl⟩⟩
  · trivial
  · exact ⟨⟨space, hlt, hr⟩, he⟩
  · trivial
  · exact ⟨⟨space, hlt, hr⟩, he⟩

theorem pressInv_worker {h : List (BState × Act)} {b b' : BState} {o o' : Oracle} (hi : PressInv h b.w)
    (hs : workerAct b o = .ok (b', o')) : PressInv ((b, .worker) :: h) b'.w := by
  have hi' := hi.mono (b, .worker)
  by_cases h0 : ∃ c, b.w = .space0 c
  · obtain ⟨c, hw⟩ := h0
    rcases ent_workerAct_space0 hw hs with ⟨_, rfl⟩ | ⟨hlt, e, rfl⟩ | ⟨_, rfl⟩
    · trivial
    · exact ⟨hlt, ⟨(b, .worker), List.mem_cons_self, rfl, Or.inl hw, rfl⟩,
        ⟨(b, .worker), List.mem_cons_self, rfl, hw, hlt⟩⟩
    · trivial
  by_cases h1 : ∃ c space e, b.w = .sampleInit c space e
  · obtain ⟨c, space, e, hw⟩ := h1
    rw [hw] at hi'
    obtain ⟨sample, o2, hd⟩ := ent_workerAct_sampleInit hw hs
    exact pressInv_loopDecide hi'.2.1 hi'.2.2 hd
  by_cases h2 : ∃ c e s space, b.w = .fill c e s space
  · obtain ⟨c, e, s, space, hw⟩ := h2
    rw [hw] at hi'
    obtain ⟨sample, o2, hd⟩ := ent_workerAct_fill hw hs
    exact pressInv_loopDecide hi'.1 hi'.2 hd
  have ht := workerAct_trans hs
  cases ht
  case space0Fits c hw _ _ => exact absurd ⟨c, hw⟩ h0
  case space0Sample c e hw _ => exact absurd ⟨c, hw⟩ h0
  case space0Overflow c hw _ _ => exact absurd ⟨c, hw⟩ h0
  case initInsert c e space hw _ => exact absurd ⟨c, space, e, hw⟩ h1
  case initEmpty c e space hw => exact absurd ⟨c, space, e, hw⟩ h1
  case initReject c e space hw => exact absurd ⟨c, space, e, hw⟩ h1
  case initVictim c e space s' k hw => exact absurd ⟨c, space, e, hw⟩ h1
  case fillInsert c e s space hw _ => exact absurd ⟨c, e, s, space, hw⟩ h2
  case fillEmpty c e s space hw => exact absurd ⟨c, e, s, space, hw⟩ h2
  case fillReject c e s space hw => exact absurd ⟨c, e, s, space, hw⟩ h2
  case fillVictim c e s space s' k hw => exact absurd ⟨c, e, s, space, hw⟩ h2
  case evRemoveSome c e s victim wk hw _ => rw [hw] at hi'; exact hi'
  case evRemoveNone c e s victim hw _ => rw [hw] at hi'; exact hi'.2
  case evSub c e s id wk hw _ => rw [hw] at hi'; exact hi'
  case evStore c e s id wk hw _ => rw [hw] at hi'; exact hi'.2
  case evSpace c e s hw _ =>
    rw [hw] at hi'
    exact ⟨⟨(b, .worker), List.mem_cons_self, rfl, Or.inr ⟨e, s, hw⟩, rfl⟩, hi'⟩
  all_goals trivial

theorem pressInv_step {h : List (BState × Act)} {b b' : BState} {a : Act} {o o' : Oracle} (hi : PressInv h b.w)
    (hs : stepB b a o = .ok (b', o')) : PressInv ((b, a) :: h) b'.w := by
  by_cases ha : a = .worker
  · subst ha; exact pressInv_worker hi hs
  · rw [ent_stepB_w_other hs ha]; exact hi.mono _

theorem pressInv_run {b0 b : BState} {h : List (BState × Act)} (hrun : RunH b0 h b) (h0 : PressInv [] b0.w) :
    PressInv h b.w := by
  induction hrun with
  | nil => exact h0
  | step _ hs ih => exact pressInv_step ih hs

/-- **C03 (5), the pressure clause.**  Along any run that starts with the worker at `recv` (e.g. from the initial state):
    whenever the worker stands at the `store.remove` of an eviction (`evStore`) for the put `c`, the history holds
    (1) the worker's first free-space read of `c` (`wu.space` at `space0`), which found `max − used < c.w`: the put being
    applied did NOT FIT the free space when the eviction loop was entered; and (2) a free-space read of `c` (that one, or
    the `wu.space` after the previous eviction) which found `max − used < c.w` and on which the decision to evict this
    victim was taken. -/
theorem C03_layerB_eviction_under_pressure {b0 b : BState} {h : List (BState × Act)} (hrun : RunH b0 h b)
    (h0 : b0.w = .recv) {c : PutCmd} {inc : Nat} {s : List SKey} {id : Nat} {wk : WKey}
    (hw : b.w = .evStore c inc s id wk) :
    (∃ p ∈ h, p.2 = .worker ∧ p.1.w = .space0 c ∧ p.1.g.adm.max - p.1.g.adm.used < c.w) ∧
    (∃ p ∈ h, p.2 = .worker ∧ (p.1.w = .space0 c ∨ ∃ e s', p.1.w = .evSpace c e s') ∧
      p.1.g.adm.max - p.1.g.adm.used < c.w) := by
  have hp := pressInv_run hrun (by rw [h0]; trivial)
  rw [hw] at hp
  obtain ⟨⟨space, hlt, p, hp1, hp2, hp3, hp4⟩, he⟩ := hp
  exact ⟨he, p, hp1, hp2, hp3, by rw [hp4]; exact hlt⟩

/-! ## concrete interleavings: non-vacuity, and the counterexample to the id clause of C03 (5)

  All on `cfgEx` (`counters := 2`, weight limit 10, one expiry shard), two clients. -/

/-- the initial state of the examples -/
def entInit : BState := BState.init cfgEx 0 [1, 2, 3, 4] 2

theorem ent_reach_run {l : List (Act × Oracle)} {b : BState} (h : runB entInit l = .ok b) :
    Reach cfgEx 0 [1, 2, 3, 4] 2 b :=
  reach_runB (b := { BState.init cfgEx 0 [1, 2, 3, 4] 2 with storeShard := [] }) l (.init []) h

/-- two clients race `put_with_weight(1, …)` of the SAME key: both run their caller-side check (`store.present`) before
    either command is applied, so both pass -/
def putRaceChecks : List (Act × Oracle) :=
  [(.issue 0 (.putW 1 100 3 none), noO), (.issue 1 (.putW 1 111 4 none), noO),
   (.client 0, noO), (.client 1, noO),      -- both stand at `store.present`
   (.client 0, noO), (.client 1, noO)]      -- both find key 1 absent

/-- `id.next` and `cmd.send` of both -/
def putRaceSends : List (Act × Oracle) :=
  [(.client 0, noO), (.client 0, noO), (.client 1, noO), (.client 1, noO)]

/-- **Non-vacuity of C07.**  Both puts of key 1 pass the caller-side check.  The worker applies the first: at `store.put`
    the store has no entry for key 1 (hypothesis and conclusion of `C07_layerB_worker_key_absent` /
    `C07_layerB_store_put_never_overwrites`), after it key 1 ↦ (100, id 1).  The worker's re-check of the second finds
    key 1 present and answers `Rejected(KeyAlreadyExists)` in that action (`C07_layerB_present_refused_worker`); store,
    ledger and total are unchanged, the first value stays.  A later put of key 1 is refused by the caller-side check
    (`C07_layerB_present_refused_client`). -/
example :
    (match runB entInit putRaceChecks with
     | .ok b0 =>
       (match b0.cl[0]?, b0.cl[1]? with
        | some (CPc.idNext k v _ _), some (CPc.idNext k' v' _ _) => decide (k = 1 ∧ v = 100 ∧ k' = 1 ∧ v' = 111)
        | _, _ => false) &&
       (match runB b0 (putRaceSends ++ workerN 5) with
        | .ok b1 =>
          (match b1.w with
           | .storePut c => decide (c.k = 1 ∧ c.v = 100 ∧ c.id = 1 ∧ b1.w.applying? = some c)
           | _ => false) &&
          decide (b1.g.store.get? 1 = none ∧ b1.g.queue.length = 1) &&
          (match runB b1 (workerN 2) with
           | .ok b2 =>
             (match b2.w with
              | .present c => decide (c.k = 1 ∧ c.v = 111 ∧ c.id = 2 ∧ c.h = some 1)
              | _ => false) &&
             decide (b2.g.store.get? 1 = some ⟨100, 1, none, false⟩ ∧ b2.g.acks = [.accepted, .pending]) &&
             (match runB b2 (workerN 1) with
              | .ok b3 =>
                (match b3.w with | .recv => true | _ => false) &&
                decide (b3.g.acks = [.accepted, .rejected .keyAlreadyExists] ∧
                        b3.g.store = b2.g.store ∧ b3.g.store.get? 1 = some ⟨100, 1, none, false⟩ ∧
                        b3.g.adm.kw = b2.g.adm.kw ∧ b3.g.adm.used = b2.g.adm.used ∧ b3.g.adm.used = 3 ∧
                        b3.g.ttl = b2.g.ttl ∧ b3.g.queue = b2.g.queue) &&
                (match runB b3 (call 1 (.putW 1 222 2 none) 1) with
                 | .ok b4 =>
                   (match b4.cl[1]? with | some (CPc.putPresent k _ _ _) => decide (k = 1) | _ => false) &&
                   (match runB b4 [(.client 1, noO)] with
                    | .ok b5 =>
                      (match b5.res[1]? with
                       | some (Out.ack h st :: _) => decide (h = 2 ∧ st = .rejected .keyAlreadyExists)
                       | _ => false) &&
                      decide (b5.g.store = b4.g.store ∧ b5.g.adm.kw = b4.g.adm.kw ∧ b5.g.adm.used = b4.g.adm.used ∧
                              b5.g.queue = b4.g.queue ∧ b5.g.acks = b4.g.acks ++ [Status.rejected .keyAlreadyExists])
                    | _ => false)
                 | _ => false)
              | _ => false)
           | _ => false)
        | _ => false)
     | _ => false) = true := by decide

/-- the same as reachable states: the hypotheses of `C07_layerB_store_put_never_overwrites` and of
    `C07_layerB_present_refused_worker` are satisfied at reachable states -/
theorem C07_layerB_race_reachable :
    (∃ b c, Reach cfgEx 0 [1, 2, 3, 4] 2 b ∧ b.w = .storePut c ∧ c.k = 1 ∧ b.w.applying? = some c ∧
      ∃ b', stepB b .worker noO = .ok (b', noO) ∧ b'.g.store.get? 1 = some ⟨100, 1, none, false⟩) ∧
    (∃ b c, Reach cfgEx 0 [1, 2, 3, 4] 2 b ∧ b.w = .present c ∧ c.k = 1 ∧ c.v = 111 ∧
      b.g.store.get? c.k = some ⟨100, 1, none, false⟩ ∧
      ∃ b', stepB b .worker noO = .ok (b', noO) ∧ b'.g.acks[1]? = some (.rejected .keyAlreadyExists) ∧
        b'.g.store.get? 1 = some ⟨100, 1, none, false⟩) := by
  constructor
  · have hrun : ∃ b, runB entInit (putRaceChecks ++ putRaceSends ++ workerN 5) = .ok b ∧
        b.w = .storePut ⟨1, 1, 3, 1, 100, none, some 0⟩ ∧
        ∃ b', stepB b .worker noO = .ok (b', noO) ∧ b'.g.store.get? 1 = some ⟨100, 1, none, false⟩ :=
      ⟨_, rfl, rfl, _, rfl, by decide⟩
    obtain ⟨b, hr, hw, hrest⟩ := hrun
    exact ⟨b, _, ent_reach_run hr, hw, rfl, by rw [hw]; rfl, hrest⟩
  · have hrun : ∃ b, runB entInit (putRaceChecks ++ putRaceSends ++ workerN 7) = .ok b ∧
        b.w = .present ⟨2, 1, 4, 1, 111, none, some 1⟩ ∧ b.g.store.get? 1 = some ⟨100, 1, none, false⟩ ∧
        ∃ b', stepB b .worker noO = .ok (b', noO) ∧ b'.g.acks[1]? = some (.rejected .keyAlreadyExists) ∧
          b'.g.store.get? 1 = some ⟨100, 1, none, false⟩ :=
      ⟨_, rfl, rfl, by decide, _, rfl, by decide, by decide⟩
    obtain ⟨b, hr, hw, hk, hrest⟩ := hrun
    exact ⟨b, _, ent_reach_run hr, hw, rfl, rfl, hk, hrest⟩

/-- **The race that used to refute the id clause of C03 (5) for the SWEEPER** (the run is `swB_raceRun` of Sweep.lean).
    Key 1 (id 1, deadline 5) expires; the sweeper takes its index entry and its charge out and stands before `wu.sub`.
    `put_or_update(1, remove_time_to_live)` of client 0 takes the deadline out of the STORED value (its `ttl.delete`
    then waits for the shard lock).  `delete(1)` of client 1: the worker removes the stored entry, finds no charge and
    — no deadline in the stored value — no index entry to delete: it is not held up by the shard lock.  `put(1)` of
    client 1 is taken in under id 2.  The sweeper now stands at `store.remove` for id 1.  With the old delete hook
    `store.delete(&key)` it removed the entry stored under id 2 (the former `C03_layerB_remove_id_counterexample`);
    the ticker's hook is now `delete_if_key_id_matches` (`applyEvictId`): the entry stays. -/
def removeRace : List (Act × Oracle) :=
  call 0 (.putW 1 100 3 (some 5)) 4 ++ workerN 7 ++
  [(.advance 10, noO), (.sweeper none, noO), (.sweeper (some 1), noO), (.sweeper none, noO)] ++
  call 0 (.upsert 1 none (some 3) none true) 3 ++ call 1 (.delete 1) 3 ++ workerN 3 ++
  call 1 (.putW 1 111 4 none) 4 ++ workerN 6 ++ [(.sweeper none, noO)]

/-- the sweeper's `store.remove` of the eviction of id 1 KEEPS the entry of key 1 stored under id 2 (the old hook,
    applied to the same state, would remove it) -/
theorem C03_layerB_remove_id_race_keeps :
    ∃ b b', Reach cfgEx 0 [1, 2, 3, 4] 2 b ∧ stepB b (.sweeper none) noO = .ok (b', noO) ∧
      b.sw = .store 10 0 [] 1 ⟨1, 1, 3⟩ ∧ b.g.store.get? 1 = some ⟨111, 2, none, false⟩ ∧
      b'.g.store.get? 1 = some ⟨111, 2, none, false⟩ ∧ (applyEvict b.g (1, 1, 3)).store.get? 1 = none := by
  have hrun : ∃ b, runB entInit removeRace = .ok b ∧ ∃ b', stepB b (.sweeper none) noO = .ok (b', noO) ∧
      b.sw = .store 10 0 [] 1 ⟨1, 1, 3⟩ ∧ b.g.store.get? 1 = some ⟨111, 2, none, false⟩ ∧
      b'.g.store.get? 1 = some ⟨111, 2, none, false⟩ ∧ (applyEvict b.g (1, 1, 3)).store.get? 1 = none := by
    refine ⟨_, rfl, _, rfl, rfl, ?_⟩
    decide
  obtain ⟨b, hr, b', hs, hrest⟩ := hrun
  exact ⟨b, b', ent_reach_run hr, hs, hrest⟩

/-- **The id clause of C03 (5) for the sweeper, in EVERY state**: a sweeper action that removes the entry `e` of `k`
    is the `store.remove` of the eviction of the very id `e` carries, charged for `k`. -/
theorem C03_layerB_sweeper_removes_own_id {b b' : BState} {v : Option Nat} {o o' : Oracle} {k : Nat} {e : Entry}
    (h : stepB b (.sweeper v) o = .ok (b', o')) (hk : b.g.store.get? k = some e)
    (hk' : b'.g.store.get? k = none) :
    ∃ now sh rest id wk, b.sw = .store now sh rest id wk ∧ wk.key = k ∧ e.id = id := by
  have he := stepB_storeEff h
  cases he
  case same hs => rw [hs, hk] at hk'; cases hk'
  case sweep now sh rest id wk hw hm hs =>
    rw [hs, AMap.get?_del] at hk'; split at hk'
    · rename_i hkk
      obtain ⟨en, hen, hid⟩ := hm
      rw [hkk, hk] at hen; cases hen
      exact ⟨now, sh, rest, id, wk, hw, hkk, hid⟩
    · rw [hk] at hk'; cases hk'

/-- C03 (5) with the id clause for the sweeper (every action, every state); for the worker's eviction the clause
    stays false: `C03_layerB_evict_id_counterexample`. -/
theorem C03_layerB_only_these_remove_sweeper_id {b b' : BState} {a : Act} {o o' : Oracle} {k : Nat} {e : Entry}
    (h : stepB b a o = .ok (b', o')) (hk : b.g.store.get? k = some e) (hk' : b'.g.store.get? k = none) :
    (a = .worker ∧ ∃ hh, b.w = .delStore k hh) ∨
    (a = .worker ∧ ∃ c inc s id wk, b.w = .evStore c inc s id wk ∧ wk.key = k) ∨
    (∃ v now sh rest id wk, a = .sweeper v ∧ b.sw = .store now sh rest id wk ∧ wk.key = k ∧ e.id = id) ∨
    (∃ i, a = .client i ∧ b.cl[i]? = some .shutStoreClear) := by
  rcases C03_layerB_only_these_remove_partial h hk hk' with h1 | h2 | ⟨v, now, sh, rest, id, wk, rfl, hw, hkk⟩ | h4
  · exact Or.inl h1
  · exact Or.inr (Or.inl h2)
  · obtain ⟨now', sh', rest', id', wk', hw', _, hid⟩ := C03_layerB_sweeper_removes_own_id h hk hk'
    rw [hw] at hw'; cases hw'
    exact Or.inr (Or.inr (Or.inl ⟨v, now, sh, rest, id, wk, rfl, hw, hkk, hid⟩))
  · exact Or.inr (Or.inr (Or.inr h4))

/-- **The counterexample to the id clause of C03 (5) for the WORKER's eviction** (its delete hook is still
    `store.delete(&key)`, `applyEvict`).  A stale charge is needed — a charged id whose key is stored under another id.
    The sweeper no longer leaves one behind; `shutdown()` does, because it clears the store and the ledger in two
    separate actions while the worker goes on with the commands queued before `Shutdown`:
    id 1 is used up by a put that is too heavy; clients 0 and 1 race `put(1)` (both pass the caller-side check: ids 2
    and 3), client 0 then sends `put(2)` of weight 8 (id 4); the worker stores key 1 under id 2 (charge 4); client 1
    runs `shutdown()` up to and including `store.clear` (the ledger is not cleared yet); the worker's re-check for
    id 3 finds key 1 absent and stores it under id 3 (charge 3); the put of key 2 does not fit, the worker picks the
    stale charge of id 2 as the victim and its `store.remove` removes the entry of key 1 stored under id 3. -/
def removeRaceEvict : List (Act × Oracle) :=
  call 0 (.putW 9 0 11 none) 4 ++ workerN 2 ++
  [(.issue 0 (.putW 1 111 4 none), noO), (.issue 1 (.putW 1 120 3 none), noO),
   (.client 0, noO), (.client 1, noO), (.client 0, noO), (.client 1, noO),
   (.client 0, noO), (.client 0, noO), (.client 1, noO), (.client 1, noO)] ++
  call 0 (.putW 2 200 8 none) 4 ++ workerN 6 ++ call 1 .shutdown 7 ++ workerN 6 ++
  [(.worker, noO), (.worker, noO), (.worker, { dk := [false] }),
   (.worker, { dk := [false, false], ids := [2, 3], pops := [some 2] }), (.worker, noO), (.worker, noO)]

theorem C03_layerB_evict_id_counterexample :
    ∃ b b' c inc s, Reach cfgEx 0 [1, 2, 3, 4] 2 b ∧ stepB b .worker noO = .ok (b', noO) ∧
      b.w = .evStore c inc s 2 ⟨1, 1, 4⟩ ∧ c.k = 2 ∧ b.g.store.get? 1 = some ⟨120, 3, none, false⟩ ∧
      b'.g.store.get? 1 = none := by
  have hrun : ∃ b, runB entInit removeRaceEvict = .ok b ∧ ∃ b', stepB b .worker noO = .ok (b', noO) ∧
      b.w = .evStore ⟨4, 2, 8, 2, 200, none, some 3⟩ 0 [⟨3, 3, 0⟩] 2 ⟨1, 1, 4⟩ ∧
      b.g.store.get? 1 = some ⟨120, 3, none, false⟩ ∧ b'.g.store.get? 1 = none := by
    refine ⟨_, rfl, _, rfl, rfl, ?_⟩
    decide
  obtain ⟨b, hr, b', hs, hw, hrest⟩ := hrun
  exact ⟨b, b', _, _, _, ent_reach_run hr, hs, hw, rfl, hrest⟩

/-- hence C03 (5) WITH the id clause for both ("the sweeper / the eviction removes the entry that carries the id it is
    evicting") is false of the model — because of the worker's eviction; for the sweeper alone the clause holds
    (`C03_layerB_only_these_remove_sweeper_id`) -/
theorem C03_layerB_only_these_remove_false :
    ¬ (∀ (b b' : BState) (a : Act) (o o' : Oracle) (k : Nat) (e : Entry),
        Reach cfgEx 0 [1, 2, 3, 4] 2 b → stepB b a o = .ok (b', o') → b.g.store.get? k = some e →
        b'.g.store.get? k = none →
        (a = .worker ∧ ∃ hh, b.w = .delStore k hh) ∨
        (a = .worker ∧ ∃ c inc s id wk, b.w = .evStore c inc s id wk ∧ wk.key = k ∧ e.id = id) ∨
        (∃ v now sh rest id wk, a = .sweeper v ∧ b.sw = .store now sh rest id wk ∧ wk.key = k ∧ e.id = id) ∨
        (∃ i, a = .client i ∧ b.cl[i]? = some .shutStoreClear)) := by
  intro hall
  obtain ⟨b, b', c, inc, s, hr, hs, hw, _, hk, hk'⟩ := C03_layerB_evict_id_counterexample
  rcases hall b b' _ _ _ 1 _ hr hs hk hk' with ⟨_, hh, hw'⟩ | ⟨_, c', inc', s', id, wk, hw', _, hid⟩ |
    ⟨v, now, sh, rest, id, wk, ha, _⟩ | ⟨i, ha, _⟩
  · rw [hw] at hw'; cases hw'
  · rw [hw] at hw'
    cases hw'
    cases hid
  · cases ha
  · cases ha

/-- the true variant applies to the counterexample state: it is the worker's `store.remove` of a charge of key 1, in
    the eviction loop of a put of another key -/
example : ∃ b b' e, Reach cfgEx 0 [1, 2, 3, 4] 2 b ∧ stepB b .worker noO = .ok (b', noO) ∧
    b.g.store.get? 1 = some e ∧ b'.g.store.get? 1 = none ∧
    ∃ c inc s id wk, b.w = .evStore c inc s id wk ∧ wk.key = 1 ∧ c.k ≠ 1 := by
  obtain ⟨b, b', c, inc, s, hr, hs, hw, _, hk, hk'⟩ := C03_layerB_evict_id_counterexample
  refine ⟨b, b', _, hr, hs, hk, hk', ?_⟩
  rcases C03_layerB_only_these_remove_reach hr hs hk hk' with ⟨_, hh, hw'⟩ | ⟨_, h2⟩ | ⟨v, now, sh, rest, id, wk, ha, _⟩ |
    ⟨i, ha, _⟩
  · rw [hw] at hw'; cases hw'
  · exact h2
  · cases ha
  · cases ha

/-- **Non-vacuity of C03 (5):** each of the four removers removes key 1 (id 1):
    `Delete(1)` at `delStore`; the sweeper after the deadline; an eviction under pressure (a put of weight 8, which is
    not a put of key 1); `shutdown()`'s `store.clear`. -/
example :
    (match runB entInit (call 0 (.putW 1 100 3 (some 5)) 4 ++ workerN 7) with
     | .ok b =>
       decide (b.g.store.get? 1 = some ⟨100, 1, some 5, false⟩) &&
       -- (a) Delete(1)
       (match runB b (call 1 (.delete 1) 3 ++ workerN 1) with
        | .ok b1 =>
          (match b1.w with | .delStore k _ => decide (k = 1) | _ => false) && touches 1 b1 .worker &&
          (match stepB b1 .worker noO with
           | .ok (b2, _) => decide ((b1.g.store.get? 1).isSome ∧ b2.g.store.get? 1 = none)
           | _ => false)
        | _ => false) &&
       -- (b) the sweeper
       (match runB b [(.advance 10, noO), (.sweeper none, noO), (.sweeper (some 1), noO), (.sweeper none, noO),
                      (.sweeper none, noO)] with
        | .ok b1 =>
          (match b1.sw with | .store _ _ _ id wk => decide (id = 1 ∧ wk.key = 1) | _ => false) &&
          touches 1 b1 (.sweeper none) &&
          (match stepB b1 (.sweeper none) noO with
           | .ok (b2, _) => decide ((b1.g.store.get? 1).isSome ∧ b2.g.store.get? 1 = none)
           | _ => false)
        | _ => false) &&
       -- (c) an eviction
       (match runB b (call 1 (.putW 2 200 8 none) 4 ++
           [(.worker, noO), (.worker, noO), (.worker, { dk := [false] }),
            (.worker, { dk := [false], ids := [1], pops := [some 1] }), (.worker, noO), (.worker, noO)]) with
        | .ok b1 =>
          (match b1.w with | .evStore c _ _ id wk => decide (id = 1 ∧ wk.key = 1 ∧ c.k = 2 ∧ c.k ≠ 1) | _ => false) &&
          touches 1 b1 .worker &&
          (match stepB b1 .worker noO with
           | .ok (b2, _) => decide ((b1.g.store.get? 1).isSome ∧ b2.g.store.get? 1 = none)
           | _ => false)
        | _ => false) &&
       -- (d) shutdown
       (match runB b (call 1 .shutdown 6) with
        | .ok b1 =>
          (match b1.cl[1]? with | some CPc.shutStoreClear => true | _ => false) && touches 1 b1 (.client 1) &&
          (match stepB b1 (.client 1) noO with
           | .ok (b2, _) => decide ((b1.g.store.get? 1).isSome ∧ b2.g.store.get? 1 = none)
           | _ => false)
        | _ => false)
     | _ => false) = true := by decide

/-- **Non-vacuity of C03 (6):** `upsert.update` of `put_or_update(1, value 101, remove_time_to_live)` and `delete.mark`
    of `delete(1)` alter the entry of key 1 and keep its id (and `upsert.update` the flag). -/
example :
    (match runB entInit (call 0 (.putW 1 100 3 (some 5)) 4 ++ workerN 7) with
     | .ok b =>
       (match runB b (call 1 (.upsert 1 (some 101) none none true) 1) with
        | .ok b1 =>
          (match b1.cl[1]? with | some (CPc.upUpdate k _ _ _ _) => decide (k = 1) | _ => false) &&
          touches 1 b1 (.client 1) &&
          decide (upExpiry b1.g.now none true (some 5) = some none) &&
          (match stepB b1 (.client 1) noO with
           | .ok (b2, _) => decide (b1.g.store.get? 1 = some ⟨100, 1, some 5, false⟩ ∧
                                    b2.g.store.get? 1 = some ⟨101, 1, none, false⟩)
           | _ => false)
        | _ => false) &&
       (match runB b (call 1 (.delete 1) 1) with
        | .ok b1 =>
          (match b1.cl[1]? with | some (CPc.delMark k) => decide (k = 1) | _ => false) && touches 1 b1 (.client 1) &&
          (match stepB b1 (.client 1) noO with
           | .ok (b2, _) => decide (b2.g.store.get? 1 = some ⟨100, 1, some 5, true⟩)
           | _ => false)
        | _ => false)
     | _ => false) = true := by decide

/-- key 1 is stored (value 100, id 1, deadline 50) -/
def quietBase : List (Act × Oracle) := call 0 (.putW 1 100 3 (some 50)) 4 ++ workerN 7

/-- traffic that is quiet for key 1: a put of key 2 (with a time-to-live) applied by the worker, a put of key 1 ITSELF
    (refused on the spot), a `get(1)` that hits, a `put_or_update` of key 2, the clock passing key 2's deadline, a
    whole sweeper tick that evicts key 2 (visiting key 1, which is not due), a `delete(2)` run by the worker -/
def quietTraffic : List (Act × Oracle) :=
  call 1 (.putW 2 200 3 (some 5)) 4 ++ workerN 7 ++ call 0 (.putW 1 999 2 none) 2 ++
  [(.issue 1 (.get 1), noO), (.client 1, noO), (.client 1, noO), (.client 1, { pool := [0] })] ++
  call 0 (.upsert 2 (some 201) none none false) 3 ++
  [(.advance 10, noO), (.sweeper none, noO), (.sweeper (some 1), noO), (.sweeper (some 2), noO), (.sweeper none, noO),
   (.sweeper none, noO), (.sweeper none, noO), (.sweeper none, noO)] ++
  call 1 (.delete 2) 3 ++ workerN 2

/-- **Non-vacuity of C03 (7):** the traffic is a quiet run for key 1 (`quietRun` checks every action), key 2 came and
    went, and key 1 keeps THE SAME entry -/
example :
    (match runB entInit quietBase with
     | .ok b =>
       (match quietRun 1 b quietTraffic with
        | some b' =>
          decide (b.g.store.get? 1 = some ⟨100, 1, some 50, false⟩ ∧ b'.g.store.get? 1 = some ⟨100, 1, some 50, false⟩ ∧
                  b'.g.store.get? 2 = none ∧ b'.g.now = 10) &&
          (match b'.res[0]?, b'.res[1]? with
           | some (Out.ack _ st :: _), some (_ :: Out.value v :: _) =>
             decide (st = .rejected .keyAlreadyExists ∧ v = some 100)
           | _, _ => false)
        | none => false) &&
       -- … while `delete(1)` is not quiet for key 1
       (quietRun 1 b (call 1 (.delete 1) 2)).isNone
     | _ => false) = true := by decide

/-- `C03_layerB_quiet_run_retains` instantiated on that run: all its hypotheses hold -/
example (b b' : BState) (h1 : runB entInit quietBase = .ok b) (h2 : quietRun 1 b quietTraffic = some b')
    (e : Entry) (hk : b.g.store.get? 1 = some e) : b'.g.store.get? 1 = some e :=
  C03_layerB_quiet_run_retains (ent_reach_run h1) (quiet_of_quietRun _ _ _ h2).1 hk

/-- **Non-vacuity of `C03_layerB_eviction_under_pressure`:** key 1 (weight 3) is in; a put of key 2 with weight 8 does
    not fit (free space 7); the worker stands at the `store.remove` of the eviction of key 1; the history (from the
    initial state, worker at `recv`) holds the `wu.space` action at `space0` that read 7 < 8. -/
def pressureRun : List (Act × Oracle) :=
  call 0 (.putW 1 100 3 none) 4 ++ workerN 6 ++ call 1 (.putW 2 200 8 none) 4 ++
  [(.worker, noO), (.worker, noO), (.worker, { dk := [false] }),
   (.worker, { dk := [false], ids := [1], pops := [some 1] }), (.worker, noO), (.worker, noO)]

theorem C03_layerB_eviction_under_pressure_witness :
    ∃ h b c inc s id wk, RunH entInit h b ∧ entInit.w = .recv ∧ b.w = .evStore c inc s id wk ∧ c.k = 2 ∧ c.w = 8 ∧
      wk.key = 1 ∧
      ∃ p ∈ h, p.2 = .worker ∧ p.1.w = .space0 c ∧ p.1.g.adm.max - p.1.g.adm.used < 8 := by
  have hh : ∃ h b, histOf entInit pressureRun [] = .ok (h, b) ∧
      b.w = .evStore ⟨2, 2, 8, 2, 200, none, some 1⟩ 0 [] 1 ⟨1, 1, 3⟩ := ⟨_, _, rfl, rfl⟩
  obtain ⟨h, b, hrun, hw⟩ := hh
  have hr := runH_histOf (b0 := entInit) _ (.nil _) hrun
  exact ⟨h, b, _, _, _, _, _, hr, rfl, hw, rfl, rfl, rfl, (C03_layerB_eviction_under_pressure hr rfl hw).1⟩

end B
end Cached
