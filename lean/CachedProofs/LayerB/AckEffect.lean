import CachedProofs.LayerB.AckEffectLemmas
import CachedProofs.Properties.C12

namespace Cached
namespace B

/-! ## 1  the invariant `AckInv`: what the worker's locals say about the state between `kw.insert` and the answer -/

/-- Between `wu.add` and the answer of a put `c` (positions `store.put`, `ttl.put`):
    * at `store.put` (running cache) the id is charged with exactly the command's key, hash and weight;
    * at `ttl.put` the command carries a time-to-live, the entry stored under `c.k` — if any — carries the id `c.id`,
      and (running cache) the charge of `c.id` — if any — is the command's. -/
structure AckInv (b : BState) : Prop where
  putCharged : b.g.shutting = false → ∀ c, b.w = .storePut c →
    b.g.adm.kw.get? c.id = some { key := c.k, hash := c.hash, weight := c.w }
  ttlPutTtl : ∀ c e, b.w = .ttlPut c e → ∃ t, c.ttl = some t
  ttlPutStore : ∀ c e, b.w = .ttlPut c e → ∀ ent, b.g.store.get? c.k = some ent → ent.id = c.id
  ttlPutCharge : b.g.shutting = false → ∀ c e, b.w = .ttlPut c e → ∀ wk, b.g.adm.kw.get? c.id = some wk →
    wk = { key := c.k, hash := c.hash, weight := c.w }

theorem ack_wtrans_to_storePut {b b' : BState} (h : WTrans b b') {c : PutCmd} (hc : b'.w = .storePut c) :
    b.w = .add c ∧ b'.g.adm.kw = b.g.adm.kw := by
  cases h
  case add c' hw _ => simp only [WPc.storePut.injEq] at hc; subst hc; exact ⟨hw, rfl⟩
  all_goals simp [finishCmd, rejectCmd] at hc

theorem ack_wtrans_to_ttlPut {b b' : BState} (h : WTrans b b') {c : PutCmd} {e : Nat} (hc : b'.w = .ttlPut c e) :
    b.w = .storePut c ∧ (∃ t, c.ttl = some t) ∧ b'.g.adm = b.g.adm ∧
    b'.g.store = b.g.store.set c.k { value := c.v, id := c.id, expiry := some e, soft := false } := by
  cases h
  case storePutTtl c' t e' hw ht _ =>
    simp only [WPc.ttlPut.injEq] at hc; obtain ⟨rfl, rfl⟩ := hc; exact ⟨hw, ⟨t, ht⟩, rfl, rfl⟩
  all_goals simp [finishCmd, rejectCmd] at hc

/-- a fresh id (the id of a put on its way) is nobody's handle into the ledger: no thread but the worker reaches into
    `kw` at it -/
theorem ack_fresh_not_kwTouched {b : BState} (hb : BInv b) {f : Nat} (hf : 0 < occ b f) {a : Act} (ha : a ≠ .worker) :
    kwTouches f b a = false := by
  cases a with
  | worker => exact absurd rfl ha
  | sweeper v =>
    cases hsw : b.sw with
    | kwRemove now sh rest id' =>
      simp only [kwTouches, hsw]
      cases hid : id' == f with
      | false => rfl
      | true =>
        have hid' : id' = f := by simpa using hid
        have hu : f ∈ usedIds b := by
          rw [mem_usedIds]; right; right; left
          rw [hsw, ← hid']; simp [SPc.ids]
        have := (hb.freshIds.2.2.2.2.1 f hu).1
        omega
    | _ => simp [kwTouches, hsw]
  | _ => rfl

theorem ackInv_init (cfg : Cfg) (now : Nat) (seeds : List Nat) (clients : Nat) (sm : List (Nat × Nat)) :
    AckInv { BState.init cfg now seeds clients with storeShard := sm } := by
  constructor <;> intros <;> simp_all [BState.init]

theorem ackInv_step {b b' : BState} {a : Act} {o o' : Oracle} (hb : BInv b) (hwa : WAbsent b) (hi : AckInv b)
    (h : stepB b a o = .ok (b', o')) : AckInv b' := by
  by_cases ha : a = .worker
  · subst ha
    have ht := workerAct_trans (ack_stepB_worker h)
    have hsh := wtrans_shutting ht
    constructor
    · intro hrun c hc
      obtain ⟨hw, hkw⟩ := ack_wtrans_to_storePut ht hc
      rw [hkw]
      exact ((hb.acct (hsh ▸ hrun)).addCharged c hw)
    · intro c e hc
      exact (ack_wtrans_to_ttlPut ht hc).2.1
    · intro c e hc ent he
      obtain ⟨_, _, _, hst⟩ := ack_wtrans_to_ttlPut ht hc
      rw [hst, AMap.get?_set_same] at he
      cases he; rfl
    · intro hrun c e hc wk hg
      obtain ⟨hw, _, hadm, _⟩ := ack_wtrans_to_ttlPut ht hc
      rw [hadm, hi.putCharged (hsh ▸ hrun) c hw] at hg
      cases hg; rfl
  · have hw := ent_stepB_w_other h ha
    constructor
    · intro hrun c hc
      rw [hw] at hc
      have hrun0 := stepB_running_before h hrun
      have hocc : 0 < occ b c.id := by simp [occ, hc, WPc.freshId?]
      rw [ack_kw_quiet_step hb hrun0 h (ack_fresh_not_kwTouched hb hocc ha)]
      exact hi.putCharged hrun0 c hc
    · intro c e hc
      rw [hw] at hc
      exact hi.ttlPutTtl c e hc
    · intro c e hc ent he
      rw [hw] at hc
      cases hk : b.g.store.get? c.k with
      | none => exact absurd (C07_layerB_only_worker_creates h hk he).1 ha
      | some e0 => rw [C07_layerB_id_never_replaced hwa h hk he]; exact hi.ttlPutStore c e hc e0 hk
    · intro hrun c e hc wk hg
      rw [hw] at hc
      have hrun0 := stepB_running_before h hrun
      exact hi.ttlPutCharge hrun0 c e hc wk (ack_kw_no_new hb hrun0 h ha hg)

/-- `AckInv` holds at every state of every interleaving. -/
theorem ackInv_reach {cfg : Cfg} {now : Nat} {seeds : List Nat} {clients : Nat} {b : BState}
    (h : Reach cfg now seeds clients b) : AckInv b := by
  induction h with
  | init sm => exact ackInv_init _ _ _ _ sm
  | step hr hs ih => exact ackInv_step (binv_reach hr) (wabsent_reach hr) ih hs

/-! ## 2  `put` / `put_with_ttl`: the effect is in place when the acknowledgement is answered -/

/-- **The effect of an accepted put `c`** whose stored deadline is `exp`, as a predicate on the shared state:
    the store holds under `c.k` exactly the command's entry (value, id, deadline, not soft-deleted), the id is charged
    with the command's key, hash and weight, and a deadline is indexed under the shard of the deadline. -/
structure PutEffect (b : BState) (c : PutCmd) (exp : Option Nat) : Prop where
  stored : b.g.store.get? c.k = some { value := c.v, id := c.id, expiry := exp, soft := false }
  charged : b.g.adm.kw.get? c.id = some { key := c.k, hash := c.hash, weight := c.w }
  indexed : ∀ e, exp = some e → b.g.ttl.get? (shardOf b.g.cfg e, c.id) = some e

theorem ack_held_of_cmd {w : WPc} {c : PutCmd} (h : w.cmd? = some c) : w.held = c.h ∧ w.busy = true := by
  cases w <;> simp only [WPc.cmd?, Option.some.injEq, reduceCtorEq] at h <;> subst h <;> exact ⟨rfl, rfl⟩

/-- the total includes the weight of a charged id (running cache): `used = w + Σ (the other charges) − in-flight add +
    in-flight subs` -/
theorem ack_total_includes {b : BState} (hb : BInv b) (hrun : b.g.shutting = false) {id : Nat} {wk : WKey}
    (hg : b.g.adm.kw.get? id = some wk) :
    b.g.adm.used = wk.weight + sumW (b.g.adm.kw.del id) - pendingAdd b + pendingSub b := by
  have h1 := (hb.acct hrun).sum
  have h2 := sumW_del hb.kwNoDup hg
  omega

/-- **C12 / C02: the put is visible.**  In a state in which the effect of the put is in place, the `store.get` action of
    a `get(c.k)` (clock not past the deadline) is a hit carrying `c.v`, and the call returns `Some(c.v)`. -/
theorem PutEffect.get_returns {b : BState} {c : PutCmd} {exp : Option Nat} (he : PutEffect b c exp)
    (hlive : ∀ e, exp = some e → ¬ b.g.now > e) {i : Nat} (hpc : b.cl[i]? = some (.getStore c.k))
    {b1 : BState} {o o1 : Oracle} (hs : stepB b (.client i) o = .ok (b1, o1)) :
    b1.cl = b.cl.set i (.getPool c.k c.v) ∧
    ∀ {b2 b3 : BState} {o2 o3 : Oracle}, b2.cl[i]? = some (.getPool c.k c.v) → stepB b2 (.client i) o2 = .ok (b3, o3) →
      b3.res = b2.res.set i (.value (some c.v) :: b2.res.getD i []) := by
  have halive : ({ value := c.v, id := c.id, expiry := exp, soft := false } : Entry).alive b.g.now = true := by
    cases exp with
    | none => rfl
    | some e => simpa [Entry.alive] using hlive e rfl
  constructor
  · rcases (C02_layerB_get_store hpc hs).1 with ⟨e, hk, _, hcl, _⟩ | ⟨hdead, _, _⟩
    · rw [he.stored] at hk; cases hk; exact hcl
    · rw [hdead _ he.stored] at halive; cases halive
  · intro b2 b3 o2 o3 hpc2 hs2
    exact (C02_layerB_get_pool hpc2 hs2).2

/-- a handle the worker holds names an existing cell -/
theorem ack_held_lt {cfg : Cfg} {now : Nat} {seeds : List Nat} {clients : Nat} {b : BState}
    (hr : Reach cfg now seeds clients b) {h : Nat} (hheld : b.w.held = some h) : h < b.g.acks.length :=
  (hinv_reach hr).lt_held hheld

/-- **C12 (put without time-to-live): the effect is in place when the acknowledgement is answered `Accepted`.**
    `b` any reachable state of a running cache in which the worker is executing the put `c` (no time-to-live) with
    handle `h`; the worker's action `b → b'` answers the cell `h` with `Accepted`.  Then that action is the `store.put`
    itself, the key was absent, and in `b'`: the store holds exactly the command's entry, the id is charged with the
    command's weight, the total includes it, and no other key, charge or index entry changed in this action. -/
theorem C12_layerB_put_effect_before_ack {cfg : Cfg} {now : Nat} {seeds : List Nat} {clients : Nat} {b b' : BState}
    {o o' : Oracle} {c : PutCmd} {h : Nat} (hr : Reach cfg now seeds clients b) (hrun : b.g.shutting = false)
    (hc : b.w.cmd? = some c) (hh : c.h = some h) (httl : c.ttl = none) (hs : stepB b .worker o = .ok (b', o'))
    (ha : b'.g.acks[h]? = some .accepted) :
    b.w = .storePut c ∧ b.g.acks[h]? = some .pending ∧ b.g.store.get? c.k = none ∧ b'.w = .recv ∧
    PutEffect b' c none ∧
    b'.g.adm.used = c.w + sumW (b'.g.adm.kw.del c.id) + pendingSub b' ∧
    (∀ k, k ≠ c.k → b'.g.store.get? k = b.g.store.get? k) ∧ b'.g.adm = b.g.adm ∧ b'.g.ttl = b.g.ttl := by
  have hheld : b.w.held = some h := by rw [(ack_held_of_cmd hc).1, hh]
  have hlt := ack_held_lt hr hheld
  obtain ⟨hrecv, _, hp⟩ := ack_answer_recv (hinv_reach hr) hheld hs ha (by simp)
  have hr' : Reach cfg now seeds clients b' := .step hr hs
  have hrun' : b'.g.shutting = false := by
    rw [wtrans_shutting (workerAct_trans (ack_stepB_worker hs))]; exact hrun
  rcases ack_put_last_action hc hs hrecv with ⟨_, _, rfl⟩ | ⟨_, _, _, rfl⟩ | ⟨_, rfl⟩ | ⟨hw, _, rfl⟩ | ⟨e, hw, _⟩
  · rw [hh, ack_finishCmd_get hlt] at ha; cases ha
  · rw [hh, ack_rejectCmd_get hlt] at ha; cases ha
  · rw [hh, ack_rejectCmd_get hlt] at ha; cases ha
  · have hch := (ackInv_reach hr).putCharged hrun c hw
    have hab := wabsent_reach hr c (by rw [hw]; rfl)
    have heff : PutEffect (finishCmd { b with g := { b.g with
          store := b.g.store.set c.k { value := c.v, id := c.id, expiry := none, soft := false },
          stats := { b.g.stats with keysAdded := b.g.stats.keysAdded + 1 } } } c.h .accepted) c none :=
      ⟨by simp [finishCmd], by simpa [finishCmd] using hch, by intro e he; cases he⟩
    refine ⟨hw, hp, hab, hrecv, heff, ?_, ?_, rfl, rfl⟩
    · have := ack_total_includes (binv_reach hr') hrun' heff.charged
      have hpa : pendingAdd (finishCmd { b with g := { b.g with
          store := b.g.store.set c.k { value := c.v, id := c.id, expiry := none, soft := false },
          stats := { b.g.stats with keysAdded := b.g.stats.keysAdded + 1 } } } c.h .accepted) = 0 := rfl
      rw [hpa] at this
      simpa using this
    · intro k hk
      simp [finishCmd, AMap.get?_set_other _ _ (Ne.symm hk)]
  · obtain ⟨t, ht⟩ := (ackInv_reach hr).ttlPutTtl c e hw
    rw [httl] at ht; cases ht

/-- the id of a put the worker has not yet stored (positions `store.present` … `store.put`) is FRESH: not charged
    before `kw.insert`, carried by no store entry, in no index entry -/
theorem ack_fresh_unused {b : BState} (hb : BInv b) {f : Nat} (hf : b.w.freshId? = some f) :
    (∀ k e, b.g.store.get? k = some e → e.id ≠ f) ∧ (∀ sh, b.g.ttl.get? (sh, f) = none) := by
  have hocc : 0 < occ b f := by simp [occ, hf]
  have hnot : f ∉ usedIds b := fun hu => by
    have := (hb.freshIds.2.2.2.2.1 f hu).1
    omega
  rw [mem_usedIds] at hnot
  simp only [not_or, not_exists, not_and] at hnot
  constructor
  · intro k e hk hid
    exact hnot.1 (k, e) (AMap.mem_of_get? hk) hid
  · intro sh
    cases hg : b.g.ttl.get? (sh, f) with
    | none => rfl
    | some e => exact absurd rfl (hnot.2.1 ((sh, f), e) (AMap.mem_of_get? hg))

/-- **C12 (put, rejected): nothing of the command is in place when the acknowledgement is answered with a rejection.**
    `b` any reachable state in which the worker is executing the put `c` with handle `h`; the worker's action `b → b'`
    answers the cell `h` with `Rejected(r)`.  Then this action changes NOTHING but the cell and the rejection counter
    (store, ledger, total, index: as in `b`); in `b'` the command's id is not charged, no store entry carries it, no index
    entry carries it; and, by reason:
    * `KeyAlreadyExists`: the action is the re-check `store.present`, and the key IS present in `b` (under another id);
    * `TooHeavy`: the action is the re-check, the key is absent, the weight exceeds the cache's weight;
    * `NoSpace`: the action is a step of the eviction loop (`sample.init`, `sample.fill`, or the `wu.space` re-check when
      the sample ran dry, which found `max − used < w`), the key is absent.  Victims evicted EARLIER in the loop stay
      evicted (observation O5): `C12_layerB_put_before_insert_step` lists what the loop's actions change.
    A put is never answered `KeyDoesNotExist`. -/
theorem C12_layerB_put_rejected_no_effect {cfg : Cfg} {now : Nat} {seeds : List Nat} {clients : Nat} {b b' : BState}
    {o o' : Oracle} {c : PutCmd} {h : Nat} {r : Reject} (hr : Reach cfg now seeds clients b)
    (hc : b.w.cmd? = some c) (hh : c.h = some h) (hs : stepB b .worker o = .ok (b', o'))
    (ha : b'.g.acks[h]? = some (.rejected r)) :
    b.g.acks[h]? = some .pending ∧ b'.w = .recv ∧
    b'.g.store = b.g.store ∧ b'.g.adm = b.g.adm ∧ b'.g.ttl = b.g.ttl ∧
    b'.g.adm.kw.get? c.id = none ∧ (∀ k e, b'.g.store.get? k = some e → e.id ≠ c.id) ∧
    (∀ sh, b'.g.ttl.get? (sh, c.id) = none) ∧
    ((r = .keyAlreadyExists ∧ b.w = .present c ∧ b.g.store.contains c.k = true) ∨
     (r = .tooHeavy ∧ b.w = .present c ∧ b.g.store.get? c.k = none ∧ c.w > b.g.adm.max) ∨
     (r = .noSpace ∧ b.g.store.get? c.k = none ∧
       ((∃ space e, b.w = .sampleInit c space e) ∨ (∃ e s space, b.w = .fill c e s space) ∨
        (b.w = .emptySpace c ∧ b.g.adm.max - b.g.adm.used < c.w)))) := by
  have hheld : b.w.held = some h := by rw [(ack_held_of_cmd hc).1, hh]
  have hlt := ack_held_lt hr hheld
  have hb := binv_reach hr
  obtain ⟨hrecv, _, hp⟩ := ack_answer_recv (hinv_reach hr) hheld hs ha (by simp)
  have hfresh : ∀ {w : WPc}, b.w = w → w.pendId? = some c.id →
      b.g.adm.kw.get? c.id = none ∧ (∀ k e, b.g.store.get? k = some e → e.id ≠ c.id) ∧
      (∀ sh, b.g.ttl.get? (sh, c.id) = none) := by
    intro w hw hpend
    have h1 := hb.freshIds.2.2.2.1 c.id (by rw [hw]; exact hpend)
    have h2 := ack_fresh_unused hb (f := c.id) (by rw [hw]; cases w <;> simp_all [WPc.pendId?, WPc.freshId?])
    exact ⟨h1, h2⟩
  rcases ack_put_last_action hc hs hrecv with ⟨hw, hk, rfl⟩ | ⟨hw, hk, hm, rfl⟩ | ⟨hpos, rfl⟩ | ⟨hw, _, rfl⟩ |
    ⟨e, hw, hb'⟩
  · rw [hh, ack_finishCmd_get hlt] at ha
    simp only [Option.some.injEq, Status.rejected.injEq] at ha
    obtain ⟨f1, f2, f3⟩ := hfresh hw rfl
    exact ⟨hp, rfl, rfl, rfl, rfl, f1, f2, f3, Or.inl ⟨ha.symm, hw, hk⟩⟩
  · rw [hh, ack_rejectCmd_get hlt] at ha
    simp only [Option.some.injEq, Status.rejected.injEq] at ha
    obtain ⟨f1, f2, f3⟩ := hfresh hw rfl
    refine ⟨hp, rfl, rfl, rfl, rfl, f1, f2, f3, Or.inr (Or.inl ⟨ha.symm, hw, ?_, hm⟩)⟩
    simpa [AMap.contains] using hk
  · rw [hh, ack_rejectCmd_get hlt] at ha
    simp only [Option.some.injEq, Status.rejected.injEq] at ha
    have hab : b.g.store.get? c.k = none := by
      apply wabsent_reach hr c
      rcases hpos with ⟨_, _, hw⟩ | ⟨_, _, _, hw⟩ | ⟨hw, _⟩ <;> rw [hw] <;> rfl
    obtain ⟨f1, f2, f3⟩ : b.g.adm.kw.get? c.id = none ∧ (∀ k e, b.g.store.get? k = some e → e.id ≠ c.id) ∧
        (∀ sh, b.g.ttl.get? (sh, c.id) = none) := by
      rcases hpos with ⟨_, _, hw⟩ | ⟨_, _, _, hw⟩ | ⟨hw, _⟩ <;> exact hfresh hw rfl
    exact ⟨hp, rfl, rfl, rfl, rfl, f1, f2, f3, Or.inr (Or.inr ⟨ha.symm, hab, hpos⟩)⟩
  · rw [hh, ack_finishCmd_get (by simpa using hlt)] at ha; cases ha
  · rw [hb', hh, ack_finishCmd_get (by simpa [ttlPut] using hlt)] at ha; cases ha

/-- **What the worker's actions of a put change BEFORE `kw.insert`** (the re-check, the admission, the eviction loop —
    everything that can precede a rejection): the index never; the store and the ledger only by the three actions of an
    eviction — `kw.remove` of a victim (its charge leaves the ledger), `wu.sub` (the total drops by the victim's weight),
    `store.remove` (the victim's key leaves the store).  These are the changes a `NoSpace` rejection leaves behind
    (observation O5); a rejection at the re-check (`KeyAlreadyExists`, `TooHeavy`) is preceded by none. -/
theorem C12_layerB_put_before_insert_step {b b' : BState} {o o' : Oracle} {f : Nat} (hpend : b.w.pendId? = some f)
    (hni : ∀ c, b.w ≠ .insert c) (hs : stepB b .worker o = .ok (b', o')) :
    b'.g.ttl = b.g.ttl ∧
    ((b'.g.store = b.g.store ∧ b'.g.adm = b.g.adm) ∨
     (∃ c e s victim wk, b.w = .evRemove c e s victim ∧ b.g.adm.kw.get? victim.id = some wk ∧
        b'.g.store = b.g.store ∧ b'.g.adm = { b.g.adm with kw := b.g.adm.kw.del victim.id } ∧
        b'.w = .evSub c e s victim.id wk) ∨
     (∃ c e s id wk, b.w = .evSub c e s id wk ∧ b'.g.store = b.g.store ∧
        b'.g.adm = { b.g.adm with used := b.g.adm.used - wk.weight } ∧ b'.w = .evStore c e s id wk) ∨
     (∃ c e s id wk, b.w = .evStore c e s id wk ∧ b'.g.store = b.g.store.del wk.key ∧ b'.g.adm = b.g.adm)) := by
  have ht := workerAct_trans (ack_stepB_worker hs)
  cases ht
  case evRemoveSome c e s victim wk hw hg =>
    exact ⟨rfl, Or.inr (Or.inl ⟨c, e, s, victim, wk, hw, hg, rfl, rfl, rfl⟩)⟩
  case evSub c e s id wk hw _ => exact ⟨rfl, Or.inr (Or.inr (Or.inl ⟨c, e, s, id, wk, hw, rfl, rfl, rfl⟩))⟩
  case evStore c e s id wk hw _ =>
    exact ⟨by simp, Or.inr (Or.inr (Or.inr ⟨c, e, s, id, wk, hw, by simp [applyEvict_store], by simp⟩))⟩
  case insert c hw => exact absurd hw (hni c)
  all_goals first
    | exact ⟨rfl, Or.inl ⟨rfl, rfl⟩⟩
    | (rename_i hw; rw [hw] at hpend; cases hpend)
    | (rename_i hw _; rw [hw] at hpend; cases hpend)
    | (rename_i hw _ _; rw [hw] at hpend; cases hpend)

/-! ### stability: the effect of a put stays in place until an action is aimed at the key or the key id -/

/-- one action not aimed at `c.k` / `c.id` keeps the effect of the put in place (running cache) -/
theorem PutEffect.undisturbed_step {b b' : BState} {a : Act} {o o' : Oracle} {c : PutCmd} {exp : Option Nat}
    (hb : BInv b) (hwa : WAbsent b) (hrun : b.g.shutting = false) (he : PutEffect b c exp)
    (hs : stepB b a o = .ok (b', o')) (hd : disturbs c.k c.id b a = false) : PutEffect b' c exp := by
  obtain ⟨h1, h2, h3⟩ := disturbs_false hd
  refine ⟨C03_layerB_quiet_step hwa hs h1 he.stored, ?_, ?_⟩
  · rw [ack_kw_quiet_step hb hrun hs h2]; exact he.charged
  · intro e hx
    rw [stepB_cfg hs, ack_ttl_quiet_step hb hrun hs h3]
    exact he.indexed e hx

/-- **C12 (interface, put): once in place, the effect of a put stays in place** along every run — any interleaving of
    any threads — in which no action is aimed at the key (`Delete(k)`'s `store.remove`, an eviction or a sweep of a charge
    of `k`, `upsert.update` / `delete.mark` of `k`) or at the key id (`kw.remove` / `kw.update` / `kw.insert` of the id, an
    index action of the id), as long as the cache is running. -/
theorem PutEffect.undisturbed {cfg : Cfg} {now : Nat} {seeds : List Nat} {clients : Nat} {b b' : BState} {c : PutCmd}
    {exp : Option Nat} (hr : Reach cfg now seeds clients b) (hq : Undisturbed c.k c.id b b')
    (hrun : b'.g.shutting = false) (he : PutEffect b c exp) : PutEffect b' c exp := by
  induction hq with
  | refl => exact he
  | step hq1 hs hd ih =>
    have hrun1 := stepB_running_before hs hrun
    have hr1 := hq1.reach hr
    exact (ih hrun1).undisturbed_step (binv_reach hr1) (wabsent_reach hr1) hrun1 hs hd

theorem undisturbed_dead {k id : Nat} {b b' : BState} (hq : Undisturbed k id b b') (hd : b.w = .dead) : b'.w = .dead := by
  induction hq with
  | refl => exact hd
  | step _ hs _ ih => exact dead_step hs ih

/-- between `store.put` and `ttl.put` of the put under `id`: an undisturbed run leaves the worker where it is (its own
    next action, `ttl.put`, is aimed at `id`), keeps the stored entry and the charge -/
theorem ack_ttlPut_window {cfg : Cfg} {now : Nat} {seeds : List Nat} {clients : Nat} {b b' : BState} {c : PutCmd}
    {e : Nat} {ent : Entry} {wk : WKey} (hr : Reach cfg now seeds clients b) (hq : Undisturbed c.k c.id b b')
    (hrun : b'.g.shutting = false) (hw : b.w = .ttlPut c e) (hst : b.g.store.get? c.k = some ent)
    (hch : b.g.adm.kw.get? c.id = some wk) :
    b'.w = .ttlPut c e ∧ b'.g.store.get? c.k = some ent ∧ b'.g.adm.kw.get? c.id = some wk := by
  induction hq with
  | refl => exact ⟨hw, hst, hch⟩
  | @step b1 b2 a o o' hq1 hs hd ih =>
    have hrun1 := stepB_running_before hs hrun
    have hr1 := hq1.reach hr
    obtain ⟨i1, i2, i3⟩ := ih hrun1
    obtain ⟨h1, h2, h3⟩ := disturbs_false hd
    have ha : a ≠ .worker := by
      intro e'; subst e'
      simp [ttlTouches, i1] at h3
    refine ⟨by rw [ent_stepB_w_other hs ha]; exact i1, C03_layerB_quiet_step (wabsent_reach hr1) hs h1 i2, ?_⟩
    rw [ack_kw_quiet_step (binv_reach hr1) hrun1 hs h2]; exact i3

theorem ack_addTime {now t e : Nat} (h : addTime now t = some e) : e = now + t := by
  unfold addTime at h
  split at h
  · cases h; rfl
  · cases h

/-- **C12 (put with time-to-live), what holds UNCONDITIONALLY when the acknowledgement is answered `Accepted`.**
    The answering action is `ttl.put` (a separate action AFTER `store.put`).  In `b'`: the index holds
    `(shard of e, id) ↦ e` for the deadline `e` the worker wrote at `store.put`; the action changes neither the store
    nor the ledger; the entry stored under `c.k` — IF ANY — still carries the id `c.id`; the charge of `c.id` — IF ANY —
    is the command's.
    The full effect (`PutEffect b' c (some e)`) is NOT guaranteed: between `store.put` and `ttl.put` the entry is
    already visible and other threads may act on it (`C12_layerB_put_ttl_effect_before_ack_counterexample`); it holds
    when none does (`C12_layerB_put_ttl_effect_before_ack`). -/
theorem C12_layerB_put_ttl_effect_before_ack_partial {cfg : Cfg} {now : Nat} {seeds : List Nat} {clients : Nat}
    {b b' : BState} {o o' : Oracle} {c : PutCmd} {h t : Nat} (hr : Reach cfg now seeds clients b)
    (hrun : b.g.shutting = false) (hc : b.w.cmd? = some c) (hh : c.h = some h) (httl : c.ttl = some t)
    (hs : stepB b .worker o = .ok (b', o')) (ha : b'.g.acks[h]? = some .accepted) :
    ∃ e, b.w = .ttlPut c e ∧ b.g.acks[h]? = some .pending ∧ b'.w = .recv ∧
      b'.g.ttl.get? (shardOf b'.g.cfg e, c.id) = some e ∧
      (∀ p, p ≠ (shardOf b'.g.cfg e, c.id) → b'.g.ttl.get? p = b.g.ttl.get? p) ∧
      b'.g.store = b.g.store ∧ b'.g.adm = b.g.adm ∧
      (∀ ent, b'.g.store.get? c.k = some ent → ent.id = c.id) ∧
      (∀ wk, b'.g.adm.kw.get? c.id = some wk → wk = { key := c.k, hash := c.hash, weight := c.w }) := by
  have hheld : b.w.held = some h := by rw [(ack_held_of_cmd hc).1, hh]
  have hlt := ack_held_lt hr hheld
  obtain ⟨hrecv, _, hp⟩ := ack_answer_recv (hinv_reach hr) hheld hs ha (by simp)
  rcases ack_put_last_action hc hs hrecv with ⟨_, _, rfl⟩ | ⟨_, _, _, rfl⟩ | ⟨_, rfl⟩ | ⟨_, hn, _⟩ | ⟨e, hw, rfl⟩
  · rw [hh, ack_finishCmd_get hlt] at ha; cases ha
  · rw [hh, ack_rejectCmd_get hlt] at ha; cases ha
  · rw [hh, ack_rejectCmd_get hlt] at ha; cases ha
  · rw [httl] at hn; cases hn
  · have hi := ackInv_reach hr
    refine ⟨e, hw, hp, rfl, by simp [finishCmd, ttlPut], ?_, rfl, rfl, hi.ttlPutStore c e hw, hi.ttlPutCharge hrun c e hw⟩
    intro p hne
    simp only [finishCmd, ttlPut] at hne ⊢
    exact AMap.get?_set_other _ _ (Ne.symm hne)

/-- **C12 (put with time-to-live): the effect is in place when the acknowledgement is answered `Accepted` — provided no
    action is aimed at the key or the key id between `store.put` and `ttl.put`.**
    `b0` reachable, the worker at `store.put` of the put `c` (time-to-live `t`, handle `h`); `b0 → b1` is that action;
    `b1 ⇒ b` any run of any threads not aimed at `c.k` / `c.id` (`Undisturbed`); `b → b'` the worker's next action; the
    cache is running.  Then: the key was absent in `b0`; the deadline written is `e = (clock of the store.put action) + t`;
    the worker stands at `ttl.put` all along; `b → b'` answers the cell `h` with `Accepted`; and in `b'` the store holds
    exactly `(v, id, some e, not soft-deleted)` under `k`, the id is charged with `w` for `k`, the index holds
    `(shard of e, id) ↦ e`, and the total includes `w`. -/
theorem C12_layerB_put_ttl_effect_before_ack {cfg : Cfg} {now : Nat} {seeds : List Nat} {clients : Nat}
    {b0 b1 b b' : BState} {o0 o1 o o' : Oracle} {c : PutCmd} {h t : Nat} (hr : Reach cfg now seeds clients b0)
    (hw0 : b0.w = .storePut c) (hh : c.h = some h) (httl : c.ttl = some t)
    (hs0 : stepB b0 .worker o0 = .ok (b1, o1)) (hq : Undisturbed c.k c.id b1 b)
    (hs : stepB b .worker o = .ok (b', o')) (hrun : b'.g.shutting = false) :
    b0.g.store.get? c.k = none ∧ b1.w = .ttlPut c (b0.g.now + t) ∧ b.w = .ttlPut c (b0.g.now + t) ∧
    b.g.acks[h]? = some .pending ∧ b'.g.acks[h]? = some .accepted ∧ b'.w = .recv ∧
    PutEffect b' c (some (b0.g.now + t)) ∧
    b'.g.adm.used = c.w + sumW (b'.g.adm.kw.del c.id) + pendingSub b' := by
  have hr1 : Reach cfg now seeds clients b1 := .step hr hs0
  have hrb := hq.reach hr1
  have hrunb := stepB_running_before hs hrun
  have hrun1 := hq.running hrunb
  have hrun0 := stepB_running_before hs0 hrun1
  have hab := wabsent_reach hr c (by rw [hw0]; rfl)
  obtain ⟨_, _, ⟨hn, _⟩ | ⟨t', _, _, rfl⟩ | ⟨t', e, ht', hat, rfl⟩⟩ := ent_workerAct_storePut hw0 (ack_stepB_worker hs0)
  · rw [httl] at hn; cases hn
  · have hd := undisturbed_dead hq rfl
    simp [stepB, workerAct, hd] at hs
  · rw [httl] at ht'; cases ht'
    have he := ack_addTime hat
    subst he
    have hch0 := (ackInv_reach hr).putCharged hrun0 c hw0
    obtain ⟨hwb, hstb, hchb⟩ := ack_ttlPut_window (c := c) (e := b0.g.now + t)
      (ent := { value := c.v, id := c.id, expiry := some (b0.g.now + t), soft := false })
      (wk := { key := c.k, hash := c.hash, weight := c.w }) hr1 hq hrunb rfl
      (by simp) (by simpa using hch0)
    have hheld : b.w.held = some h := by rw [hwb]; exact hh
    have hlt := ack_held_lt hrb hheld
    obtain ⟨_, _, rfl⟩ := ack_workerAct_ttlPut hwb (ack_stepB_worker hs)
    have hr' : Reach cfg now seeds clients _ := .step hrb hs
    have heff : PutEffect (finishCmd { b with g := ttlPut b.g c.id (b0.g.now + t) } c.h .accepted) c
        (some (b0.g.now + t)) := by
      refine ⟨by simpa [finishCmd, ttlPut] using hstb, by simpa [finishCmd, ttlPut] using hchb, ?_⟩
      intro e he
      cases he
      simp [finishCmd, ttlPut]
    refine ⟨hab, rfl, hwb, ((hinv_reach hrb).held h hheld).1, ?_, rfl, heff, ?_⟩
    · rw [hh]; exact ack_finishCmd_get (by simpa [ttlPut] using hlt)
    · have := ack_total_includes (binv_reach hr') hrun heff.charged
      have hpa : pendingAdd (finishCmd { b with g := ttlPut b.g c.id (b0.g.now + t) } c.h .accepted) = 0 := rfl
      rw [hpa] at this
      simpa using this

/-! ## 3  `delete`: the entry is gone and its weight no longer counted when the acknowledgement is answered -/

/-- the worker stays inside ONE command: a run of any threads every action of which leaves the worker busy (it does not
    complete the command it is executing, and does not die) -/
inductive InCmd : BState → BState → Prop where
  | refl (b : BState) : InCmd b b
  | step {b b1 b' : BState} {a : Act} {o o' : Oracle} :
      InCmd b b1 → stepB b1 a o = .ok (b', o') → b'.w.busy = true → InCmd b b'

theorem InCmd.reach {cfg : Cfg} {now : Nat} {seeds : List Nat} {clients : Nat} {b b' : BState}
    (h : InCmd b b') (hr : Reach cfg now seeds clients b) : Reach cfg now seeds clients b' := by
  induction h with
  | refl => exact hr
  | step _ hs _ ih => exact .step ih hs

theorem InCmd.running {b b' : BState} (h : InCmd b b') (hrun : b'.g.shutting = false) : b.g.shutting = false := by
  induction h with
  | refl => exact hrun
  | step _ hs _ ih => exact ih (stepB_running_before hs hrun)

/-- an answer stays along the run -/
theorem InCmd.answered {cfg : Cfg} {now : Nat} {seeds : List Nat} {clients : Nat} {b b' : BState} {h : Nat} {st : Status}
    (hq : InCmd b b') (hr : Reach cfg now seeds clients b) (ha : b.g.acks[h]? = some st) (hne : st ≠ .pending) :
    b'.g.acks[h]? = some st := by
  induction hq with
  | refl => exact ha
  | step hq1 hs _ ih => exact (C11_layerB_acks_grow (hinv_reach (hq1.reach hr)) hs).2 h st ih hne

/-- where the worker stands inside a `Delete(k)` after its `store.remove` took the entry `ent` out: at `kw.remove`, or
    — the charge of `ent.id` gone — at `wu.sub` / `ttl.delete`; the key is absent -/
def DelPos (k : Nat) (ent : Entry) (hh : Option Nat) (b : BState) : Prop :=
  b.g.store.get? k = none ∧
  (b.w = .delKw ent.id ent.expiry hh ∨
   (((∃ wk, b.w = .delSub ent.id wk ent.expiry hh) ∨ (∃ e, ent.expiry = some e ∧ b.w = .delTtl ent.id e hh)) ∧
     b.g.adm.kw.get? ent.id = none))

theorem delPos_step {b b' : BState} {a : Act} {o o' : Oracle} {k : Nat} {ent : Entry} {hh : Option Nat} (hb : BInv b)
    (hrun : b.g.shutting = false) (hp : DelPos k ent hh b) (hs : stepB b a o = .ok (b', o'))
    (hbusy : b'.w.busy = true) : DelPos k ent hh b' := by
  obtain ⟨hk, hpos⟩ := hp
  by_cases ha : a = .worker
  · subst ha
    have hwa := ack_stepB_worker hs
    rcases hpos with hw | ⟨⟨wk, hw⟩ | ⟨e, hexp, hw⟩, hkw⟩
    · obtain ⟨_, ⟨wk, hg, rfl⟩ | ⟨e, hg, hexp, rfl⟩ | ⟨_, _, rfl⟩⟩ := ack_workerAct_delKw hw hwa
      · exact ⟨hk, Or.inr ⟨Or.inl ⟨wk, rfl⟩, by simp⟩⟩
      · exact ⟨hk, Or.inr ⟨Or.inr ⟨e, hexp, rfl⟩, hg⟩⟩
      · cases hbusy
    · obtain ⟨_, _, ⟨e, hexp, rfl⟩ | ⟨_, rfl⟩⟩ := ack_workerAct_delSub hw hwa
      · exact ⟨hk, Or.inr ⟨Or.inr ⟨e, hexp, rfl⟩, hkw⟩⟩
      · cases hbusy
    · obtain ⟨_, _, rfl⟩ := ack_workerAct_delTtl hw hwa
      cases hbusy
  · have hw := ent_stepB_w_other hs ha
    refine ⟨(stepB_storeEff hs).noCreate (fun e => absurd e ha) hk, ?_⟩
    rw [hw]
    rcases hpos with hw0 | ⟨hpos, hkw⟩
    · exact Or.inl hw0
    · refine Or.inr ⟨hpos, ?_⟩
      cases hg : b'.g.adm.kw.get? ent.id with
      | none => rfl
      | some wk => rw [ack_kw_no_new hb hrun hs ha hg] at hkw; cases hkw

theorem delPos_run {cfg : Cfg} {now : Nat} {seeds : List Nat} {clients : Nat} {b b' : BState} {k : Nat} {ent : Entry}
    {hh : Option Nat} (hr : Reach cfg now seeds clients b) (hq : InCmd b b') (hrun : b'.g.shutting = false)
    (hp : DelPos k ent hh b) : DelPos k ent hh b' := by
  induction hq with
  | refl => exact hp
  | step hq1 hs hbusy ih =>
    have hrun1 := stepB_running_before hs hrun
    exact delPos_step (binv_reach (hq1.reach hr)) hrun1 (ih hrun1) hs hbusy

/-- **C04 (delete): the effect is in place when the acknowledgement is answered `Accepted`.**
    `b0` reachable, the worker at `store.remove` of `Delete(k)` with handle `h` (the first action of the command after
    its take); `b0 → b1` is that action; `b1 ⇒ b` any run of any threads during which the worker stays inside the command
    (`InCmd`); `b → b'` the worker's action that answers the cell `h` with `Accepted`; the cache is running.  Then
    `b0` held an entry `ent` under `k`, and in `b'`:
    * the key is ABSENT from the store (only the worker creates entries, and it has been busy with this `Delete`);
    * the id `ent.id` the entry carried is NOT CHARGED;
    * the accounting identity holds with nothing of the worker in flight: `used = Σ charged weights + (the sweeper's
      in-flight subtraction)` — `ent.id` is not among the charges, so its weight is no longer counted
      (the worker's own `wu.sub` of this command lowered `used` by exactly the charge its `kw.remove` found:
      `ack_workerAct_delKw`, `ack_workerAct_delSub`);
    * the index entry `(shard of e, ent.id)` for the STORED deadline `e` of the removed entry is gone
      (if the stored deadline was out of step with the index — a `put_or_update` in flight — an entry for `ent.id` may
      remain in another shard: C10, `IndexStep.lean`). -/
theorem C04_layerB_delete_effect_before_ack {cfg : Cfg} {now : Nat} {seeds : List Nat} {clients : Nat}
    {b0 b1 b b' : BState} {o0 o1 o o' : Oracle} {k h : Nat} (hr : Reach cfg now seeds clients b0)
    (hw0 : b0.w = .delStore k (some h)) (hs0 : stepB b0 .worker o0 = .ok (b1, o1)) (hq : InCmd b1 b)
    (hs : stepB b .worker o = .ok (b', o')) (hrun : b'.g.shutting = false) (ha : b'.g.acks[h]? = some .accepted) :
    ∃ ent, b0.g.store.get? k = some ent ∧ b.g.acks[h]? = some .pending ∧ b'.w = .recv ∧
      b'.g.store.get? k = none ∧ b'.g.adm.kw.get? ent.id = none ∧
      b'.g.adm.used = sumW b'.g.adm.kw + pendingSub b' ∧
      (∀ e, ent.expiry = some e → b'.g.ttl.get? (shardOf b'.g.cfg e, ent.id) = none) := by
  have hr1 : Reach cfg now seeds clients b1 := .step hr hs0
  have hrb := hq.reach hr1
  have hr' : Reach cfg now seeds clients b' := .step hrb hs
  have hrunb := stepB_running_before hs hrun
  have hlt0 := ack_held_lt hr (h := h) (by rw [hw0]; rfl)
  obtain ⟨_, _, ⟨_, rfl⟩ | ⟨ent, hent, rfl⟩⟩ := ent_workerAct_delStore hw0 (ack_stepB_worker hs0)
  · -- rejected on the spot: the cell holds `KeyDoesNotExist` for ever
    have h1 := hq.answered hr1 (ack_finishCmd_get (st := .rejected .keyDoesNotExist) hlt0) (by simp)
    have h2 := (C11_layerB_acks_grow (hinv_reach hrb) hs).2 h _ h1 (by simp)
    rw [h2] at ha; cases ha
  · have hp : DelPos k ent (some h) b := delPos_run hr1 hq hrunb ⟨by simp, Or.inl rfl⟩
    obtain ⟨hk, hpos⟩ := hp
    have hheld : b.w.held = some h := by
      rcases hpos with hw | ⟨⟨wk, hw⟩ | ⟨e, _, hw⟩, _⟩ <;> rw [hw] <;> rfl
    have hlt := ack_held_lt hrb hheld
    obtain ⟨hrecv, _, hpend⟩ := ack_answer_recv (hinv_reach hrb) hheld hs ha (by simp)
    have hsum : b'.g.adm.used = sumW b'.g.adm.kw + pendingSub b' := by
      have := ((binv_reach hr').acct hrun).sum
      have hpa : pendingAdd b' = 0 := by simp [pendingAdd, hrecv]
      omega
    have hwa := ack_stepB_worker hs
    refine ⟨ent, hent, hpend, hrecv, ?_, ?_, hsum, ?_⟩
    · rcases hpos with hw | ⟨⟨wk, hw⟩ | ⟨e, _, hw⟩, _⟩
      · obtain ⟨_, ⟨wk, _, rfl⟩ | ⟨e, _, _, rfl⟩ | ⟨_, _, rfl⟩⟩ := ack_workerAct_delKw hw hwa <;> exact hk
      · obtain ⟨_, _, ⟨e, _, rfl⟩ | ⟨_, rfl⟩⟩ := ack_workerAct_delSub hw hwa <;> exact hk
      · obtain ⟨_, _, rfl⟩ := ack_workerAct_delTtl hw hwa; exact hk
    · rcases hpos with hw | ⟨⟨wk, hw⟩ | ⟨e, _, hw⟩, hkw⟩
      · obtain ⟨_, ⟨wk, _, rfl⟩ | ⟨e, _, _, rfl⟩ | ⟨hg, _, rfl⟩⟩ := ack_workerAct_delKw hw hwa
        · cases hrecv
        · cases hrecv
        · exact hg
      · obtain ⟨_, _, ⟨e, _, rfl⟩ | ⟨_, rfl⟩⟩ := ack_workerAct_delSub hw hwa <;> exact hkw
      · obtain ⟨_, _, rfl⟩ := ack_workerAct_delTtl hw hwa; exact hkw
    · intro e hexp
      rcases hpos with hw | ⟨⟨wk, hw⟩ | ⟨e', hexp', hw⟩, hkw⟩
      · obtain ⟨_, ⟨wk, _, rfl⟩ | ⟨e1, _, _, rfl⟩ | ⟨_, hn, rfl⟩⟩ := ack_workerAct_delKw hw hwa
        · cases hrecv
        · cases hrecv
        · rw [hexp] at hn; cases hn
      · obtain ⟨_, _, ⟨e1, _, rfl⟩ | ⟨hn, rfl⟩⟩ := ack_workerAct_delSub hw hwa
        · cases hrecv
        · rw [hexp] at hn; cases hn
      · obtain ⟨_, _, rfl⟩ := ack_workerAct_delTtl hw hwa
        rw [hexp] at hexp'; cases hexp'
        simp [finishCmd, ttlDelete]

/-- **C04 (delete, rejected): `Rejected(KeyDoesNotExist)` means the store held no entry of the key when the worker looked,
    and nothing changed.**  The only rejection a `Delete` is answered with; it is answered in the command's first action
    (`store.remove`), which leaves store, ledger, total, index and statistics exactly as they were. -/
theorem C04_layerB_delete_rejected_no_effect {cfg : Cfg} {now : Nat} {seeds : List Nat} {clients : Nat} {b b' : BState}
    {o o' : Oracle} {k h : Nat} {r : Reject} (hr : Reach cfg now seeds clients b) (hw : b.w = .delStore k (some h))
    (hs : stepB b .worker o = .ok (b', o')) (ha : b'.g.acks[h]? = some (.rejected r)) :
    r = .keyDoesNotExist ∧ b.g.store.get? k = none ∧ b.g.acks[h]? = some .pending ∧
    b' = finishCmd b (some h) (.rejected .keyDoesNotExist) ∧
    b'.g.store = b.g.store ∧ b'.g.adm = b.g.adm ∧ b'.g.ttl = b.g.ttl ∧ b'.g.stats = b.g.stats := by
  have hheld : b.w.held = some h := by rw [hw]; rfl
  have hlt := ack_held_lt hr hheld
  have hpend := ((hinv_reach hr).held h hheld).1
  obtain ⟨_, _, ⟨hk, rfl⟩ | ⟨ent, _, rfl⟩⟩ := ent_workerAct_delStore hw (ack_stepB_worker hs)
  · rw [ack_finishCmd_get hlt] at ha
    simp only [Option.some.injEq, Status.rejected.injEq] at ha
    exact ⟨ha.symm, hk, hpend, rfl, rfl, rfl, rfl, rfl⟩
  · simp only [] at ha
    rw [hpend] at ha; cases ha

/-- **C04: the key can be put again.**  In a state in which the key is absent (in particular the state in which a
    `Delete` is answered `Accepted`, `C04_layerB_delete_effect_before_ack`) neither presence check refuses a put of it:
    the caller's check moves on to `id.next`, the worker's re-check moves on to the admission (or refuses the put as too
    heavy) — the put is admitted or rejected by ADMISSION alone. -/
theorem C04_layerB_put_again_not_refused {b : BState} {k : Nat} (hk : b.g.store.get? k = none) :
    (∀ {i v : Nat} {w : Int} {ttl : Option Nat} {o o' : Oracle} {b' : BState},
      b.cl[i]? = some (.putPresent k v w ttl) → stepB b (.client i) o = .ok (b', o') →
      b' = setClient b i (.idNext k v w ttl)) ∧
    (∀ {c : PutCmd} {o o' : Oracle} {b' : BState}, b.w = .present c → c.k = k → stepB b .worker o = .ok (b', o') →
      b' = { b with w := .space0 c } ∨ (c.w > b.g.adm.max ∧ b' = rejectCmd b c.h (.rejected .tooHeavy))) := by
  constructor
  · intro i v w ttl o o' b' hpc hs
    exact C07_layerB_absent_not_refused.1 hpc hk hs
  · intro c o o' b' hw hck hs
    exact C07_layerB_absent_not_refused.2 hw (by rw [hck]; exact hk) hs

/-! ## 4  `UpdateWeight`: the charge is the new weight when the acknowledgement is answered — or the id was not charged -/

/-- **C08 (`UpdateWeight(id, w)`, sent by `put_or_update`): what holds when its acknowledgement is answered.**
    The command is ONE worker action (`kw.update`).  If it answers the cell at all (it may panic on an `i64` overflow
    instead: D-finding of C17), the answer is `Accepted`, and
    * EITHER the id was charged (`wk`): in `b'` it is charged with exactly `w` (key and hash unchanged), the total
      changed by `w − wk.weight`, no other charge changed;
    * OR the id was NOT charged when the worker looked (its entry was deleted, evicted or swept in the meantime):
      NOTHING changed — an `Accepted` no-op.  This is part of the known observations O6 / D14: `Accepted` does not say
      that the weight was applied.
    Store and index are untouched either way. -/
theorem C08_layerB_update_weight_effect_before_ack {cfg : Cfg} {now : Nat} {seeds : List Nat} {clients : Nat}
    {b b' : BState} {o o' : Oracle} {id h : Nat} {w : Int} {st : Status} (hr : Reach cfg now seeds clients b)
    (hw : b.w = .update id w (some h)) (hs : stepB b .worker o = .ok (b', o')) (ha : b'.g.acks[h]? = some st)
    (hne : st ≠ .pending) :
    st = .accepted ∧ b.g.acks[h]? = some .pending ∧ b'.w = .recv ∧ b'.g.store = b.g.store ∧ b'.g.ttl = b.g.ttl ∧
    ((∃ wk, b.g.adm.kw.get? id = some wk ∧ b'.g.adm.kw.get? id = some { wk with weight := w } ∧
        b'.g.adm.used = b.g.adm.used + (w - wk.weight) ∧
        (∀ id', id' ≠ id → b'.g.adm.kw.get? id' = b.g.adm.kw.get? id')) ∨
     (b.g.adm.kw.get? id = none ∧ b'.g.adm = b.g.adm ∧ b'.g.stats = b.g.stats)) := by
  have hheld : b.w.held = some h := by rw [hw]; rfl
  have hlt := ack_held_lt hr hheld
  have hpend := ((hinv_reach hr).held h hheld).1
  obtain ⟨_, _, ⟨hg, rfl⟩ | ⟨wk, hg, _, _, rfl⟩ | ⟨wk, _, _, rfl⟩⟩ := ack_workerAct_update hw (ack_stepB_worker hs)
  · rw [ack_finishCmd_get hlt] at ha
    simp only [Option.some.injEq] at ha
    exact ⟨ha.symm, hpend, rfl, rfl, rfl, Or.inr ⟨hg, rfl, rfl⟩⟩
  · rw [ack_finishCmd_get (by simpa using hlt)] at ha
    simp only [Option.some.injEq] at ha
    refine ⟨ha.symm, hpend, rfl, rfl, rfl, Or.inl ⟨wk, hg, by simp [finishCmd], rfl, ?_⟩⟩
    intro id' hid
    simp [finishCmd, AMap.get?_set_other _ _ (Ne.symm hid)]
  · simp only [] at ha
    rw [hpend] at ha
    simp only [Option.some.injEq] at ha
    exact absurd ha.symm hne

end B
end Cached
