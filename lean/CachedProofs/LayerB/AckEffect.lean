import CachedProofs.LayerB.AckEffectLemmas
import CachedProofs.Properties.C12

namespace Cached
namespace B

/-! ## 1  the invariant `AckInv`: what the worker's locals say about the state between `kw.insert` and the answer -/

/-- Between `wu.add` and the answer of a put `c` (positions `store.put`, `ttl.put`):
    * at `store.put` (running cache) the id is charged with exactly the command's key, hash and weight;
    * at `ttl.put` the command carries a time-to-live, the entry stored under `c.k` — if any — carries the id `c.id`,
      and (running cache) the charge of `c.id` — if any — is the command's. -/
structure AckInv (b : BState) : Prop where
  putCharged : b.g.shutting = false → ∀ c, b.w = .storePut c →
    b.g.adm.kw.get? c.id = some { key := c.k, hash := c.hash, weight := c.w }
  ttlPutTtl : ∀ c e, b.w = .ttlPut c e → ∃ t, c.ttl = some t
  ttlPutStore : ∀ c e, b.w = .ttlPut c e → ∀ ent, b.g.store.get? c.k = some ent → ent.id = c.id
  ttlPutCharge : b.g.shutting = false → ∀ c e, b.w = .ttlPut c e → ∀ wk, b.g.adm.kw.get? c.id = some wk →
    wk = { key := c.k, hash := c.hash, weight := c.w }

theorem ack_wtrans_to_storePut {b b' : BState} (h : WTrans b b') {c : PutCmd} (hc : b'.w = .storePut c) :
    b.w = .add c ∧ b'.g.adm.kw = b.g.adm.kw := by
  cases h
  case add c' hw _ => simp only [WPc.storePut.injEq] at hc; subst hc; exact ⟨hw, rfl⟩
  all_goals simp [finishCmd, rejectCmd] at hc

theorem ack_wtrans_to_ttlPut {b b' : BState} (h : WTrans b b') {c : PutCmd} {e : Nat} (hc : b'.w = .ttlPut c e) :
    b.w = .storePut c ∧ (∃ t, c.ttl = some t) ∧ b'.g.adm = b.g.adm ∧
    b'.g.store = b.g.store.set c.k { value := c.v, id := c.id, expiry := some e, soft := false } := by
  cases h
  case storePutTtl c' t e' hw ht _ =>
    simp only [WPc.ttlPut.injEq] at hc; obtain ⟨rfl, rfl⟩ := hc; exact ⟨hw, ⟨t, ht⟩, rfl, rfl⟩
  all_goals simp [finishCmd, rejectCmd] at hc

/-- a fresh id (the id of a put on its way) is nobody's handle into the ledger: no thread but the worker reaches into
    `kw` at it -/
theorem ack_fresh_not_kwTouched {b : BState} (hb : BInv b) {f : Nat} (hf : 0 < occ b f) {a : Act} (ha : a ≠ .worker) :
    kwTouches f b a = false := by
  cases a with
  | worker => exact absurd rfl ha
  | sweeper v =>
    cases hsw : b.sw with
    | kwRemove now sh rest id' =>
      simp only [kwTouches, hsw]
      cases hid : id' == f with
      | false => rfl
      | true =>
        have hid' : id' = f := by simpa using hid
        have hu : f ∈ usedIds b := by
          rw [mem_usedIds]; right; right; left
          rw [hsw, ← hid']; simp [SPc.ids]
        have := (hb.freshIds.2.2.2.2.1 f hu).1
        omega
    | _ => simp [kwTouches, hsw]
  | _ => rfl

theorem ackInv_init (cfg : Cfg) (now : Nat) (seeds : List Nat) (clients : Nat) (sm : List (Nat × Nat)) :
    AckInv { BState.init cfg now seeds clients with storeShard := sm } := by
  constructor <;> intros <;> simp_all [BState.init]

theorem ackInv_step {b b' : BState} {a : Act} {o o' : Oracle} (hb : BInv b) (hwa : WAbsent b) (hi : AckInv b)
    (h : stepB b a o = .ok (b', o')) : AckInv b' := by
  by_cases ha : a = .worker
  · subst ha
    have ht := workerAct_trans (ack_stepB_worker h)
    have hsh := wtrans_shutting ht
    constructor
    · intro hrun c hc
      obtain ⟨hw, hkw⟩ := ack_wtrans_to_storePut ht hc
      rw [hkw]
      exact ((hb.acct (hsh ▸ hrun)).addCharged c hw)
    · intro c e hc
      exact (ack_wtrans_to_ttlPut ht hc).2.1
    · intro c e hc ent he
      obtain ⟨_, _, _, hst⟩ := ack_wtrans_to_ttlPut ht hc
      rw [hst, AMap.get?_set_same] at he
      cases he; rfl
    · intro hrun c e hc wk hg
      obtain ⟨hw, _, hadm, _⟩ := ack_wtrans_to_ttlPut ht hc
      rw [hadm, hi.putCharged (hsh ▸ hrun) c hw] at hg
      cases hg; rfl
  · have hw := ent_stepB_w_other h ha
    constructor
    · intro hrun c hc
      rw [hw] at hc
      have hrun0 := stepB_running_before h hrun
      have hocc : 0 < occ b c.id := by simp [occ, hc, WPc.freshId?]
      rw [ack_kw_quiet_step hb hrun0 h (ack_fresh_not_kwTouched hb hocc ha)]
      exact hi.putCharged hrun0 c hc
    · intro c e hc
      rw [hw] at hc
      exact hi.ttlPutTtl c e hc
    · intro c e hc ent he
      rw [hw] at hc
      cases hk : b.g.store.get? c.k with
      | none => exact absurd (C07_layerB_only_worker_creates h hk he).1 ha
      | some e0 => rw [C07_layerB_id_never_replaced hwa h hk he]; exact hi.ttlPutStore c e hc e0 hk
    · intro hrun c e hc wk hg
      rw [hw] at hc
      have hrun0 := stepB_running_before h hrun
      exact hi.ttlPutCharge hrun0 c e hc wk (ack_kw_no_new hb hrun0 h ha hg)

/-- `AckInv` holds at every state of every interleaving. -/
theorem ackInv_reach {cfg : Cfg} {now : Nat} {seeds : List Nat} {clients : Nat} {b : BState}
    (h : Reach cfg now seeds clients b) : AckInv b := by
  induction h with
  | init sm => exact ackInv_init _ _ _ _ sm
  | step hr hs ih => exact ackInv_step (binv_reach hr) (wabsent_reach hr) ih hs

/-! ## 2  `put` / `put_with_ttl`: the effect is in place when the acknowledgement is answered -/

/-- **The effect of an accepted put `c`** whose stored deadline is `exp`, as a predicate on the shared state:
    the store holds under `c.k` exactly the command's entry (value, id, deadline, not soft-deleted), the id is charged
    with the command's key, hash and weight, and a deadline is indexed under the shard of the deadline. -/
structure PutEffect (b : BState) (c : PutCmd) (exp : Option Nat) : Prop where
  stored : b.g.store.get? c.k = some { value := c.v, id := c.id, expiry := exp, soft := false }
  charged : b.g.adm.kw.get? c.id = some { key := c.k, hash := c.hash, weight := c.w }
  indexed : ∀ e, exp = some e → b.g.ttl.get? (shardOf b.g.cfg e, c.id) = some e

theorem ack_held_of_cmd {w : WPc} {c : PutCmd} (h : w.cmd? = some c) : w.held = c.h ∧ w.busy = true := by
  cases w <;> simp only [WPc.cmd?, Option.some.injEq, reduceCtorEq] at h <;> subst h <;> exact ⟨rfl, rfl⟩

/-- the total includes the weight of a charged id (running cache): `used = w + Σ (the other charges) − in-flight add +
    in-flight subs` -/
theorem ack_total_includes {b : BState} (hb : BInv b) (hrun : b.g.shutting = false) {id : Nat} {wk : WKey}
    (hg : b.g.adm.kw.get? id = some wk) :
    b.g.adm.used = wk.weight + sumW (b.g.adm.kw.del id) - pendingAdd b + pendingSub b := by
  have h1 := (hb.acct hrun).sum
  have h2 := sumW_del hb.kwNoDup hg
  omega

/-- **C12 / C02: the put is visible.**  In a state in which the effect of the put is in place, the `store.get` action of
    a `get(c.k)` (clock not past the deadline) is a hit carrying `c.v`, and the call returns `Some(c.v)`. -/
theorem PutEffect.get_returns {b : BState} {c : PutCmd} {exp : Option Nat} (he : PutEffect b c exp)
    (hlive : ∀ e, exp = some e → ¬ b.g.now > e) {i : Nat} (hpc : b.cl[i]? = some (.getStore c.k))
    {b1 : BState} {o o1 : Oracle} (hs : stepB b (.client i) o = .ok (b1, o1)) :
    b1.cl = b.cl.set i (.getPool c.k c.v) ∧
    ∀ {b2 b3 : BState} {o2 o3 : Oracle}, b2.cl[i]? = some (.getPool c.k c.v) → stepB b2 (.client i) o2 = .ok (b3, o3) →
      b3.res = b2.res.set i (.value (some c.v) :: b2.res.getD i []) := by
  have halive : ({ value := c.v, id := c.id, expiry := exp, soft := false } : Entry).alive b.g.now = true := by
    cases exp with
    | none => rfl
    | some e => simpa [Entry.alive] using hlive e rfl
  constructor
  · rcases (C02_layerB_get_store hpc hs).1 with ⟨e, hk, _, hcl, _⟩ | ⟨hdead, _, _⟩
    · rw [he.stored] at hk; cases hk; exact hcl
    · rw [hdead _ he.stored] at halive; cases halive
  · intro b2 b3 o2 o3 hpc2 hs2
    exact (C02_layerB_get_pool hpc2 hs2).2

/-- a handle the worker holds names an existing cell -/
theorem ack_held_lt {cfg : Cfg} {now : Nat} {seeds : List Nat} {clients : Nat} {b : BState}
    (hr : Reach cfg now seeds clients b) {h : Nat} (hheld : b.w.held = some h) : h < b.g.acks.length :=
  (hinv_reach hr).lt_held hheld

/-- **C12 (put without time-to-live): the effect is in place when the acknowledgement is answered `Accepted`.**
    `b` any reachable state of a running cache in which the worker is executing the put `c` (no time-to-live) with
    handle `h`; the worker's action `b → b'` answers the cell `h` with `Accepted`.  Then that action is the `store.put`
    itself, the key was absent, and in `b'`: the store holds exactly the command's entry, the id is charged with the
    command's weight, the total includes it, and no other key, charge or index entry changed in this action. -/
theorem C12_layerB_put_effect_before_ack {cfg : Cfg} {now : Nat} {seeds : List Nat} {clients : Nat} {b b' : BState}
    {o o' : Oracle} {c : PutCmd} {h : Nat} (hr : Reach cfg now seeds clients b) (hrun : b.g.shutting = false)
    (hc : b.w.cmd? = some c) (hh : c.h = some h) (httl : c.ttl = none) (hs : stepB b .worker o = .ok (b', o'))
    (ha : b'.g.acks[h]? = some .accepted) :
    b.w = .storePut c ∧ b.g.acks[h]? = some .pending ∧ b.g.store.get? c.k = none ∧ b'.w = .recv ∧
    PutEffect b' c none ∧
    b'.g.adm.used = c.w + sumW (b'.g.adm.kw.del c.id) + pendingSub b' ∧
    (∀ k, k ≠ c.k → b'.g.store.get? k = b.g.store.get? k) ∧ b'.g.adm = b.g.adm ∧ b'.g.ttl = b.g.ttl := by
  have hheld : b.w.held = some h := by rw [(ack_held_of_cmd hc).1, hh]
  have hlt := ack_held_lt hr hheld
  obtain ⟨hrecv, _, hp⟩ := ack_answer_recv (hinv_reach hr) hheld hs ha (by simp)
  have hr' : Reach cfg now seeds clients b' := .step hr hs
  have hrun' : b'.g.shutting = false := by
    rw [wtrans_shutting (workerAct_trans (ack_stepB_worker hs))]; exact hrun
  rcases ack_put_last_action hc hs hrecv with ⟨_, _, rfl⟩ | ⟨_, _, _, rfl⟩ | ⟨_, rfl⟩ | ⟨hw, _, rfl⟩ | ⟨e, hw, _⟩
  · rw [hh, ack_finishCmd_get hlt] at ha; cases ha
  · rw [hh, ack_rejectCmd_get hlt] at ha; cases ha
  · rw [hh, ack_rejectCmd_get hlt] at ha; cases ha
  · have hch := (ackInv_reach hr).putCharged hrun c hw
    have hab := wabsent_reach hr c (by rw [hw]; rfl)
    have heff : PutEffect (finishCmd { b with g := { b.g with
          store := b.g.store.set c.k { value := c.v, id := c.id, expiry := none, soft := false },
          stats := { b.g.stats with keysAdded := b.g.stats.keysAdded + 1 } } } c.h .accepted) c none :=
      ⟨by simp [finishCmd], by simpa [finishCmd] using hch, by intro e he; cases he⟩
    refine ⟨hw, hp, hab, hrecv, heff, ?_, ?_, rfl, rfl⟩
    · have := ack_total_includes (binv_reach hr') hrun' heff.charged
      have hpa : pendingAdd (finishCmd { b with g := { b.g with
          store := b.g.store.set c.k { value := c.v, id := c.id, expiry := none, soft := false },
          stats := { b.g.stats with keysAdded := b.g.stats.keysAdded + 1 } } } c.h .accepted) = 0 := rfl
      rw [hpa] at this
      simpa using this
    · intro k hk
      simp [finishCmd, AMap.get?_set_other _ _ (Ne.symm hk)]
  · obtain ⟨t, ht⟩ := (ackInv_reach hr).ttlPutTtl c e hw
    rw [httl] at ht; cases ht

end B
end Cached
