/-
  "THE EFFECT IS IN PLACE WHEN THE ACKNOWLEDGEMENT IS ANSWERED" at ACTION granularity (CachedModel/LayerB.lean), for every
  interleaving of any number of clients with the command worker, the sweeper and the access consumer — the clause of
  C12 "when it resolves as accepted the command's effect is already visible", the clause of C04 "once the
  acknowledgement completes as accepted the entry is gone and its weight no longer counted; the key can be put again"
  and the clause of C08 "never silently lost", which were proved at the call-atomic Layer A only (and, for C12, inside
  the slice `AckB`, where `final` is a free parameter tied to nothing).

  The worker answers a command in the LAST action of the command (`finishCmd`, `C11_layerB_completion_answers`).  Which
  action that is, and what the shared state looks like in it:

  1  `AckInv` (`ackInv_reach`): between `wu.add` and the answer of a put the worker's locals and the state agree.
  2  PUT   `PutEffect b c exp` = stored exactly (value, id, deadline `exp`, not soft-deleted) ∧ charged (key, hash, weight)
           ∧ deadline indexed.
       `C12_layerB_put_effect_before_ack`          put without time-to-live: the answering action IS `store.put`; in the
                                                   state it produces `PutEffect` holds, the total includes the weight,
                                                   nothing else changed                         (every reachable state)
       `PutEffect.get_returns`                     … so a `get` whose lookup runs there returns `Some(v)`
       `C12_layerB_put_ttl_effect_before_ack`      put with time-to-live: the answering action is `ttl.put`, one action
                                                   AFTER `store.put`; deadline = clock of `store.put` + ttl; `PutEffect`
                                                   holds at the answer IF no action was aimed at the key / the key id
                                                   in that window (`Undisturbed`)
       `…_partial`                                 what holds at the answer UNCONDITIONALLY (index entry written, the
                                                   stored entry — if any — carries the id, the charge — if any — is
                                                   the command's)
       `…_counterexample`, `…_counterexample_swept`  FINDING (benign): the unconditional full clause is FALSE for a put
                                                   with a time-to-live — see below
       `C12_layerB_put_rejected_no_effect`         `KeyAlreadyExists` / `TooHeavy` / `NoSpace`: the answering action
                                                   changes nothing, the command's id is neither charged, stored nor
                                                   indexed; the reason holds in that state
       `C12_layerB_put_before_insert_step`         what precedes a rejection: evictions only (O5)
       `PutEffect.undisturbed`                     the effect stays until one of the named actions
  3  DELETE
       `C04_layerB_delete_effect_before_ack`       at the `Accepted` answer: key absent, the removed entry's id not
                                                   charged, accounting identity with nothing of the worker in flight,
                                                   the index entry of the stored deadline gone   (from the command's
                                                   `store.remove`, the worker staying inside the command: `InCmd`)
       `C04_layerB_delete_rejected_no_effect`      `KeyDoesNotExist`: no entry when the worker looked, nothing changed
       `C04_layerB_put_again_not_refused`, `C04_layerB_absent_stays`, `C04_layerB_absent_key_uncharged`
  4  UPDATE WEIGHT
       `C08_layerB_update_weight_effect_before_ack`  `Accepted` ⇒ charged with exactly `w` and the total moved by
                                                   `w − old`, OR the id was not charged and NOTHING changed (the
                                                   `Accepted` no-op, O6 / D14); `C08_layerB_charge_stays`
  5  COMPOSITION with the slice `AckB` (CachedModel/Ack.lean, Properties/C12.lean)
       `AckRun h D`            the composed system: Layer B's answering action of handle `h` IS the slice's `setStatus`,
                               and the slice's `final` IS the status `finishCmd` passes
       `C12_layerB_layer_or_answer`   every Layer B action is a `layer` or an `answer` step of it
       `AckLink`, `C12_layerB_ready_implies_effect`   generic: `Ready(x)` ⇒ `x = final`, Layer B's cell holds `x`,
                               and (`x = Accepted`) the effect holds in the CURRENT Layer B state
       `C12_layerB_ready_accepted_implies_effect`     for `put`, `put` with ttl, `delete`, `UpdateWeight`
                               (`cmdFirstPos`, `cmdDisturbs`, `CmdEffect`)
       `C12_layerB_answered_accepted_implies_effect`  the interface at Layer B alone: `acks[h] = Accepted` ⇒ effect in
                               place, since the answering action, until one of the named actions
  6  SPOT ANSWERS  `C12_layerB_spot_put_exists`, `C12_layerB_spot_upsert_accepted`, `C12_layerB_spot_after_shutdown`
                   (after the flag: `Err`, NO acknowledgement), `C12_layerB_spot_answers` (nothing else is answered on the
                   spot; never `Pending`)
  7  concrete multi-thread runs (`decide` / `rfl`): every implication above has its hypotheses satisfied by one.

  FINDINGS
    * FALSE as stated, benign: "`put_with_ttl` answered `Accepted` ⇒ store holds (v, id, deadline, not deleted), id
      charged".  `store.put` and the answer are two actions; in between the entry is visible, so a concurrent
      `delete` can mark it (`…_counterexample`: `Accepted`, and a `get` issued after it returns `None`) and a concurrent
      `put_or_update` + a sweeper tick can remove it altogether (`…_counterexample_swept`: `Accepted` with the key
      neither stored nor charged, and a stale index entry left behind by the worker's `ttl.put`).  Both runs are
      linearizable (the other call takes effect between the put and its answer); the true statement needs "no action
      aimed at the key / the key id in the window".  A put WITHOUT time-to-live has no window: its clause is
      unconditional.
    * `Accepted` for `UpdateWeight` does not say the weight was applied (no-op on an uncharged id): known, O6 / D14.
    * `NoSpace` leaves the earlier evictions in place: known, O5.
    * After shutdown the writes return `Err` — there is no acknowledgement to speak of.
  Hypothesis used throughout: `shutting = false` (`shutdown()` clears store and ledger in separate actions, `BAcct`).
-/
import CachedProofs.LayerB.AckEffectLemmas
import CachedProofs.Properties.C12

namespace Cached
namespace B

/-! ## 1  the invariant `AckInv`: what the worker's locals say about the state between `kw.insert` and the answer -/

/-- Between `wu.add` and the answer of a put `c` (positions `store.put`, `ttl.put`):
    * at `store.put` (running cache) the id is charged with exactly the command's key, hash and weight;
    * at `ttl.put` the command carries a time-to-live, the entry stored under `c.k` — if any — carries the id `c.id`,
      and (running cache) the charge of `c.id` — if any — is the command's. -/
structure AckInv (b : BState) : Prop where
  putCharged : b.g.shutting = false → ∀ c, b.w = .storePut c →
    b.g.adm.kw.get? c.id = some { key := c.k, hash := c.hash, weight := c.w }
  ttlPutTtl : ∀ c e, b.w = .ttlPut c e → ∃ t, c.ttl = some t
  ttlPutStore : ∀ c e, b.w = .ttlPut c e → ∀ ent, b.g.store.get? c.k = some ent → ent.id = c.id
  ttlPutCharge : b.g.shutting = false → ∀ c e, b.w = .ttlPut c e → ∀ wk, b.g.adm.kw.get? c.id = some wk →
    wk = { key := c.k, hash := c.hash, weight := c.w }

theorem ack_wtrans_to_storePut {b b' : BState} (h : WTrans b b') {c : PutCmd} (hc : b'.w = .storePut c) :
    b.w = .add c ∧ b'.g.adm.kw = b.g.adm.kw := by
  cases h
  case add c' hw _ => simp only [WPc.storePut.injEq] at hc; subst hc; exact ⟨hw, rfl⟩
  all_goals simp [finishCmd, rejectCmd] at hc

theorem ack_wtrans_to_ttlPut {b b' : BState} (h : WTrans b b') {c : PutCmd} {e : Nat} (hc : b'.w = .ttlPut c e) :
    b.w = .storePut c ∧ (∃ t, c.ttl = some t) ∧ b'.g.adm = b.g.adm ∧
    b'.g.store = b.g.store.set c.k { value := c.v, id := c.id, expiry := some e, soft := false } := by
  cases h
  case storePutTtl c' t e' hw ht _ =>
    simp only [WPc.ttlPut.injEq] at hc; obtain ⟨rfl, rfl⟩ := hc; exact ⟨hw, ⟨t, ht⟩, rfl, rfl⟩
  all_goals simp [finishCmd, rejectCmd] at hc

/-- a fresh id (the id of a put on its way) is nobody's handle into the ledger: no thread but the worker reaches into
    `kw` at it -/
theorem ack_fresh_not_kwTouched {b : BState} (hb : BInv b) {f : Nat} (hf : 0 < occ b f) {a : Act} (ha : a ≠ .worker) :
    kwTouches f b a = false := by
  cases a with
  | worker => exact absurd rfl ha
  | sweeper v =>
    cases hsw : b.sw with
    | kwRemove now sh rest id' =>
      simp only [kwTouches, hsw]
      cases hid : id' == f with
      | false => rfl
      | true =>
        have hid' : id' = f := by simpa using hid
        have hu : f ∈ usedIds b := by
          rw [mem_usedIds]; right; right; left
          rw [hsw, ← hid']; simp [SPc.ids]
        have := (hb.freshIds.2.2.2.2.1 f hu).1
        omega
    | _ => simp [kwTouches, hsw]
  | _ => rfl

theorem ackInv_init (cfg : Cfg) (now : Nat) (seeds : List Nat) (clients : Nat) (sm : List (Nat × Nat)) :
    AckInv { BState.init cfg now seeds clients with storeShard := sm } := by
  constructor <;> intros <;> simp_all [BState.init]

theorem ackInv_step {b b' : BState} {a : Act} {o o' : Oracle} (hb : BInv b) (hwa : WAbsent b) (hi : AckInv b)
    (h : stepB b a o = .ok (b', o')) : AckInv b' := by
  by_cases ha : a = .worker
  · subst ha
    have ht := workerAct_trans (ack_stepB_worker h)
    have hsh := wtrans_shutting ht
    constructor
    · intro hrun c hc
      obtain ⟨hw, hkw⟩ := ack_wtrans_to_storePut ht hc
      rw [hkw]
      exact ((hb.acct (hsh ▸ hrun)).addCharged c hw)
    · intro c e hc
      exact (ack_wtrans_to_ttlPut ht hc).2.1
    · intro c e hc ent he
      obtain ⟨_, _, _, hst⟩ := ack_wtrans_to_ttlPut ht hc
      rw [hst, AMap.get?_set_same] at he
      cases he; rfl
    · intro hrun c e hc wk hg
      obtain ⟨hw, _, hadm, _⟩ := ack_wtrans_to_ttlPut ht hc
      rw [hadm, hi.putCharged (hsh ▸ hrun) c hw] at hg
      cases hg; rfl
  · have hw := ent_stepB_w_other h ha
    constructor
    · intro hrun c hc
      rw [hw] at hc
      have hrun0 := stepB_running_before h hrun
      have hocc : 0 < occ b c.id := by simp [occ, hc, WPc.freshId?]
      rw [ack_kw_quiet_step hb hrun0 h (ack_fresh_not_kwTouched hb hocc ha)]
      exact hi.putCharged hrun0 c hc
    · intro c e hc
      rw [hw] at hc
      exact hi.ttlPutTtl c e hc
    · intro c e hc ent he
      rw [hw] at hc
      cases hk : b.g.store.get? c.k with
      | none => exact absurd (C07_layerB_only_worker_creates h hk he).1 ha
      | some e0 => rw [C07_layerB_id_never_replaced hwa h hk he]; exact hi.ttlPutStore c e hc e0 hk
    · intro hrun c e hc wk hg
      rw [hw] at hc
      have hrun0 := stepB_running_before h hrun
      exact hi.ttlPutCharge hrun0 c e hc wk (ack_kw_no_new hb hrun0 h ha hg)

/-- `AckInv` holds at every state of every interleaving. -/
theorem ackInv_reach {cfg : Cfg} {now : Nat} {seeds : List Nat} {clients : Nat} {b : BState}
    (h : Reach cfg now seeds clients b) : AckInv b := by
  induction h with
  | init sm => exact ackInv_init _ _ _ _ sm
  | step hr hs ih => exact ackInv_step (binv_reach hr) (wabsent_reach hr) ih hs

/-! ## 2  `put` / `put_with_ttl`: the effect is in place when the acknowledgement is answered -/

/-- **The effect of an accepted put `c`** whose stored deadline is `exp`, as a predicate on the shared state:
    the store holds under `c.k` exactly the command's entry (value, id, deadline, not soft-deleted), the id is charged
    with the command's key, hash and weight, and a deadline is indexed under the shard of the deadline. -/
structure PutEffect (b : BState) (c : PutCmd) (exp : Option Nat) : Prop where
  stored : b.g.store.get? c.k = some { value := c.v, id := c.id, expiry := exp, soft := false }
  charged : b.g.adm.kw.get? c.id = some { key := c.k, hash := c.hash, weight := c.w }
  indexed : ∀ e, exp = some e → b.g.ttl.get? (shardOf b.g.cfg e, c.id) = some e

theorem ack_held_of_cmd {w : WPc} {c : PutCmd} (h : w.cmd? = some c) : w.held = c.h ∧ w.busy = true := by
  cases w <;> simp only [WPc.cmd?, Option.some.injEq, reduceCtorEq] at h <;> subst h <;> exact ⟨rfl, rfl⟩

/-- the total includes the weight of a charged id (running cache): `used = w + Σ (the other charges) − in-flight add +
    in-flight subs` -/
theorem ack_total_includes {b : BState} (hb : BInv b) (hrun : b.g.shutting = false) {id : Nat} {wk : WKey}
    (hg : b.g.adm.kw.get? id = some wk) :
    b.g.adm.used = wk.weight + sumW (b.g.adm.kw.del id) - pendingAdd b + pendingSub b := by
  have h1 := (hb.acct hrun).sum
  have h2 := sumW_del hb.kwNoDup hg
  omega

/-- **C12 / C02: the put is visible.**  In a state in which the effect of the put is in place, the `store.get` action of
    a `get(c.k)` (clock not past the deadline) is a hit carrying `c.v`, and the call returns `Some(c.v)`. -/
theorem PutEffect.get_returns {b : BState} {c : PutCmd} {exp : Option Nat} (he : PutEffect b c exp)
    (hlive : ∀ e, exp = some e → ¬ b.g.now > e) {i : Nat} (hpc : b.cl[i]? = some (.getStore c.k))
    {b1 : BState} {o o1 : Oracle} (hs : stepB b (.client i) o = .ok (b1, o1)) :
    b1.cl = b.cl.set i (.getPool c.k c.v) ∧
    ∀ {b2 b3 : BState} {o2 o3 : Oracle}, b2.cl[i]? = some (.getPool c.k c.v) → stepB b2 (.client i) o2 = .ok (b3, o3) →
      b3.res = b2.res.set i (.value (some c.v) :: b2.res.getD i []) := by
  have halive : ({ value := c.v, id := c.id, expiry := exp, soft := false } : Entry).alive b.g.now = true := by
    cases exp with
    | none => rfl
    | some e => simpa [Entry.alive] using hlive e rfl
  constructor
  · rcases (C02_layerB_get_store hpc hs).1 with ⟨e, hk, _, hcl, _⟩ | ⟨hdead, _, _⟩
    · rw [he.stored] at hk; cases hk; exact hcl
    · rw [hdead _ he.stored] at halive; cases halive
  · intro b2 b3 o2 o3 hpc2 hs2
    exact (C02_layerB_get_pool hpc2 hs2).2

/-- a handle the worker holds names an existing cell -/
theorem ack_held_lt {cfg : Cfg} {now : Nat} {seeds : List Nat} {clients : Nat} {b : BState}
    (hr : Reach cfg now seeds clients b) {h : Nat} (hheld : b.w.held = some h) : h < b.g.acks.length :=
  (hinv_reach hr).lt_held hheld

/-- **C12 (put without time-to-live): the effect is in place when the acknowledgement is answered `Accepted`.**
    `b` any reachable state of a running cache in which the worker is executing the put `c` (no time-to-live) with
    handle `h`; the worker's action `b → b'` answers the cell `h` with `Accepted`.  Then that action is the `store.put`
    itself, the key was absent, and in `b'`: the store holds exactly the command's entry, the id is charged with the
    command's weight, the total includes it, and no other key, charge or index entry changed in this action. -/
theorem C12_layerB_put_effect_before_ack {cfg : Cfg} {now : Nat} {seeds : List Nat} {clients : Nat} {b b' : BState}
    {o o' : Oracle} {c : PutCmd} {h : Nat} (hr : Reach cfg now seeds clients b) (hrun : b.g.shutting = false)
    (hc : b.w.cmd? = some c) (hh : c.h = some h) (httl : c.ttl = none) (hs : stepB b .worker o = .ok (b', o'))
    (ha : b'.g.acks[h]? = some .accepted) :
    b.w = .storePut c ∧ b.g.acks[h]? = some .pending ∧ b.g.store.get? c.k = none ∧ b'.w = .recv ∧
    PutEffect b' c none ∧
    b'.g.adm.used = c.w + sumW (b'.g.adm.kw.del c.id) + pendingSub b' ∧
    (∀ k, k ≠ c.k → b'.g.store.get? k = b.g.store.get? k) ∧ b'.g.adm = b.g.adm ∧ b'.g.ttl = b.g.ttl := by
  have hheld : b.w.held = some h := by rw [(ack_held_of_cmd hc).1, hh]
  have hlt := ack_held_lt hr hheld
  obtain ⟨hrecv, _, hp⟩ := ack_answer_recv (hinv_reach hr) hheld hs ha (by simp)
  have hr' : Reach cfg now seeds clients b' := .step hr hs
  have hrun' : b'.g.shutting = false := by
    rw [wtrans_shutting (workerAct_trans (ack_stepB_worker hs))]; exact hrun
  rcases ack_put_last_action hc hs hrecv with ⟨_, _, rfl⟩ | ⟨_, _, _, rfl⟩ | ⟨_, rfl⟩ | ⟨hw, _, rfl⟩ | ⟨e, hw, _⟩
  · rw [hh, ack_finishCmd_get hlt] at ha; cases ha
  · rw [hh, ack_rejectCmd_get hlt] at ha; cases ha
  · rw [hh, ack_rejectCmd_get hlt] at ha; cases ha
  · have hch := (ackInv_reach hr).putCharged hrun c hw
    have hab := wabsent_reach hr c (by rw [hw]; rfl)
    have heff : PutEffect (finishCmd { b with g := { b.g with
          store := b.g.store.set c.k { value := c.v, id := c.id, expiry := none, soft := false },
          stats := { b.g.stats with keysAdded := b.g.stats.keysAdded + 1 } } } c.h .accepted) c none :=
      ⟨by simp [finishCmd], by simpa [finishCmd] using hch, by intro e he; cases he⟩
    refine ⟨hw, hp, hab, hrecv, heff, ?_, ?_, rfl, rfl⟩
    · have := ack_total_includes (binv_reach hr') hrun' heff.charged
      have hpa : pendingAdd (finishCmd { b with g := { b.g with
          store := b.g.store.set c.k { value := c.v, id := c.id, expiry := none, soft := false },
          stats := { b.g.stats with keysAdded := b.g.stats.keysAdded + 1 } } } c.h .accepted) = 0 := rfl
      rw [hpa] at this
      simpa using this
    · intro k hk
      simp [finishCmd, AMap.get?_set_other _ _ (Ne.symm hk)]
  · obtain ⟨t, ht⟩ := (ackInv_reach hr).ttlPutTtl c e hw
    rw [httl] at ht; cases ht

/-- the id of a put the worker has not yet stored (positions `store.present` … `store.put`) is FRESH: not charged
    before `kw.insert`, carried by no store entry, in no index entry -/
theorem ack_fresh_unused {b : BState} (hb : BInv b) {f : Nat} (hf : b.w.freshId? = some f) :
    (∀ k e, b.g.store.get? k = some e → e.id ≠ f) ∧ (∀ sh, b.g.ttl.get? (sh, f) = none) := by
  have hocc : 0 < occ b f := by simp [occ, hf]
  have hnot : f ∉ usedIds b := fun hu => by
    have := (hb.freshIds.2.2.2.2.1 f hu).1
    omega
  rw [mem_usedIds] at hnot
  simp only [not_or, not_exists, not_and] at hnot
  constructor
  · intro k e hk hid
    exact hnot.1 (k, e) (AMap.mem_of_get? hk) hid
  · intro sh
    cases hg : b.g.ttl.get? (sh, f) with
    | none => rfl
    | some e => exact absurd rfl (hnot.2.1 ((sh, f), e) (AMap.mem_of_get? hg))

/-- **C12 (put, rejected): nothing of the command is in place when the acknowledgement is answered with a rejection.**
    `b` any reachable state in which the worker is executing the put `c` with handle `h`; the worker's action `b → b'`
    answers the cell `h` with `Rejected(r)`.  Then this action changes NOTHING but the cell and the rejection counter
    (store, ledger, total, index: as in `b`); in `b'` the command's id is not charged, no store entry carries it, no index
    entry carries it; and, by reason:
    * `KeyAlreadyExists`: the action is the re-check `store.present`, and the key IS present in `b` (under another id);
    * `TooHeavy`: the action is the re-check, the key is absent, the weight exceeds the cache's weight;
    * `NoSpace`: the action is a step of the eviction loop (`sample.init`, `sample.fill`, or the `wu.space` re-check when
      the sample ran dry, which found `max − used < w`), the key is absent.  Victims evicted EARLIER in the loop stay
      evicted (observation O5): `C12_layerB_put_before_insert_step` lists what the loop's actions change.
    A put is never answered `KeyDoesNotExist`. -/
theorem C12_layerB_put_rejected_no_effect {cfg : Cfg} {now : Nat} {seeds : List Nat} {clients : Nat} {b b' : BState}
    {o o' : Oracle} {c : PutCmd} {h : Nat} {r : Reject} (hr : Reach cfg now seeds clients b)
    (hc : b.w.cmd? = some c) (hh : c.h = some h) (hs : stepB b .worker o = .ok (b', o'))
    (ha : b'.g.acks[h]? = some (.rejected r)) :
    b.g.acks[h]? = some .pending ∧ b'.w = .recv ∧
    b'.g.store = b.g.store ∧ b'.g.adm = b.g.adm ∧ b'.g.ttl = b.g.ttl ∧
    b'.g.adm.kw.get? c.id = none ∧ (∀ k e, b'.g.store.get? k = some e → e.id ≠ c.id) ∧
    (∀ sh, b'.g.ttl.get? (sh, c.id) = none) ∧
    ((r = .keyAlreadyExists ∧ b.w = .present c ∧ b.g.store.contains c.k = true) ∨
     (r = .tooHeavy ∧ b.w = .present c ∧ b.g.store.get? c.k = none ∧ c.w > b.g.adm.max) ∨
     (r = .noSpace ∧ b.g.store.get? c.k = none ∧
       ((∃ space e, b.w = .sampleInit c space e) ∨ (∃ e s space, b.w = .fill c e s space) ∨
        (b.w = .emptySpace c ∧ b.g.adm.max - b.g.adm.used < c.w)))) := by
  have hheld : b.w.held = some h := by rw [(ack_held_of_cmd hc).1, hh]
  have hlt := ack_held_lt hr hheld
  have hb := binv_reach hr
  obtain ⟨hrecv, _, hp⟩ := ack_answer_recv (hinv_reach hr) hheld hs ha (by simp)
  have hfresh : ∀ {w : WPc}, b.w = w → w.pendId? = some c.id →
      b.g.adm.kw.get? c.id = none ∧ (∀ k e, b.g.store.get? k = some e → e.id ≠ c.id) ∧
      (∀ sh, b.g.ttl.get? (sh, c.id) = none) := by
    intro w hw hpend
    have h1 := hb.freshIds.2.2.2.1 c.id (by rw [hw]; exact hpend)
    have h2 := ack_fresh_unused hb (f := c.id) (by rw [hw]; cases w <;> simp_all [WPc.pendId?, WPc.freshId?])
    exact ⟨h1, h2⟩
  rcases ack_put_last_action hc hs hrecv with ⟨hw, hk, rfl⟩ | ⟨hw, hk, hm, rfl⟩ | ⟨hpos, rfl⟩ | ⟨hw, _, rfl⟩ |
    ⟨e, hw, hb'⟩
  · rw [hh, ack_finishCmd_get hlt] at ha
    simp only [Option.some.injEq, Status.rejected.injEq] at ha
    obtain ⟨f1, f2, f3⟩ := hfresh hw rfl
    exact ⟨hp, rfl, rfl, rfl, rfl, f1, f2, f3, Or.inl ⟨ha.symm, hw, hk⟩⟩
  · rw [hh, ack_rejectCmd_get hlt] at ha
    simp only [Option.some.injEq, Status.rejected.injEq] at ha
    obtain ⟨f1, f2, f3⟩ := hfresh hw rfl
    refine ⟨hp, rfl, rfl, rfl, rfl, f1, f2, f3, Or.inr (Or.inl ⟨ha.symm, hw, ?_, hm⟩)⟩
    simpa [AMap.contains] using hk
  · rw [hh, ack_rejectCmd_get hlt] at ha
    simp only [Option.some.injEq, Status.rejected.injEq] at ha
    have hab : b.g.store.get? c.k = none := by
      apply wabsent_reach hr c
      rcases hpos with ⟨_, _, hw⟩ | ⟨_, _, _, hw⟩ | ⟨hw, _⟩ <;> rw [hw] <;> rfl
    obtain ⟨f1, f2, f3⟩ : b.g.adm.kw.get? c.id = none ∧ (∀ k e, b.g.store.get? k = some e → e.id ≠ c.id) ∧
        (∀ sh, b.g.ttl.get? (sh, c.id) = none) := by
      rcases hpos with ⟨_, _, hw⟩ | ⟨_, _, _, hw⟩ | ⟨hw, _⟩ <;> exact hfresh hw rfl
    exact ⟨hp, rfl, rfl, rfl, rfl, f1, f2, f3, Or.inr (Or.inr ⟨ha.symm, hab, hpos⟩)⟩
  · rw [hh, ack_finishCmd_get (by simpa using hlt)] at ha; cases ha
  · rw [hb', hh, ack_finishCmd_get (by simpa [ttlPut] using hlt)] at ha; cases ha

/-- **What the worker's actions of a put change BEFORE `kw.insert`** (the re-check, the admission, the eviction loop —
    everything that can precede a rejection): the index never; the store and the ledger only by the three actions of an
    eviction — `kw.remove` of a victim (its charge leaves the ledger), `wu.sub` (the total drops by the victim's weight),
    `store.remove` (the victim's key leaves the store).  These are the changes a `NoSpace` rejection leaves behind
    (observation O5); a rejection at the re-check (`KeyAlreadyExists`, `TooHeavy`) is preceded by none. -/
theorem C12_layerB_put_before_insert_step {b b' : BState} {o o' : Oracle} {f : Nat} (hpend : b.w.pendId? = some f)
    (hni : ∀ c, b.w ≠ .insert c) (hs : stepB b .worker o = .ok (b', o')) :
    b'.g.ttl = b.g.ttl ∧
    ((b'.g.store = b.g.store ∧ b'.g.adm = b.g.adm) ∨
     (∃ c e s victim wk, b.w = .evRemove c e s victim ∧ b.g.adm.kw.get? victim.id = some wk ∧
        b'.g.store = b.g.store ∧ b'.g.adm = { b.g.adm with kw := b.g.adm.kw.del victim.id } ∧
        b'.w = .evSub c e s victim.id wk) ∨
     (∃ c e s id wk, b.w = .evSub c e s id wk ∧ b'.g.store = b.g.store ∧
        b'.g.adm = { b.g.adm with used := b.g.adm.used - wk.weight } ∧ b'.w = .evStore c e s id wk) ∨
     (∃ c e s id wk, b.w = .evStore c e s id wk ∧ b'.g.store = b.g.store.del wk.key ∧ b'.g.adm = b.g.adm)) := by
  have ht := workerAct_trans (ack_stepB_worker hs)
  cases ht
  case evRemoveSome c e s victim wk hw hg =>
    exact ⟨rfl, Or.inr (Or.inl ⟨c, e, s, victim, wk, hw, hg, rfl, rfl, rfl⟩)⟩
  case evSub c e s id wk hw _ => exact ⟨rfl, Or.inr (Or.inr (Or.inl ⟨c, e, s, id, wk, hw, rfl, rfl, rfl⟩))⟩
  case evStore c e s id wk hw _ =>
    exact ⟨by simp, Or.inr (Or.inr (Or.inr ⟨c, e, s, id, wk, hw, by simp [applyEvict_store], by simp⟩))⟩
  case insert c hw => exact absurd hw (hni c)
  all_goals first
    | exact ⟨rfl, Or.inl ⟨rfl, rfl⟩⟩
    | (rename_i hw; rw [hw] at hpend; cases hpend)
    | (rename_i hw _; rw [hw] at hpend; cases hpend)
    | (rename_i hw _ _; rw [hw] at hpend; cases hpend)

/-! ### stability: the effect of a put stays in place until an action is aimed at the key or the key id -/

/-- one action not aimed at `c.k` / `c.id` keeps the effect of the put in place (running cache) -/
theorem PutEffect.undisturbed_step {b b' : BState} {a : Act} {o o' : Oracle} {c : PutCmd} {exp : Option Nat}
    (hb : BInv b) (hwa : WAbsent b) (hrun : b.g.shutting = false) (he : PutEffect b c exp)
    (hs : stepB b a o = .ok (b', o')) (hd : disturbs c.k c.id b a = false) : PutEffect b' c exp := by
  obtain ⟨h1, h2, h3⟩ := disturbs_false hd
  refine ⟨C03_layerB_quiet_step hwa hs h1 he.stored, ?_, ?_⟩
  · rw [ack_kw_quiet_step hb hrun hs h2]; exact he.charged
  · intro e hx
    rw [stepB_cfg hs, ack_ttl_quiet_step hb hrun hs h3]
    exact he.indexed e hx

/-- **C12 (interface, put): once in place, the effect of a put stays in place** along every run — any interleaving of
    any threads — in which no action is aimed at the key (`Delete(k)`'s `store.remove`, an eviction or a sweep of a charge
    of `k`, `upsert.update` / `delete.mark` of `k`) or at the key id (`kw.remove` / `kw.update` / `kw.insert` of the id, an
    index action of the id), as long as the cache is running. -/
theorem PutEffect.undisturbed {cfg : Cfg} {now : Nat} {seeds : List Nat} {clients : Nat} {b b' : BState} {c : PutCmd}
    {exp : Option Nat} (hr : Reach cfg now seeds clients b) (hq : Undisturbed c.k c.id b b')
    (hrun : b'.g.shutting = false) (he : PutEffect b c exp) : PutEffect b' c exp := by
  induction hq with
  | refl => exact he
  | step hq1 hs hd ih =>
    have hrun1 := stepB_running_before hs hrun
    have hr1 := hq1.reach hr
    exact (ih hrun1).undisturbed_step (binv_reach hr1) (wabsent_reach hr1) hrun1 hs hd

theorem undisturbed_dead {k id : Nat} {b b' : BState} (hq : Undisturbed k id b b') (hd : b.w = .dead) : b'.w = .dead := by
  induction hq with
  | refl => exact hd
  | step _ hs _ ih => exact dead_step hs ih

/-- between `store.put` and `ttl.put` of the put under `id`: an undisturbed run leaves the worker where it is (its own
    next action, `ttl.put`, is aimed at `id`), keeps the stored entry and the charge -/
theorem ack_ttlPut_window {cfg : Cfg} {now : Nat} {seeds : List Nat} {clients : Nat} {b b' : BState} {c : PutCmd}
    {e : Nat} {ent : Entry} {wk : WKey} (hr : Reach cfg now seeds clients b) (hq : Undisturbed c.k c.id b b')
    (hrun : b'.g.shutting = false) (hw : b.w = .ttlPut c e) (hst : b.g.store.get? c.k = some ent)
    (hch : b.g.adm.kw.get? c.id = some wk) :
    b'.w = .ttlPut c e ∧ b'.g.store.get? c.k = some ent ∧ b'.g.adm.kw.get? c.id = some wk := by
  induction hq with
  | refl => exact ⟨hw, hst, hch⟩
  | @step b1 b2 a o o' hq1 hs hd ih =>
    have hrun1 := stepB_running_before hs hrun
    have hr1 := hq1.reach hr
    obtain ⟨i1, i2, i3⟩ := ih hrun1
    obtain ⟨h1, h2, h3⟩ := disturbs_false hd
    have ha : a ≠ .worker := by
      intro e'; subst e'
      simp [ttlTouches, i1] at h3
    refine ⟨by rw [ent_stepB_w_other hs ha]; exact i1, C03_layerB_quiet_step (wabsent_reach hr1) hs h1 i2, ?_⟩
    rw [ack_kw_quiet_step (binv_reach hr1) hrun1 hs h2]; exact i3

theorem ack_addTime {now t e : Nat} (h : addTime now t = some e) : e = now + t := by
  unfold addTime at h
  split at h
  · cases h; rfl
  · cases h

/-- **C12 (put with time-to-live), what holds UNCONDITIONALLY when the acknowledgement is answered `Accepted`.**
    The answering action is `ttl.put` (a separate action AFTER `store.put`).  In `b'`: the index holds
    `(shard of e, id) ↦ e` for the deadline `e` the worker wrote at `store.put`; the action changes neither the store
    nor the ledger; the entry stored under `c.k` — IF ANY — still carries the id `c.id`; the charge of `c.id` — IF ANY —
    is the command's.
    The full effect (`PutEffect b' c (some e)`) is NOT guaranteed: between `store.put` and `ttl.put` the entry is
    already visible and other threads may act on it (`C12_layerB_put_ttl_effect_before_ack_counterexample`); it holds
    when none does (`C12_layerB_put_ttl_effect_before_ack`). -/
theorem C12_layerB_put_ttl_effect_before_ack_partial {cfg : Cfg} {now : Nat} {seeds : List Nat} {clients : Nat}
    {b b' : BState} {o o' : Oracle} {c : PutCmd} {h t : Nat} (hr : Reach cfg now seeds clients b)
    (hrun : b.g.shutting = false) (hc : b.w.cmd? = some c) (hh : c.h = some h) (httl : c.ttl = some t)
    (hs : stepB b .worker o = .ok (b', o')) (ha : b'.g.acks[h]? = some .accepted) :
    ∃ e, b.w = .ttlPut c e ∧ b.g.acks[h]? = some .pending ∧ b'.w = .recv ∧
      b'.g.ttl.get? (shardOf b'.g.cfg e, c.id) = some e ∧
      (∀ p, p ≠ (shardOf b'.g.cfg e, c.id) → b'.g.ttl.get? p = b.g.ttl.get? p) ∧
      b'.g.store = b.g.store ∧ b'.g.adm = b.g.adm ∧
      (∀ ent, b'.g.store.get? c.k = some ent → ent.id = c.id) ∧
      (∀ wk, b'.g.adm.kw.get? c.id = some wk → wk = { key := c.k, hash := c.hash, weight := c.w }) := by
  have hheld : b.w.held = some h := by rw [(ack_held_of_cmd hc).1, hh]
  have hlt := ack_held_lt hr hheld
  obtain ⟨hrecv, _, hp⟩ := ack_answer_recv (hinv_reach hr) hheld hs ha (by simp)
  rcases ack_put_last_action hc hs hrecv with ⟨_, _, rfl⟩ | ⟨_, _, _, rfl⟩ | ⟨_, rfl⟩ | ⟨_, hn, _⟩ | ⟨e, hw, rfl⟩
  · rw [hh, ack_finishCmd_get hlt] at ha; cases ha
  · rw [hh, ack_rejectCmd_get hlt] at ha; cases ha
  · rw [hh, ack_rejectCmd_get hlt] at ha; cases ha
  · rw [httl] at hn; cases hn
  · have hi := ackInv_reach hr
    refine ⟨e, hw, hp, rfl, by simp [finishCmd, ttlPut], ?_, rfl, rfl, hi.ttlPutStore c e hw, hi.ttlPutCharge hrun c e hw⟩
    intro p hne
    simp only [finishCmd, ttlPut] at hne ⊢
    exact AMap.get?_set_other _ _ (Ne.symm hne)

/-- **C12 (put with time-to-live): the effect is in place when the acknowledgement is answered `Accepted` — provided no
    action is aimed at the key or the key id between `store.put` and `ttl.put`.**
    `b0` reachable, the worker at `store.put` of the put `c` (time-to-live `t`, handle `h`); `b0 → b1` is that action;
    `b1 ⇒ b` any run of any threads not aimed at `c.k` / `c.id` (`Undisturbed`); `b → b'` the worker's next action; the
    cache is running.  Then: the key was absent in `b0`; the deadline written is `e = (clock of the store.put action) + t`;
    the worker stands at `ttl.put` all along; `b → b'` answers the cell `h` with `Accepted`; and in `b'` the store holds
    exactly `(v, id, some e, not soft-deleted)` under `k`, the id is charged with `w` for `k`, the index holds
    `(shard of e, id) ↦ e`, and the total includes `w`. -/
theorem C12_layerB_put_ttl_effect_before_ack {cfg : Cfg} {now : Nat} {seeds : List Nat} {clients : Nat}
    {b0 b1 b b' : BState} {o0 o1 o o' : Oracle} {c : PutCmd} {h t : Nat} (hr : Reach cfg now seeds clients b0)
    (hw0 : b0.w = .storePut c) (hh : c.h = some h) (httl : c.ttl = some t)
    (hs0 : stepB b0 .worker o0 = .ok (b1, o1)) (hq : Undisturbed c.k c.id b1 b)
    (hs : stepB b .worker o = .ok (b', o')) (hrun : b'.g.shutting = false) :
    b0.g.store.get? c.k = none ∧ b1.w = .ttlPut c (b0.g.now + t) ∧ b.w = .ttlPut c (b0.g.now + t) ∧
    b.g.acks[h]? = some .pending ∧ b'.g.acks[h]? = some .accepted ∧ b'.w = .recv ∧
    PutEffect b' c (some (b0.g.now + t)) ∧
    b'.g.adm.used = c.w + sumW (b'.g.adm.kw.del c.id) + pendingSub b' := by
  have hr1 : Reach cfg now seeds clients b1 := .step hr hs0
  have hrb := hq.reach hr1
  have hrunb := stepB_running_before hs hrun
  have hrun1 := hq.running hrunb
  have hrun0 := stepB_running_before hs0 hrun1
  have hab := wabsent_reach hr c (by rw [hw0]; rfl)
  obtain ⟨_, _, ⟨hn, _⟩ | ⟨t', _, _, rfl⟩ | ⟨t', e, ht', hat, rfl⟩⟩ := ent_workerAct_storePut hw0 (ack_stepB_worker hs0)
  · rw [httl] at hn; cases hn
  · have hd := undisturbed_dead hq rfl
    simp [stepB, workerAct, hd] at hs
  · rw [httl] at ht'; cases ht'
    have he := ack_addTime hat
    subst he
    have hch0 := (ackInv_reach hr).putCharged hrun0 c hw0
    obtain ⟨hwb, hstb, hchb⟩ := ack_ttlPut_window (c := c) (e := b0.g.now + t)
      (ent := { value := c.v, id := c.id, expiry := some (b0.g.now + t), soft := false })
      (wk := { key := c.k, hash := c.hash, weight := c.w }) hr1 hq hrunb rfl
      (by simp) (by simpa using hch0)
    have hheld : b.w.held = some h := by rw [hwb]; exact hh
    have hlt := ack_held_lt hrb hheld
    obtain ⟨_, _, rfl⟩ := ack_workerAct_ttlPut hwb (ack_stepB_worker hs)
    have hr' : Reach cfg now seeds clients _ := .step hrb hs
    have heff : PutEffect (finishCmd { b with g := ttlPut b.g c.id (b0.g.now + t) } c.h .accepted) c
        (some (b0.g.now + t)) := by
      refine ⟨by simpa [finishCmd, ttlPut] using hstb, by simpa [finishCmd, ttlPut] using hchb, ?_⟩
      intro e he
      cases he
      simp [finishCmd, ttlPut]
    refine ⟨hab, rfl, hwb, ((hinv_reach hrb).held h hheld).1, ?_, rfl, heff, ?_⟩
    · rw [hh]; exact ack_finishCmd_get (by simpa [ttlPut] using hlt)
    · have := ack_total_includes (binv_reach hr') hrun heff.charged
      have hpa : pendingAdd (finishCmd { b with g := ttlPut b.g c.id (b0.g.now + t) } c.h .accepted) = 0 := rfl
      rw [hpa] at this
      simpa using this

/-! ## 3  `delete`: the entry is gone and its weight no longer counted when the acknowledgement is answered -/

/-- the worker stays inside ONE command: a run of any threads every action of which leaves the worker busy (it does not
    complete the command it is executing, and does not die) -/
inductive InCmd : BState → BState → Prop where
  | refl (b : BState) : InCmd b b
  | step {b b1 b' : BState} {a : Act} {o o' : Oracle} :
      InCmd b b1 → stepB b1 a o = .ok (b', o') → b'.w.busy = true → InCmd b b'

theorem InCmd.reach {cfg : Cfg} {now : Nat} {seeds : List Nat} {clients : Nat} {b b' : BState}
    (h : InCmd b b') (hr : Reach cfg now seeds clients b) : Reach cfg now seeds clients b' := by
  induction h with
  | refl => exact hr
  | step _ hs _ ih => exact .step ih hs

theorem InCmd.running {b b' : BState} (h : InCmd b b') (hrun : b'.g.shutting = false) : b.g.shutting = false := by
  induction h with
  | refl => exact hrun
  | step _ hs _ ih => exact ih (stepB_running_before hs hrun)

/-- an answer stays along the run -/
theorem InCmd.answered {cfg : Cfg} {now : Nat} {seeds : List Nat} {clients : Nat} {b b' : BState} {h : Nat} {st : Status}
    (hq : InCmd b b') (hr : Reach cfg now seeds clients b) (ha : b.g.acks[h]? = some st) (hne : st ≠ .pending) :
    b'.g.acks[h]? = some st := by
  induction hq with
  | refl => exact ha
  | step hq1 hs _ ih => exact (C11_layerB_acks_grow (hinv_reach (hq1.reach hr)) hs).2 h st ih hne

/-- where the worker stands inside a `Delete(k)` after its `store.remove` took the entry `ent` out: at `kw.remove`, or
    — the charge of `ent.id` gone — at `wu.sub` / `ttl.delete`; the key is absent -/
def DelPos (k : Nat) (ent : Entry) (hh : Option Nat) (b : BState) : Prop :=
  b.g.store.get? k = none ∧
  (b.w = .delKw ent.id ent.expiry hh ∨
   (((∃ wk, b.w = .delSub ent.id wk ent.expiry hh) ∨ (∃ e, ent.expiry = some e ∧ b.w = .delTtl ent.id e hh)) ∧
     b.g.adm.kw.get? ent.id = none))

theorem delPos_step {b b' : BState} {a : Act} {o o' : Oracle} {k : Nat} {ent : Entry} {hh : Option Nat} (hb : BInv b)
    (hrun : b.g.shutting = false) (hp : DelPos k ent hh b) (hs : stepB b a o = .ok (b', o'))
    (hbusy : b'.w.busy = true) : DelPos k ent hh b' := by
  obtain ⟨hk, hpos⟩ := hp
  by_cases ha : a = .worker
  · subst ha
    have hwa := ack_stepB_worker hs
    rcases hpos with hw | ⟨⟨wk, hw⟩ | ⟨e, hexp, hw⟩, hkw⟩
    · obtain ⟨_, ⟨wk, hg, rfl⟩ | ⟨e, hg, hexp, rfl⟩ | ⟨_, _, rfl⟩⟩ := ack_workerAct_delKw hw hwa
      · exact ⟨hk, Or.inr ⟨Or.inl ⟨wk, rfl⟩, by simp⟩⟩
      · exact ⟨hk, Or.inr ⟨Or.inr ⟨e, hexp, rfl⟩, hg⟩⟩
      · cases hbusy
    · obtain ⟨_, _, ⟨e, hexp, rfl⟩ | ⟨_, rfl⟩⟩ := ack_workerAct_delSub hw hwa
      · exact ⟨hk, Or.inr ⟨Or.inr ⟨e, hexp, rfl⟩, hkw⟩⟩
      · cases hbusy
    · obtain ⟨_, _, rfl⟩ := ack_workerAct_delTtl hw hwa
      cases hbusy
  · have hw := ent_stepB_w_other hs ha
    refine ⟨(stepB_storeEff hs).noCreate (fun e => absurd e ha) hk, ?_⟩
    rw [hw]
    rcases hpos with hw0 | ⟨hpos, hkw⟩
    · exact Or.inl hw0
    · refine Or.inr ⟨hpos, ?_⟩
      cases hg : b'.g.adm.kw.get? ent.id with
      | none => rfl
      | some wk => rw [ack_kw_no_new hb hrun hs ha hg] at hkw; cases hkw

theorem delPos_run {cfg : Cfg} {now : Nat} {seeds : List Nat} {clients : Nat} {b b' : BState} {k : Nat} {ent : Entry}
    {hh : Option Nat} (hr : Reach cfg now seeds clients b) (hq : InCmd b b') (hrun : b'.g.shutting = false)
    (hp : DelPos k ent hh b) : DelPos k ent hh b' := by
  induction hq with
  | refl => exact hp
  | step hq1 hs hbusy ih =>
    have hrun1 := stepB_running_before hs hrun
    exact delPos_step (binv_reach (hq1.reach hr)) hrun1 (ih hrun1) hs hbusy

/-- **C04 (delete): the effect is in place when the acknowledgement is answered `Accepted`.**
    `b0` reachable, the worker at `store.remove` of `Delete(k)` with handle `h` (the first action of the command after
    its take); `b0 → b1` is that action; `b1 ⇒ b` any run of any threads during which the worker stays inside the command
    (`InCmd`); `b → b'` the worker's action that answers the cell `h` with `Accepted`; the cache is running.  Then
    `b0` held an entry `ent` under `k`, and in `b'`:
    * the key is ABSENT from the store (only the worker creates entries, and it has been busy with this `Delete`);
    * the id `ent.id` the entry carried is NOT CHARGED;
    * the accounting identity holds with nothing of the worker in flight: `used = Σ charged weights + (the sweeper's
      in-flight subtraction)` — `ent.id` is not among the charges, so its weight is no longer counted
      (the worker's own `wu.sub` of this command lowered `used` by exactly the charge its `kw.remove` found:
      `ack_workerAct_delKw`, `ack_workerAct_delSub`);
    * the index entry `(shard of e, ent.id)` for the STORED deadline `e` of the removed entry is gone
      (if the stored deadline was out of step with the index — a `put_or_update` in flight — an entry for `ent.id` may
      remain in another shard: C10, `IndexStep.lean`). -/
theorem C04_layerB_delete_effect_before_ack {cfg : Cfg} {now : Nat} {seeds : List Nat} {clients : Nat}
    {b0 b1 b b' : BState} {o0 o1 o o' : Oracle} {k h : Nat} (hr : Reach cfg now seeds clients b0)
    (hw0 : b0.w = .delStore k (some h)) (hs0 : stepB b0 .worker o0 = .ok (b1, o1)) (hq : InCmd b1 b)
    (hs : stepB b .worker o = .ok (b', o')) (hrun : b'.g.shutting = false) (ha : b'.g.acks[h]? = some .accepted) :
    ∃ ent, b0.g.store.get? k = some ent ∧ b.g.acks[h]? = some .pending ∧ b'.w = .recv ∧
      b'.g.store.get? k = none ∧ b'.g.adm.kw.get? ent.id = none ∧
      b'.g.adm.used = sumW b'.g.adm.kw + pendingSub b' ∧
      (∀ e, ent.expiry = some e → b'.g.ttl.get? (shardOf b'.g.cfg e, ent.id) = none) := by
  have hr1 : Reach cfg now seeds clients b1 := .step hr hs0
  have hrb := hq.reach hr1
  have hr' : Reach cfg now seeds clients b' := .step hrb hs
  have hrunb := stepB_running_before hs hrun
  have hlt0 := ack_held_lt hr (h := h) (by rw [hw0]; rfl)
  obtain ⟨_, _, ⟨_, rfl⟩ | ⟨ent, hent, rfl⟩⟩ := ent_workerAct_delStore hw0 (ack_stepB_worker hs0)
  · -- rejected on the spot: the cell holds `KeyDoesNotExist` for ever
    have h1 := hq.answered hr1 (ack_finishCmd_get (st := .rejected .keyDoesNotExist) hlt0) (by simp)
    have h2 := (C11_layerB_acks_grow (hinv_reach hrb) hs).2 h _ h1 (by simp)
    rw [h2] at ha; cases ha
  · have hp : DelPos k ent (some h) b := delPos_run hr1 hq hrunb ⟨by simp, Or.inl rfl⟩
    obtain ⟨hk, hpos⟩ := hp
    have hheld : b.w.held = some h := by
      rcases hpos with hw | ⟨⟨wk, hw⟩ | ⟨e, _, hw⟩, _⟩ <;> rw [hw] <;> rfl
    have hlt := ack_held_lt hrb hheld
    obtain ⟨hrecv, _, hpend⟩ := ack_answer_recv (hinv_reach hrb) hheld hs ha (by simp)
    have hsum : b'.g.adm.used = sumW b'.g.adm.kw + pendingSub b' := by
      have := ((binv_reach hr').acct hrun).sum
      have hpa : pendingAdd b' = 0 := by simp [pendingAdd, hrecv]
      omega
    have hwa := ack_stepB_worker hs
    refine ⟨ent, hent, hpend, hrecv, ?_, ?_, hsum, ?_⟩
    · rcases hpos with hw | ⟨⟨wk, hw⟩ | ⟨e, _, hw⟩, _⟩
      · obtain ⟨_, ⟨wk, _, rfl⟩ | ⟨e, _, _, rfl⟩ | ⟨_, _, rfl⟩⟩ := ack_workerAct_delKw hw hwa <;> exact hk
      · obtain ⟨_, _, ⟨e, _, rfl⟩ | ⟨_, rfl⟩⟩ := ack_workerAct_delSub hw hwa <;> exact hk
      · obtain ⟨_, _, rfl⟩ := ack_workerAct_delTtl hw hwa; exact hk
    · rcases hpos with hw | ⟨⟨wk, hw⟩ | ⟨e, _, hw⟩, hkw⟩
      · obtain ⟨_, ⟨wk, _, rfl⟩ | ⟨e, _, _, rfl⟩ | ⟨hg, _, rfl⟩⟩ := ack_workerAct_delKw hw hwa
        · cases hrecv
        · cases hrecv
        · exact hg
      · obtain ⟨_, _, ⟨e, _, rfl⟩ | ⟨_, rfl⟩⟩ := ack_workerAct_delSub hw hwa <;> exact hkw
      · obtain ⟨_, _, rfl⟩ := ack_workerAct_delTtl hw hwa; exact hkw
    · intro e hexp
      rcases hpos with hw | ⟨⟨wk, hw⟩ | ⟨e', hexp', hw⟩, hkw⟩
      · obtain ⟨_, ⟨wk, _, rfl⟩ | ⟨e1, _, _, rfl⟩ | ⟨_, hn, rfl⟩⟩ := ack_workerAct_delKw hw hwa
        · cases hrecv
        · cases hrecv
        · rw [hexp] at hn; cases hn
      · obtain ⟨_, _, ⟨e1, _, rfl⟩ | ⟨hn, rfl⟩⟩ := ack_workerAct_delSub hw hwa
        · cases hrecv
        · rw [hexp] at hn; cases hn
      · obtain ⟨_, _, rfl⟩ := ack_workerAct_delTtl hw hwa
        rw [hexp] at hexp'; cases hexp'
        simp [finishCmd, ttlDelete]

/-- **C04 (delete, rejected): `Rejected(KeyDoesNotExist)` means the store held no entry of the key when the worker looked,
    and nothing changed.**  The only rejection a `Delete` is answered with; it is answered in the command's first action
    (`store.remove`), which leaves store, ledger, total, index and statistics exactly as they were. -/
theorem C04_layerB_delete_rejected_no_effect {cfg : Cfg} {now : Nat} {seeds : List Nat} {clients : Nat} {b b' : BState}
    {o o' : Oracle} {k h : Nat} {r : Reject} (hr : Reach cfg now seeds clients b) (hw : b.w = .delStore k (some h))
    (hs : stepB b .worker o = .ok (b', o')) (ha : b'.g.acks[h]? = some (.rejected r)) :
    r = .keyDoesNotExist ∧ b.g.store.get? k = none ∧ b.g.acks[h]? = some .pending ∧
    b' = finishCmd b (some h) (.rejected .keyDoesNotExist) ∧
    b'.g.store = b.g.store ∧ b'.g.adm = b.g.adm ∧ b'.g.ttl = b.g.ttl ∧ b'.g.stats = b.g.stats := by
  have hheld : b.w.held = some h := by rw [hw]; rfl
  have hlt := ack_held_lt hr hheld
  have hpend := ((hinv_reach hr).held h hheld).1
  obtain ⟨_, _, ⟨hk, rfl⟩ | ⟨ent, _, rfl⟩⟩ := ent_workerAct_delStore hw (ack_stepB_worker hs)
  · rw [ack_finishCmd_get hlt] at ha
    simp only [Option.some.injEq, Status.rejected.injEq] at ha
    exact ⟨ha.symm, hk, hpend, rfl, rfl, rfl, rfl, rfl⟩
  · simp only [] at ha
    rw [hpend] at ha; cases ha

/-- **C04: the key can be put again.**  In a state in which the key is absent (in particular the state in which a
    `Delete` is answered `Accepted`, `C04_layerB_delete_effect_before_ack`) neither presence check refuses a put of it:
    the caller's check moves on to `id.next`, the worker's re-check moves on to the admission (or refuses the put as too
    heavy) — the put is taken in or rejected by ADMISSION alone. -/
theorem C04_layerB_put_again_not_refused {b : BState} {k : Nat} (hk : b.g.store.get? k = none) :
    (∀ {i v : Nat} {w : Int} {ttl : Option Nat} {o o' : Oracle} {b' : BState},
      b.cl[i]? = some (.putPresent k v w ttl) → stepB b (.client i) o = .ok (b', o') →
      b' = setClient b i (.idNext k v w ttl)) ∧
    (∀ {c : PutCmd} {o o' : Oracle} {b' : BState}, b.w = .present c → c.k = k → stepB b .worker o = .ok (b', o') →
      b' = { b with w := .space0 c } ∨ (c.w > b.g.adm.max ∧ b' = rejectCmd b c.h (.rejected .tooHeavy))) := by
  constructor
  · intro i v w ttl o o' b' hpc hs
    exact C07_layerB_absent_not_refused.1 hpc hk hs
  · intro c o o' b' hw hck hs
    exact C07_layerB_absent_not_refused.2 hw (by rw [hck]; exact hk) hs

/-- inside one command the worker keeps the put it took -/
theorem ack_cmd_inCmd {b1 b : BState} {c : PutCmd} (hq : InCmd b1 b) (hc : b1.w.cmd? = some c) : b.w.cmd? = some c := by
  induction hq with
  | refl => exact hc
  | @step b2 b3 a o o' _ hs hbusy ih =>
    by_cases ha : a = .worker
    · subst ha
      rcases ack_cmd_next (workerAct_trans (ack_stepB_worker hs)) ih with h1 | h1 | h1
      · exact h1
      · rw [h1] at hbusy; cases hbusy
      · rw [h1] at hbusy; cases hbusy
    · rw [ent_stepB_w_other hs ha]; exact ih

/-- **C12 (put), from the take** — the form of `C04_layerB_delete_effect_before_ack`: the worker has just taken the put
    `c` (no time-to-live, handle `h`: it stands at `store.present`, `WTrans.recvPut`); `b1 ⇒ b` any run of any threads
    during which the worker stays inside the command; `b → b'` the worker's action that answers the cell `h` with
    `Accepted`; running cache.  Then the effect of the put is in place in `b'`. -/
theorem C12_layerB_put_effect_from_take {cfg : Cfg} {now : Nat} {seeds : List Nat} {clients : Nat} {b1 b b' : BState}
    {o o' : Oracle} {c : PutCmd} {h : Nat} (hr : Reach cfg now seeds clients b1) (hw : b1.w = .present c)
    (hh : c.h = some h) (httl : c.ttl = none) (hq : InCmd b1 b) (hs : stepB b .worker o = .ok (b', o'))
    (hrun : b'.g.shutting = false) (ha : b'.g.acks[h]? = some .accepted) :
    b.w = .storePut c ∧ b.g.store.get? c.k = none ∧ PutEffect b' c none :=
  have h := C12_layerB_put_effect_before_ack (hq.reach hr) (stepB_running_before hs hrun)
    (ack_cmd_inCmd hq (by rw [hw]; rfl)) hh httl hs ha
  ⟨h.1, h.2.2.1, h.2.2.2.2.1⟩

/-! ## 4  `UpdateWeight`: the charge is the new weight when the acknowledgement is answered — or the id was not charged -/

/-- **C08 (`UpdateWeight(id, w)`, sent by `put_or_update`): what holds when its acknowledgement is answered.**
    The command is ONE worker action (`kw.update`).  If it answers the cell at all (it may panic on an `i64` overflow
    instead: D-finding of C17), the answer is `Accepted`, and
    * EITHER the id was charged (`wk`): in `b'` it is charged with exactly `w` (key and hash unchanged), the total
      changed by `w − wk.weight`, no other charge changed;
    * OR the id was NOT charged when the worker looked (its entry was deleted, evicted or swept in the meantime):
      NOTHING changed — an `Accepted` no-op.  This is part of the known observations O6 / D14: `Accepted` does not say
      that the weight was applied.
    Store and index are untouched either way. -/
theorem C08_layerB_update_weight_effect_before_ack {cfg : Cfg} {now : Nat} {seeds : List Nat} {clients : Nat}
    {b b' : BState} {o o' : Oracle} {id h : Nat} {w : Int} {st : Status} (hr : Reach cfg now seeds clients b)
    (hw : b.w = .update id w (some h)) (hs : stepB b .worker o = .ok (b', o')) (ha : b'.g.acks[h]? = some st)
    (hne : st ≠ .pending) :
    st = .accepted ∧ b.g.acks[h]? = some .pending ∧ b'.w = .recv ∧ b'.g.store = b.g.store ∧ b'.g.ttl = b.g.ttl ∧
    ((∃ wk, b.g.adm.kw.get? id = some wk ∧ b'.g.adm.kw.get? id = some { wk with weight := w } ∧
        b'.g.adm.used = b.g.adm.used + (w - wk.weight) ∧
        (∀ id', id' ≠ id → b'.g.adm.kw.get? id' = b.g.adm.kw.get? id')) ∨
     (b.g.adm.kw.get? id = none ∧ b'.g.adm = b.g.adm ∧ b'.g.stats = b.g.stats)) := by
  have hheld : b.w.held = some h := by rw [hw]; rfl
  have hlt := ack_held_lt hr hheld
  have hpend := ((hinv_reach hr).held h hheld).1
  obtain ⟨_, _, ⟨hg, rfl⟩ | ⟨wk, hg, _, _, rfl⟩ | ⟨wk, _, _, rfl⟩⟩ := ack_workerAct_update hw (ack_stepB_worker hs)
  · rw [ack_finishCmd_get hlt] at ha
    simp only [Option.some.injEq] at ha
    exact ⟨ha.symm, hpend, rfl, rfl, rfl, Or.inr ⟨hg, rfl, rfl⟩⟩
  · rw [ack_finishCmd_get (by simpa using hlt)] at ha
    simp only [Option.some.injEq] at ha
    refine ⟨ha.symm, hpend, rfl, rfl, rfl, Or.inl ⟨wk, hg, by simp [finishCmd], rfl, ?_⟩⟩
    intro id' hid
    simp [finishCmd, AMap.get?_set_other _ _ (Ne.symm hid)]
  · simp only [] at ha
    rw [hpend] at ha
    simp only [Option.some.injEq] at ha
    exact absurd ha.symm hne

/-! ## 5  stability of the other effects, and the composition with the acknowledgement slice `AckB` -/

/-- **C04 (interface, delete): a key that is absent stays absent until the worker's `store.put` of a put of that key** —
    whatever else happens (any state, any thread). -/
theorem C04_layerB_absent_stays {b b' : BState} {a : Act} {o o' : Oracle} {k : Nat} (hs : stepB b a o = .ok (b', o'))
    (hc : creates k b a = false) (hk : b.g.store.get? k = none) : b'.g.store.get? k = none := by
  cases hk' : b'.g.store.get? k with
  | none => rfl
  | some e' =>
    obtain ⟨rfl, c, exp, hw, hck, _, _⟩ := C07_layerB_only_worker_creates hs hk hk'
    simp [creates, hw, hck] at hc

/-- **C04: an absent key is charged under no id** (running cache, the worker between two commands): the ledger holds no
    charge for the key — its weight is not counted. -/
theorem C04_layerB_absent_key_uncharged {cfg : Cfg} {now : Nat} {seeds : List Nat} {clients : Nat} {b : BState}
    (hr : Reach cfg now seeds clients b) (hrun : b.g.shutting = false) (hw : b.w = .recv) {k : Nat}
    (hk : b.g.store.get? k = none) : ∀ id wk, b.g.adm.kw.get? id = some wk → wk.key ≠ k := by
  intro id wk hg hkey
  rcases (bbij_reach hr hrun).chargedHeld (by rw [hw]; simp) id wk hg with ⟨e, he, _⟩ | ⟨c, hc, _⟩ | hd
  · rw [hkey, hk] at he; cases he
  · rw [hw] at hc; cases hc
  · rw [hw] at hd; cases hd

/-- **C08 (interface, `UpdateWeight`): the charge of an id stays what it is until an action reaches into the ledger at
    that id** (running cache). -/
theorem C08_layerB_charge_stays {cfg : Cfg} {now : Nat} {seeds : List Nat} {clients : Nat} {b b' : BState} {a : Act}
    {o o' : Oracle} {id : Nat} (hr : Reach cfg now seeds clients b) (hrun : b.g.shutting = false)
    (hs : stepB b a o = .ok (b', o')) (hq : kwTouches id b a = false) :
    b'.g.adm.kw.get? id = b.g.adm.kw.get? id :=
  ack_kw_quiet_step (binv_reach hr) hrun hs hq

/-- every action either leaves the cell `h` alone or is the worker's action that answers it -/
theorem C12_layerB_layer_or_answer {cfg : Cfg} {now : Nat} {seeds : List Nat} {clients : Nat} {b b' : BState} {a : Act}
    {o o' : Oracle} {h : Nat} {x : Status} (hr : Reach cfg now seeds clients b) (hs : stepB b a o = .ok (b', o'))
    (hx : b.g.acks[h]? = some x) :
    b'.g.acks[h]? = b.g.acks[h]? ∨
    (a = .worker ∧ x = .pending ∧ ∃ st, st ≠ .pending ∧ b'.g.acks[h]? = some st) := by
  by_cases hpen : x = .pending
  · subst hpen
    have hlen := (C11_layerB_acks_grow (hinv_reach hr) hs).1
    have hlt := lt_of_getElem?_some hx
    have hsome : ∃ st, b'.g.acks[h]? = some st := ⟨b'.g.acks[h]'(by omega), by simp [show h < b'.g.acks.length by omega]⟩
    obtain ⟨st, hst⟩ := hsome
    by_cases hp' : st = .pending
    · left; rw [hst, hx, hp']
    · right
      exact ⟨C11_layerB_only_worker_answers hs hx hst hp', rfl, st, hp', hst⟩
  · left
    rw [(C11_layerB_acks_grow (hinv_reach hr) hs).2 h x hx hpen, hx]

/-- **The composed system**: Layer B together with the slice `AckB` of the cell of ONE handle `h`.
    * `layer`: an action of Layer B that leaves the cell `h` alone; the slice stands still;
    * `answer`: the worker's action that answers the cell `h` with `st` — `finishCmd … st`, the last action of the
      command — IS the completer's first access `setStatus` of the slice, and the slice's free parameter `final` is the
      status `finishCmd` passes (`s.final = st`);
    * `cell`: the completer's remaining accesses (`setFlag`, `wake`) and every access of every poller; Layer B stands
      still.
    `D b a` marks the Layer B actions the run is NOT allowed to contain (instantiated below with "aimed at the key / the
    key id once the effect is in place"). -/
inductive AckRun (h : Nat) (D : BState → Act → Bool) : BState × AckB.St → BState × AckB.St → Prop where
  | refl (x : BState × AckB.St) : AckRun h D x x
  | layer {x : BState × AckB.St} {b b' : BState} {s : AckB.St} {a : Act} {o o' : Oracle} :
      AckRun h D x (b, s) → stepB b a o = .ok (b', o') → D b a = false → b'.g.acks[h]? = b.g.acks[h]? →
      AckRun h D x (b', s)
  | answer {x : BState × AckB.St} {b b' : BState} {s s' : AckB.St} {o o' : Oracle} {st : Status} :
      AckRun h D x (b, s) → stepB b .worker o = .ok (b', o') → D b .worker = false →
      b.g.acks[h]? = some .pending → b'.g.acks[h]? = some st → st ≠ .pending → s.final = st →
      AckB.step s .setStatus = some s' → AckRun h D x (b', s')
  | cell {x : BState × AckB.St} {b : BState} {s s' : AckB.St} {act : AckB.Act} :
      AckRun h D x (b, s) → act ≠ .setStatus → AckB.step s act = some s' → AckRun h D x (b, s')

/-- what the composition needs from Layer B, for a handle `h`, an in-command invariant `I`, an effect `E` and the
    excluded actions `D`: while the cell is pending an allowed action keeps `I` or answers the cell, and an `Accepted`
    answer establishes `E`; once established, `E` is kept by every allowed action (running cache) -/
structure AckLink (cfg : Cfg) (now : Nat) (seeds : List Nat) (clients : Nat) (h : Nat) (D : BState → Act → Bool)
    (I E : BState → Prop) : Prop where
  inCmd : ∀ {b b' : BState} {a : Act} {o o' : Oracle}, Reach cfg now seeds clients b → b'.g.shutting = false → I b →
    b.g.acks[h]? = some .pending → stepB b a o = .ok (b', o') → D b a = false →
    (b'.g.acks[h]? = some .pending → I b') ∧ (b'.g.acks[h]? = some .accepted → E b')
  after : ∀ {b b' : BState} {a : Act} {o o' : Oracle}, Reach cfg now seeds clients b → b'.g.shutting = false → E b →
    b.g.acks[h]? = some .accepted → stepB b a o = .ok (b', o') → D b a = false → E b'

/-- the invariant of the composed run -/
def AckJ (cfg : Cfg) (now : Nat) (seeds : List Nat) (clients : Nat) (h : Nat) (I E : BState → Prop) (final : Status)
    (n : Nat) (y : BState × AckB.St) : Prop :=
  Reach cfg now seeds clients y.1 ∧ AckB.Reachable final n y.2 ∧
  ((y.1.g.acks[h]? = some .pending ∧ y.2.cpc = .beforeStatus ∧ (y.1.g.shutting = false → I y.1)) ∨
   (∃ st, st ≠ .pending ∧ y.1.g.acks[h]? = some st ∧ y.2.final = st ∧ y.2.cpc ≠ .beforeStatus ∧
      (st = .accepted → y.1.g.shutting = false → E y.1)))

theorem ackJ_run {cfg : Cfg} {now : Nat} {seeds : List Nat} {clients : Nat} {h : Nat} {D : BState → Act → Bool}
    {I E : BState → Prop} {final : Status} {n : Nat} (hl : AckLink cfg now seeds clients h D I E)
    {x y : BState × AckB.St} (hx : AckJ cfg now seeds clients h I E final n x) (hrun : AckRun h D x y) :
    AckJ cfg now seeds clients h I E final n y := by
  induction hrun with
  | refl => exact hx
  | @layer b b' s a o o' _ hs hd hsame ih =>
    obtain ⟨hr, hsr, hph⟩ := ih
    refine ⟨.step hr hs, hsr, ?_⟩
    rcases hph with ⟨hp, hc, hI⟩ | ⟨st, hne, hst, hf, hc, hE⟩
    · refine Or.inl ⟨by rw [hsame]; exact hp, hc, fun hrun' => ?_⟩
      exact (hl.inCmd hr hrun' (hI (stepB_running_before hs hrun')) hp hs hd).1 (by rw [hsame]; exact hp)
    · refine Or.inr ⟨st, hne, by rw [hsame]; exact hst, hf, hc, fun hacc hrun' => ?_⟩
      subst hacc
      exact hl.after hr hrun' (hE rfl (stepB_running_before hs hrun')) hst hs hd
  | @answer b b' s s' o o' st _ hs hd hp hst hne hfin hstep ih =>
    obtain ⟨hr, hsr, hph⟩ := ih
    have hs'c : s'.final = s.final ∧ s'.cpc = .beforeFlag := by
      rcases AckB.step_cases hstep with ⟨_, _, rfl⟩ | ⟨h1, _⟩ | ⟨h1, _⟩ | ⟨_, _, _, h1, _⟩ | ⟨_, _, h1, _⟩ |
        ⟨_, _, h1, _⟩ | ⟨_, _, h1, _⟩
      · exact ⟨rfl, rfl⟩
      all_goals cases h1
    refine ⟨.step hr hs, hsr.step hstep, ?_⟩
    rcases hph with ⟨_, _, hI⟩ | ⟨st0, hne0, hst0, _⟩
    · refine Or.inr ⟨st, hne, hst, by rw [hs'c.1]; exact hfin, by rw [hs'c.2]; simp, fun hacc hrun' => ?_⟩
      subst hacc
      exact (hl.inCmd hr hrun' (hI (stepB_running_before hs hrun')) hp hs hd).2 hst
    · simp only [] at hst0
      rw [hp] at hst0
      simp only [Option.some.injEq] at hst0
      exact absurd hst0.symm hne0
  | @cell b s s' act _ hact hstep ih =>
    obtain ⟨hr, hsr, hph⟩ := ih
    have hkeep : s'.final = s.final ∧ (s.cpc = .beforeStatus → s'.cpc = .beforeStatus) ∧
        (s.cpc ≠ .beforeStatus → s'.cpc ≠ .beforeStatus) := by
      rcases AckB.step_cases hstep with ⟨h1, _⟩ | ⟨_, hc, rfl⟩ | ⟨_, hc, _, rfl⟩ | ⟨_, _, _, _, _, _, _, rfl⟩ |
        ⟨_, _, _, _, _, _, rfl⟩ | ⟨_, _, _, _, _, _, rfl⟩ | ⟨_, _, _, _, _, rfl⟩
      · exact absurd h1 hact
      · exact ⟨rfl, fun e => (by rw [e] at hc; cases hc), fun _ => (by simp)⟩
      · exact ⟨rfl, fun e => (by rw [e] at hc; cases hc), fun _ => (by simp)⟩
      all_goals exact ⟨rfl, fun e => e, fun e => e⟩
    refine ⟨hr, hsr.step hstep, ?_⟩
    rcases hph with ⟨hp, hc, hI⟩ | ⟨st, hne, hst, hf, hc, hE⟩
    · exact Or.inl ⟨hp, hkeep.2.1 hc, hI⟩
    · exact Or.inr ⟨st, hne, hst, by rw [hkeep.1]; exact hf, hkeep.2.2 hc, hE⟩

/-- **C12, composed (generic form).**  A run of the composed system from a state in which the cell `h` is pending, the
    in-command invariant holds and the completer has not started: whenever a poll has returned `Ready(x)`, `x` is the
    status the worker's `finishCmd` passed (the slice's `final`), Layer B's cell `h` holds it — the worker's answering
    action HAS run — and if `x = Accepted` the effect `E` holds in the CURRENT Layer B state. -/
theorem C12_layerB_ready_implies_effect {cfg : Cfg} {now : Nat} {seeds : List Nat} {clients : Nat} {h : Nat}
    {D : BState → Act → Bool} {I E : BState → Prop} {final : Status} {n : Nat}
    (hl : AckLink cfg now seeds clients h D I E) {b0 b : BState} {s0 s : AckB.St}
    (hr0 : Reach cfg now seeds clients b0) (hp0 : b0.g.acks[h]? = some .pending) (hI0 : I b0)
    (hs0 : AckB.Reachable final n s0) (hc0 : s0.cpc = .beforeStatus) (hrun : AckRun h D (b0, s0) (b, s))
    (hrunning : b.g.shutting = false) {q : AckB.Poller} {x : Status} (hq : q ∈ s.pollers)
    (hres : .ready x ∈ q.results) :
    x = final ∧ x ≠ .pending ∧ b.g.acks[h]? = some x ∧ (x = .accepted → E b) := by
  obtain ⟨_, hsr, hph⟩ := ackJ_run hl (x := (b0, s0)) ⟨hr0, hs0, Or.inl ⟨hp0, hc0, fun _ => hI0⟩⟩ hrun
  obtain ⟨hflag, hxf⟩ := AckB.C12_ready_implies_flag hsr hq hres
  obtain ⟨inv, hfin, _⟩ := AckB.C12_invariant hsr
  have hcpc : s.cpc ≠ .beforeStatus := by
    rcases inv.flag_iff.mp hflag with e | e <;> rw [e] <;> simp
  rcases hph with ⟨_, hc, _⟩ | ⟨st, hne, hst, hf, _, hE⟩
  · exact absurd hc hcpc
  · simp only [] at hf hst hE
    have : st = x := by rw [hxf, ← hfin, hf]
    subst this
    exact ⟨hxf, hne, hst, fun hacc => hE hacc hrunning⟩

/-! ### the four instantiations -/

/-- while the cell is pending, nobody but a living worker can make it `Accepted` -/
theorem ack_only_live_worker {b b' : BState} {a : Act} {o o' : Oracle} {h : Nat} (hs : stepB b a o = .ok (b', o'))
    (hp : b.g.acks[h]? = some .pending) (ha : a ≠ .worker ∨ b.w = .dead) : b'.g.acks[h]? ≠ some .accepted := by
  intro hacc
  have hw := C11_layerB_only_worker_answers hs hp hacc (by simp)
  subst hw
  rcases ha with ha | hd
  · exact ha rfl
  · simp [stepB, workerAct, hd] at hs

/-- the dead worker: the cell stays pending for ever -/
theorem ack_dead_link {b b' : BState} {a : Act} {o o' : Oracle} {h : Nat} (hs : stepB b a o = .ok (b', o'))
    (hp : b.g.acks[h]? = some .pending) (hd : b.w = .dead) :
    b'.w = .dead ∧ b'.g.acks[h]? ≠ some .accepted :=
  ⟨dead_step hs hd, ack_only_live_worker hs hp (Or.inr hd)⟩

/-- a worker action that leaves a held cell pending leaves the worker busy, or dead -/
theorem ack_pending_busy_or_dead {cfg : Cfg} {now : Nat} {seeds : List Nat} {clients : Nat} {b b' : BState}
    {o o' : Oracle} {h : Nat} (hr : Reach cfg now seeds clients b) (hheld : b.w.held = some h)
    (hs : stepB b .worker o = .ok (b', o')) (hp' : b'.g.acks[h]? = some .pending) :
    b'.w.busy = true ∨ b'.w = .dead := by
  have hb : b.w.busy = true := by
    cases hw : b.w <;> simp [hw, WPc.held] at hheld <;> rfl
  cases hb' : b'.w.busy with
  | true => exact Or.inl rfl
  | false =>
    rcases C11_layerB_completion_answers (hinv_reach hr) hs hb hheld hb' with hd | ⟨_, st, hst, hne⟩
    · exact Or.inr hd
    · rw [hp'] at hst
      simp only [Option.some.injEq] at hst
      exact absurd hst.symm hne

/-- the actions a composed run must not contain: those aimed at the key / the key id, ONCE THE EFFECT IS IN PLACE
    (the cell is answered; for a put with a time-to-live: from `store.put` on, i.e. also while the worker stands at
    `ttl.put`).  Before that, everything is allowed. -/
def WPc.isTtlPut : WPc → Bool
  | .ttlPut _ _ => true
  | _ => false

def answeredB (b : BState) (h : Nat) : Bool := decide (b.g.acks[h]? ≠ some .pending)

def cmdDisturbs (cmd : Cmd) (h : Nat) (b : BState) (a : Act) : Bool :=
  match cmd with
  | .put id _ _ k _ => disturbs k id b a && answeredB b h
  | .putTtl id _ _ k _ _ => disturbs k id b a && (answeredB b h || b.w.isTtlPut)
  | .delete k => creates k b a && answeredB b h
  | .updateWeight id _ => kwTouches id b a && answeredB b h
  | .shutdown => false

/-- the effect clause of an accepted command, on the shared state -/
def CmdEffect (cmd : Cmd) (h : Nat) (b : BState) : Prop :=
  match cmd with
  | .put id hash w k v => PutEffect b ⟨id, hash, w, k, v, none, some h⟩ none
  | .putTtl id hash w k v t => ∃ e, PutEffect b ⟨id, hash, w, k, v, some t, some h⟩ (some e)
  | .delete k => b.g.store.get? k = none
  | .updateWeight id w => ∀ wk, b.g.adm.kw.get? id = some wk → wk.weight = w
  | .shutdown => True

/-- the worker's position right after it has taken `cmd` with handle `h` from the queue (`WTrans.recvPut`,
    `recvUpdate`, `recvDelete`) -/
def cmdFirstPos (cmd : Cmd) (h : Nat) : WPc :=
  match cmd with
  | .put id hash w k v => .present ⟨id, hash, w, k, v, none, some h⟩
  | .putTtl id hash w k v t => .present ⟨id, hash, w, k, v, some t, some h⟩
  | .delete k => .delStore k (some h)
  | .updateWeight id w => .update id w (some h)
  | .shutdown => .drain

theorem answeredB_true {b : BState} {h : Nat} (ha : b.g.acks[h]? = some .accepted) : answeredB b h = true := by
  simp [answeredB, ha]

theorem ackLink_put {cfg : Cfg} {now : Nat} {seeds : List Nat} {clients : Nat} {c : PutCmd} {h : Nat}
    (hh : c.h = some h) (httl : c.ttl = none) :
    AckLink cfg now seeds clients h (fun b a => disturbs c.k c.id b a && answeredB b h)
      (fun b => b.w = .dead ∨ b.w.cmd? = some c) (fun b => PutEffect b c none) := by
  constructor
  · intro b b' a o o' hr hrun' hI hp hs _
    have hrun := stepB_running_before hs hrun'
    rcases hI with hd | hc
    · exact ⟨fun _ => Or.inl (ack_dead_link hs hp hd).1, fun hacc => absurd hacc (ack_dead_link hs hp hd).2⟩
    · have hheld : b.w.held = some h := by rw [(ack_held_of_cmd hc).1, hh]
      by_cases ha : a = .worker
      · subst ha
        refine ⟨fun hp' => ?_, fun hacc => (C12_layerB_put_effect_before_ack hr hrun hc hh httl hs hacc).2.2.2.2.1⟩
        rcases ack_cmd_next (workerAct_trans (ack_stepB_worker hs)) hc with h1 | h1 | h1
        · exact Or.inr h1
        · rcases ack_pending_busy_or_dead hr hheld hs hp' with h2 | h2
          · rw [h1] at h2; cases h2
          · exact Or.inl h2
        · exact Or.inl h1
      · exact ⟨fun _ => Or.inr (by rw [ent_stepB_w_other hs ha]; exact hc),
          fun hacc => absurd hacc (ack_only_live_worker hs hp (Or.inl ha))⟩
  · intro b b' a o o' hr hrun' hE hacc hs hd
    have hrun := stepB_running_before hs hrun'
    rw [answeredB_true hacc, Bool.and_true] at hd
    exact hE.undisturbed_step (binv_reach hr) (wabsent_reach hr) hrun hs hd

theorem ackLink_putTtl {cfg : Cfg} {now : Nat} {seeds : List Nat} {clients : Nat} {c : PutCmd} {h t : Nat}
    (hh : c.h = some h) (httl : c.ttl = some t) :
    AckLink cfg now seeds clients h (fun b a => disturbs c.k c.id b a && (answeredB b h || b.w.isTtlPut))
      (fun b => b.w = .dead ∨ (b.w.cmd? = some c ∧ ∀ e, b.w = .ttlPut c e →
        b.g.store.get? c.k = some { value := c.v, id := c.id, expiry := some e, soft := false } ∧
        b.g.adm.kw.get? c.id = some { key := c.k, hash := c.hash, weight := c.w }))
      (fun b => ∃ e, PutEffect b c (some e)) := by
  constructor
  · intro b b' a o o' hr hrun' hI hp hs hD
    have hrun := stepB_running_before hs hrun'
    rcases hI with hd | ⟨hc, hwin⟩
    · exact ⟨fun _ => Or.inl (ack_dead_link hs hp hd).1, fun hacc => absurd hacc (ack_dead_link hs hp hd).2⟩
    · have hheld : b.w.held = some h := by rw [(ack_held_of_cmd hc).1, hh]
      by_cases ha : a = .worker
      · subst ha
        have ht := workerAct_trans (ack_stepB_worker hs)
        constructor
        · intro hp'
          rcases ack_cmd_next ht hc with h1 | h1 | h1
          · refine Or.inr ⟨h1, ?_⟩
            intro e he
            obtain ⟨hw, _, hadm, hst⟩ := ack_wtrans_to_ttlPut ht he
            refine ⟨by rw [hst]; simp, ?_⟩
            rw [hadm]
            exact (ackInv_reach hr).putCharged hrun c hw
          · rcases ack_pending_busy_or_dead hr hheld hs hp' with h2 | h2
            · rw [h1] at h2; cases h2
            · exact Or.inl h2
          · exact Or.inl h1
        · intro hacc
          obtain ⟨e, hw, _, _, hidx, _, hst, hadm, _, _⟩ :=
            C12_layerB_put_ttl_effect_before_ack_partial hr hrun hc hh httl hs hacc
          obtain ⟨h1, h2⟩ := hwin e hw
          exact ⟨e, by rw [hst]; exact h1, by rw [hadm]; exact h2, fun e' he' => by cases he'; exact hidx⟩
      · have hw := ent_stepB_w_other hs ha
        refine ⟨fun _ => Or.inr ⟨by rw [hw]; exact hc, ?_⟩,
          fun hacc => absurd hacc (ack_only_live_worker hs hp (Or.inl ha))⟩
        intro e he
        rw [hw] at he
        have hd : disturbs c.k c.id b a = false := by
          simpa [he, WPc.isTtlPut] using hD
        obtain ⟨d1, d2, _⟩ := disturbs_false hd
        obtain ⟨h1, h2⟩ := hwin e he
        exact ⟨C03_layerB_quiet_step (wabsent_reach hr) hs d1 h1,
          by rw [ack_kw_quiet_step (binv_reach hr) hrun hs d2]; exact h2⟩
  · intro b b' a o o' hr hrun' hE hacc hs hd
    have hrun := stepB_running_before hs hrun'
    rw [answeredB_true hacc, Bool.true_or, Bool.and_true] at hd
    obtain ⟨e, he⟩ := hE
    exact ⟨e, he.undisturbed_step (binv_reach hr) (wabsent_reach hr) hrun hs hd⟩

theorem ackLink_delete {cfg : Cfg} {now : Nat} {seeds : List Nat} {clients : Nat} {k h : Nat} :
    AckLink cfg now seeds clients h (fun b a => creates k b a && answeredB b h)
      (fun b => b.w = .dead ∨ b.w = .delStore k (some h) ∨ ∃ ent, DelPos k ent (some h) b)
      (fun b => b.g.store.get? k = none) := by
  constructor
  · intro b b' a o o' hr hrun' hI hp hs _
    have hrun := stepB_running_before hs hrun'
    rcases hI with hd | hw | ⟨ent, hpos⟩
    · exact ⟨fun _ => Or.inl (ack_dead_link hs hp hd).1, fun hacc => absurd hacc (ack_dead_link hs hp hd).2⟩
    · by_cases ha : a = .worker
      · subst ha
        have hlt := ack_held_lt hr (h := h) (by rw [hw]; rfl)
        obtain ⟨_, _, ⟨_, rfl⟩ | ⟨ent, _, rfl⟩⟩ := ent_workerAct_delStore hw (ack_stepB_worker hs)
        · constructor
          · intro hp'; rw [ack_finishCmd_get hlt] at hp'; cases hp'
          · intro hacc; rw [ack_finishCmd_get hlt] at hacc; cases hacc
        · constructor
          · intro _; exact Or.inr (Or.inr ⟨ent, by simp, Or.inl rfl⟩)
          · intro hacc; simp only [] at hacc; rw [hp] at hacc; cases hacc
      · exact ⟨fun _ => Or.inr (Or.inl (by rw [ent_stepB_w_other hs ha]; exact hw)),
          fun hacc => absurd hacc (ack_only_live_worker hs hp (Or.inl ha))⟩
    · have hheld : b.w.held = some h := by
        rcases hpos.2 with hw | ⟨⟨wk, hw⟩ | ⟨e, _, hw⟩, _⟩ <;> rw [hw] <;> rfl
      by_cases ha : a = .worker
      · subst ha
        constructor
        · intro hp'
          rcases ack_pending_busy_or_dead hr hheld hs hp' with h2 | h2
          · exact Or.inr (Or.inr ⟨ent, delPos_step (binv_reach hr) hrun hpos hs h2⟩)
          · exact Or.inl h2
        · intro _
          have hst : b'.g.store = b.g.store := by
            apply ent_wtrans_store_same (workerAct_trans (ack_stepB_worker hs))
            all_goals rcases hpos.2 with hw | ⟨⟨wk, hw⟩ | ⟨e, _, hw⟩, _⟩ <;> rw [hw] <;> intros <;> simp
          rw [hst]; exact hpos.1
      · refine ⟨fun _ => Or.inr (Or.inr ⟨ent, delPos_step (binv_reach hr) hrun hpos hs ?_⟩),
          fun hacc => absurd hacc (ack_only_live_worker hs hp (Or.inl ha))⟩
        rw [ent_stepB_w_other hs ha]
        cases hw : b.w <;> simp [hw, WPc.held] at hheld <;> rfl
  · intro b b' a o o' hr hrun' hE hacc hs hd
    rw [answeredB_true hacc, Bool.and_true] at hd
    exact C04_layerB_absent_stays hs hd hE

theorem ackLink_update {cfg : Cfg} {now : Nat} {seeds : List Nat} {clients : Nat} {id h : Nat} {w : Int} :
    AckLink cfg now seeds clients h (fun b a => kwTouches id b a && answeredB b h)
      (fun b => b.w = .dead ∨ b.w = .update id w (some h))
      (fun b => ∀ wk, b.g.adm.kw.get? id = some wk → wk.weight = w) := by
  constructor
  · intro b b' a o o' hr hrun' hI hp hs _
    rcases hI with hd | hw
    · exact ⟨fun _ => Or.inl (ack_dead_link hs hp hd).1, fun hacc => absurd hacc (ack_dead_link hs hp hd).2⟩
    · by_cases ha : a = .worker
      · subst ha
        constructor
        · intro hp'
          have hheld : b.w.held = some h := by rw [hw]; rfl
          rcases ack_pending_busy_or_dead hr hheld hs hp' with h2 | h2
          · obtain ⟨_, _, ⟨_, rfl⟩ | ⟨wk, _, _, _, rfl⟩ | ⟨wk, _, _, rfl⟩⟩ :=
              ack_workerAct_update hw (ack_stepB_worker hs) <;> cases h2
          · exact Or.inl h2
        · intro hacc
          obtain ⟨_, _, _, _, _, hcase⟩ := C08_layerB_update_weight_effect_before_ack hr hw hs hacc (by simp)
          intro wk' hg
          rcases hcase with ⟨wk, _, hg', _⟩ | ⟨hnone, hadm, _⟩
          · rw [hg'] at hg; cases hg; rfl
          · rw [hadm, hnone] at hg; cases hg
      · exact ⟨fun _ => Or.inr (by rw [ent_stepB_w_other hs ha]; exact hw),
          fun hacc => absurd hacc (ack_only_live_worker hs hp (Or.inl ha))⟩
  · intro b b' a o o' hr hrun' hE hacc hs hd
    have hrun := stepB_running_before hs hrun'
    rw [answeredB_true hacc, Bool.and_true] at hd
    rw [ack_kw_quiet_step (binv_reach hr) hrun hs hd]
    exact hE

/-- **C12, composed with the slice: `Ready(Accepted)` implies the effect.**
    The worker has just taken the command `cmd` with handle `h` (it stands at the command's first position); the slice
    of the cell `h` is in any state of its own in which the completer has not started (`final` = the status the worker
    will pass).  For EVERY run of the composed system from there — any interleaving of Layer B's threads with the
    completer's `setFlag` / `wake` and the polls of any number of tasks — in which, ONCE THE EFFECT IS IN PLACE, no
    action is aimed at the key / the key id (`cmdDisturbs`), and with the cache still running:
    if a poll has returned `Ready(Accepted)`, then the slice's outcome is `Accepted`, Layer B's cell holds `Accepted`
    (the worker's answering action has run), and the CURRENT Layer B state satisfies the command's effect clause:
    * `put`:            the store holds exactly the command's entry, the id is charged with the command's weight;
    * `put` with ttl:   the same with some deadline `e`, and the index holds `(shard of e, id) ↦ e`;
    * `delete`:         the key is absent (hence charged under no id: `C04_layerB_absent_key_uncharged`);
    * `UpdateWeight`:   the id, if charged at all, is charged with exactly the new weight (the `Accepted` no-op on an
                        uncharged id is allowed: O6 / D14). -/
theorem C12_layerB_ready_accepted_implies_effect {cfg : Cfg} {now : Nat} {seeds : List Nat} {clients : Nat}
    {cmd : Cmd} {h : Nat} {final : Status} {n : Nat} {b0 b : BState} {s0 s : AckB.St}
    (hr0 : Reach cfg now seeds clients b0) (hw0 : b0.w = cmdFirstPos cmd h) (hcmd : cmd ≠ .shutdown)
    (hs0 : AckB.Reachable final n s0) (hc0 : s0.cpc = .beforeStatus)
    (hrun : AckRun h (cmdDisturbs cmd h) (b0, s0) (b, s)) (hrunning : b.g.shutting = false)
    {q : AckB.Poller} (hq : q ∈ s.pollers) (hres : .ready .accepted ∈ q.results) :
    final = .accepted ∧ b.g.acks[h]? = some .accepted ∧ CmdEffect cmd h b := by
  have hheld : b0.w.held = some h := by
    rw [hw0]; cases cmd <;> first | rfl | exact absurd rfl hcmd
  have hp0 := ((hinv_reach hr0).held h hheld).1
  cases cmd with
  | shutdown => exact absurd rfl hcmd
  | put id hash w k v =>
    obtain ⟨h1, _, h3, h4⟩ := C12_layerB_ready_implies_effect
      (ackLink_put (c := ⟨id, hash, w, k, v, none, some h⟩) rfl rfl) hr0 hp0 (Or.inr (by rw [hw0]; rfl)) hs0 hc0 hrun
      hrunning hq hres
    exact ⟨h1.symm, h3, h4 rfl⟩
  | putTtl id hash w k v t =>
    obtain ⟨h1, _, h3, h4⟩ := C12_layerB_ready_implies_effect
      (ackLink_putTtl (c := ⟨id, hash, w, k, v, some t, some h⟩) rfl rfl) hr0 hp0
      (Or.inr ⟨by rw [hw0]; rfl, fun e he => by rw [hw0] at he; cases he⟩) hs0 hc0 hrun hrunning hq hres
    exact ⟨h1.symm, h3, h4 rfl⟩
  | delete k =>
    obtain ⟨h1, _, h3, h4⟩ := C12_layerB_ready_implies_effect (ackLink_delete (k := k)) hr0 hp0
      (Or.inr (Or.inl hw0)) hs0 hc0 hrun hrunning hq hres
    exact ⟨h1.symm, h3, h4 rfl⟩
  | updateWeight id w =>
    obtain ⟨h1, _, h3, h4⟩ := C12_layerB_ready_implies_effect (ackLink_update (id := id) (w := w)) hr0 hp0
      (Or.inr hw0) hs0 hc0 hrun hrunning hq hres
    exact ⟨h1.symm, h3, h4 rfl⟩

/-! ### the interface theorem at Layer B alone: answered `Accepted` ⇒ the effect is in place, and stays -/

/-- the in-command invariant of the four command kinds (what the composition carries while the cell is pending) -/
def cmdInv (cmd : Cmd) (h : Nat) (b : BState) : Prop :=
  match cmd with
  | .put id hash w k v => b.w = .dead ∨ b.w.cmd? = some ⟨id, hash, w, k, v, none, some h⟩
  | .putTtl id hash w k v t => b.w = .dead ∨ (b.w.cmd? = some ⟨id, hash, w, k, v, some t, some h⟩ ∧
      ∀ e, b.w = .ttlPut ⟨id, hash, w, k, v, some t, some h⟩ e →
        b.g.store.get? k = some { value := v, id := id, expiry := some e, soft := false } ∧
        b.g.adm.kw.get? id = some { key := k, hash := hash, weight := w })
  | .delete k => b.w = .dead ∨ b.w = .delStore k (some h) ∨ ∃ ent, DelPos k ent (some h) b
  | .updateWeight id w => b.w = .dead ∨ b.w = .update id w (some h)
  | .shutdown => False

theorem ackLink_cmd {cfg : Cfg} {now : Nat} {seeds : List Nat} {clients : Nat} (cmd : Cmd) (h : Nat)
    (hcmd : cmd ≠ .shutdown) :
    AckLink cfg now seeds clients h (cmdDisturbs cmd h) (cmdInv cmd h) (CmdEffect cmd h) := by
  cases cmd with
  | shutdown => exact absurd rfl hcmd
  | put id hash w k v => exact ackLink_put (c := ⟨id, hash, w, k, v, none, some h⟩) rfl rfl
  | putTtl id hash w k v t => exact ackLink_putTtl (c := ⟨id, hash, w, k, v, some t, some h⟩) rfl rfl
  | delete k => exact ackLink_delete (k := k)
  | updateWeight id w => exact ackLink_update (id := id) (w := w)

theorem cmdInv_first {cmd : Cmd} {h : Nat} {b : BState} (hcmd : cmd ≠ .shutdown) (hw : b.w = cmdFirstPos cmd h) :
    cmdInv cmd h b := by
  cases cmd with
  | shutdown => exact absurd rfl hcmd
  | put id hash w k v => exact Or.inr (by rw [hw]; rfl)
  | putTtl id hash w k v t => exact Or.inr ⟨by rw [hw]; rfl, fun e he => by rw [hw] at he; cases he⟩
  | delete k => exact Or.inr (Or.inl hw)
  | updateWeight id w => exact Or.inr hw

/-- runs of Layer B that contain no action marked by `D` -/
inductive LRun (D : BState → Act → Bool) : BState → BState → Prop where
  | refl (b : BState) : LRun D b b
  | step {b b1 b' : BState} {a : Act} {o o' : Oracle} :
      LRun D b b1 → stepB b1 a o = .ok (b', o') → D b1 a = false → LRun D b b'

theorem LRun.reach {D : BState → Act → Bool} {cfg : Cfg} {now : Nat} {seeds : List Nat} {clients : Nat} {b b' : BState}
    (h : LRun D b b') (hr : Reach cfg now seeds clients b) : Reach cfg now seeds clients b' := by
  induction h with
  | refl => exact hr
  | step _ hs _ ih => exact .step ih hs

theorem LRun.acks_len {D : BState → Act → Bool} {cfg : Cfg} {now : Nat} {seeds : List Nat} {clients : Nat}
    {b b' : BState} (h : LRun D b b') (hr : Reach cfg now seeds clients b) : b.g.acks.length ≤ b'.g.acks.length := by
  induction h with
  | refl => exact Nat.le_refl _
  | step hq hs _ ih => exact Nat.le_trans ih (C11_layerB_acks_grow (hinv_reach (hq.reach hr)) hs).1

theorem ackLink_lrun {cfg : Cfg} {now : Nat} {seeds : List Nat} {clients : Nat} {h : Nat} {D : BState → Act → Bool}
    {I E : BState → Prop} (hl : AckLink cfg now seeds clients h D I E) {b0 b : BState}
    (hr0 : Reach cfg now seeds clients b0) (hp0 : b0.g.acks[h]? = some .pending) (hI0 : I b0) (hrun : LRun D b0 b)
    (hrunning : b.g.shutting = false) :
    (b.g.acks[h]? = some .pending → I b) ∧ (b.g.acks[h]? = some .accepted → E b) := by
  induction hrun with
  | refl => exact ⟨fun _ => hI0, fun ha => by rw [hp0] at ha; cases ha⟩
  | @step b1 b' a o o' hq hs hd ih =>
    have hr1 := hq.reach hr0
    obtain ⟨i1, i2⟩ := ih (stepB_running_before hs hrunning)
    obtain ⟨x, hx⟩ : ∃ x, b1.g.acks[h]? = some x := by
      have hlt : h < b1.g.acks.length := Nat.lt_of_lt_of_le (lt_of_getElem?_some hp0) (hq.acks_len hr0)
      exact ⟨b1.g.acks[h], by simp [hlt]⟩
    by_cases hpx : x = .pending
    · subst hpx
      exact hl.inCmd hr1 hrunning (i1 hx) hx hs hd
    · have hkeep := (C11_layerB_acks_grow (hinv_reach hr1) hs).2 h x hx hpx
      constructor
      · intro hp'; rw [hkeep] at hp'; simp only [Option.some.injEq] at hp'; exact absurd hp' hpx
      · intro ha'
        rw [hkeep] at ha'; simp only [Option.some.injEq] at ha'; subst ha'
        exact hl.after hr1 hrunning (i2 hx) hx hs hd

/-- **C12 (the interface between the acknowledgement and the cache, at Layer B).**
    The worker has just taken the command `cmd` with handle `h`.  Along EVERY run of Layer B from there — any
    interleaving of any threads — that contains, once the effect is in place, no action aimed at the key / the key id
    (`cmdDisturbs`: the named actions), with the cache still running:
    `acks[h] = Accepted` ⇒ the command's effect clause holds in the current state.
    (The effect is established by the worker's actions BEFORE or IN the answering action, sections 2–4, and kept by
    every other action since.) -/
theorem C12_layerB_answered_accepted_implies_effect {cfg : Cfg} {now : Nat} {seeds : List Nat} {clients : Nat}
    {cmd : Cmd} {h : Nat} {b0 b : BState} (hr0 : Reach cfg now seeds clients b0) (hw0 : b0.w = cmdFirstPos cmd h)
    (hcmd : cmd ≠ .shutdown) (hrun : LRun (cmdDisturbs cmd h) b0 b) (hrunning : b.g.shutting = false)
    (ha : b.g.acks[h]? = some .accepted) : CmdEffect cmd h b := by
  have hheld : b0.w.held = some h := by
    rw [hw0]; cases cmd <;> first | rfl | exact absurd rfl hcmd
  exact (ackLink_lrun (ackLink_cmd cmd h hcmd) hr0 ((hinv_reach hr0).held h hheld).1 (cmdInv_first hcmd hw0) hrun
    hrunning).2 ha

/-! ## 6  acknowledgements answered ON THE SPOT by the caller -/

/-- **C12 (spot answer of a put): `Rejected(KeyAlreadyExists)` on the spot means the key is present NOW.**
    The caller-side check `store.present` of a put that creates an acknowledgement on the spot: the new cell holds
    `Rejected(KeyAlreadyExists)`, the store holds an entry for the key in that very state (before and after the action),
    and nothing else changes — no id is drawn, nothing is sent, store, ledger and index are untouched. -/
theorem C12_layerB_spot_put_exists {b b' : BState} {i k v : Nat} {w : Int} {ttl : Option Nat} {o o' : Oracle}
    (hpc : b.cl[i]? = some (.putPresent k v w ttl)) (hs : stepB b (.client i) o = .ok (b', o'))
    (hnew : b'.g.acks.length = b.g.acks.length + 1) :
    ∃ e, b.g.store.get? k = some e ∧ b'.g.store.get? k = some e ∧
      b'.g.acks = b.g.acks ++ [.rejected .keyAlreadyExists] ∧
      b'.g.store = b.g.store ∧ b'.g.adm = b.g.adm ∧ b'.g.ttl = b.g.ttl ∧ b'.g.queue = b.g.queue ∧
      b'.g.nextId = b.g.nextId := by
  cases hk : b.g.store.get? k with
  | none =>
    have := C07_layerB_absent_not_refused.1 hpc hk hs
    subst this
    simp [setClient] at hnew
  | some e =>
    obtain ⟨_, rfl, _⟩ := C07_layerB_present_refused_client hpc hk hs
    exact ⟨e, rfl, hk, rfl, rfl, rfl, rfl, rfl, rfl⟩

/-- **C12 (after shutdown): a write issued after the flag is set gets NO acknowledgement** — `put`, `delete` and
    `put_or_update` return `Err(CommandSendError)` in their first action; no cell is created, nothing is sent, nothing
    changes. -/
theorem C12_layerB_spot_after_shutdown {b b' : BState} {i : Nat} {r : Req} {o o' : Oracle} (hsh : b.g.shutting = true)
    (hpc : b.cl[i]? = some (.start r))
    (hwrite : (∃ k v w ttl, r = .putW k v w ttl) ∨ (∃ k, r = .delete k) ∨ (∃ k v w ttl rm, r = .upsert k v w ttl rm))
    (hs : stepB b (.client i) o = .ok (b', o')) :
    b' = finishCall b i .err ∧ b'.g = b.g ∧ b'.res = b.res.set i (.err :: b.res.getD i []) := by
  have h1 : r ≠ .weight := by rcases hwrite with ⟨_, _, _, _, rfl⟩ | ⟨_, rfl⟩ | ⟨_, _, _, _, _, rfl⟩ <;> simp
  have h2 : r ≠ .shutdown := by rcases hwrite with ⟨_, _, _, _, rfl⟩ | ⟨_, rfl⟩ | ⟨_, _, _, _, _, rfl⟩ <;> simp
  have h3 : refusal r = .err := by rcases hwrite with ⟨_, _, _, _, rfl⟩ | ⟨_, rfl⟩ | ⟨_, _, _, _, _, rfl⟩ <;> rfl
  have h4 : ∀ ks iter, r ≠ .mget ks iter := by
    rcases hwrite with ⟨_, _, _, _, rfl⟩ | ⟨_, rfl⟩ | ⟨_, _, _, _, _, rfl⟩ <;> simp
  have := C13_layerB_refuses o hsh hpc h1 h2 h4
  rw [h3] at this
  have hs' : clientAct b i o = .ok (b', o') := hs
  rw [this] at hs'
  simp only [Except.ok.injEq, Prod.mk.injEq] at hs'
  obtain ⟨rfl, _⟩ := hs'
  exact ⟨rfl, rfl, rfl⟩

/-- the tail of `put_or_update` answers on the spot exactly when no weight is due -/
theorem ack_upAfterIndex_spot {b : BState} {i id : Nat} {uw : Option Int}
    (hnew : (upAfterIndex b i id uw).g.acks.length = b.g.acks.length + 1) :
    uw = none ∧ upAfterIndex b i id uw = spotFinish b i .accepted := by
  cases uw with
  | none => exact ⟨rfl, rfl⟩
  | some x =>
    simp only [upAfterIndex] at hnew
    split at hnew
    · simp [finishCall] at hnew
    · split at hnew
      · simp [finishCall] at hnew
      · simp [setClient] at hnew

/-- **C12 (spot answer of `put_or_update`): `Accepted` on the spot means NO WEIGHT IS DUE.**
    A client inside a `put_or_update` that read the key id `id` (its `upsert.update` has already written value and
    deadline into the stored entry) creates an acknowledgement on the spot: the cell holds `Accepted`; the call carries
    no weight (`uw = none`: neither a weight nor a value was given, and the deadline change is not of a kind that alters
    the weight of a CHARGED id — or the id was not charged at `upsert.weight_of`, fix c86efeb); the index action of this
    very step (if any) is done — the index has been brought up to date with the deadline this call wrote; NO
    `UpdateWeight` is sent; store and ledger are untouched by the action. -/
theorem C12_layerB_spot_upsert_accepted {b b' : BState} {i id : Nat} {pc : CPc} {o o' : Oracle}
    (hpc : b.cl[i]? = some pc) (hid : pc.usedId? = some id) (hs : stepB b (.client i) o = .ok (b', o'))
    (hnew : b'.g.acks.length = b.g.acks.length + 1) :
    b'.g.acks = b.g.acks ++ [.accepted] ∧ b'.g.store = b.g.store ∧ b'.g.adm = b.g.adm ∧ b'.g.queue = b.g.queue ∧
    ((∃ old new, pc = .upWeightOf id none old new ∧ typeOfExpiryUpdate old new = .nothing ∧ b'.g.ttl = b.g.ttl) ∨
     (∃ e, pc = .upTtlPut id e none ∧ b'.g.ttl = b.g.ttl.set (shardOf b.g.cfg e, id) e) ∨
     (∃ e, pc = .upTtlDelete id e none ∧ b'.g.ttl = b.g.ttl.del (shardOf b.g.cfg e, id)) ∨
     (∃ e, pc = .upTtlInsert id e none ∧ b'.g.ttl = b.g.ttl.set (shardOf b.g.cfg e, id) e)) := by
  have hs' : clientAct b i o = .ok (b', o') := hs
  cases pc <;> simp only [CPc.usedId?, Option.some.injEq, reduceCtorEq] at hid
  all_goals subst hid
  case upWeightOf id uw old new =>
    simp only [clientAct, hpc] at hs'
    split at hs'
    all_goals simp only [Except.ok.injEq, Prod.mk.injEq] at hs'
    all_goals obtain ⟨rfl, rfl⟩ := hs'
    · simp [setClient] at hnew
    · simp [setClient] at hnew
    · simp [setClient] at hnew
    · rename_i hty
      obtain ⟨rfl, he⟩ := ack_upAfterIndex_spot hnew
      rw [he]
      exact ⟨rfl, rfl, rfl, rfl, Or.inl ⟨_, _, rfl, hty, rfl⟩⟩
  case upTtlPut id e uw =>
    simp only [clientAct, hpc] at hs'
    split at hs'
    · cases hs'
    · simp only [Except.ok.injEq, Prod.mk.injEq] at hs'
      obtain ⟨rfl, rfl⟩ := hs'
      obtain ⟨rfl, he⟩ := ack_upAfterIndex_spot (b := { b with g := ttlPut b.g id e }) hnew
      rw [he]
      exact ⟨rfl, rfl, rfl, rfl, Or.inr (Or.inl ⟨_, rfl, rfl⟩)⟩
  case upTtlDelete id e uw =>
    simp only [clientAct, hpc] at hs'
    split at hs'
    · cases hs'
    · simp only [Except.ok.injEq, Prod.mk.injEq] at hs'
      obtain ⟨rfl, rfl⟩ := hs'
      obtain ⟨rfl, he⟩ := ack_upAfterIndex_spot (b := { b with g := ttlDelete b.g id e }) hnew
      rw [he]
      exact ⟨rfl, rfl, rfl, rfl, Or.inr (Or.inr (Or.inl ⟨_, rfl, rfl⟩))⟩
  case upTtlRemove id old new uw =>
    simp only [clientAct, hpc] at hs'
    split at hs'
    · cases hs'
    · simp only [Except.ok.injEq, Prod.mk.injEq] at hs'
      obtain ⟨rfl, rfl⟩ := hs'
      simp [setClient, ttlDelete] at hnew
  case upTtlInsert id e uw =>
    simp only [clientAct, hpc] at hs'
    split at hs'
    · cases hs'
    · simp only [Except.ok.injEq, Prod.mk.injEq] at hs'
      obtain ⟨rfl, rfl⟩ := hs'
      obtain ⟨rfl, he⟩ := ack_upAfterIndex_spot (b := { b with g := ttlPut b.g id e }) hnew
      rw [he]
      exact ⟨rfl, rfl, rfl, rfl, Or.inr (Or.inr (Or.inr ⟨_, rfl, rfl⟩))⟩

/-- **C12 (spot answers, completeness): a client action creates an already-answered cell only in the two ways above.**
    If an action of client `i` lengthens `acks` without lengthening the queue (it is not a send), the new cell holds
    `Rejected(KeyAlreadyExists)` or `Accepted`, never `Pending`; no other cell changes. -/
theorem C12_layerB_spot_answers {b b' : BState} {i : Nat} {o o' : Oracle} (hs : stepB b (.client i) o = .ok (b', o'))
    (hnew : b'.g.acks.length = b.g.acks.length + 1) (hq : b'.g.queue = b.g.queue) :
    b'.g.acks = b.g.acks ++ [.rejected .keyAlreadyExists] ∨ b'.g.acks = b.g.acks ++ [.accepted] := by
  have ht := clientAct_trans (show clientAct b i o = .ok (b', o') from hs)
  have hspot : ∀ (b0 : BState) (id : Nat) (uw : Option Int), b' = upAfterIndex b0 i id uw → b0.g.acks = b.g.acks →
      b'.g.acks = b.g.acks ++ [.rejected .keyAlreadyExists] ∨ b'.g.acks = b.g.acks ++ [.accepted] := by
    intro b0 id uw he hacks
    subst he
    rw [← hacks] at hnew ⊢
    rw [(ack_upAfterIndex_spot hnew).2]
    exact Or.inr rfl
  cases ht
  case spot pc st hpc _ =>
    cases pc <;> simp only [stepB, clientAct, hpc] at hs
    case putPresent k v w ttl =>
      split at hs
      · simp only [Except.ok.injEq, Prod.mk.injEq] at hs
        rw [← hs.1]; exact Or.inl rfl
      · simp only [Except.ok.injEq, Prod.mk.injEq] at hs
        have := congrArg (fun x => x.g.acks.length) hs.1
        simp [setClient, spotFinish, finishCall] at this
    all_goals (repeat' split at hs)
    all_goals (try (cases hs; done))
    all_goals simp only [Except.ok.injEq, Prod.mk.injEq] at hs
    all_goals have hlen := congrArg (fun x => x.g.acks.length) hs.1
    all_goals (try (simp [setClient, spotFinish, finishCall] at hlen; done))
    all_goals first
      | exact hspot _ _ _ hs.1.symm rfl
      | (simp [setClient, ttlDelete, spotFinish, finishCall] at hlen; done)
      | (rename_i heq; rw [poolAdd_frame heq] at hlen; simp [spotFinish, finishCall] at hlen; done)
      | skip
    all_goals
      rename_i heq
      unfold sendAct at heq
      simp only [] at heq
      split at heq
      · simp only [Except.ok.injEq] at heq; subst heq
        simp [spotFinish, finishCall] at hlen
      · split at heq
        · cases heq
        · simp only [Except.ok.injEq] at heq; subst heq
          have hq' := congrArg (fun x => x.g.queue.length) hs.1
          simp [spotFinish, finishCall] at hq'
  case upAfterSame id uw old new hpc => exact hspot b id uw rfl rfl
  case upAfterPut pc id e uw hpc hu hfree => exact hspot _ id uw rfl rfl
  case upAfterDelete id e uw hpc hfree => exact hspot _ id uw rfl rfl
  case sendOk cmd hpc => simp [finishCall] at hq
  case getPool hp => rw [poolAdd_frame hp] at hnew; simp [finishCall] at hnew
  case refPool hp => rw [poolAdd_frame hp] at hnew; simp [finishCall] at hnew
  case shutLocal hg => rw [hg] at hnew; simp [setClient] at hnew
  case mgetStep hg => rw [hg] at hnew; simp [setClient] at hnew
  case mgetFin hg => rw [hg] at hnew; simp [finishCall] at hnew
  all_goals simp [finishCall, setClient, ttlDelete] at hnew

/-! ## 7  concrete interleavings: non-vacuity, and the runs behind the `_counterexample`s

  All on `cfgEx` (capacity 10, one expiry shard, `counters := 2`), two clients, from `b0Ex` (Order.lean). -/

theorem ack_reach_run {l : List (Act × Oracle)} {b : BState} (h : runB b0Ex l = .ok b) :
    Reach cfgEx 0 [1, 2, 3, 4] 2 b := reach_runB _ b0Ex_reach h

/-! ### (1) put without time-to-live, answered while another client's read is in the middle of its call -/

/-- client 0 runs `put(1 ↦ 100, weight 3)` up to its send; client 1 issues `get(1)` and runs its first action (it now
    stands at `store.get`, in the MIDDLE of its call); the worker takes the put and runs it up to `store.put` -/
def ackPutRun : List (Act × Oracle) :=
  call 0 (.putW 1 100 3 none) 4 ++ [(.issue 1 (.get 1), noO), (.client 1, noO)] ++ workerN 5

/-- the hypotheses of `C12_layerB_put_effect_before_ack` are satisfied at a reachable state — with a read of the very key
    in flight -/
theorem C12_layerB_put_effect_witness :
    ∃ b b' c, Reach cfgEx 0 [1, 2, 3, 4] 2 b ∧ b.g.shutting = false ∧ b.w.cmd? = some c ∧ c.h = some 0 ∧ c.ttl = none ∧
      stepB b .worker noO = .ok (b', noO) ∧ b'.g.acks[0]? = some .accepted ∧ b.cl[1]? = some (.getStore 1) ∧
      PutEffect b' c none := by
  have hrun : ∃ b, runB b0Ex ackPutRun = .ok b ∧ b.g.shutting = false ∧
      b.w.cmd? = some ⟨1, 1, 3, 1, 100, none, some 0⟩ ∧ b.cl[1]? = some (.getStore 1) ∧
      ∃ b', stepB b .worker noO = .ok (b', noO) ∧ b'.g.acks[0]? = some .accepted :=
    ⟨_, rfl, rfl, rfl, rfl, _, rfl, by decide⟩
  obtain ⟨b, hr, h1, h2, h3, b', h4, h5⟩ := hrun
  exact ⟨b, b', _, ack_reach_run hr, h1, h2, rfl, rfl, h4, h5, h3,
    (C12_layerB_put_effect_before_ack (ack_reach_run hr) h1 h2 rfl rfl h4 h5).2.2.2.2.1⟩

/-- … and in numbers: before the answering action the cell is pending and the key absent; after it the cell holds
    `Accepted`, the store holds `(100, id 1, no deadline, not deleted)`, id 1 is charged with 3, the total is 3.
    The reader's lookup run AFTER the answering action hits and the call returns `Some(100)`; the same lookup run
    BEFORE it misses. -/
example :
    (match runB b0Ex ackPutRun with
     | .ok b =>
       (match stepB b .worker noO with
        | .ok (b', _) =>
          decide (b.g.acks = [.pending] ∧ b.g.store.get? 1 = none ∧ b'.g.acks = [.accepted] ∧
                  b'.g.store.get? 1 = some ⟨100, 1, none, false⟩ ∧ b'.g.adm.kw.get? 1 = some ⟨1, 1, 3⟩ ∧
                  b'.g.adm.used = 3 ∧ b'.g.ttl = []) &&
          (match runB b' [(.client 1, noO), (.client 1, { pool := [0] })] with
           | .ok b2 => (match b2.res[1]? with | some (Out.value (some v) :: _) => v == 100 | _ => false)
           | _ => false) &&
          (match runB b [(.client 1, noO)] with
           | .ok b2 => (match b2.res[1]? with | some (Out.value none :: _) => true | _ => false)
           | _ => false)
        | _ => false)
     | _ => false) = true := by decide

/-! ### (1) put rejected: `KeyAlreadyExists` (worker side), `TooHeavy`, `NoSpace` after an eviction (O5) -/

/-- two clients race `put(1)`: both pass the caller-side check, the worker stores the first and answers the second
    `KeyAlreadyExists` — the store, the ledger and the total are what the first put left -/
example :
    (match runB b0Ex (putRaceChecks ++ putRaceSends ++ workerN 7) with
     | .ok b =>
       (match b.w, stepB b .worker noO with
        | .present c, .ok (b', _) =>
          decide (c.h = some 1 ∧ b.w.cmd? = some c ∧ b.g.acks[1]? = some .pending ∧
                  b'.g.acks[1]? = some (.rejected .keyAlreadyExists) ∧ b.g.store.contains c.k = true ∧
                  b'.g.store = b.g.store ∧ b'.g.adm.kw = b.g.adm.kw ∧ b'.g.adm.used = b.g.adm.used ∧
                  b'.g.ttl = b.g.ttl ∧ b'.g.adm.kw.get? c.id = none)
        | _, _ => false)
     | _ => false) = true := by decide

/-- a put heavier than the cache: `TooHeavy`, nothing changes -/
example :
    (match runB b0Ex (call 0 (.putW 1 7 11 none) 4 ++ workerN 1) with
     | .ok b =>
       (match b.w, stepB b .worker noO with
        | .present c, .ok (b', _) =>
          decide (c.h = some 0 ∧ b'.g.acks[0]? = some (.rejected .tooHeavy) ∧ b.g.store.get? c.k = none ∧
                  b'.g.store = b.g.store ∧ b'.g.adm.kw = b.g.adm.kw ∧ b'.g.adm.used = b.g.adm.used ∧
                  c.w > b.g.adm.max)
        | _, _ => false)
     | _ => false) = true := by decide

/-- buffers of one record, so that one access record of key 3 reaches the sketch -/
def ackInit1 : BState := BState.init { cfgEx with bufSize := 1 } 0 [1, 2, 3, 4] 2

def ackHit3 : List (Act × Oracle) :=
  [(.issue 0 (.get 3), noO), (.client 0, noO), (.client 0, noO), (.client 0, { pool := [0] })]

/-- keys 1 and 3 (weight 1 each, ids 1 and 2) are in; key 3 is read twice and the consumer counts one access;
    `put(2, weight 10)` does not fit (free space 8): the worker samples both ids, pops id 1 (estimate 0, not above the
    incoming key's 0) and EVICTS it — `kw.remove`, `wu.sub`, `store.remove` — re-reads the space (9 < 10), … -/
def ackNoSpaceRun : List (Act × Oracle) :=
  call 0 (.putW 1 100 1 none) 4 ++ workerN 6 ++ call 0 (.putW 3 300 1 none) 4 ++ workerN 6 ++
  ackHit3 ++ ackHit3 ++ [(.consumer, { dkAdd := [true] })] ++ call 1 (.putW 2 200 10 none) 4 ++
  [(.worker, noO), (.worker, noO), (.worker, { dk := [false] }),
   (.worker, { dk := [false, true], ids := [1, 2], pops := [some 1] }),
   (.worker, noO), (.worker, noO), (.worker, noO), (.worker, noO)]

/-- … pops id 2 (key 3, estimate 1 > 0) and gives up: the cell is answered `NoSpace`.  The answering action changes
    nothing; the command's id 3 is neither charged, stored nor indexed — but key 1, evicted EARLIER in the loop, stays
    evicted (observation O5): the store and the total are NOT what they were when the command was taken. -/
example :
    (match runB ackInit1 ackNoSpaceRun with
     | .ok b =>
       (match b.w, stepB b .worker { pops := [some 2] } with
        | .fill c _ _ _, .ok (b', _) =>
          decide (c.h = some 2 ∧ c.id = 3 ∧ b.g.acks[2]? = some .pending ∧
                  b'.g.acks[2]? = some (.rejected .noSpace) ∧
                  b'.g.store = b.g.store ∧ b'.g.adm.kw = b.g.adm.kw ∧ b'.g.adm.used = b.g.adm.used ∧
                  b'.g.adm.kw.get? 3 = none ∧ b'.g.store.get? 2 = none ∧
                  b'.g.store.get? 1 = none ∧ b'.g.adm.kw.get? 1 = none ∧ b'.g.adm.used = 1 ∧
                  b'.g.store.get? 3 = some ⟨300, 2, none, false⟩)
        | _, _ => false)
     | _ => false) = true := by decide

/-! ### (1) put with a time-to-live -/

/-- `put(1 ↦ 100, weight 3, ttl 50)`: the worker stands at `store.put` -/
def ackTtlRun : List (Act × Oracle) := call 0 (.putW 1 100 3 (some 50)) 4 ++ workerN 5

/-- between `store.put` and `ttl.put`: a whole `get(1)` of client 1 (which already SEES the entry), a clock move, the
    sweeper's `sweep.begin` (the shard is empty) — none of them aimed at key 1 / id 1 -/
def ackTtlTraffic : List (Act × Oracle) :=
  [(.issue 1 (.get 1), noO), (.client 1, noO), (.client 1, noO), (.advance 7, noO), (.client 1, { pool := [0] }),
   (.sweeper none, noO)]

/-- the hypotheses of `C12_layerB_put_ttl_effect_before_ack` are satisfiable, with traffic in the window -/
theorem C12_layerB_put_ttl_effect_witness :
    ∃ b0 b1 b b' c, Reach cfgEx 0 [1, 2, 3, 4] 2 b0 ∧ b0.w = .storePut c ∧ c.h = some 0 ∧ c.ttl = some 50 ∧
      stepB b0 .worker noO = .ok (b1, noO) ∧ Undisturbed c.k c.id b1 b ∧ stepB b .worker noO = .ok (b', noO) ∧
      b'.g.shutting = false ∧ b.g.now = 7 ∧ PutEffect b' c (some 50) := by
  have hrun : ∃ b0, runB b0Ex ackTtlRun = .ok b0 ∧ b0.w = .storePut ⟨1, 1, 3, 1, 100, some 50, some 0⟩ ∧
      b0.g.now + 50 = 50 ∧
      ∃ b1, stepB b0 .worker noO = .ok (b1, noO) ∧ ∃ b, undisturbedRun 1 1 b1 ackTtlTraffic = some b ∧
      ∃ b', stepB b .worker noO = .ok (b', noO) ∧ b'.g.shutting = false ∧ b.g.now = 7 :=
    ⟨_, rfl, rfl, rfl, _, rfl, _, rfl, _, rfl, rfl, rfl⟩
  obtain ⟨b0, hr, hw, hn, b1, h1, b, h2, b', h3, h4, h5⟩ := hrun
  have hq := (undisturbed_of_run _ _ _ h2).1
  have he := (C12_layerB_put_ttl_effect_before_ack (ack_reach_run hr) hw rfl rfl h1 hq h3 h4).2.2.2.2.2.2.1
  rw [hn] at he
  exact ⟨b0, b1, b, b', _, ack_reach_run hr, hw, rfl, rfl, h1, hq, h3, h4, h5, he⟩

/-- … in numbers: the reader inside the window got `Some(100)` BEFORE the acknowledgement was answered; at the answer
    the store holds `(100, id 1, deadline 0 + 50)`, id 1 is charged with 3, the index holds `(0, 1) ↦ 50` -/
example :
    (match runB b0Ex (ackTtlRun ++ workerN 1 ++ ackTtlTraffic) with
     | .ok b =>
       (match b.res[1]? with | some (Out.value (some v) :: _) => v == 100 | _ => false) &&
       (match stepB b .worker noO with
        | .ok (b', _) =>
          decide (b.g.acks = [.pending] ∧ b'.g.acks = [.accepted] ∧ b'.g.store.get? 1 = some ⟨100, 1, some 50, false⟩ ∧
                  b'.g.adm.kw.get? 1 = some ⟨1, 1, 3⟩ ∧ b'.g.adm.used = 3 ∧ b'.g.ttl.get? (0, 1) = some 50 ∧
                  b.g.ttl = [])
        | _ => false)
     | _ => false) = true := by decide

/-- **FINDING (benign): the full effect clause is FALSE for a put with a time-to-live** — `store.put` and the answer are
    two actions (`ttl.put` lies between them), and the entry is visible to the other threads in between.
    `put(1, ttl 50)` of client 0 is at `ttl.put`; client 1's `delete(1)` runs `delete.mark` (the entry is soft-deleted);
    the worker's `ttl.put` answers the put `Accepted`.  In that state the stored entry is marked deleted: `PutEffect`
    fails, and a `get(1)` issued AFTER the acknowledgement returns `None`.
    (Linearizable — the concurrent `delete` takes effect after the put — but "Accepted ⇒ a following get sees the value"
    needs the absence of concurrent operations on the key: `C12_layerB_put_ttl_effect_before_ack`.) -/
theorem C12_layerB_put_ttl_effect_before_ack_counterexample :
    ∃ b b' c e, Reach cfgEx 0 [1, 2, 3, 4] 2 b ∧ b.g.shutting = false ∧ b.w = .ttlPut c e ∧ c.h = some 0 ∧
      stepB b .worker noO = .ok (b', noO) ∧ b.g.acks[0]? = some .pending ∧ b'.g.acks[0]? = some .accepted ∧
      b'.g.store.get? c.k = some ⟨c.v, c.id, some e, true⟩ ∧ ¬ PutEffect b' c (some e) ∧
      (match runB b' (call 0 (.get c.k) 2) with
       | .ok b2 => (match b2.res[0]? with | some (Out.value none :: _) => true | _ => false)
       | _ => false) = true := by
  have hrun : ∃ b, runB b0Ex (ackTtlRun ++ workerN 1 ++ call 1 (.delete 1) 2) = .ok b ∧ b.g.shutting = false ∧
      b.w = .ttlPut ⟨1, 1, 3, 1, 100, some 50, some 0⟩ 50 ∧ b.g.acks[0]? = some .pending ∧
      ∃ b', stepB b .worker noO = .ok (b', noO) ∧ b'.g.acks[0]? = some .accepted ∧
        b'.g.store.get? 1 = some ⟨100, 1, some 50, true⟩ ∧
        (match runB b' (call 0 (.get 1) 2) with
         | .ok b2 => (match b2.res[0]? with | some (Out.value none :: _) => true | _ => false)
         | _ => false) = true :=
    ⟨_, rfl, rfl, rfl, by decide, _, rfl, by decide, by decide, by decide⟩
  obtain ⟨b, hr, h1, h2, h3, b', h4, h5, h6, h7⟩ := hrun
  refine ⟨b, b', _, _, ack_reach_run hr, h1, h2, rfl, h4, h3, h5, h6, ?_, h7⟩
  intro he
  have := he.stored
  rw [h6] at this
  cases this

/-- **FINDING (benign), second run: `Accepted` answered while the key is NEITHER STORED NOR CHARGED.**
    In the same window client 1's `put_or_update(1, ttl 5)` shortens the stored deadline to 5 and indexes it; the clock
    moves to 10; the sweeper's tick finds the entry due, re-validates it against the store (expired by its own deadline)
    and evicts it — ledger, total, store.  Then the worker's `ttl.put` answers the put `Accepted` and leaves the stale
    index entry `(0, 1) ↦ 50` behind.  Only the unconditional clauses of
    `C12_layerB_put_ttl_effect_before_ack_partial` hold. -/
theorem C12_layerB_put_ttl_effect_before_ack_counterexample_swept :
    ∃ b b' c e, Reach cfgEx 0 [1, 2, 3, 4] 2 b ∧ b.g.shutting = false ∧ b.w = .ttlPut c e ∧ c.h = some 0 ∧
      stepB b .worker noO = .ok (b', noO) ∧ b.g.acks[0]? = some .pending ∧ b'.g.acks[0]? = some .accepted ∧
      b'.g.store.get? c.k = none ∧ b'.g.adm.kw.get? c.id = none ∧ b'.g.adm.used = 0 ∧
      b'.g.ttl.get? (shardOf b'.g.cfg e, c.id) = some e := by
  have hrun : ∃ b, runB b0Ex (ackTtlRun ++ workerN 1 ++ call 1 (.upsert 1 none none (some 5) false) 5 ++
        [(.advance 10, noO), (.sweeper none, noO), (.sweeper (some 1), noO), (.sweeper none, noO),
         (.sweeper none, noO), (.sweeper none, noO)]) = .ok b ∧ b.g.shutting = false ∧
      b.w = .ttlPut ⟨1, 1, 3, 1, 100, some 50, some 0⟩ 50 ∧ b.g.acks[0]? = some .pending ∧
      ∃ b', stepB b .worker noO = .ok (b', noO) ∧ b'.g.acks[0]? = some .accepted ∧
        b'.g.store.get? 1 = none ∧ b'.g.adm.kw.get? 1 = none ∧ b'.g.adm.used = 0 ∧
        b'.g.ttl.get? (shardOf b'.g.cfg 50, 1) = some 50 :=
    ⟨_, rfl, rfl, rfl, by decide, _, rfl, by decide, by decide, by decide, by decide, by decide⟩
  obtain ⟨b, hr, h1, h2, h3, b', h4, h5, h6, h7, h8, h9⟩ := hrun
  exact ⟨b, b', _, _, ack_reach_run hr, h1, h2, rfl, h4, h3, h5, h6, h7, h8, h9⟩

/-! ### (2) delete -/

/-- an executable check of `InCmd`: run the actions, checking after each that the worker is still busy -/
def inCmdRun (b : BState) : List (Act × Oracle) → Option BState
  | [] => some b
  | (a, o) :: rest =>
    match stepB b a o with
    | .ok (b', _) => if b'.w.busy then inCmdRun b' rest else none
    | .error _ => none

theorem inCmd_of_run : ∀ (l : List (Act × Oracle)) (b b' : BState), inCmdRun b l = some b' → InCmd b b' := by
  intro l
  induction l with
  | nil =>
    intro b b' h
    simp only [inCmdRun, Option.some.injEq] at h
    subst h
    exact .refl _
  | cons x l ih =>
    intro b b' h
    obtain ⟨a, o⟩ := x
    simp only [inCmdRun] at h
    split at h
    · rename_i b1 o1 hs
      split at h
      · rename_i hb
        have hq := ih b1 b' h
        clear h ih
        induction hq with
        | refl => exact .step (.refl _) hs hb
        | step _ hs2 hb2 ih2 => exact .step ih2 hs2 hb2
      · cases h
    · cases h

/-- `put(1 ↦ 100, weight 3, ttl 50)` is in; client 1's `delete(1)` is sent and the worker has taken it: it stands at
    `store.remove` of `Delete(1)`, handle 1 -/
def ackDelRun : List (Act × Oracle) :=
  call 0 (.putW 1 100 3 (some 50)) 4 ++ workerN 7 ++ call 1 (.delete 1) 3 ++ workerN 1

/-- inside the command, interleaved with the worker's `kw.remove` and `wu.sub`: a whole `get(1)` of client 0 (it
    misses: the key is gone) and a clock move -/
def ackDelMid : List (Act × Oracle) :=
  [(.issue 0 (.get 1), noO), (.client 0, noO), (.client 0, noO), (.worker, noO), (.advance 3, noO), (.worker, noO)]

/-- the hypotheses of `C04_layerB_delete_effect_before_ack` are satisfiable (the answering action is `ttl.delete`) -/
theorem C04_layerB_delete_effect_witness :
    ∃ b0 b1 b b', Reach cfgEx 0 [1, 2, 3, 4] 2 b0 ∧ b0.w = .delStore 1 (some 1) ∧
      stepB b0 .worker noO = .ok (b1, noO) ∧ InCmd b1 b ∧ stepB b .worker noO = .ok (b', noO) ∧
      b'.g.shutting = false ∧ b'.g.acks[1]? = some .accepted ∧ b.g.now = 3 := by
  have hrun : ∃ b0, runB b0Ex ackDelRun = .ok b0 ∧ b0.w = .delStore 1 (some 1) ∧
      ∃ b1, stepB b0 .worker noO = .ok (b1, noO) ∧ ∃ b, inCmdRun b1 ackDelMid = some b ∧
      ∃ b', stepB b .worker noO = .ok (b', noO) ∧ b'.g.shutting = false ∧ b'.g.acks[1]? = some .accepted ∧
        b.g.now = 3 :=
    ⟨_, rfl, rfl, _, rfl, _, rfl, _, rfl, rfl, by decide, rfl⟩
  obtain ⟨b0, hr, hw, b1, h1, b, h2, b', h3, h4, h5, h6⟩ := hrun
  exact ⟨b0, b1, b, b', ack_reach_run hr, hw, h1, inCmd_of_run _ _ _ h2, h3, h4, h5, h6⟩

/-- … in numbers: when the cell is answered the key is absent, id 1 is not charged, the total is 0, the index entry
    `(0, 1)` is gone; the `get(1)` that ran inside the command returned `None`; a following `put(1)` is taken in under a
    new id (2) by admission alone. -/
example :
    (match runB b0Ex (ackDelRun ++ workerN 1 ++ ackDelMid) with
     | .ok b =>
       (match b.res[0]? with | some (Out.value none :: _) => true | _ => false) &&
       (match stepB b .worker noO with
        | .ok (b', _) =>
          decide (b.g.acks = [.accepted, .pending] ∧ b'.g.acks = [.accepted, .accepted] ∧ b'.g.store.get? 1 = none ∧
                  b'.g.adm.kw.get? 1 = none ∧ b'.g.adm.used = 0 ∧ b'.g.ttl.get? (0, 1) = none ∧
                  b.g.ttl.get? (0, 1) = some 50) &&
          (match runB b' (call 0 (.putW 1 111 2 none) 4 ++ workerN 6) with
           | .ok b2 => decide (b2.g.acks = [.accepted, .accepted, .accepted] ∧
                               b2.g.store.get? 1 = some ⟨111, 2, none, false⟩ ∧ b2.g.adm.kw.get? 2 = some ⟨1, 1, 2⟩ ∧
                               b2.g.adm.used = 2)
           | _ => false)
        | _ => false)
     | _ => false) = true := by decide

/-- `delete(7)` of a key that is not there: `Rejected(KeyDoesNotExist)`, nothing changes -/
example :
    (match runB b0Ex (call 0 (.putW 1 100 3 none) 4 ++ workerN 6 ++ call 1 (.delete 7) 3 ++ workerN 1) with
     | .ok b =>
       (match b.w, stepB b .worker noO with
        | .delStore k hh, .ok (b', _) =>
          decide (k = 7 ∧ hh = some 1 ∧ b.g.store.get? 7 = none ∧ b.g.acks[1]? = some .pending ∧
                  b'.g.acks[1]? = some (.rejected .keyDoesNotExist) ∧ b'.g.store = b.g.store ∧
                  b'.g.adm.kw = b.g.adm.kw ∧ b'.g.adm.used = b.g.adm.used ∧ b'.g.ttl = b.g.ttl ∧
                  b'.g.stats = b.g.stats)
        | _, _ => false)
     | _ => false) = true := by decide

/-! ### (3) `UpdateWeight` -/

def ackPutPlain : List (Act × Oracle) := call 0 (.putW 1 100 3 none) 4 ++ workerN 6

/-- `put_or_update(1, weight 5)` of client 1 sends `UpdateWeight(id 1, 5)`; the worker's `kw.update` finds id 1 charged
    with 3: in the answering state it is charged with 5 and the total went from 3 to 5 -/
example :
    (match runB b0Ex (ackPutPlain ++ call 1 (.upsert 1 none (some 5) none false) 4 ++ workerN 1) with
     | .ok b =>
       (match b.w, stepB b .worker noO with
        | .update id w hh, .ok (b', _) =>
          decide (id = 1 ∧ w = 5 ∧ hh = some 1 ∧ b.g.acks[1]? = some .pending ∧ b'.g.acks[1]? = some .accepted ∧
                  b.g.adm.kw.get? 1 = some ⟨1, 1, 3⟩ ∧ b'.g.adm.kw.get? 1 = some ⟨1, 1, 5⟩ ∧ b.g.adm.used = 3 ∧
                  b'.g.adm.used = 5 ∧ b'.g.store = b.g.store)
        | _, _ => false)
     | _ => false) = true := by decide

/-- **the `Accepted` no-op** (O6 / D14): client 0's `put_or_update(1, weight 5)` is pre-empted just before its send;
    client 1's `delete(1)` is sent first, then the `UpdateWeight`; the worker executes the `Delete` (accepted), then the
    `UpdateWeight`: id 1 is not charged any more, the command changes nothing and is answered `Accepted` -/
example :
    (match runB b0Ex (ackPutPlain ++ call 0 (.upsert 1 none (some 5) none false) 3 ++ call 1 (.delete 1) 3 ++
        [(.client 0, noO)] ++ workerN 5) with
     | .ok b =>
       (match b.w, stepB b .worker noO with
        | .update id w hh, .ok (b', _) =>
          decide (id = 1 ∧ w = 5 ∧ hh = some 2 ∧ b.g.acks = [.accepted, .accepted, .pending] ∧
                  b'.g.acks = [.accepted, .accepted, .accepted] ∧ b.g.adm.kw.get? 1 = none ∧
                  b'.g.adm.kw = b.g.adm.kw ∧ b'.g.adm.used = b.g.adm.used ∧ b'.g.adm.used = 0 ∧
                  b'.g.store = b.g.store ∧ b'.g.stats = b.g.stats)
        | _, _ => false)
     | _ => false) = true := by decide

/-! ### (4) acknowledgements answered on the spot -/

/-- `put(1)` of a present key: `Rejected(KeyAlreadyExists)` on the spot, the key present in that very state, no id
    drawn, nothing sent -/
example :
    (match runB b0Ex (ackPutPlain ++ call 1 (.putW 1 7 2 none) 1) with
     | .ok b =>
       (match b.cl[1]?, stepB b (.client 1) noO with
        | some (CPc.putPresent k _ _ _), .ok (b', _) =>
          decide (k = 1 ∧ b'.g.acks.length = b.g.acks.length + 1 ∧
                  b'.g.acks = b.g.acks ++ [.rejected .keyAlreadyExists] ∧
                  b'.g.store.get? 1 = some ⟨100, 1, none, false⟩ ∧ b'.g.store = b.g.store ∧
                  b'.g.adm.kw = b.g.adm.kw ∧ b'.g.queue = b.g.queue ∧ b'.g.nextId = b.g.nextId)
        | _, _ => false)
     | _ => false) = true := by decide

/-- `put_or_update(1, ttl 5)` — no weight, no value — on a key stored with deadline 50: the deadline is rewritten by
    `upsert.update`, the index by `ttl.update.remove` / `ttl.update.insert`, and the last of them answers `Accepted` on
    the spot: no weight is due, nothing is sent, the ledger is untouched -/
example :
    (match runB b0Ex (call 0 (.putW 1 100 3 (some 50)) 4 ++ workerN 7 ++ call 1 (.upsert 1 none none (some 5) false) 4) with
     | .ok b =>
       (match b.cl[1]?, stepB b (.client 1) noO with
        | some (CPc.upTtlInsert id e uw), .ok (b', _) =>
          decide (id = 1 ∧ e = 5 ∧ uw = none ∧ b'.g.acks = b.g.acks ++ [.accepted] ∧
                  b'.g.store.get? 1 = some ⟨100, 1, some 5, false⟩ ∧ b'.g.store = b.g.store ∧
                  b'.g.adm.kw = b.g.adm.kw ∧ b'.g.adm.used = b.g.adm.used ∧ b'.g.queue = b.g.queue ∧
                  b'.g.ttl.get? (0, 1) = some 5)
        | _, _ => false)
     | _ => false) = true := by decide

/-- after `shutdown()` has set the flag: `put` returns `Err`, no cell is created -/
example :
    (match runB b0Ex (call 1 .shutdown 2 ++ [(.issue 0 (.putW 1 7 2 none), noO)]) with
     | .ok b =>
       (match stepB b (.client 0) noO with
        | .ok (b', _) =>
          decide (b.g.shutting = true ∧ b'.g.acks = b.g.acks ∧ b'.g.queue = b.g.queue ∧ b'.g.store = b.g.store) &&
          (match b'.res[0]? with | some (Out.err :: _) => true | _ => false)
        | _ => false)
     | _ => false) = true := by decide

/-! ### (5) a run of the composed system -/

/-- one step of a composed run -/
inductive CAct where
  | layer (a : Act) (o : Oracle)
  | answer (o : Oracle)
  | cell (a : AckB.Act)

/-- an executable check of `AckRun` -/
def ackRunCheck (h : Nat) (D : BState → Act → Bool) : BState × AckB.St → List CAct → Option (BState × AckB.St)
  | x, [] => some x
  | (b, s), .layer a o :: rest =>
    (match stepB b a o with
     | .ok (b', _) => if D b a = false ∧ b'.g.acks[h]? = b.g.acks[h]? then ackRunCheck h D (b', s) rest else none
     | .error _ => none)
  | (b, s), .answer o :: rest =>
    (match stepB b .worker o, AckB.step s .setStatus with
     | .ok (b', _), some s' =>
       if D b .worker = false ∧ b.g.acks[h]? = some .pending ∧ b'.g.acks[h]? = some s.final ∧ s.final ≠ .pending then
         ackRunCheck h D (b', s') rest
       else none
     | _, _ => none)
  | (b, s), .cell a :: rest =>
    (match AckB.step s a with
     | some s' => if a ≠ .setStatus then ackRunCheck h D (b, s') rest else none
     | none => none)

theorem AckRun.trans {h : Nat} {D : BState → Act → Bool} {x y z : BState × AckB.St} (h1 : AckRun h D x y)
    (h2 : AckRun h D y z) : AckRun h D x z := by
  induction h2 with
  | refl => exact h1
  | layer _ hs hd hsame ih => exact .layer ih hs hd hsame
  | answer _ hs hd hp hst hne hf hstep ih => exact .answer ih hs hd hp hst hne hf hstep
  | cell _ ha hstep ih => exact .cell ih ha hstep

theorem ackRun_of_check {h : Nat} {D : BState → Act → Bool} : ∀ (l : List CAct) (x y : BState × AckB.St),
    ackRunCheck h D x l = some y → AckRun h D x y := by
  intro l
  induction l with
  | nil =>
    intro x y hc
    simp only [ackRunCheck, Option.some.injEq] at hc
    subst hc
    exact .refl _
  | cons a l ih =>
    intro x y hc
    obtain ⟨b, s⟩ := x
    cases a with
    | layer a o =>
      simp only [ackRunCheck] at hc
      split at hc
      · rename_i b' o' hs
        split at hc
        · rename_i hcond
          exact (AckRun.layer (.refl _) hs hcond.1 hcond.2).trans (ih _ _ hc)
        · cases hc
      · cases hc
    | answer o =>
      simp only [ackRunCheck] at hc
      split at hc
      · rename_i b' o' s' hs hstep
        split at hc
        · rename_i hcond
          exact (AckRun.answer (.refl _) hs hcond.1 hcond.2.1 hcond.2.2.1 hcond.2.2.2 rfl hstep).trans (ih _ _ hc)
        · cases hc
      · cases hc
    | cell a =>
      simp only [ackRunCheck] at hc
      split at hc
      · rename_i s' hstep
        split at hc
        · rename_i hne
          exact (AckRun.cell (.refl _) hne hstep).trans (ih _ _ hc)
        · cases hc
      · cases hc

/-- The worker has taken `put(1 ↦ 100, weight 3)` (handle 0).  Composed run: poller 0 polls early (registers waker 7,
    sees no flag: `Pending`); the worker runs the put while client 1 reads the key in between; its `store.put` answers
    the cell — the slice's `setStatus` — ; `setFlag`; the poller polls again and gets `Ready(Accepted)`; the worker's
    `wake`; meanwhile client 1's second `get(1)` is under way. -/
def ackComposed : List CAct :=
  [.cell (.lockRegister 0 7), .cell (.loadFlag 0),
   .layer .worker noO, .layer (.issue 1 (.get 1)) noO, .layer .worker noO, .layer (.client 1) noO,
   .layer .worker noO, .layer (.client 1) noO, .layer .worker noO,
   .answer noO,
   .cell .setFlag, .cell (.lockRegister 0 7), .layer (.issue 1 (.get 1)) noO, .cell (.loadFlag 0),
   .layer (.client 1) noO, .cell (.finishPoll 0), .cell .wake, .layer (.client 1) noO]

/-- the hypotheses of `C12_layerB_ready_accepted_implies_effect` are satisfiable: a composed run in which a poll has
    returned `Ready(Accepted)` (after an earlier `Pending`), and the effect clause holds in the Layer B state reached -/
theorem C12_layerB_ready_accepted_witness :
    ∃ b0 b s q, Reach cfgEx 0 [1, 2, 3, 4] 2 b0 ∧ b0.w = cmdFirstPos (.put 1 1 3 1 100) 0 ∧
      AckRun 0 (cmdDisturbs (.put 1 1 3 1 100) 0) (b0, AckB.init .accepted 1) (b, s) ∧ b.g.shutting = false ∧
      q ∈ s.pollers ∧ q.results = [.ready .accepted, .pending] ∧ s.wakes = [7] ∧
      CmdEffect (.put 1 1 3 1 100) 0 b := by
  have hrun : ∃ b0, runB b0Ex (call 0 (.putW 1 100 3 none) 4 ++ workerN 1) = .ok b0 ∧
      b0.w = cmdFirstPos (.put 1 1 3 1 100) 0 ∧
      ∃ b s, ackRunCheck 0 (cmdDisturbs (.put 1 1 3 1 100) 0) (b0, AckB.init .accepted 1) ackComposed = some (b, s) ∧
        b.g.shutting = false ∧ s.pollers = [⟨.idle, 7, [.ready .accepted, .pending]⟩] ∧ s.wakes = [7] :=
    ⟨_, rfl, rfl, _, _, rfl, rfl, by decide, by decide⟩
  obtain ⟨b0, hr, hw, b, s, hc, h1, h2, h3⟩ := hrun
  have hrun' := ackRun_of_check _ _ _ hc
  have hq : (⟨.idle, 7, [.ready .accepted, .pending]⟩ : AckB.Poller) ∈ s.pollers := by rw [h2]; simp
  exact ⟨b0, b, s, _, ack_reach_run hr, hw, hrun', h1, hq, rfl, h3,
    (C12_layerB_ready_accepted_implies_effect (ack_reach_run hr) hw (by simp) ⟨[], rfl⟩ rfl hrun' h1 hq
      (by simp)).2.2⟩

/-! ### the interface theorem: the effect stays in place -/

/-- an executable check of `LRun` -/
def lRunCheck (D : BState → Act → Bool) (b : BState) : List (Act × Oracle) → Option BState
  | [] => some b
  | (a, o) :: rest =>
    match stepB b a o with
    | .ok (b', _) => if D b a then none else lRunCheck D b' rest
    | .error _ => none

theorem LRun.trans {D : BState → Act → Bool} {b b1 b2 : BState} (h1 : LRun D b b1) (h2 : LRun D b1 b2) : LRun D b b2 := by
  induction h2 with
  | refl => exact h1
  | step _ hs hd ih => exact .step ih hs hd

theorem lRun_of_check {D : BState → Act → Bool} : ∀ (l : List (Act × Oracle)) (b b' : BState),
    lRunCheck D b l = some b' → LRun D b b' := by
  intro l
  induction l with
  | nil =>
    intro b b' h
    simp only [lRunCheck, Option.some.injEq] at h
    subst h
    exact .refl _
  | cons x l ih =>
    intro b b' h
    obtain ⟨a, o⟩ := x
    simp only [lRunCheck] at h
    split at h
    · rename_i b1 o1 hs
      split at h
      · cases h
      · rename_i hd
        exact (LRun.step (.refl _) hs (by simpa using hd)).trans (ih _ _ h)
    · cases h

/-- after the answer: `put(2)` of client 1 is sent, taken and stored, client 0 reads key 1, the sweeper ticks, the clock
    moves — none of it aimed at key 1 / id 1 -/
def ackAfter : List (Act × Oracle) :=
  workerN 5 ++ call 1 (.putW 2 200 4 none) 4 ++ workerN 6 ++
  [(.issue 0 (.get 1), noO), (.client 0, noO), (.client 0, noO), (.client 0, { pool := [0] }),
   (.sweeper none, noO), (.sweeper none, noO), (.advance 9, noO)]

/-- the hypotheses of `C12_layerB_answered_accepted_implies_effect` are satisfiable: from the take of `put(1)`, through
    the whole command and a good deal of traffic afterwards, the cell holds `Accepted` and the effect is still in place -/
theorem C12_layerB_answered_accepted_witness :
    ∃ b0 b, Reach cfgEx 0 [1, 2, 3, 4] 2 b0 ∧ b0.w = cmdFirstPos (.put 1 1 3 1 100) 0 ∧
      LRun (cmdDisturbs (.put 1 1 3 1 100) 0) b0 b ∧ b.g.shutting = false ∧ b.g.acks[0]? = some .accepted ∧
      b.g.acks.length = 2 ∧ b.g.now = 9 ∧ CmdEffect (.put 1 1 3 1 100) 0 b := by
  have hrun : ∃ b0, runB b0Ex (call 0 (.putW 1 100 3 none) 4 ++ workerN 1) = .ok b0 ∧
      b0.w = cmdFirstPos (.put 1 1 3 1 100) 0 ∧
      ∃ b, lRunCheck (cmdDisturbs (.put 1 1 3 1 100) 0) b0 ackAfter = some b ∧ b.g.shutting = false ∧
        b.g.acks[0]? = some .accepted ∧ b.g.acks.length = 2 ∧ b.g.now = 9 :=
    ⟨_, rfl, rfl, _, rfl, rfl, by decide, by decide, rfl⟩
  obtain ⟨b0, hr, hw, b, hc, h1, h2, h3, h4⟩ := hrun
  have hl := lRun_of_check _ _ _ hc
  exact ⟨b0, b, ack_reach_run hr, hw, hl, h1, h2, h3, h4,
    C12_layerB_answered_accepted_implies_effect (ack_reach_run hr) hw (by simp) hl h1 h2⟩

/-- … and the hypothesis "no action aimed at the key / the key id" cannot be dropped: after the same put, `delete(1)` of
    client 1 (its `delete.mark` is aimed at key 1) — the cell still holds `Accepted`, the entry is soft-deleted -/
example :
    (match runB b0Ex (call 0 (.putW 1 100 3 none) 4 ++ workerN 6 ++ call 1 (.delete 1) 1) with
     | .ok b =>
       (match stepB b (.client 1) noO with
        | .ok (b', _) =>
          cmdDisturbs (.put 1 1 3 1 100) 0 b (.client 1) &&
          decide (b'.g.acks[0]? = some .accepted ∧ b'.g.store.get? 1 = some ⟨100, 1, none, true⟩)
        | _ => false)
     | _ => false) = true := by decide

end B
end Cached
