import CachedProofs.LayerB.AckEffectLemmas
import CachedProofs.Properties.C12

namespace Cached
namespace B

/-! ## 1  the invariant `AckInv`: what the worker's locals say about the state between `kw.insert` and the answer -/

/-- Between `wu.add` and the answer of a put `c` (positions `store.put`, `ttl.put`):
    * at `store.put` (running cache) the id is charged with exactly the command's key, hash and weight;
    * at `ttl.put` the command carries a time-to-live, the entry stored under `c.k` — if any — carries the id `c.id`,
      and (running cache) the charge of `c.id` — if any — is the command's. -/
structure AckInv (b : BState) : Prop where
  putCharged : b.g.shutting = false → ∀ c, b.w = .storePut c →
    b.g.adm.kw.get? c.id = some { key := c.k, hash := c.hash, weight := c.w }
  ttlPutTtl : ∀ c e, b.w = .ttlPut c e → ∃ t, c.ttl = some t
  ttlPutStore : ∀ c e, b.w = .ttlPut c e → ∀ ent, b.g.store.get? c.k = some ent → ent.id = c.id
  ttlPutCharge : b.g.shutting = false → ∀ c e, b.w = .ttlPut c e → ∀ wk, b.g.adm.kw.get? c.id = some wk →
    wk = { key := c.k, hash := c.hash, weight := c.w }

theorem ack_wtrans_to_storePut {b b' : BState} (h : WTrans b b') {c : PutCmd} (hc : b'.w = .storePut c) :
    b.w = .add c ∧ b'.g.adm.kw = b.g.adm.kw := by
  cases h
  case add c' hw _ => simp only [WPc.storePut.injEq] at hc; subst hc; exact ⟨hw, rfl⟩
  all_goals simp [finishCmd, rejectCmd] at hc

theorem ack_wtrans_to_ttlPut {b b' : BState} (h : WTrans b b') {c : PutCmd} {e : Nat} (hc : b'.w = .ttlPut c e) :
    b.w = .storePut c ∧ (∃ t, c.ttl = some t) ∧ b'.g.adm = b.g.adm ∧
    b'.g.store = b.g.store.set c.k { value := c.v, id := c.id, expiry := some e, soft := false } := by
  cases h
  case storePutTtl c' t e' hw ht _ =>
    simp only [WPc.ttlPut.injEq] at hc; obtain ⟨rfl, rfl⟩ := hc; exact ⟨hw, ⟨t, ht⟩, rfl, rfl⟩
  all_goals simp [finishCmd, rejectCmd] at hc

/-- a fresh id (the id of a put on its way) is nobody's handle into the ledger: no thread but the worker reaches into
    `kw` at it -/
theorem ack_fresh_not_kwTouched {b : BState} (hb : BInv b) {f : Nat} (hf : 0 < occ b f) {a : Act} (ha : a ≠ .worker) :
    kwTouches f b a = false := by
  cases a with
  | worker => exact absurd rfl ha
  | sweeper v =>
    cases hsw : b.sw with
    | kwRemove now sh rest id' =>
      simp only [kwTouches, hsw]
      cases hid : id' == f with
      | false => rfl
      | true =>
        have hid' : id' = f := by simpa using hid
        have hu : f ∈ usedIds b := by
          rw [mem_usedIds]; right; right; left
          rw [hsw, ← hid']; simp [SPc.ids]
        have := (hb.freshIds.2.2.2.2.1 f hu).1
        omega
    | _ => simp [kwTouches, hsw]
  | _ => rfl

theorem ackInv_init (cfg : Cfg) (now : Nat) (seeds : List Nat) (clients : Nat) (sm : List (Nat × Nat)) :
    AckInv { BState.init cfg now seeds clients with storeShard := sm } := by
  constructor <;> intros <;> simp_all [BState.init]

theorem ackInv_step {b b' : BState} {a : Act} {o o' : Oracle} (hb : BInv b) (hwa : WAbsent b) (hi : AckInv b)
    (h : stepB b a o = .ok (b', o')) : AckInv b' := by
  by_cases ha : a = .worker
  · subst ha
    have ht := workerAct_trans (ack_stepB_worker h)
    have hsh := wtrans_shutting ht
    constructor
    · intro hrun c hc
      obtain ⟨hw, hkw⟩ := ack_wtrans_to_storePut ht hc
      rw [hkw]
      exact ((hb.acct (hsh ▸ hrun)).addCharged c hw)
    · intro c e hc
      exact (ack_wtrans_to_ttlPut ht hc).2.1
    · intro c e hc ent he
      obtain ⟨_, _, _, hst⟩ := ack_wtrans_to_ttlPut ht hc
      rw [hst, AMap.get?_set_same] at he
      cases he; rfl
    · intro hrun c e hc wk hg
      obtain ⟨hw, _, hadm, _⟩ := ack_wtrans_to_ttlPut ht hc
      rw [hadm, hi.putCharged (hsh ▸ hrun) c hw] at hg
      cases hg; rfl
  · have hw := ent_stepB_w_other h ha
    constructor
    · intro hrun c hc
      rw [hw] at hc
      have hrun0 := stepB_running_before h hrun
      have hocc : 0 < occ b c.id := by simp [occ, hc, WPc.freshId?]
      rw [ack_kw_quiet_step hb hrun0 h (ack_fresh_not_kwTouched hb hocc ha)]
      exact hi.putCharged hrun0 c hc
    · intro c e hc
      rw [hw] at hc
      exact hi.ttlPutTtl c e hc
    · intro c e hc ent he
      rw [hw] at hc
      cases hk : b.g.store.get? c.k with
      | none => exact absurd (C07_layerB_only_worker_creates h hk he).1 ha
      | some e0 => rw [C07_layerB_id_never_replaced hwa h hk he]; exact hi.ttlPutStore c e hc e0 hk
    · intro hrun c e hc wk hg
      rw [hw] at hc
      have hrun0 := stepB_running_before h hrun
      exact hi.ttlPutCharge hrun0 c e hc wk (ack_kw_no_new hb hrun0 h ha hg)

/-- `AckInv` holds at every state of every interleaving. -/
theorem ackInv_reach {cfg : Cfg} {now : Nat} {seeds : List Nat} {clients : Nat} {b : BState}
    (h : Reach cfg now seeds clients b) : AckInv b := by
  induction h with
  | init sm => exact ackInv_init _ _ _ _ sm
  | step hr hs ih => exact ackInv_step (binv_reach hr) (wabsent_reach hr) ih hs

end B
end Cached
