/-
  C12 / C13 at ACTION granularity (Layer B, `CachedModel/LayerB.lean`): QUIESCENCE AND ACKNOWLEDGEMENTS.

  The termination theorem `C18_layerB_every_call_returns` (Terminates.lean) is silent about acknowledgements:
  `Quiescent` allows a dead worker and never mentions `acks`.  This file connects the two:
  "every acknowledgement eventually completes" (C12) and "no caller waits for ever" (C13) hold at the end of every
  maximal internal run — UNLESS THE WORKER HAS DIED, and that exception is real (the known findings that kill the
  worker: D10's space overflow, the TTL overflow at `store.put`, the `UpdateWeight` overflow).

  Invariants (lemmas in `AcksResolvedLemmas.lean`; all proved for every reachable state of every interleaving)
    * `ar_PInv`     while the worker lives, a pending cell is the cell of a queued command or of the command in hand
                    (the converse of `HInv.queued` / `HInv.held` of Order.lean)
    * `ar_CA`       one client action: no new cell / one new RESOLVED cell (`Rejected(KeyAlreadyExists)` of a put,
                    `Accepted` of a `put_or_update` that owes no weight) / one new pending cell WITH its queue entry, and
                    only while the receiver is alive  (`CStep.spot` of Order.lean does not record the status)
    * `ar_ShutInv`  flag set → the winner of the CAS stands before its `cmd.send`, or `Shutdown` is queued, or the worker
                    stands at `worker.drain`, or it is dead

  Theorems
    1  `C12_layerB_pending_iff`                  worker alive: cell `h` pending ↔ `h` queued or in hand
       `C12_layerB_pending_is_queued_or_in_hand`
       `C12_layerB_pending_after_death`          worker dead: pending cells = what was queued / in hand when it died
       `C12_layerB_dead_worker_pending_forever`  … and they stay pending along every run
    2  `C12_layerB_idle_worker_acks_resolved`    worker at `recv` / `drain`, queue empty → no cell pending
       `C12_layerB_quiescent_acks_resolved`      Reach, Quiescent, `b.w ≠ .dead` → every cell resolved
       (`'`: with `b.g.worker ≠ .dead`; `C12_layerB_quiescent_every_cell_resolved`: for every index of `acks`)
    3  `C12_layerB_ack_stable`                   along every run: cells are not removed, resolved cells do not change
       `C12_layerB_every_ack_resolves`           the run-level statement, under the hypotheses of
                                                 `C18_layerB_every_call_returns`
    4  `C13_layerB_draining_worker_answers_all`  from `worker.drain` on (the worker cannot die there): every maximal run
                                                 ends with all cells resolved, the pending ones with `ShuttingDown`
       `C13_layerB_shutdown_command_on_its_way`, `C13_layerB_quiescent_after_shutdown`,
       `C13_layerB_after_shutdown_every_ack_resolves`
                                                 flag set + quiescent + worker not dead → worker at `worker.drain`,
                                                 all cells resolved
    5  `C12_layerB_closed_acks_resolve`          with `C17_layerB_closed`: under the closed hypotheses on the inputs the
                                                 worker is alive, so quiescent → all resolved
    6  witnesses: `C12_layerB_two_puts_witness` (two queued puts, `[Pending, Pending]` → `[Accepted, Accepted]`),
       `C12_layerB_ack_pending_forever_needs_dead_worker` (the counterexample, below)
    7  `C18_layerB_issue_raises_mu_boundedly`, `C18_layerB_tick_raises_mu_boundedly` (exact increments of `mu`),
       `C18_layerB_every_request_returns_within` (any request: back at `.idle` within `tm_own pc` own actions)

  Hypotheses: reachability; for the run-level statements those of `C18_layerB_every_call_returns` (`seeds ≠ []`,
  `0 < cmdCap`, `0 < bufChanCap`, `0 < poolSize`); and "the worker is not dead" (`b.w ≠ .dead`, equivalently
  `b.g.worker ≠ .dead`: `deadW_reach`).

  The counterexample (not a new finding — the consequence of D10, `C17_layerB_closed_needs_NoSpaceOverflow`): after
  `spaceOverflowRun ++ [consumer]` from `c17BBig 2` the state is `Quiescent`, the worker is dead and
  `acks = [Accepted, Accepted, Pending]`; the third cell stays pending along every run.

  About `Quiescent`'s clause "`queue = [] ∨ b.w.exited`": `WPc.exited` is true of `.dead` only.  The model has no
  position "exited after draining": after `Shutdown` the worker stands at `worker.drain` for good and answers every
  later command `ShuttingDown` (`sendAct` refuses only when `g.worker = .dead`).  So no path leaves a queued command
  unanswered with a live worker.  (This is the crate's behaviour as recorded in DESIGN.md, seeded change C12e: after
  `shutdown()` has returned the worker is still alive, blocked at its queue.)
-/
import CachedProofs.LayerB.AcksResolvedLemmas

namespace Cached
namespace B

/-! ## 1  which cells are pending -/

/-- **C12 — the pending cells of a living worker are exactly the cells of the commands under way.**  At every
    reachable state in which the worker's thread has not died, the cell `h` is pending IF AND ONLY IF `h` is the handle
    of a command waiting in the queue or the handle of the command the worker has in hand (`→`: `ar_PInv`, this file's
    invariant; `←`: `HInv` of Order.lean). -/
theorem C12_layerB_pending_iff {cfg : Cfg} {now : Nat} {seeds : List Nat} {clients : Nat} {b : BState}
    (hr : Reach cfg now seeds clients b) (hd : b.w ≠ .dead) (h : Nat) :
    b.g.acks[h]? = some .pending ↔ (h ∈ qHandles b.g.queue ∨ b.w.held = some h) := by
  constructor
  · exact ar_pinv_reach hr hd h
  · rintro (hm | hm)
    · exact (hinv_reach hr).queued h hm
    · exact ((hinv_reach hr).held h hm).1

/-- the same, spelled out: a pending cell belongs to a command that is in the queue, or to the one command the worker
    is in the middle of -/
theorem C12_layerB_pending_is_queued_or_in_hand {cfg : Cfg} {now : Nat} {seeds : List Nat} {clients : Nat}
    {b : BState} (hr : Reach cfg now seeds clients b) (hd : b.w ≠ .dead) {h : Nat}
    (hp : b.g.acks[h]? = some .pending) :
    (∃ cmd, (cmd, some h) ∈ b.g.queue) ∨ (b.w.busy = true ∧ b.w.held = some h) := by
  rcases (C12_layerB_pending_iff hr hd h).mp hp with hm | hm
  · exact Or.inl (mem_qHandles.mp hm)
  · refine Or.inr ⟨?_, hm⟩
    cases hw : b.w <;> simp [hw, WPc.held] at hm <;> rfl

/-- **… and the pending cells of a DEAD worker are the cells of the commands that were under way when it died.**
    At every reachable state in which the worker is dead there is an earlier reachable state `b0` with a living, busy
    worker and a worker action from `b0` in which it died, such that the cells pending NOW are exactly the handles
    that were queued at `b0` or in the worker's hand at `b0`: the panic answers nothing, drops the queue, and from
    then on no cell is created pending and no pending cell is answered. -/
theorem C12_layerB_pending_after_death {cfg : Cfg} {now : Nat} {seeds : List Nat} {clients : Nat} {b : BState}
    (hr : Reach cfg now seeds clients b) (hd : b.w = .dead) :
    ∃ (b0 b1 : BState) (o o' : Oracle), Reach cfg now seeds clients b0 ∧ b0.w.busy = true ∧
      stepB b0 .worker o = .ok (b1, o') ∧ b1.w = .dead ∧ b1.g.queue = [] ∧
      ∀ h, b.g.acks[h]? = some .pending ↔ (h ∈ qHandles b0.g.queue ∨ b0.w.held = some h) := by
  induction hr with
  | init sm => simp [BState.init] at hd
  | @step b b' a o o' hr hs ih =>
    by_cases hd0 : b.w = .dead
    · obtain ⟨b0, b1, o0, o1, h1, h2, h3, h4, h5, h6⟩ := ih hd0
      refine ⟨b0, b1, o0, o1, h1, h2, h3, h4, h5, fun h => ?_⟩
      rw [ar_dead_frozen (deadW_reach hr) hd0 hs h]
      exact h6 h
    · obtain ⟨ha, hb, hq', _, hx⟩ := ar_death (hinv_reach hr) (ar_pinv_reach hr) hd0 hd hs
      subst ha
      exact ⟨b, b', o, o', hr, hb, hs, hd, hq', hx⟩

/-- **Once the worker is dead the pending cells are frozen** — along every run (any actions, any oracles): the worker
    stays dead, no cell becomes pending, no pending cell is answered.  A caller that waits for such a cell waits for
    ever. -/
theorem C12_layerB_dead_worker_pending_forever {cfg : Cfg} {now : Nat} {seeds : List Nat} {clients : Nat} :
    ∀ (l : List (Act × Oracle)) {b b' : BState}, Reach cfg now seeds clients b → b.w = .dead → runB b l = .ok b' →
      b'.w = .dead ∧ ∀ h : Nat, b'.g.acks[h]? = some Status.pending ↔ b.g.acks[h]? = some Status.pending := by
  intro l
  induction l with
  | nil =>
    intro b b' _ hd h
    simp only [runB, Except.ok.injEq] at h; subst h
    exact ⟨hd, fun _ => Iff.rfl⟩
  | cons x l ih =>
    intro b b' hr hd h
    obtain ⟨a, o⟩ := x
    simp only [runB] at h
    split at h
    · rename_i b1 o1 hs
      obtain ⟨h1, h2⟩ := ih (.step hr hs) (dead_step hs hd) h
      exact ⟨h1, fun x => (h2 x).trans (ar_dead_frozen (deadW_reach hr) hd hs x)⟩
    · cases h

/-! ## 2  a worker at rest with an empty queue: every acknowledgement is resolved -/

/-- the core: the worker stands between two commands (`worker.recv` or `worker.drain`) and the queue is empty — then
    no cell is pending (no client needs to be idle for this) -/
theorem C12_layerB_idle_worker_acks_resolved {cfg : Cfg} {now : Nat} {seeds : List Nat} {clients : Nat} {b : BState}
    (hr : Reach cfg now seeds clients b) (hq : b.g.queue = []) (hw : b.w = .recv ∨ b.w = .drain) :
    ∀ (h : Nat) (st : Status), b.g.acks[h]? = some st → st ≠ .pending := by
  intro h st hs e
  subst e
  have hd : b.w ≠ .dead := by rcases hw with e | e <;> rw [e] <;> simp
  rcases (C12_layerB_pending_iff hr hd h).mp hs with hm | hm
  · rw [hq] at hm; simp [qHandles] at hm
  · rcases hw with e | e <;> rw [e] at hm <;> cases hm

/-- **C12 — AT QUIESCENCE EVERY ACKNOWLEDGEMENT IS RESOLVED, unless the worker has died.**  At a reachable quiescent
    state whose worker thread is not dead, no cell of `acks` is pending: every acknowledgement ever handed out (by a
    send or on the spot) holds its final status.
    (`Quiescent` allows a non-empty queue only when `b.w.exited`, and `WPc.exited` is true of `.dead` ONLY: the model
    has no "exited after draining" position — a worker that has taken `Shutdown` stands at `worker.drain` for good and
    answers whatever still arrives `ShuttingDown`.  So there is no live-but-exited worker that leaves a queued command
    unanswered; the one exception is the dead worker: `C12_layerB_ack_pending_forever_needs_dead_worker`.) -/
theorem C12_layerB_quiescent_acks_resolved {cfg : Cfg} {now : Nat} {seeds : List Nat} {clients : Nat} {b : BState}
    (hr : Reach cfg now seeds clients b) (hq : Quiescent b) (hd : b.w ≠ .dead) :
    ∀ (h : Nat) (st : Status), b.g.acks[h]? = some st → st ≠ .pending := by
  obtain ⟨_, h2, _, h4, _⟩ := hq
  have hq0 : b.g.queue = [] := by
    rcases h2 with e | e
    · exact e
    · exfalso; cases hw : b.w <;> simp [hw, WPc.exited] at e hd
  have hw : b.w = .recv ∨ b.w = .drain := by
    cases hw : b.w <;> simp [hw, WPc.atRest] at h4 hd ⊢
  exact C12_layerB_idle_worker_acks_resolved hr hq0 hw

/-- the same with the hypothesis on the mode the SENDERS see (`b.g.worker`, what `cmd.send` tests) -/
theorem C12_layerB_quiescent_acks_resolved' {cfg : Cfg} {now : Nat} {seeds : List Nat} {clients : Nat} {b : BState}
    (hr : Reach cfg now seeds clients b) (hq : Quiescent b) (hd : b.g.worker ≠ .dead) :
    ∀ (h : Nat) (st : Status), b.g.acks[h]? = some st → st ≠ .pending :=
  C12_layerB_quiescent_acks_resolved hr hq (fun e => hd ((deadW_reach hr).mpr e))

/-- … in the form "every index of `acks` holds a resolved status" -/
theorem C12_layerB_quiescent_every_cell_resolved {cfg : Cfg} {now : Nat} {seeds : List Nat} {clients : Nat}
    {b : BState} (hr : Reach cfg now seeds clients b) (hq : Quiescent b) (hd : b.w ≠ .dead) :
    ∀ h, h < b.g.acks.length → ∃ st, b.g.acks[h]? = some st ∧ st ≠ .pending := by
  intro h hlt
  refine ⟨b.g.acks[h], List.getElem?_eq_getElem hlt, ?_⟩
  exact C12_layerB_quiescent_acks_resolved hr hq hd h _ (List.getElem?_eq_getElem hlt)

/-! ## 3  run level -/

/-- **Acknowledgement stability along a run**: cells are never removed, and a cell that holds an answer keeps it —
    along every run (any actions of any threads, `shutdown()` included, any oracles) from a reachable state.
    (The per-action statement is `C11_layerB_acks_grow` of Order.lean.) -/
theorem C12_layerB_ack_stable {cfg : Cfg} {now : Nat} {seeds : List Nat} {clients : Nat} :
    ∀ (l : List (Act × Oracle)) {b b' : BState}, Reach cfg now seeds clients b → runB b l = .ok b' →
      b.g.acks.length ≤ b'.g.acks.length ∧
      ∀ (h : Nat) (st : Status), b.g.acks[h]? = some st → st ≠ .pending → b'.g.acks[h]? = some st := by
  intro l
  induction l with
  | nil =>
    intro b b' _ h
    simp only [runB, Except.ok.injEq] at h; subst h
    exact ⟨Nat.le_refl _, fun _ _ hs _ => hs⟩
  | cons x l ih =>
    intro b b' hr h
    obtain ⟨a, o⟩ := x
    simp only [runB] at h
    split at h
    · rename_i b1 o1 hs
      obtain ⟨h1, h2⟩ := C11_layerB_acks_grow_reach hr hs
      obtain ⟨h3, h4⟩ := ih (.step hr hs) h
      exact ⟨Nat.le_trans h1 h3, fun x st hx hne => h4 x st (h2 x st hx hne) hne⟩
    · cases h

/-- **C12 — EVERY ACKNOWLEDGEMENT RESOLVES** (run level; the hypotheses are those of `C18_layerB_every_call_returns`).
    From every reachable state `b`, every maximal internal run (`InternalRun b l b'`, `InternalStuck b'`) has at most
    `mu b` actions, ends quiescent, and
      * if the worker is not dead at the end, EVERY cell of `acks` — every acknowledgement handed out before or during
        the run — is resolved at the end; in particular every cell that was pending at `b`;
      * along the run no cell is removed and no resolved cell changes (with or without a dead worker);
      * if the worker IS dead at the end, the cells still pending are exactly the handles of the commands that were
        queued or in hand in the action in which it died (`C12_layerB_pending_after_death`). -/
theorem C12_layerB_every_ack_resolves {cfg : Cfg} {now : Nat} {seeds : List Nat} {clients : Nat} {b b' : BState}
    {l : List (Act × Oracle)} (hseeds : seeds ≠ []) (hcmd : 0 < cfg.cmdCap) (hbuf : 0 < cfg.bufChanCap)
    (hpool : 0 < cfg.poolSize) (hr : Reach cfg now seeds clients b) (hrun : InternalRun b l b')
    (hmax : InternalStuck b') :
    l.length ≤ mu b ∧ Quiescent b' ∧
    (b'.w ≠ .dead → ∀ h, h < b'.g.acks.length → ∃ st, b'.g.acks[h]? = some st ∧ st ≠ .pending) ∧
    (b'.w ≠ .dead → ∀ h : Nat, b.g.acks[h]? = some .pending → ∃ st, b'.g.acks[h]? = some st ∧ st ≠ .pending) ∧
    (b.g.acks.length ≤ b'.g.acks.length ∧
      ∀ (h : Nat) (st : Status), b.g.acks[h]? = some st → st ≠ .pending → b'.g.acks[h]? = some st) ∧
    (b'.w = .dead → ∃ (b0 b1 : BState) (o o' : Oracle), Reach cfg now seeds clients b0 ∧ b0.w.busy = true ∧
      stepB b0 .worker o = .ok (b1, o') ∧ b1.w = .dead ∧ b1.g.queue = [] ∧
      ∀ h, b'.g.acks[h]? = some .pending ↔ (h ∈ qHandles b0.g.queue ∨ b0.w.held = some h)) := by
  obtain ⟨hlen, hq, _⟩ := C18_layerB_every_call_returns hseeds hcmd hbuf hpool hr hrun hmax
  have hr' := hrun.reach hr
  have hst := C12_layerB_ack_stable l hr hrun.runB
  refine ⟨hlen, hq, fun hd => C12_layerB_quiescent_every_cell_resolved hr' hq hd, fun hd h hp => ?_, hst,
    fun hd => C12_layerB_pending_after_death hr' hd⟩
  exact C12_layerB_quiescent_every_cell_resolved hr' hq hd h
    (Nat.lt_of_lt_of_le (lt_of_getElem?_some hp) hst.1)

/-! ## 4  after `Shutdown` has been taken: everything still pending is answered `ShuttingDown` (C13) -/

/-- along a run that starts with the worker at `worker.drain`: the worker stays there (it cannot die), and a resolved
    cell at the end held the same status at the start, or was pending at the start and now says `ShuttingDown`, or is
    a new cell -/
theorem ar_drain_run {cfg : Cfg} {now : Nat} {seeds : List Nat} {clients : Nat} :
    ∀ (l : List (Act × Oracle)) {b b' : BState}, Reach cfg now seeds clients b → b.w = .drain → runB b l = .ok b' →
      b'.w = .drain ∧ ar_DrainCell b b' := by
  intro l
  induction l with
  | nil =>
    intro b b' _ hw h
    simp only [runB, Except.ok.injEq] at h; subst h
    exact ⟨hw, fun _ _ hx _ => Or.inl hx⟩
  | cons x l ih =>
    intro b b' hr hw h
    obtain ⟨a, o⟩ := x
    simp only [runB] at h
    split at h
    · rename_i b1 o1 hs
      obtain ⟨h1, h2⟩ := ih (.step hr hs) (ar_drain_step hw hs) h
      refine ⟨h1, fun x st hx hne => ?_⟩
      have hstep := ar_drain_cell (hinv_reach hr) hw hs
      obtain ⟨hlen, hkeep⟩ := C11_layerB_acks_grow_reach hr hs
      rcases h2 x st hx hne with h3 | ⟨h3, h4⟩ | h3
      · exact hstep x st h3 hne
      · rcases Nat.lt_or_ge x b.g.acks.length with hlt | hge
        · by_cases hp : b.g.acks[x] = .pending
          · exact Or.inr (Or.inl ⟨by rw [List.getElem?_eq_getElem hlt, hp], h4⟩)
          · exfalso
            have := hkeep x _ (List.getElem?_eq_getElem hlt) hp
            rw [h3] at this
            simp only [Option.some.injEq] at this
            exact hp this.symm
        · exact Or.inr (Or.inr hge)
      · exact Or.inr (Or.inr (Nat.le_trans hlen h3))
    · cases h

/-- **C13 — once the worker has taken `Shutdown`, NO caller waits for ever.**  From a reachable state whose worker
    stands at `worker.drain`, every maximal internal run ends with the worker still at `worker.drain` (it cannot die
    there: no hypothesis "the worker is not dead" is needed), EVERY cell resolved, and every cell that was pending at
    the start answered exactly `ShuttingDown`; a cell that was resolved at the start keeps its status; every other
    cell is new (created during the run: resolved on the spot, or sent by a call that had passed the flag test, and
    then answered `ShuttingDown` as well). -/
theorem C13_layerB_draining_worker_answers_all {cfg : Cfg} {now : Nat} {seeds : List Nat} {clients : Nat}
    {b b' : BState} {l : List (Act × Oracle)} (hseeds : seeds ≠ []) (hcmd : 0 < cfg.cmdCap)
    (hbuf : 0 < cfg.bufChanCap) (hpool : 0 < cfg.poolSize) (hr : Reach cfg now seeds clients b) (hw : b.w = .drain)
    (hrun : InternalRun b l b') (hmax : InternalStuck b') :
    b'.w = .drain ∧ Quiescent b' ∧
    (∀ h, h < b'.g.acks.length → ∃ st, b'.g.acks[h]? = some st ∧ st ≠ .pending) ∧
    (∀ h : Nat, b.g.acks[h]? = some .pending → b'.g.acks[h]? = some .shuttingDown) ∧
    (∀ (h : Nat) (st : Status), b'.g.acks[h]? = some st →
      b.g.acks[h]? = some st ∨ (b.g.acks[h]? = some .pending ∧ st = .shuttingDown) ∨ b.g.acks.length ≤ h) := by
  obtain ⟨_, hq, hall, _, hst, _⟩ := C12_layerB_every_ack_resolves hseeds hcmd hbuf hpool hr hrun hmax
  obtain ⟨hw', hcell⟩ := ar_drain_run l hr hw hrun.runB
  have hd : b'.w ≠ .dead := by rw [hw']; simp
  refine ⟨hw', hq, hall hd, fun h hp => ?_, fun h st hs => ?_⟩
  · obtain ⟨st, hs, hne⟩ := hall hd h (Nat.lt_of_lt_of_le (lt_of_getElem?_some hp) hst.1)
    rcases hcell h st hs hne with h3 | ⟨_, h4⟩ | h3
    · rw [hp] at h3; simp only [Option.some.injEq] at h3; exact absurd h3.symm hne
    · rw [hs, h4]
    · exact absurd (lt_of_getElem?_some hp) (by omega)
  · have hne : st ≠ .pending := by
      obtain ⟨st', hs', hne'⟩ := hall hd h (lt_of_getElem?_some hs)
      rw [hs] at hs'; simp only [Option.some.injEq] at hs'; rw [hs']; exact hne'
    exact hcell h st hs hne

/-- **C13 — where the `Shutdown` command is once the flag is set** (`ar_ShutInv`, an invariant of the reachable
    states): the caller that won the `compare_exchange` still stands before its `cmd.send`, or `Shutdown` waits in the
    queue, or the worker has taken it (`worker.drain`), or the worker is dead. -/
theorem C13_layerB_shutdown_command_on_its_way {cfg : Cfg} {now : Nat} {seeds : List Nat} {clients : Nat}
    {b : BState} (hr : Reach cfg now seeds clients b) (hs : b.g.shutting = true) :
    (∃ i : Nat, b.cl[i]? = some CPc.shutSendCmd) ∨ (∃ hh, (Cmd.shutdown, hh) ∈ b.g.queue) ∨ b.w = .drain ∨
      b.w = .dead :=
  ar_shutinv_reach hr hs

/-- **C13 — after `shutdown()`, at quiescence.**  A reachable quiescent state with the shutdown flag set (some
    `shutdown()` call has passed its `compare_exchange`; at quiescence it has returned, like every other call) and a
    worker that has not died: the worker HAS taken the `Shutdown` command — it stands at `worker.drain` — and every
    acknowledgement is resolved. -/
theorem C13_layerB_quiescent_after_shutdown {cfg : Cfg} {now : Nat} {seeds : List Nat} {clients : Nat} {b : BState}
    (hr : Reach cfg now seeds clients b) (hq : Quiescent b) (hs : b.g.shutting = true) (hd : b.w ≠ .dead) :
    b.w = .drain ∧ ∀ (h : Nat) (st : Status), b.g.acks[h]? = some st → st ≠ .pending := by
  refine ⟨?_, C12_layerB_quiescent_acks_resolved hr hq hd⟩
  rcases ar_shutinv_reach hr hs with ⟨i, hi⟩ | ⟨hh, hm⟩ | hw | hw
  · have := hq.1 _ (List.mem_of_getElem? hi)
    simp [CPc.atIdle] at this
  · exfalso
    rcases hq.2.1 with e | e
    · rw [e] at hm; cases hm
    · cases hw : b.w <;> simp [hw, WPc.exited] at e hd
  · exact hw
  · exact absurd hw hd

/-- **C13 — no caller waits for ever after `shutdown()`** (run level; hypotheses of `C18_layerB_every_call_returns`).
    From a reachable state with the shutdown flag set, every maximal internal run ends quiescent, every client idle
    (the `shutdown()` call has returned), and — if the worker has not died — with the worker at `worker.drain` and
    EVERY cell resolved: a command received before `Shutdown` got the status of its execution, `Shutdown` itself and
    everything received after it `ShuttingDown` (`C13_layerB_draining_worker_answers_all`), an on-the-spot answer its
    status. -/
theorem C13_layerB_after_shutdown_every_ack_resolves {cfg : Cfg} {now : Nat} {seeds : List Nat} {clients : Nat}
    {b b' : BState} {l : List (Act × Oracle)} (hseeds : seeds ≠ []) (hcmd : 0 < cfg.cmdCap)
    (hbuf : 0 < cfg.bufChanCap) (hpool : 0 < cfg.poolSize) (hr : Reach cfg now seeds clients b)
    (hs : b.g.shutting = true) (hrun : InternalRun b l b') (hmax : InternalStuck b') :
    Quiescent b' ∧ (∀ i, i < b.cl.length → b'.cl[i]? = some .idle) ∧ b'.g.shutting = true ∧
    (b'.w ≠ .dead → b'.w = .drain ∧ ∀ h, h < b'.g.acks.length → ∃ st, b'.g.acks[h]? = some st ∧ st ≠ .pending) := by
  have hs' : b'.g.shutting = true := by
    clear hmax
    induction hrun with
    | nil b => exact hs
    | cons _ hstep _ ih => exact ih (.step hr hstep) (stepB_shutting_mono hstep hs)
  obtain ⟨_, hq, hidle⟩ := C18_layerB_every_call_returns hseeds hcmd hbuf hpool hr hrun hmax
  have hr' := hrun.reach hr
  exact ⟨hq, hidle, hs', fun hd => ⟨(C13_layerB_quiescent_after_shutdown hr' hq hs' hd).1,
    C12_layerB_quiescent_every_cell_resolved hr' hq hd⟩⟩

/-! ## 5  the link to C17: under the closed hypotheses nobody dies, so every acknowledgement resolves -/

/-- a run (`RunB` of Closed.lean) stays among the reachable states -/
theorem ar_runB_reach {cfg : Cfg} {now : Nat} {seeds : List Nat} {clients : Nat} {b b' : BState}
    {tr : List (Act × Oracle)} (hrun : RunB b tr b') (hr : Reach cfg now seeds clients b) :
    Reach cfg now seeds clients b' := by
  induction hrun with
  | nil b => exact hr
  | cons hs _ ih => exact ih (.step hr hs)

/-- **C12 + C17.**  Take any run from the initial state of a cache whose inputs satisfy the hypotheses of the closed
    form of C17 (`C17_layerB_closed_no_panic`: `Bounded`, `NoD4`, `NoSpaceOverflow`, `NoValueMissing`).  Then the
    worker is alive at the end, so: if the run ends quiescent, every acknowledgement handed out in it is resolved; and
    in any case the cells still pending are exactly the handles of the commands queued or in hand. -/
theorem C12_layerB_closed_acks_resolve {W T C N : Nat} {cfg : Cfg} {now : Nat} {seeds : List Nat} {clients : Nat}
    {shardMap : List (Nat × Nat)} {run : List (Act × Oracle)} {b' : BState} (hs : seeds ≠ [])
    (hB : Bounded W T C N cfg now run) (hD4 : NoD4 cfg run) (hSO : NoSpaceOverflow W N cfg)
    (hVM : NoValueMissing { BState.init cfg now seeds clients with storeShard := shardMap } run)
    (hrun : RunB { BState.init cfg now seeds clients with storeShard := shardMap } run b') :
    b'.w ≠ .dead ∧
    (∀ h : Nat, b'.g.acks[h]? = some .pending ↔ (h ∈ qHandles b'.g.queue ∨ b'.w.held = some h)) ∧
    (Quiescent b' → ∀ (h : Nat) (st : Status), b'.g.acks[h]? = some st → st ≠ .pending) := by
  obtain ⟨hd, _, _, _, hr⟩ := C17_layerB_run_no_panic_init hs (C17_layerB_closed hB hD4 hSO hVM hrun)
  exact ⟨hd, C12_layerB_pending_iff hr hd, fun hq => C12_layerB_quiescent_acks_resolved hr hq hd⟩

/-! ## 6  witnesses -/

/-- two clients put one key each; both commands are queued before the worker moves -/
def arTwoPuts : List (Act × Oracle) := call 0 (.putW 1 100 3 none) 4 ++ call 1 (.putW 2 200 4 none) 4

/-- what `decide` checks of the state after `arTwoPuts` and of the worker's twelve actions from there -/
def arTwoPutsFacts (b : BState) : Bool :=
  decide (b.g.acks = [.pending, .pending] ∧ qHandles b.g.queue = [0, 1] ∧ ¬ Quiescent b) &&
  (match internalRun? b (workerN 6) with
   | some b1 => decide (b1.g.acks = [.accepted, .pending] ∧ qHandles b1.g.queue = [1])
   | none => false) &&
  (match internalRun? b (workerN 12) with
   | some b' =>
     decide (Quiescent b' ∧ b'.w = .recv ∧ b'.g.queue = [] ∧ b'.g.acks = [.accepted, .accepted] ∧ mu b' = 0)
   | none => false)

/-- **Non-vacuity of `C12_layerB_every_ack_resolves`.**  A reachable state with TWO queued puts — `acks = [Pending,
    Pending]`, the handles 0 and 1 in the queue — and a maximal internal run of twelve worker actions from it: after
    six the first cell is `Accepted` and the second still pending; at the end the state is quiescent, the worker alive
    at `worker.recv`, the queue empty and `acks = [Accepted, Accepted]`. -/
theorem C12_layerB_two_puts_witness :
    ∃ b b', Reach cfgEx 0 [1, 2, 3, 4] 2 b ∧ b.g.acks = [.pending, .pending] ∧ qHandles b.g.queue = [0, 1] ∧
      InternalRun b (workerN 12) b' ∧ InternalStuck b' ∧ Quiescent b' ∧ b'.w ≠ .dead ∧
      b'.g.acks = [.accepted, .accepted] ∧
      (∀ (h : Nat) (st : Status), b'.g.acks[h]? = some st → st ≠ .pending) := by
  have hrun : ∃ b, runB b0Ex arTwoPuts = .ok b ∧ arTwoPutsFacts b = true := by
    refine ⟨_, rfl, ?_⟩
    decide
  obtain ⟨b, hb, hf⟩ := hrun
  simp only [arTwoPutsFacts, Bool.and_eq_true, decide_eq_true_eq] at hf
  obtain ⟨⟨⟨ha, hq, _⟩, _⟩, hfin⟩ := hf
  have hr : Reach cfgEx 0 [1, 2, 3, 4] 2 b := reach_runB _ b0Ex_reach hb
  cases hir : internalRun? b (workerN 12) with
  | none => simp [hir] at hfin
  | some b' =>
    simp only [hir, decide_eq_true_eq] at hfin
    obtain ⟨hq', hw, _, ha', _⟩ := hfin
    have hrun' := internalRun?_sound _ hir
    have hd : b'.w ≠ .dead := by rw [hw]; simp
    exact ⟨b, b', hr, ha, hq, hrun', quiescent_stuck hq', hq', hd, ha',
      C12_layerB_quiescent_acks_resolved (hrun'.reach hr) hq' hd⟩

/-- the reviewer's state: the schedule of `C17_layerB_closed_needs_NoSpaceOverflow` (a `shutdown()` overlaps a delete,
    the total is −3, the next put's `max_weight - weight_used` leaves `i64`: the worker dies at `wu.space`), then the
    consumer takes the `Shutdown` event and exits -/
def arDeadRun : List (Act × Oracle) := spaceOverflowRun ++ acts [.consumer]

/-- **The hypothesis "the worker is not dead" cannot be dropped** (the consequence of known finding D10, not a new
    finding): a reachable state that is `Quiescent` — every client idle, nothing enabled — with the worker dead and
    `acks = [Accepted, Accepted, Pending]`: the third acknowledgement (the put the worker had in hand when it died) is
    pending, and stays pending along every run from there.  So `C18_layerB_every_call_returns` alone says nothing about
    acknowledgements, and `C12_layerB_quiescent_acks_resolved` is false without `b.w ≠ .dead`. -/
theorem C12_layerB_ack_pending_forever_needs_dead_worker :
    ∃ b, Reach c17BigCfg 3000000000 [1, 2, 3, 4] 2 b ∧ Quiescent b ∧ InternalStuck b ∧
      b.w = .dead ∧ b.g.worker = .dead ∧ b.g.acks = [.accepted, .accepted, .pending] ∧
      b.g.acks[2]? = some .pending ∧
      (∀ (l : List (Act × Oracle)) (b' : BState), runB b l = .ok b' → b'.g.acks[2]? = some .pending) := by
  have h : (match runB? (c17BBig 2) arDeadRun with
    | some b => decide (Quiescent b ∧ b.w = .dead ∧ b.g.worker = .dead ∧
        b.g.acks = [.accepted, .accepted, .pending])
    | none => false) = true := by decide +kernel
  split at h
  · rename_i b hb
    obtain ⟨h1, h2, h3, h4⟩ := of_decide_eq_true h
    have hr : Reach c17BigCfg 3000000000 [1, 2, 3, 4] 2 b := ar_runB_reach (runB?_sound _ hb) (.init [])
    have hp : b.g.acks[2]? = some .pending := by rw [h4]; rfl
    exact ⟨b, hr, h1, quiescent_stuck h1, h2, h3, h4, hp,
      fun l b' hl => ((C12_layerB_dead_worker_pending_forever l hr h2 hl).2 2).mpr hp⟩
  · cases h

/-! ## 7  the environment raises `mu` by a bounded amount; every request returns within `tm_own` own actions -/

/-- **C18 — a new request raises the measure by an explicit, finite amount.**  `issue i r` (the only effect: client
    `i` goes from `.idle` to `.start r`) adds to `mu` exactly
      * `tm_own (.start r)`: the own actions of the call (at most 14; `5·|ks| + 3` for a multi-key read), and
      * `15 + 5·tm_U b + 10·tm_Q b + 5·tm_ins b.w`: the share of the one command the call may send — the worker's part
        `tm_Wf q u w = q·(10 + 5·(u + q + ins)) + cur` at `q + 1` instead of `q`,
    where `tm_Q b ≤ |queue| + |clients|`, `tm_U b ≤ |kw| + |sample in hand|` and `tm_ins b.w ≤ 1`. -/
theorem C18_layerB_issue_raises_mu_boundedly {b b' : BState} {i : Nat} {r : Req} {o o' : Oracle}
    (h : stepB b (.issue i r) o = .ok (b', o')) :
    mu b' = mu b + tm_own (.start r) + (15 + 5 * tm_U b + 10 * tm_Q b + 5 * tm_ins b.w) ∧
    tm_Q b ≤ b.g.queue.length + b.cl.length ∧ tm_U b ≤ b.g.adm.kw.length + (tm_S b.w).length ∧ tm_ins b.w ≤ 1 ∧
    (tm_own (.start r) ≤ 14 ∨ ∃ ks iter, r = .mget ks iter ∧ tm_own (.start r) = 5 * ks.length + 3) := by
  simp only [stepB] at h
  split at h
  · rename_i b1 hi
    simp only [Except.ok.injEq, Prod.mk.injEq] at h
    obtain ⟨rfl, -⟩ := h
    obtain ⟨hidle, rfl⟩ := issue_spec hi
    have hlt := lt_of_getElem? hidle
    have hget : b.cl[i] = .idle := by
      have := List.getElem?_eq_getElem hlt
      rw [hidle] at this
      simp only [Option.some.injEq] at this
      exact this.symm
    have h1 := ar_sum_set tm_own b.cl i (.start r) hlt
    have h2 := ar_sum_set tm_cmds b.cl i (.start r) hlt
    have e0 : tm_own CPc.idle = 0 := rfl
    have c0 : tm_cmds CPc.idle = 0 := rfl
    have c1 : tm_cmds (CPc.start r) = 1 := rfl
    rw [hget, e0] at h1
    rw [hget, c0, c1] at h2
    have hq : tm_Q (setClient b i (.start r)) = tm_Q b + 1 := by
      show b.g.queue.length + ((b.cl.set i (.start r)).map tm_cmds).sum = b.g.queue.length + (b.cl.map tm_cmds).sum + 1
      omega
    refine ⟨?_, ?_, ?_, ?_, ?_⟩
    · have hmul : (tm_Q b + 1) * (10 + 5 * (tm_U b + (tm_Q b + 1) + tm_ins b.w)) =
          tm_Q b * (10 + 5 * (tm_U b + tm_Q b + tm_ins b.w)) +
            (15 + 5 * tm_U b + 10 * tm_Q b + 5 * tm_ins b.w) := by
        generalize tm_Q b = q
        generalize tm_U b = u
        generalize tm_ins b.w = n
        have e1 : (q + 1) * (10 + 5 * (u + (q + 1) + n)) = q * (10 + 5 * (u + (q + 1) + n)) +
            (10 + 5 * (u + (q + 1) + n)) := by rw [Nat.add_mul, Nat.one_mul]
        have e2 : q * (10 + 5 * (u + (q + 1) + n)) = q * (10 + 5 * (u + q + n)) + q * 5 := by
          rw [← Nat.mul_add]; congr 1; omega
        omega
      have key : mu (setClient b i (.start r)) = ((b.cl.set i (.start r)).map tm_own).sum + b.g.bufq.length +
          tm_sw b.sw + ((tm_Q b + 1) * (10 + 5 * (tm_U b + (tm_Q b + 1) + tm_ins b.w)) + tm_cur b.w (tm_U b)) := by
        rw [mu, tm_Wf, hq]; rfl
      have key0 : mu b = (b.cl.map tm_own).sum + b.g.bufq.length + tm_sw b.sw +
          (tm_Q b * (10 + 5 * (tm_U b + tm_Q b + tm_ins b.w)) + tm_cur b.w (tm_U b)) := rfl
      rw [key, key0, hmul]
      omega
    · have := ar_sum_cmds_le b.cl
      simp only [tm_Q]; omega
    · simp only [tm_U, tm_stale]
      have := List.countP_le_length (p := fun x : SKey => !(b.g.adm.kw.contains x.id)) (l := tm_S b.w)
      omega
    · cases b.w <;> simp [tm_ins]
    · cases r with
      | mget ks iter => exact Or.inr ⟨ks, iter, rfl, rfl⟩
      | _ => left; simp [tm_own]
  · cases h

/-- **C18 — a sweeper tick raises the measure by `4·(entries of the shard) + 1`** (its action at `sweep.begin`, the
    other move of the environment that is not free): it takes the lock of the shard of the current second and lists
    the shard's entries — four actions per entry and `sweep.end` are then left; nothing else changes. -/
theorem C18_layerB_tick_raises_mu_boundedly {b b' : BState} {v : Option Nat} {o o' : Oracle}
    (hb : b.sw = .begin) (h : stepB b (.sweeper v) o = .ok (b', o')) :
    mu b' = mu b + 4 * (b.g.ttl.filter (fun p => p.1.1 == secsOf b.g.now % b.g.cfg.shards)).length + 1 ∧
    (b.g.ttl.filter (fun p => p.1.1 == secsOf b.g.now % b.g.cfg.shards)).length ≤ b.g.ttl.length := by
  refine ⟨?_, List.length_filter_le _ _⟩
  simp only [stepB] at h
  split at h
  · rename_i b1 hs
    simp only [Except.ok.injEq, Prod.mk.injEq] at h
    obtain ⟨rfl, -⟩ := h
    simp only [sweeperAct, hb] at hs
    split at hs
    · cases hs
    · simp only [Except.ok.injEq] at hs
      subst hs
      unfold sweepNext
      split
      · rename_i hnil
        have hlen := congrArg List.length hnil
        simp only [List.length_map, List.length_nil] at hlen
        simp only [mu, tm_Q, tm_U, hb, tm_sw, hlen]
        omega
      · have hlen : ((b.g.ttl.filter (fun p => p.1.1 == secsOf b.g.now % b.g.cfg.shards)).map
            (fun p => (p.1.2, p.2))).length =
            (b.g.ttl.filter (fun p => p.1.1 == secsOf b.g.now % b.g.cfg.shards)).length := List.length_map _
        simp only [mu, tm_Q, tm_U, hb, tm_sw, hlen]
        omega
  · cases h

/-- **C18, per call, for EVERY request kind** (the existing per-call statements `C18_layerB_get_returns` /
    `C18_layerB_put_returns` cover `get` and the puts).  A client that stands inside a call — at any position `pc` of
    any request: put, delete, get, `get_ref`, `total_weight_used`, `put_or_update`, a multi-key read, `shutdown()` — is
    back at `.idle` in every schedule in which it takes `tm_own pc` of its own actions, whatever the other threads, the
    clock and the other clients do in between: each own action that answers `.ok` lowers `tm_own` strictly
    (`ar_own_step`).  `tm_own (.start r)` is at most 14 (`shutdown()`: 14, `put_or_update`: 7, put / get / `get_ref`: 5,
    delete: 4, `total_weight_used`: 3), and `5·|ks| + 3` for a multi-key read.
    (Whether the own actions ARE enabled is the other half: `C18_layerB_every_blocked_thread_has_an_enabled_path`.) -/
theorem C18_layerB_every_request_returns_within {b b' : BState} {i : Nat} {pc : CPc} (hpc : b.cl[i]? = some pc)
    (hin : pc ≠ .idle) (l : List (Act × Oracle)) (hrun : runB b l = .ok b') (hfair : tm_own pc ≤ ownActs i l) :
    ∃ l1 l2 b1, l = l1 ++ l2 ∧ runB b l1 = .ok b1 ∧ b1.cl[i]? = some .idle :=
  returns_within tm_own i rfl (fun h1 h2 h3 => ar_own_step h1 h2 h3) l hpc (fun h0 => hin (ar_own_zero h0)) hrun
    hfair

/-- the bound on the own actions of a call, by request kind -/
theorem C18_layerB_own_actions_bound (r : Req) :
    tm_own (.start r) ≤ 14 ∨ ∃ ks iter, r = .mget ks iter ∧ tm_own (.start r) = 5 * ks.length + 3 := by
  cases r with
  | mget ks iter => exact Or.inr ⟨ks, iter, rfl, rfl⟩
  | _ => left; simp [tm_own]

/-- non-vacuity: a `shutdown()` issued in the initial state returns after its 12 own actions (`tm_own = 14` bounds
    them), with the worker and the consumer taking their `Shutdown` in between -/
example :
    (match stepB (BState.init cfgEx 0 [1, 2, 3, 4] 2) (.issue 0 .shutdown) noO with
     | .ok (b, _) =>
       (match b.cl[0]? with | some pc => decide (tm_own pc = 14) | none => false) &&
       (let l : List (Act × Oracle) :=
          List.replicate 4 (.client 0, noO) ++ [(.worker, noO), (.consumer, noO)] ++ List.replicate 8 (.client 0, noO)
        decide (ownActs 0 l = 12) &&
        (match runB b l with
         | .ok b' => (match b'.cl[0]?, b'.w with | some CPc.idle, WPc.drain => decide (Quiescent b') | _, _ => false)
         | _ => false))
     | _ => false) = true := by decide

end B
end Cached
