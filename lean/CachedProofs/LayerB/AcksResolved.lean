import CachedProofs.LayerB.AcksResolvedLemmas

namespace Cached
namespace B

/-! ## 1  which cells are pending -/

/-- **C12 — the pending cells of a living worker are exactly the cells of the commands under way.**  At every
    reachable state in which the worker's thread has not died, the cell `h` is pending IF AND ONLY IF `h` is the handle
    of a command waiting in the queue or the handle of the command the worker has in hand (`→`: `ar_PInv`, this file's
    invariant; `←`: `HInv` of Order.lean). -/
theorem C12_layerB_pending_iff {cfg : Cfg} {now : Nat} {seeds : List Nat} {clients : Nat} {b : BState}
    (hr : Reach cfg now seeds clients b) (hd : b.w ≠ .dead) (h : Nat) :
    b.g.acks[h]? = some .pending ↔ (h ∈ qHandles b.g.queue ∨ b.w.held = some h) := by
  constructor
  · exact ar_pinv_reach hr hd h
  · rintro (hm | hm)
    · exact (hinv_reach hr).queued h hm
    · exact ((hinv_reach hr).held h hm).1

/-- the same, spelled out: a pending cell belongs to a command that is in the queue, or to the one command the worker
    is in the middle of -/
theorem C12_layerB_pending_is_queued_or_in_hand {cfg : Cfg} {now : Nat} {seeds : List Nat} {clients : Nat}
    {b : BState} (hr : Reach cfg now seeds clients b) (hd : b.w ≠ .dead) {h : Nat}
    (hp : b.g.acks[h]? = some .pending) :
    (∃ cmd, (cmd, some h) ∈ b.g.queue) ∨ (b.w.busy = true ∧ b.w.held = some h) := by
  rcases (C12_layerB_pending_iff hr hd h).mp hp with hm | hm
  · exact Or.inl (mem_qHandles.mp hm)
  · refine Or.inr ⟨?_, hm⟩
    cases hw : b.w <;> simp [hw, WPc.held] at hm <;> rfl

/-- **… and the pending cells of a DEAD worker are the cells of the commands that were under way when it died.**
    At every reachable state in which the worker is dead there is an earlier reachable state `b0` with a living, busy
    worker and a worker action from `b0` in which it died, such that the cells pending NOW are exactly the handles
    that were queued at `b0` or in the worker's hand at `b0`: the panic answers nothing, drops the queue, and from
    then on no cell is created pending and no pending cell is answered. -/
theorem C12_layerB_pending_after_death {cfg : Cfg} {now : Nat} {seeds : List Nat} {clients : Nat} {b : BState}
    (hr : Reach cfg now seeds clients b) (hd : b.w = .dead) :
    ∃ (b0 b1 : BState) (o o' : Oracle), Reach cfg now seeds clients b0 ∧ b0.w.busy = true ∧
      stepB b0 .worker o = .ok (b1, o') ∧ b1.w = .dead ∧ b1.g.queue = [] ∧
      ∀ h, b.g.acks[h]? = some .pending ↔ (h ∈ qHandles b0.g.queue ∨ b0.w.held = some h) := by
  induction hr with
  | init sm => simp [BState.init] at hd
  | @step b b' a o o' hr hs ih =>
    by_cases hd0 : b.w = .dead
    · obtain ⟨b0, b1, o0, o1, h1, h2, h3, h4, h5, h6⟩ := ih hd0
      refine ⟨b0, b1, o0, o1, h1, h2, h3, h4, h5, fun h => ?_⟩
      rw [ar_dead_frozen (deadW_reach hr) hd0 hs h]
      exact h6 h
    · obtain ⟨ha, hb, hq', _, hx⟩ := ar_death (hinv_reach hr) (ar_pinv_reach hr) hd0 hd hs
      subst ha
      exact ⟨b, b', o, o', hr, hb, hs, hd, hq', hx⟩

/-- **Once the worker is dead the pending cells are frozen** — along every run (any actions, any oracles): the worker
    stays dead, no cell becomes pending, no pending cell is answered.  A caller that waits for such a cell waits for
    ever. -/
theorem C12_layerB_dead_worker_pending_forever {cfg : Cfg} {now : Nat} {seeds : List Nat} {clients : Nat} :
    ∀ (l : List (Act × Oracle)) {b b' : BState}, Reach cfg now seeds clients b → b.w = .dead → runB b l = .ok b' →
      b'.w = .dead ∧ ∀ h : Nat, b'.g.acks[h]? = some Status.pending ↔ b.g.acks[h]? = some Status.pending := by
  intro l
  induction l with
  | nil =>
    intro b b' _ hd h
    simp only [runB, Except.ok.injEq] at h; subst h
    exact ⟨hd, fun _ => Iff.rfl⟩
  | cons x l ih =>
    intro b b' hr hd h
    obtain ⟨a, o⟩ := x
    simp only [runB] at h
    split at h
    · rename_i b1 o1 hs
      obtain ⟨h1, h2⟩ := ih (.step hr hs) (dead_step hs hd) h
      exact ⟨h1, fun x => (h2 x).trans (ar_dead_frozen (deadW_reach hr) hd hs x)⟩
    · cases h

/-! ## 2  a worker at rest with an empty queue: every acknowledgement is resolved -/

/-- the core: the worker stands between two commands (`worker.recv` or `worker.drain`) and the queue is empty — then
    no cell is pending (no client needs to be idle for this) -/
theorem C12_layerB_idle_worker_acks_resolved {cfg : Cfg} {now : Nat} {seeds : List Nat} {clients : Nat} {b : BState}
    (hr : Reach cfg now seeds clients b) (hq : b.g.queue = []) (hw : b.w = .recv ∨ b.w = .drain) :
    ∀ (h : Nat) (st : Status), b.g.acks[h]? = some st → st ≠ .pending := by
  intro h st hs e
  subst e
  have hd : b.w ≠ .dead := by rcases hw with e | e <;> rw [e] <;> simp
  rcases (C12_layerB_pending_iff hr hd h).mp hs with hm | hm
  · rw [hq] at hm; simp [qHandles] at hm
  · rcases hw with e | e <;> rw [e] at hm <;> cases hm

/-- **C12 — AT QUIESCENCE EVERY ACKNOWLEDGEMENT IS RESOLVED, unless the worker has died.**  At a reachable quiescent
    state whose worker thread is not dead, no cell of `acks` is pending: every acknowledgement ever handed out (by a
    send or on the spot) holds its final status.
    (`Quiescent` allows a non-empty queue only when `b.w.exited`, and `WPc.exited` is true of `.dead` ONLY: the model
    has no "exited after draining" position — a worker that has taken `Shutdown` stands at `worker.drain` for good and
    answers whatever still arrives `ShuttingDown`.  So there is no live-but-exited worker that leaves a queued command
    unanswered; the one exception is the dead worker: `C12_layerB_ack_pending_forever_needs_dead_worker`.) -/
theorem C12_layerB_quiescent_acks_resolved {cfg : Cfg} {now : Nat} {seeds : List Nat} {clients : Nat} {b : BState}
    (hr : Reach cfg now seeds clients b) (hq : Quiescent b) (hd : b.w ≠ .dead) :
    ∀ (h : Nat) (st : Status), b.g.acks[h]? = some st → st ≠ .pending := by
  obtain ⟨_, h2, _, h4, _⟩ := hq
  have hq0 : b.g.queue = [] := by
    rcases h2 with e | e
    · exact e
    · exfalso; cases hw : b.w <;> simp [hw, WPc.exited] at e hd
  have hw : b.w = .recv ∨ b.w = .drain := by
    cases hw : b.w <;> simp [hw, WPc.atRest] at h4 hd ⊢
  exact C12_layerB_idle_worker_acks_resolved hr hq0 hw

/-- the same with the hypothesis on the mode the SENDERS see (`b.g.worker`, what `cmd.send` tests) -/
theorem C12_layerB_quiescent_acks_resolved' {cfg : Cfg} {now : Nat} {seeds : List Nat} {clients : Nat} {b : BState}
    (hr : Reach cfg now seeds clients b) (hq : Quiescent b) (hd : b.g.worker ≠ .dead) :
    ∀ (h : Nat) (st : Status), b.g.acks[h]? = some st → st ≠ .pending :=
  C12_layerB_quiescent_acks_resolved hr hq (fun e => hd ((deadW_reach hr).mpr e))

/-- … in the form "every index of `acks` holds a resolved status" -/
theorem C12_layerB_quiescent_every_cell_resolved {cfg : Cfg} {now : Nat} {seeds : List Nat} {clients : Nat}
    {b : BState} (hr : Reach cfg now seeds clients b) (hq : Quiescent b) (hd : b.w ≠ .dead) :
    ∀ h, h < b.g.acks.length → ∃ st, b.g.acks[h]? = some st ∧ st ≠ .pending := by
  intro h hlt
  refine ⟨b.g.acks[h], List.getElem?_eq_getElem hlt, ?_⟩
  exact C12_layerB_quiescent_acks_resolved hr hq hd h _ (List.getElem?_eq_getElem hlt)

/-! ## 3  run level -/

/-- **Acknowledgement stability along a run**: cells are never removed, and a cell that holds an answer keeps it —
    along every run (any actions of any threads, `shutdown()` included, any oracles) from a reachable state.
    (The per-action statement is `C11_layerB_acks_grow` of Order.lean.) -/
theorem C12_layerB_ack_stable {cfg : Cfg} {now : Nat} {seeds : List Nat} {clients : Nat} :
    ∀ (l : List (Act × Oracle)) {b b' : BState}, Reach cfg now seeds clients b → runB b l = .ok b' →
      b.g.acks.length ≤ b'.g.acks.length ∧
      ∀ (h : Nat) (st : Status), b.g.acks[h]? = some st → st ≠ .pending → b'.g.acks[h]? = some st := by
  intro l
  induction l with
  | nil =>
    intro b b' _ h
    simp only [runB, Except.ok.injEq] at h; subst h
    exact ⟨Nat.le_refl _, fun _ _ hs _ => hs⟩
  | cons x l ih =>
    intro b b' hr h
    obtain ⟨a, o⟩ := x
    simp only [runB] at h
    split at h
    · rename_i b1 o1 hs
      obtain ⟨h1, h2⟩ := C11_layerB_acks_grow_reach hr hs
      obtain ⟨h3, h4⟩ := ih (.step hr hs) h
      exact ⟨Nat.le_trans h1 h3, fun x st hx hne => h4 x st (h2 x st hx hne) hne⟩
    · cases h

/-- **C12 — EVERY ACKNOWLEDGEMENT RESOLVES** (run level; the hypotheses are those of `C18_layerB_every_call_returns`).
    From every reachable state `b`, every maximal internal run (`InternalRun b l b'`, `InternalStuck b'`) has at most
    `mu b` actions, ends quiescent, and
      * if the worker is not dead at the end, EVERY cell of `acks` — every acknowledgement handed out before or during
        the run — is resolved at the end; in particular every cell that was pending at `b`;
      * along the run no cell is removed and no resolved cell changes (with or without a dead worker);
      * if the worker IS dead at the end, the cells still pending are exactly the handles of the commands that were
        queued or in hand in the action in which it died (`C12_layerB_pending_after_death`). -/
theorem C12_layerB_every_ack_resolves {cfg : Cfg} {now : Nat} {seeds : List Nat} {clients : Nat} {b b' : BState}
    {l : List (Act × Oracle)} (hseeds : seeds ≠ []) (hcmd : 0 < cfg.cmdCap) (hbuf : 0 < cfg.bufChanCap)
    (hpool : 0 < cfg.poolSize) (hr : Reach cfg now seeds clients b) (hrun : InternalRun b l b')
    (hmax : InternalStuck b') :
    l.length ≤ mu b ∧ Quiescent b' ∧
    (b'.w ≠ .dead → ∀ h, h < b'.g.acks.length → ∃ st, b'.g.acks[h]? = some st ∧ st ≠ .pending) ∧
    (b'.w ≠ .dead → ∀ h : Nat, b.g.acks[h]? = some .pending → ∃ st, b'.g.acks[h]? = some st ∧ st ≠ .pending) ∧
    (b.g.acks.length ≤ b'.g.acks.length ∧
      ∀ (h : Nat) (st : Status), b.g.acks[h]? = some st → st ≠ .pending → b'.g.acks[h]? = some st) ∧
    (b'.w = .dead → ∃ (b0 b1 : BState) (o o' : Oracle), Reach cfg now seeds clients b0 ∧ b0.w.busy = true ∧
      stepB b0 .worker o = .ok (b1, o') ∧ b1.w = .dead ∧ b1.g.queue = [] ∧
      ∀ h, b'.g.acks[h]? = some .pending ↔ (h ∈ qHandles b0.g.queue ∨ b0.w.held = some h)) := by
  obtain ⟨hlen, hq, _⟩ := C18_layerB_every_call_returns hseeds hcmd hbuf hpool hr hrun hmax
  have hr' := hrun.reach hr
  have hst := C12_layerB_ack_stable l hr hrun.runB
  refine ⟨hlen, hq, fun hd => C12_layerB_quiescent_every_cell_resolved hr' hq hd, fun hd h hp => ?_, hst,
    fun hd => C12_layerB_pending_after_death hr' hd⟩
  exact C12_layerB_quiescent_every_cell_resolved hr' hq hd h
    (Nat.lt_of_lt_of_le (lt_of_getElem?_some hp) hst.1)

/-! ## 4  after `Shutdown` has been taken: everything still pending is answered `ShuttingDown` (C13) -/

/-- along a run that starts with the worker at `worker.drain`: the worker stays there (it cannot die), and a resolved
    cell at the end held the same status at the start, or was pending at the start and now says `ShuttingDown`, or is
    a new cell -/
theorem ar_drain_run {cfg : Cfg} {now : Nat} {seeds : List Nat} {clients : Nat} :
    ∀ (l : List (Act × Oracle)) {b b' : BState}, Reach cfg now seeds clients b → b.w = .drain → runB b l = .ok b' →
      b'.w = .drain ∧ ar_DrainCell b b' := by
  intro l
  induction l with
  | nil =>
    intro b b' _ hw h
    simp only [runB, Except.ok.injEq] at h; subst h
    exact ⟨hw, fun _ _ hx _ => Or.inl hx⟩
  | cons x l ih =>
    intro b b' hr hw h
    obtain ⟨a, o⟩ := x
    simp only [runB] at h
    split at h
    · rename_i b1 o1 hs
      obtain ⟨h1, h2⟩ := ih (.step hr hs) (ar_drain_step hw hs) h
      refine ⟨h1, fun x st hx hne => ?_⟩
      have hstep := ar_drain_cell (hinv_reach hr) hw hs
      obtain ⟨hlen, hkeep⟩ := C11_layerB_acks_grow_reach hr hs
      rcases h2 x st hx hne with h3 | ⟨h3, h4⟩ | h3
      · exact hstep x st h3 hne
      · rcases Nat.lt_or_ge x b.g.acks.length with hlt | hge
        · by_cases hp : b.g.acks[x] = .pending
          · exact Or.inr (Or.inl ⟨by rw [List.getElem?_eq_getElem hlt, hp], h4⟩)
          · exfalso
            have := hkeep x _ (List.getElem?_eq_getElem hlt) hp
            rw [h3] at this
            simp only [Option.some.injEq] at this
            exact hp this.symm
        · exact Or.inr (Or.inr hge)
      · exact Or.inr (Or.inr (Nat.le_trans hlen h3))
    · cases h

/-- **C13 — once the worker has taken `Shutdown`, NO caller waits for ever.**  From a reachable state whose worker
    stands at `worker.drain`, every maximal internal run ends with the worker still at `worker.drain` (it cannot die
    there: no hypothesis "the worker is not dead" is needed), EVERY cell resolved, and every cell that was pending at
    the start answered exactly `ShuttingDown`; a cell that was resolved at the start keeps its status; every other
    cell is new (created during the run: resolved on the spot, or sent by a call that had passed the flag test, and
    then answered `ShuttingDown` as well). -/
theorem C13_layerB_draining_worker_answers_all {cfg : Cfg} {now : Nat} {seeds : List Nat} {clients : Nat}
    {b b' : BState} {l : List (Act × Oracle)} (hseeds : seeds ≠ []) (hcmd : 0 < cfg.cmdCap)
    (hbuf : 0 < cfg.bufChanCap) (hpool : 0 < cfg.poolSize) (hr : Reach cfg now seeds clients b) (hw : b.w = .drain)
    (hrun : InternalRun b l b') (hmax : InternalStuck b') :
    b'.w = .drain ∧ Quiescent b' ∧
    (∀ h, h < b'.g.acks.length → ∃ st, b'.g.acks[h]? = some st ∧ st ≠ .pending) ∧
    (∀ h : Nat, b.g.acks[h]? = some .pending → b'.g.acks[h]? = some .shuttingDown) ∧
    (∀ (h : Nat) (st : Status), b'.g.acks[h]? = some st →
      b.g.acks[h]? = some st ∨ (b.g.acks[h]? = some .pending ∧ st = .shuttingDown) ∨ b.g.acks.length ≤ h) := by
  obtain ⟨_, hq, hall, _, hst, _⟩ := C12_layerB_every_ack_resolves hseeds hcmd hbuf hpool hr hrun hmax
  obtain ⟨hw', hcell⟩ := ar_drain_run l hr hw hrun.runB
  have hd : b'.w ≠ .dead := by rw [hw']; simp
  refine ⟨hw', hq, hall hd, fun h hp => ?_, fun h st hs => ?_⟩
  · obtain ⟨st, hs, hne⟩ := hall hd h (Nat.lt_of_lt_of_le (lt_of_getElem?_some hp) hst.1)
    rcases hcell h st hs hne with h3 | ⟨_, h4⟩ | h3
    · rw [hp] at h3; simp only [Option.some.injEq] at h3; exact absurd h3.symm hne
    · rw [hs, h4]
    · exact absurd (lt_of_getElem?_some hp) (by omega)
  · have hne : st ≠ .pending := by
      obtain ⟨st', hs', hne'⟩ := hall hd h (lt_of_getElem?_some hs)
      rw [hs] at hs'; simp only [Option.some.injEq] at hs'; rw [hs']; exact hne'
    exact hcell h st hs hne

/-- **C13 — where the `Shutdown` command is once the flag is set** (`ar_ShutInv`, an invariant of the reachable
    states): the caller that won the `compare_exchange` still stands before its `cmd.send`, or `Shutdown` waits in the
    queue, or the worker has taken it (`worker.drain`), or the worker is dead. -/
theorem C13_layerB_shutdown_command_on_its_way {cfg : Cfg} {now : Nat} {seeds : List Nat} {clients : Nat}
    {b : BState} (hr : Reach cfg now seeds clients b) (hs : b.g.shutting = true) :
    (∃ i : Nat, b.cl[i]? = some CPc.shutSendCmd) ∨ (∃ hh, (Cmd.shutdown, hh) ∈ b.g.queue) ∨ b.w = .drain ∨
      b.w = .dead :=
  ar_shutinv_reach hr hs

/-- **C13 — after `shutdown()`, at quiescence.**  A reachable quiescent state with the shutdown flag set (some
    `shutdown()` call has passed its `compare_exchange`; at quiescence it has returned, like every other call) and a
    worker that has not died: the worker HAS taken the `Shutdown` command — it stands at `worker.drain` — and every
    acknowledgement is resolved. -/
theorem C13_layerB_quiescent_after_shutdown {cfg : Cfg} {now : Nat} {seeds : List Nat} {clients : Nat} {b : BState}
    (hr : Reach cfg now seeds clients b) (hq : Quiescent b) (hs : b.g.shutting = true) (hd : b.w ≠ .dead) :
    b.w = .drain ∧ ∀ (h : Nat) (st : Status), b.g.acks[h]? = some st → st ≠ .pending := by
  refine ⟨?_, C12_layerB_quiescent_acks_resolved hr hq hd⟩
  rcases ar_shutinv_reach hr hs with ⟨i, hi⟩ | ⟨hh, hm⟩ | hw | hw
  · have := hq.1 _ (List.mem_of_getElem? hi)
    simp [CPc.atIdle] at this
  · exfalso
    rcases hq.2.1 with e | e
    · rw [e] at hm; cases hm
    · cases hw : b.w <;> simp [hw, WPc.exited] at e hd
  · exact hw
  · exact absurd hw hd

/-- **C13 — no caller waits for ever after `shutdown()`** (run level; hypotheses of `C18_layerB_every_call_returns`).
    From a reachable state with the shutdown flag set, every maximal internal run ends quiescent, every client idle
    (the `shutdown()` call has returned), and — if the worker has not died — with the worker at `worker.drain` and
    EVERY cell resolved: a command received before `Shutdown` got the status of its execution, `Shutdown` itself and
    everything received after it `ShuttingDown` (`C13_layerB_draining_worker_answers_all`), an on-the-spot answer its
    status. -/
theorem C13_layerB_after_shutdown_every_ack_resolves {cfg : Cfg} {now : Nat} {seeds : List Nat} {clients : Nat}
    {b b' : BState} {l : List (Act × Oracle)} (hseeds : seeds ≠ []) (hcmd : 0 < cfg.cmdCap)
    (hbuf : 0 < cfg.bufChanCap) (hpool : 0 < cfg.poolSize) (hr : Reach cfg now seeds clients b)
    (hs : b.g.shutting = true) (hrun : InternalRun b l b') (hmax : InternalStuck b') :
    Quiescent b' ∧ (∀ i, i < b.cl.length → b'.cl[i]? = some .idle) ∧ b'.g.shutting = true ∧
    (b'.w ≠ .dead → b'.w = .drain ∧ ∀ h, h < b'.g.acks.length → ∃ st, b'.g.acks[h]? = some st ∧ st ≠ .pending) := by
  obtain ⟨_, hq, hidle⟩ := C18_layerB_every_call_returns hseeds hcmd hbuf hpool hr hrun hmax
  have hr' := hrun.reach hr
  have hs' : b'.g.shutting = true := by
    clear hmax hq hidle hr'
    induction hrun with
    | nil b => exact hs
    | cons _ hstep _ ih => exact ih (.step hr hstep) (stepB_shutting_mono hstep hs)
  exact ⟨hq, hidle, hs', fun hd => ⟨(C13_layerB_quiescent_after_shutdown hr' hq hs' hd).1,
    C12_layerB_quiescent_every_cell_resolved hr' hq hd⟩⟩

/-! ## 5  the link to C17: under the closed hypotheses nobody dies, so every acknowledgement resolves -/

/-- a run (`RunB` of Closed.lean) stays among the reachable states -/
theorem ar_runB_reach {cfg : Cfg} {now : Nat} {seeds : List Nat} {clients : Nat} {b b' : BState}
    {tr : List (Act × Oracle)} (hrun : RunB b tr b') (hr : Reach cfg now seeds clients b) :
    Reach cfg now seeds clients b' := by
  induction hrun with
  | nil b => exact hr
  | cons hs _ ih => exact ih (.step hr hs)

/-- **C12 + C17.**  Take any run from the initial state of a cache whose inputs satisfy the hypotheses of the closed
    form of C17 (`C17_layerB_closed_no_panic`: `Bounded`, `NoD4`, `NoSpaceOverflow`, `NoValueMissing`).  Then the
    worker is alive at the end, so: if the run ends quiescent, every acknowledgement handed out in it is resolved; and
    in any case the cells still pending are exactly the handles of the commands queued or in hand. -/
theorem C12_layerB_closed_acks_resolve {W T C N : Nat} {cfg : Cfg} {now : Nat} {seeds : List Nat} {clients : Nat}
    {shardMap : List (Nat × Nat)} {run : List (Act × Oracle)} {b' : BState} (hs : seeds ≠ [])
    (hB : Bounded W T C N cfg now run) (hD4 : NoD4 cfg run) (hSO : NoSpaceOverflow W N cfg)
    (hVM : NoValueMissing { BState.init cfg now seeds clients with storeShard := shardMap } run)
    (hrun : RunB { BState.init cfg now seeds clients with storeShard := shardMap } run b') :
    b'.w ≠ .dead ∧
    (∀ h : Nat, b'.g.acks[h]? = some .pending ↔ (h ∈ qHandles b'.g.queue ∨ b'.w.held = some h)) ∧
    (Quiescent b' → ∀ (h : Nat) (st : Status), b'.g.acks[h]? = some st → st ≠ .pending) := by
  obtain ⟨hd, _, _, _, hr⟩ := C17_layerB_run_no_panic_init hs (C17_layerB_closed hB hD4 hSO hVM hrun)
  exact ⟨hd, C12_layerB_pending_iff hr hd, fun hq => C12_layerB_quiescent_acks_resolved hr hq hd⟩

/-! ## 6  witnesses -/

/-- two clients put one key each; both commands are queued before the worker moves -/
def arTwoPuts : List (Act × Oracle) := call 0 (.putW 1 100 3 none) 4 ++ call 1 (.putW 2 200 4 none) 4

/-- what `decide` checks of the state after `arTwoPuts` and of the worker's twelve actions from there -/
def arTwoPutsFacts (b : BState) : Bool :=
  decide (b.g.acks = [.pending, .pending] ∧ qHandles b.g.queue = [0, 1] ∧ ¬ Quiescent b) &&
  (match internalRun? b (workerN 6) with
   | some b1 => decide (b1.g.acks = [.accepted, .pending] ∧ qHandles b1.g.queue = [1])
   | none => false) &&
  (match internalRun? b (workerN 12) with
   | some b' =>
     decide (Quiescent b' ∧ b'.w = .recv ∧ b'.g.queue = [] ∧ b'.g.acks = [.accepted, .accepted] ∧ mu b' = 0)
   | none => false)

/-- **Non-vacuity of `C12_layerB_every_ack_resolves`.**  A reachable state with TWO queued puts — `acks = [Pending,
    Pending]`, the handles 0 and 1 in the queue — and a maximal internal run of twelve worker actions from it: after
    six the first cell is `Accepted` and the second still pending; at the end the state is quiescent, the worker alive
    at `worker.recv`, the queue empty and `acks = [Accepted, Accepted]`. -/
theorem C12_layerB_two_puts_witness :
    ∃ b b', Reach cfgEx 0 [1, 2, 3, 4] 2 b ∧ b.g.acks = [.pending, .pending] ∧ qHandles b.g.queue = [0, 1] ∧
      InternalRun b (workerN 12) b' ∧ InternalStuck b' ∧ Quiescent b' ∧ b'.w ≠ .dead ∧
      b'.g.acks = [.accepted, .accepted] ∧
      (∀ (h : Nat) (st : Status), b'.g.acks[h]? = some st → st ≠ .pending) := by
  have hrun : ∃ b, runB b0Ex arTwoPuts = .ok b ∧ arTwoPutsFacts b = true := by
    refine ⟨_, rfl, ?_⟩
    decide
  obtain ⟨b, hb, hf⟩ := hrun
  simp only [arTwoPutsFacts, Bool.and_eq_true, decide_eq_true_eq] at hf
  obtain ⟨⟨⟨ha, hq, _⟩, _⟩, hfin⟩ := hf
  have hr : Reach cfgEx 0 [1, 2, 3, 4] 2 b := reach_runB _ b0Ex_reach hb
  cases hir : internalRun? b (workerN 12) with
  | none => simp [hir] at hfin
  | some b' =>
    simp only [hir, decide_eq_true_eq] at hfin
    obtain ⟨hq', hw, _, ha', _⟩ := hfin
    have hrun' := internalRun?_sound _ hir
    have hd : b'.w ≠ .dead := by rw [hw]; simp
    exact ⟨b, b', hr, ha, hq, hrun', quiescent_stuck hq', hq', hd, ha',
      C12_layerB_quiescent_acks_resolved (hrun'.reach hr) hq' hd⟩

/-- the reviewer's state: the schedule of `C17_layerB_closed_needs_NoSpaceOverflow` (a `shutdown()` overlaps a delete,
    the total is −3, the next put's `max_weight - weight_used` leaves `i64`: the worker dies at `wu.space`), then the
    consumer takes the `Shutdown` event and exits -/
def arDeadRun : List (Act × Oracle) := spaceOverflowRun ++ acts [.consumer]

/-- **The hypothesis "the worker is not dead" cannot be dropped** (the consequence of known finding D10, not a new
    finding): a reachable state that is `Quiescent` — every client idle, nothing enabled — with the worker dead and
    `acks = [Accepted, Accepted, Pending]`: the third acknowledgement (the put the worker had in hand when it died) is
    pending, and stays pending along every run from there.  So `C18_layerB_every_call_returns` alone says nothing about
    acknowledgements, and `C12_layerB_quiescent_acks_resolved` is false without `b.w ≠ .dead`. -/
theorem C12_layerB_ack_pending_forever_needs_dead_worker :
    ∃ b, Reach c17BigCfg 3000000000 [1, 2, 3, 4] 2 b ∧ Quiescent b ∧ InternalStuck b ∧
      b.w = .dead ∧ b.g.worker = .dead ∧ b.g.acks = [.accepted, .accepted, .pending] ∧
      b.g.acks[2]? = some .pending ∧
      (∀ (l : List (Act × Oracle)) (b' : BState), runB b l = .ok b' → b'.g.acks[2]? = some .pending) := by
  have h : (match runB? (c17BBig 2) arDeadRun with
    | some b => decide (Quiescent b ∧ b.w = .dead ∧ b.g.worker = .dead ∧
        b.g.acks = [.accepted, .accepted, .pending])
    | none => false) = true := by decide +kernel
  split at h
  · rename_i b hb
    obtain ⟨h1, h2, h3, h4⟩ := of_decide_eq_true h
    have hr : Reach c17BigCfg 3000000000 [1, 2, 3, 4] 2 b := ar_runB_reach (runB?_sound _ hb) (.init [])
    have hp : b.g.acks[2]? = some .pending := by rw [h4]; rfl
    exact ⟨b, hr, h1, quiescent_stuck h1, h2, h3, h4, hp,
      fun l b' hl => ((C12_layerB_dead_worker_pending_forever l hr h2 hl).2 2).mpr hp⟩
  · cases h

end B
end Cached
