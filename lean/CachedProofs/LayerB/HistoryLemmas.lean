/-
  Histories of Layer B with call BEGIN / RETURN events: the machinery behind `C02_layerB_regular`
  (CachedProofs/LayerB/History.lean).

  A history `h : List (BState × Act)` is the list kept by `RunH` (Theorems.lean): the pairs (state BEFORE the action,
  action), LATEST FIRST.  Events are addressed by their INDEX counted from the oldest action: `At h n x` — `x` is the
  `n`-th action of the run (`n = 0`: the first one).

  Layout
    1  `At`, `Sub` (one history is an initial segment of another), `Silent` (no action of a kind in an index range),
       `StateAt`, `runH_at` (the `n`-th action of a run: its step, the state after it, the run up to it)
    2  the points of a history, as predicates on one (state, action) pair:
         `isPut`     the worker's `store.put` that stores          (WRITE point of a put, creates an incarnation)
         `isUpsert`  a client's `upsert.update` carrying a value that finds the key (WRITE point of an upsert)
         `isMark`    a client's `delete.mark` that finds the key   (HIDE point of a delete)
         `isRemove`  the four removals: the worker's `store.remove` of a `Delete`, of an eviction, the sweeper's, and
                     `shutdown.store_clear`
       their effects on the store (`put_effect`, `upsert_effect`, `mark_effect`, `remove_effect`) and the frame lemma
       (`nowrite_frame`: an action that is no write point of `k` keeps value and key id of `k`'s entry)
    3  `ValSrc`, `IncSrc`, `Src`, `SrcInv` — where the entry of a key comes from — and `srcInv_step`, `srcInv_run`
    4  `CallInv` — what the history says about the call a client is in — and `callInv_step`, `callInv_run`
    5  `Origin`, `ProvInv` — every put under way was issued by a call of the history — `provInv_step`, `provInv_run`
-/
import CachedProofs.LayerB.Entries
import CachedProofs.LayerB.Order

namespace Cached
namespace B
namespace Hist

/-! ## 1  indices into a history -/

/-- `x` is the `n`-th action of the run (counted from 0, OLDEST first; the list itself is kept latest first) -/
def At (h : List (BState × Act)) (n : Nat) (x : BState × Act) : Prop := h.reverse[n]? = some x

theorem At.lt {h : List (BState × Act)} {n : Nat} {x : BState × Act} (hx : At h n x) : n < h.length := by
  unfold At at hx
  rcases Nat.lt_or_ge n h.length with h' | h'
  · exact h'
  · rw [List.getElem?_eq_none (by simpa using h')] at hx; cases hx

theorem At.inj {h : List (BState × Act)} {n : Nat} {x y : BState × Act} (hx : At h n x) (hy : At h n y) : x = y := by
  unfold At at hx hy
  rw [hx] at hy
  exact Option.some.inj hy

theorem at_cons {h : List (BState × Act)} {y : BState × Act} {n : Nat} {x : BState × Act} :
    At (y :: h) n x ↔ (n = h.length ∧ x = y) ∨ At h n x := by
  unfold At
  rw [List.reverse_cons]
  rcases Nat.lt_trichotomy n h.length with hlt | heq | hgt
  · rw [List.getElem?_append_left (by simpa using hlt)]
    constructor
    · exact Or.inr
    · rintro (⟨e, _⟩ | h')
      · omega
      · exact h'
  · subst heq
    have hy : (h.reverse ++ [y])[h.length]? = some y := by
      rw [List.getElem?_append_right (by simp)]; simp
    rw [hy]
    constructor
    · intro e; exact Or.inl ⟨rfl, (Option.some.inj e).symm⟩
    · rintro (⟨_, e⟩ | h')
      · rw [e]
      · have := At.lt h'; omega
  · rw [List.getElem?_eq_none (by simp; omega)]
    constructor
    · intro e; cases e
    · rintro (⟨e, _⟩ | h')
      · omega
      · have := At.lt h'; omega

theorem at_cons_self (h : List (BState × Act)) (y : BState × Act) : At (y :: h) h.length y :=
  at_cons.mpr (Or.inl ⟨rfl, rfl⟩)

/-- `h0` is an initial segment (the OLDEST `h0.length` actions) of `h` -/
def Sub (h0 h : List (BState × Act)) : Prop := ∀ q x, At h0 q x ↔ (q < h0.length ∧ At h q x)

theorem Sub.refl (h : List (BState × Act)) : Sub h h := fun _ _ => ⟨fun hx => ⟨hx.lt, hx⟩, fun hx => hx.2⟩

theorem Sub.cons (h : List (BState × Act)) (y : BState × Act) : Sub h (y :: h) := by
  intro q x
  rw [at_cons]
  constructor
  · intro hx; exact ⟨hx.lt, Or.inr hx⟩
  · rintro ⟨hq, ⟨e, _⟩ | hx⟩
    · omega
    · exact hx

theorem Sub.trans {h0 h1 h2 : List (BState × Act)} (h01 : Sub h0 h1) (h12 : Sub h1 h2) : Sub h0 h2 := by
  intro q x
  constructor
  · intro hx
    obtain ⟨hq, hx1⟩ := (h01 q x).mp hx
    exact ⟨hq, ((h12 q x).mp hx1).2⟩
  · rintro ⟨hq, hx2⟩
    by_cases hq1 : q < h1.length
    · exact (h01 q x).mpr ⟨hq, (h12 q x).mpr ⟨hq1, hx2⟩⟩
    · -- `h0` is no longer than `h1`
      exfalso
      by_cases h0e : h0.length = 0
      · omega
      · -- the last action of `h0` is an action of `h1`
        have hlast : ∃ z, At h0 (h0.length - 1) z := by
          unfold At
          have : h0.length - 1 < h0.reverse.length := by simp; omega
          exact ⟨_, List.getElem?_eq_getElem this⟩
        obtain ⟨z, hz⟩ := hlast
        have := ((h01 _ _).mp hz).2.lt
        omega

theorem Sub.at {h0 h : List (BState × Act)} (hs : Sub h0 h) {q : Nat} {x : BState × Act} (hx : At h0 q x) : At h q x :=
  ((hs q x).mp hx).2

/-- no action with index in `[lo, hi)` has the property `P` -/
def Silent (h : List (BState × Act)) (P : BState × Act → Prop) (lo hi : Nat) : Prop :=
  ∀ q x, lo ≤ q → q < hi → At h q x → ¬ P x

theorem Silent.empty (h : List (BState × Act)) (P : BState × Act → Prop) {lo hi : Nat} (hle : hi ≤ lo) :
    Silent h P lo hi := fun q _ h1 h2 => by omega

/-- a range inside the initial segment is as silent in the longer history -/
theorem Silent.sub {h0 h : List (BState × Act)} {P : BState × Act → Prop} {lo hi : Nat} (hs : Sub h0 h)
    (hq : Silent h0 P lo hi) (hhi : hi ≤ h0.length) : Silent h P lo hi :=
  fun q x h1 h2 hx => hq q x h1 h2 ((hs q x).mpr ⟨by omega, hx⟩)

theorem Silent.mono {h : List (BState × Act)} {P Q : BState × Act → Prop} {lo hi : Nat} (hq : Silent h P lo hi)
    (hPQ : ∀ x, Q x → P x) : Silent h Q lo hi :=
  fun q x h1 h2 hx hQ => hq q x h1 h2 hx (hPQ x hQ)

/-- one more action, which has not the property -/
theorem Silent.snoc {h : List (BState × Act)} {P : BState × Act → Prop} {lo : Nat} {y : BState × Act}
    (hq : Silent h P lo h.length) (hy : ¬ P y) : Silent (y :: h) P lo (h.length + 1) := by
  intro q x h1 h2 hx
  rcases at_cons.mp hx with ⟨_, rfl⟩ | hx
  · exact hy
  · exact hq q x h1 hx.lt hx

/-- the state in which the `n`-th action ran; for `n = h.length`: the state `b` after the whole run -/
def StateAt (h : List (BState × Act)) (b : BState) (n : Nat) (s : BState) : Prop :=
  (n = h.length ∧ s = b) ∨ ∃ a, At h n (s, a)

theorem StateAt.inj {h : List (BState × Act)} {b : BState} {n : Nat} {s s' : BState} (h1 : StateAt h b n s)
    (h2 : StateAt h b n s') : s = s' := by
  rcases h1 with ⟨e1, rfl⟩ | ⟨a1, h1⟩ <;> rcases h2 with ⟨e2, rfl⟩ | ⟨a2, h2⟩
  · rfl
  · have := h2.lt; omega
  · have := h1.lt; omega
  · exact congrArg Prod.fst (h1.inj h2)

/-- **The `n`-th action of a run**: it is a step of the model from the state recorded with it, the state after it is
    the state recorded with the next action (or the final state), and the actions before it form a run to its state. -/
theorem runH_at {b0 b : BState} {h : List (BState × Act)} (hrun : RunH b0 h b) {n : Nat} {s : BState} {a : Act}
    (hx : At h n (s, a)) :
    ∃ s' o o' h0, stepB s a o = .ok (s', o') ∧ StateAt h b (n + 1) s' ∧ RunH b0 h0 s ∧ h0.length = n ∧ Sub h0 h := by
  induction hrun with
  | nil => exact absurd hx.lt (by simp)
  | @step b1 b' h1 a1 o o' hrun1 hs ih =>
    rcases at_cons.mp hx with ⟨rfl, e⟩ | hx1
    · cases e
      exact ⟨b', o, o', h1, hs, Or.inl ⟨rfl, rfl⟩, hrun1, rfl, Sub.cons _ _⟩
    · obtain ⟨s', o1, o1', h0, hs1, hst, hr0, hlen, hsub⟩ := ih hx1
      refine ⟨s', o1, o1', h0, hs1, ?_, hr0, hlen, hsub.trans (Sub.cons _ _)⟩
      rcases hst with ⟨e, rfl⟩ | ⟨a', ha'⟩
      · exact Or.inr ⟨a1, by rw [e]; exact at_cons_self _ _⟩
      · exact Or.inr ⟨a', (Sub.cons _ _).at ha'⟩

/-! ## 2  the points of a history -/

/-- WRITE point of a put, and the birth of an incarnation: the worker's `store.put` action of a put of `k` with value
    `v` and key id `id` that stores (its deadline is representable; otherwise the worker panics and stores nothing) -/
def isPut (k v id : Nat) (x : BState × Act) : Prop :=
  x.2 = .worker ∧ ∃ c exp, x.1.w = .storePut c ∧ c.k = k ∧ c.v = v ∧ c.id = id ∧ putExpiry x.1.g.now c.ttl = some exp

/-- WRITE point of an upsert: a client's `upsert.update` action of a `put_or_update(k, Some(v), ..)` that finds the key
    physically present and rewrites the entry (its deadline is representable; otherwise the caller panics) -/
def isUpsert (k v : Nat) (x : BState × Act) : Prop :=
  ∃ i w ttl rm e exp, x.2 = .client i ∧ x.1.cl[i]? = some (.upUpdate k (some v) w ttl rm) ∧
    x.1.g.store.get? k = some e ∧ upExpiry x.1.g.now ttl rm e.expiry = some exp

/-- a WRITE point of key `k` with value `v` -/
def isWrite (k v : Nat) (x : BState × Act) : Prop := (∃ id, isPut k v id x) ∨ isUpsert k v x

def isWriteAny (k : Nat) (x : BState × Act) : Prop := ∃ v, isWrite k v x

def isPutAny (k : Nat) (x : BState × Act) : Prop := ∃ v id, isPut k v id x

/-- HIDE point of a delete: a client's `delete.mark` action of a `delete(k)` that finds the key -/
def isMark (k : Nat) (x : BState × Act) : Prop :=
  ∃ i e, x.2 = .client i ∧ x.1.cl[i]? = some (.delMark k) ∧ x.1.g.store.get? k = some e

/-- REMOVAL of the entry of `k`: the worker's `store.remove` of a `Delete(k)` command, the worker's `store.remove` of an
    eviction of `k`, the sweeper's `store.remove` (`delete_if_key_id_matches`: only under the id it evicts), or
    `shutdown.store_clear` — each finding the key -/
def isRemove (k : Nat) (x : BState × Act) : Prop :=
  (x.2 = .worker ∧ ∃ hh e, x.1.w = .delStore k hh ∧ x.1.g.store.get? k = some e) ∨
  (x.2 = .worker ∧ ∃ c inc s id wk e, x.1.w = .evStore c inc s id wk ∧ wk.key = k ∧ x.1.g.store.get? k = some e) ∨
  (∃ vis now sh rest id wk e, x.2 = .sweeper vis ∧ x.1.sw = .store now sh rest id wk ∧ wk.key = k ∧
    x.1.g.store.get? k = some e ∧ e.id = id) ∨
  (∃ i e, x.2 = .client i ∧ x.1.cl[i]? = some .shutStoreClear ∧ x.1.g.store.get? k = some e)

theorem put_effect {b b' : BState} {a : Act} {o o' : Oracle} (hs : stepB b a o = .ok (b', o')) {k v id : Nat}
    (hp : isPut k v id (b, a)) : ∃ exp, b'.g.store.get? k = some { value := v, id := id, expiry := exp, soft := false } := by
  obtain ⟨ha, c, exp, hw, rfl, rfl, rfl, hexp⟩ := hp
  simp only at ha hw hexp
  subst ha
  simp only [stepB] at hs
  obtain ⟨_, _, ⟨ht, rfl⟩ | ⟨t, ht, hadd, rfl⟩ | ⟨t, e, ht, hadd, rfl⟩⟩ := ent_workerAct_storePut hw hs
  · exact ⟨none, by simp [finishCmd]⟩
  · rw [ht] at hexp; simp [putExpiry, hadd] at hexp
  · exact ⟨some e, by simp⟩

theorem upsert_effect {b b' : BState} {a : Act} {o o' : Oracle} (hs : stepB b a o = .ok (b', o')) {k v : Nat}
    (hp : isUpsert k v (b, a)) :
    ∃ e exp, b.g.store.get? k = some e ∧ b'.g.store.get? k = some { e with expiry := exp, value := v } := by
  obtain ⟨i, w, ttl, rm, e, exp, ha, hpc, hk, hexp⟩ := hp
  simp only at ha hpc hk hexp
  subst ha
  simp only [stepB] at hs
  obtain ⟨_, _, ⟨hn, _⟩ | ⟨e1, hk1, hx1, _⟩ | ⟨e1, exp1, hk1, hx1, rfl⟩⟩ := ent_clientAct_upUpdate hpc hs
  · rw [hn] at hk; cases hk
  · rw [hk] at hk1; cases hk1; rw [hx1] at hexp; cases hexp
  · rw [hk] at hk1; cases hk1
    exact ⟨e, exp1, hk, by simp [setClient]⟩

theorem mark_effect {b b' : BState} {a : Act} {o o' : Oracle} (hs : stepB b a o = .ok (b', o')) {k : Nat}
    (hp : isMark k (b, a)) : ∃ e, b.g.store.get? k = some e ∧ b'.g.store.get? k = some { e with soft := true } := by
  obtain ⟨i, e, ha, hpc, hk⟩ := hp
  simp only at ha hpc hk
  subst ha
  simp only [stepB] at hs
  obtain ⟨_, _, ⟨hn, _⟩ | ⟨e1, hk1, rfl⟩⟩ := ent_clientAct_delMark hpc hs
  · rw [hn] at hk; cases hk
  · rw [hk] at hk1; cases hk1
    exact ⟨e, hk, by simp [setClient]⟩

theorem remove_effect {b b' : BState} {a : Act} {o o' : Oracle} (hs : stepB b a o = .ok (b', o')) {k : Nat}
    (hp : isRemove k (b, a)) : b'.g.store.get? k = none := by
  rcases hp with ⟨ha, hh, e, hw, hk⟩ | ⟨ha, c, inc, s, id, wk, e, hw, rfl, hk⟩ |
    ⟨vis, now, sh, rest, id, wk, e, ha, hsw, rfl, hk, hid⟩ | ⟨i, e, ha, hpc, hk⟩
  · simp only at ha hw hk
    subst ha
    simp only [stepB] at hs
    obtain ⟨_, _, ⟨hn, _⟩ | ⟨e1, _, rfl⟩⟩ := ent_workerAct_delStore hw hs
    · rw [hn] at hk; cases hk
    · simp
  · simp only at ha hw hk
    subst ha
    simp only [stepB, workerAct, hw] at hs
    split at hs
    · cases hs
    · simp only [Except.ok.injEq, Prod.mk.injEq] at hs; obtain ⟨rfl, rfl⟩ := hs
      simp [applyEvict_store]
  · simp only at ha hsw hk
    subst ha
    simp only [stepB] at hs
    split at hs
    · rename_i b1 hs'
      simp only [Except.ok.injEq, Prod.mk.injEq] at hs; obtain ⟨rfl, rfl⟩ := hs
      simp only [sweeperAct, hsw] at hs'
      split at hs'
      · cases hs'
      · simp only [Except.ok.injEq] at hs'; subst hs'
        rcases Cached.applyEvictId_store_cases b.g (id, wk.key, wk.weight) with ⟨_, hst⟩ | ⟨hm, _⟩
        · simp only [sweepNext_g]; rw [hst]; simp
        · exact absurd (Cached.evictIdMatches_iff.mpr ⟨e, hk, hid⟩) hm
    · cases hs
  · simp only at ha hpc hk
    subst ha
    simp only [stepB] at hs
    unfold clientAct at hs
    simp only [hpc] at hs
    split at hs
    · cases hs
    · simp only [Except.ok.injEq, Prod.mk.injEq] at hs; obtain ⟨rfl, rfl⟩ := hs
      simp [setClient]

/-- **The frame lemma**: an action that is no write point of `k` leaves an entry of `k` that is there after it with the
    value and the key id it had before; and it does not clear the deletion flag. -/
theorem nowrite_frame {b b' : BState} {a : Act} {o o' : Oracle} (hs : stepB b a o = .ok (b', o')) {k : Nat}
    (hn : ¬ isWriteAny k (b, a)) {e' : Entry} (hk' : b'.g.store.get? k = some e') :
    ∃ e, b.g.store.get? k = some e ∧ e.value = e'.value ∧ e.id = e'.id ∧ (e'.soft = false → e.soft = false) := by
  have heff := stepB_storeEff hs
  cases heff
  case same hst => rw [hst] at hk'; exact ⟨e', hk', rfl, rfl, fun h => h⟩
  case put c exp hw hexp _ hst =>
    rw [hst, AMap.get?_set] at hk'
    split at hk'
    · rename_i hck
      exact absurd ⟨c.v, Or.inl ⟨c.id, rfl, c, exp, hw, hck, rfl, rfl, hexp⟩⟩ hn
    · exact ⟨e', hk', rfl, rfl, fun h => h⟩
  case del k1 hh e1 hw he hst =>
    rw [hst, AMap.get?_del] at hk'
    split at hk'
    · cases hk'
    · exact ⟨e', hk', rfl, rfl, fun h => h⟩
  case evict c inc s id wk hw hst =>
    rw [hst, AMap.get?_del] at hk'
    split at hk'
    · cases hk'
    · exact ⟨e', hk', rfl, rfl, fun h => h⟩
  case sweep v now sh rest id wk hw hm hst =>
    rw [hst, AMap.get?_del] at hk'
    split at hk'
    · cases hk'
    · exact ⟨e', hk', rfl, rfl, fun h => h⟩
  case mark i k1 e1 hpc he hst =>
    rw [hst, AMap.get?_set] at hk'
    split at hk'
    · rename_i hkk
      subst hkk
      cases hk'
      exact ⟨e1, he, rfl, rfl, fun h => by cases h⟩
    · exact ⟨e', hk', rfl, rfl, fun h => h⟩
  case upsert i k1 v w ttl rm e1 exp hpc he hexp hst =>
    rw [hst, AMap.get?_set] at hk'
    split at hk'
    · rename_i hkk
      subst hkk
      cases hk'
      cases v with
      | some val => exact absurd ⟨val, Or.inr ⟨i, w, ttl, rm, e1, exp, rfl, hpc, he, hexp⟩⟩ hn
      | none => exact ⟨e1, he, rfl, rfl, fun h => h⟩
    · exact ⟨e', hk', rfl, rfl, fun h => h⟩
  case clear i hpc hst => rw [hst] at hk'; cases hk'

/-! ## 3  where the entry of a key comes from -/

/-- what ends or hides an incarnation of `k`: another `store.put` of `k`, a removal, and — for an entry that is not
    soft-deleted — a delete mark -/
def isDisturb (k : Nat) (soft : Bool) (x : BState × Act) : Prop :=
  isPutAny k x ∨ isRemove k x ∨ (soft = false ∧ isMark k x)

/-- THE VALUE: `v` is the value of the LATEST write point of `k` among the first `hi` actions — or, no write point of
    `k` being among them, the value `k` had in the start state `b0` -/
def ValSrc (h : List (BState × Act)) (b0 : BState) (k v hi : Nat) : Prop :=
  (∃ p, p < hi ∧ (∃ x, At h p x ∧ isWrite k v x) ∧ Silent h (isWriteAny k) (p + 1) hi) ∨
  (∃ e0, b0.g.store.get? k = some e0 ∧ e0.value = v ∧ Silent h (isWriteAny k) 0 hi)

/-- THE INCARNATION: the entry with key id `id` was stored by the `store.put` action `c` (or stood in the start state
    `b0`), and since then (up to the `hi`-th action) no other `store.put` of `k`, no removal of `k` and — if the entry
    is not soft-deleted (`soft = false`) — no delete mark of `k` has run -/
def IncSrc (h : List (BState × Act)) (b0 : BState) (k id : Nat) (soft : Bool) (hi : Nat) : Prop :=
  (∃ c, c < hi ∧ (∃ x v, At h c x ∧ isPut k v id x) ∧ Silent h (isDisturb k soft) (c + 1) hi) ∨
  (∃ e0, b0.g.store.get? k = some e0 ∧ e0.id = id ∧ (soft = false → e0.soft = false) ∧
    Silent h (isDisturb k soft) 0 hi)

def Src (h : List (BState × Act)) (b0 : BState) (k : Nat) (e : Entry) (hi : Nat) : Prop :=
  ValSrc h b0 k e.value hi ∧ IncSrc h b0 k e.id e.soft hi

/-- the invariant: every entry of the store has its source in the history -/
def SrcInv (h : List (BState × Act)) (b0 b : BState) : Prop :=
  ∀ k e, b.g.store.get? k = some e → Src h b0 k e h.length

theorem ValSrc.sub {h0 h : List (BState × Act)} {b0 : BState} {k v hi : Nat} (hs : Sub h0 h)
    (hv : ValSrc h0 b0 k v hi) (hhi : hi ≤ h0.length) : ValSrc h b0 k v hi := by
  rcases hv with ⟨p, hp, ⟨x, hx, hw⟩, hq⟩ | ⟨e0, h1, h2, hq⟩
  · exact Or.inl ⟨p, hp, ⟨x, hs.at hx, hw⟩, hq.sub hs hhi⟩
  · exact Or.inr ⟨e0, h1, h2, hq.sub hs hhi⟩

theorem IncSrc.sub {h0 h : List (BState × Act)} {b0 : BState} {k id hi : Nat} {soft : Bool} (hs : Sub h0 h)
    (hv : IncSrc h0 b0 k id soft hi) (hhi : hi ≤ h0.length) : IncSrc h b0 k id soft hi := by
  rcases hv with ⟨c, hc, ⟨x, v, hx, hw⟩, hq⟩ | ⟨e0, h1, h2, h3, hq⟩
  · exact Or.inl ⟨c, hc, ⟨x, v, hs.at hx, hw⟩, hq.sub hs hhi⟩
  · exact Or.inr ⟨e0, h1, h2, h3, hq.sub hs hhi⟩

theorem Src.sub {h0 h : List (BState × Act)} {b0 : BState} {k hi : Nat} {e : Entry} (hs : Sub h0 h)
    (hv : Src h0 b0 k e hi) (hhi : hi ≤ h0.length) : Src h b0 k e hi :=
  ⟨hv.1.sub hs hhi, hv.2.sub hs hhi⟩

theorem ValSrc.snoc {h : List (BState × Act)} {b0 : BState} {k v : Nat} {y : BState × Act}
    (hv : ValSrc h b0 k v h.length) (hy : ¬ isWriteAny k y) : ValSrc (y :: h) b0 k v (h.length + 1) := by
  rcases hv with ⟨p, hp, ⟨x, hx, hw⟩, hq⟩ | ⟨e0, h1, h2, hq⟩
  · exact Or.inl ⟨p, by omega, ⟨x, (Sub.cons _ _).at hx, hw⟩, hq.snoc hy⟩
  · exact Or.inr ⟨e0, h1, h2, hq.snoc hy⟩

theorem isDisturb.soften {k : Nat} {soft soft' : Bool} (hss : soft' = false → soft = false) {x : BState × Act}
    (hd : isDisturb k soft' x) : isDisturb k soft x := by
  rcases hd with h1 | h1 | ⟨h1, h2⟩
  · exact Or.inl h1
  · exact Or.inr (Or.inl h1)
  · exact Or.inr (Or.inr ⟨hss h1, h2⟩)

theorem IncSrc.snoc {h : List (BState × Act)} {b0 : BState} {k id : Nat} {soft soft' : Bool} {y : BState × Act}
    (hv : IncSrc h b0 k id soft h.length) (hss : soft' = false → soft = false) (hy : ¬ isDisturb k soft' y) :
    IncSrc (y :: h) b0 k id soft' (h.length + 1) := by
  rcases hv with ⟨c, hc, ⟨x, v, hx, hw⟩, hq⟩ | ⟨e0, h1, h2, h3, hq⟩
  · exact Or.inl ⟨c, by omega, ⟨x, v, (Sub.cons _ _).at hx, hw⟩,
      (hq.mono (fun _ => isDisturb.soften hss)).snoc hy⟩
  · exact Or.inr ⟨e0, h1, h2, fun hf => h3 (hss hf), (hq.mono (fun _ => isDisturb.soften hss)).snoc hy⟩

/-- an upsert's write point is no `store.put`, no removal and no delete mark -/
theorem isUpsert.not_disturb {k v : Nat} {x : BState × Act} (hu : isUpsert k v x) (k' : Nat) (soft : Bool) :
    ¬ isDisturb k' soft x := by
  obtain ⟨i, w, ttl, rm, e, exp, ha, hpc, _, _⟩ := hu
  rintro (⟨_, _, hw, _⟩ | (⟨hw, _⟩ | ⟨hw, _⟩ | ⟨_, _, _, _, _, _, _, hw, _⟩ | ⟨j, _, hj, hpcj, _⟩) | ⟨_, j, _, hj, hpcj, _⟩)
  · rw [ha] at hw; cases hw
  · rw [ha] at hw; cases hw
  · rw [ha] at hw; cases hw
  · rw [ha] at hw; cases hw
  · rw [ha] at hj; cases hj; rw [hpc] at hpcj; cases hpcj
  · rw [ha] at hj; cases hj; rw [hpc] at hpcj; cases hpcj

/-- **one action of any thread keeps `SrcInv`**, the action added to the history -/
theorem srcInv_step {h : List (BState × Act)} {b0 b b' : BState} {a : Act} {o o' : Oracle} (hi : SrcInv h b0 b)
    (hs : stepB b a o = .ok (b', o')) : SrcInv ((b, a) :: h) b0 b' := by
  intro k e' hk'
  show Src ((b, a) :: h) b0 k e' (h.length + 1)
  by_cases hw : isWriteAny k (b, a)
  · obtain ⟨v, ⟨id, hp⟩ | hu⟩ := hw
    · obtain ⟨exp, he⟩ := put_effect hs hp
      rw [hk'] at he; cases he
      exact ⟨Or.inl ⟨h.length, Nat.lt_succ_self _, ⟨_, at_cons_self _ _, Or.inl ⟨id, hp⟩⟩,
                Silent.empty _ _ (Nat.le_refl _)⟩,
             Or.inl ⟨h.length, Nat.lt_succ_self _, ⟨_, v, at_cons_self _ _, hp⟩, Silent.empty _ _ (Nat.le_refl _)⟩⟩
    · obtain ⟨e, exp, hk, he⟩ := upsert_effect hs hu
      rw [hk'] at he; cases he
      exact ⟨Or.inl ⟨h.length, Nat.lt_succ_self _, ⟨_, at_cons_self _ _, Or.inr hu⟩,
                Silent.empty _ _ (Nat.le_refl _)⟩,
             (hi k e hk).2.snoc (fun hf => hf) (hu.not_disturb _ _)⟩
  · obtain ⟨e, hk, hval, hid, hsoft⟩ := nowrite_frame hs hw hk'
    obtain ⟨hv, hinc⟩ := hi k e hk
    refine ⟨hval ▸ hv.snoc hw, hid ▸ hinc.snoc hsoft ?_⟩
    rintro (⟨v, id, hp⟩ | hr | ⟨hf, hm⟩)
    · exact hw ⟨v, Or.inl ⟨id, hp⟩⟩
    · rw [remove_effect hs hr] at hk'; cases hk'
    · obtain ⟨e1, _, he1⟩ := mark_effect hs hm
      rw [hk'] at he1; cases he1
      cases hf

theorem srcInv_run {b0 b : BState} {h : List (BState × Act)} (hrun : RunH b0 h b) : SrcInv h b0 b := by
  induction hrun with
  | nil =>
    intro k e hk
    exact ⟨Or.inr ⟨e, hk, rfl, Silent.empty _ _ (Nat.le_refl _)⟩,
           Or.inr ⟨e, hk, rfl, fun hf => hf, Silent.empty _ _ (Nat.le_refl _)⟩⟩
  | step _ hs ih => exact srcInv_step ih hs

/-! ## 4  the call a client is in -/

/-- the `n`-th action is `issue i req`: client `i` BEGINS the call `req` -/
def Issued (h : List (BState × Act)) (i : Nat) (req : Req) (n : Nat) : Prop := ∃ s, At h n (s, .issue i req)

/-- client `i` has begun no call after the `n₀`-th action -/
def NoIssueAfter (h : List (BState × Act)) (i n₀ : Nat) : Prop := ∀ q s r, n₀ < q → ¬ At h q (s, .issue i r)

/-- the `n`-th action is the store lookup (`store.get`) of key `k` of a single-key read (`get`: position `getStore`;
    `get_ref`: position `refStore`) of client `i`, and it finds the ALIVE entry `e` -/
def SLookup (h : List (BState × Act)) (i k n : Nat) (e : Entry) : Prop :=
  ∃ s, At h n (s, .client i) ∧ (s.cl[i]? = some (.getStore k) ∨ s.cl[i]? = some (.refStore k)) ∧
    s.g.store.get? k = some e ∧ e.alive s.g.now = true

/-- the `n`-th action is the store lookup of key `k` at position `j` (`j` results gathered before it) of a multi-key
    read of client `i`, and it finds the ALIVE entry `e` -/
def MLookup (h : List (BState × Act)) (i j k n : Nat) (e : Entry) : Prop :=
  ∃ s ks acc iter, At h n (s, .client i) ∧ s.cl[i]? = some (.mgetStore k ks acc iter) ∧ acc.length = j ∧
    s.g.store.get? k = some e ∧ e.alive s.g.now = true

/-- after the `n₀`-th action a single-key lookup of `k` by client `i` picked up the value `v`, from an entry whose
    source the history knows -/
def Picked (h : List (BState × Act)) (b0 : BState) (i n₀ k v : Nat) : Prop :=
  ∃ n₁ e, n₀ < n₁ ∧ SLookup h i k n₁ e ∧ e.value = v ∧ Src h b0 k e n₁

def MPicked (h : List (BState × Act)) (b0 : BState) (i n₀ j k v : Nat) : Prop :=
  ∃ n₁ e, n₀ < n₁ ∧ MLookup h i j k n₁ e ∧ e.value = v ∧ Src h b0 k e n₁

/-- every value among the results `acc` of a multi-key read of `ks` was picked up for the key at the same position -/
def AccReg (h : List (BState × Act)) (b0 : BState) (i n₀ : Nat) (ks : List Nat) (acc : List (Option Nat)) : Prop :=
  ∀ j v, acc[j]? = some (some v) → ∃ k, ks[j]? = some k ∧ MPicked h b0 i n₀ j k v

/-- what the history says about a read call `req` begun at `n₀`, position by position -/
def ReadInv (h : List (BState × Act)) (b0 : BState) (i n₀ : Nat) : Req → CPc → Prop
  | .get k, pc => pc = .start (.get k) ∨ pc = .getStore k ∨ ∃ v, pc = .getPool k v ∧ Picked h b0 i n₀ k v
  | .getRef k, pc => pc = .start (.getRef k) ∨ pc = .refStore k ∨ ∃ v, pc = .refPool k v ∧ Picked h b0 i n₀ k v
  | .mget ks iter, pc =>
    pc = .start (.mget ks iter) ∨
    (∃ k rest acc, pc = .mgetStore k rest acc iter ∧ ks.drop acc.length = k :: rest ∧ AccReg h b0 i n₀ ks acc) ∨
    (∃ k v rest acc, pc = .mgetPool k v rest acc iter ∧ ks.drop acc.length = k :: rest ∧
      AccReg h b0 i n₀ ks (acc ++ [some v])) ∨
    (∃ outer rest acc, pc = .mgetFlag outer rest acc iter ∧ ks.drop acc.length = rest ∧ AccReg h b0 i n₀ ks acc)
  | _, _ => True

/-- a client is idle, or inside the call `req` it began at `n₀` (and has begun none since) -/
def CallInv (h : List (BState × Act)) (b0 : BState) (i : Nat) (pc : CPc) : Prop :=
  pc = .idle ∨ ∃ n₀ req, Issued h i req n₀ ∧ NoIssueAfter h i n₀ ∧ ReadInv h b0 i n₀ req pc

def CallsInv (h : List (BState × Act)) (b0 b : BState) : Prop := ∀ i pc, b.cl[i]? = some pc → CallInv h b0 i pc

theorem Issued.sub {h0 h : List (BState × Act)} {i n : Nat} {req : Req} (hs : Sub h0 h) (hi : Issued h0 i req n) :
    Issued h i req n := by
  obtain ⟨s, hx⟩ := hi
  exact ⟨s, hs.at hx⟩

theorem SLookup.sub {h0 h : List (BState × Act)} {i k n : Nat} {e : Entry} (hs : Sub h0 h)
    (hl : SLookup h0 i k n e) : SLookup h i k n e := by
  obtain ⟨s, hx, rest⟩ := hl
  exact ⟨s, hs.at hx, rest⟩

theorem MLookup.sub {h0 h : List (BState × Act)} {i j k n : Nat} {e : Entry} (hs : Sub h0 h)
    (hl : MLookup h0 i j k n e) : MLookup h i j k n e := by
  obtain ⟨s, ks, acc, iter, hx, rest⟩ := hl
  exact ⟨s, ks, acc, iter, hs.at hx, rest⟩

theorem SLookup.lt {h : List (BState × Act)} {i k n : Nat} {e : Entry} (hl : SLookup h i k n e) : n < h.length := by
  obtain ⟨s, hx, _⟩ := hl
  exact hx.lt

theorem MLookup.lt {h : List (BState × Act)} {i j k n : Nat} {e : Entry} (hl : MLookup h i j k n e) :
    n < h.length := by
  obtain ⟨s, _, _, _, hx, _⟩ := hl
  exact hx.lt

theorem Picked.sub {h0 h : List (BState × Act)} {b0 : BState} {i n₀ k v : Nat} (hs : Sub h0 h)
    (hp : Picked h0 b0 i n₀ k v) : Picked h b0 i n₀ k v := by
  obtain ⟨n₁, e, h1, h2, h3, h4⟩ := hp
  exact ⟨n₁, e, h1, h2.sub hs, h3, h4.sub hs (Nat.le_of_lt h2.lt)⟩

theorem MPicked.sub {h0 h : List (BState × Act)} {b0 : BState} {i n₀ j k v : Nat} (hs : Sub h0 h)
    (hp : MPicked h0 b0 i n₀ j k v) : MPicked h b0 i n₀ j k v := by
  obtain ⟨n₁, e, h1, h2, h3, h4⟩ := hp
  exact ⟨n₁, e, h1, h2.sub hs, h3, h4.sub hs (Nat.le_of_lt h2.lt)⟩

theorem AccReg.sub {h0 h : List (BState × Act)} {b0 : BState} {i n₀ : Nat} {ks : List Nat} {acc : List (Option Nat)}
    (hs : Sub h0 h) (ha : AccReg h0 b0 i n₀ ks acc) : AccReg h b0 i n₀ ks acc := by
  intro j v hj
  obtain ⟨k, hk, hp⟩ := ha j v hj
  exact ⟨k, hk, hp.sub hs⟩

theorem AccReg.nil (h : List (BState × Act)) (b0 : BState) (i n₀ : Nat) (ks : List Nat) : AccReg h b0 i n₀ ks [] := by
  intro j v hj; simp at hj

theorem AccReg.append_nones {h : List (BState × Act)} {b0 : BState} {i n₀ : Nat} {ks : List Nat}
    {acc : List (Option Nat)} (ha : AccReg h b0 i n₀ ks acc) (l : List Nat) :
    AccReg h b0 i n₀ ks (acc ++ l.map (fun _ => none)) := by
  intro j v hj
  by_cases hlt : j < acc.length
  · rw [List.getElem?_append_left hlt] at hj
    exact ha j v hj
  · rw [List.getElem?_append_right (by omega), List.getElem?_map] at hj
    cases hx : l[j - acc.length]? <;> simp [hx] at hj

theorem AccReg.snoc_none {h : List (BState × Act)} {b0 : BState} {i n₀ : Nat} {ks : List Nat}
    {acc : List (Option Nat)} (ha : AccReg h b0 i n₀ ks acc) : AccReg h b0 i n₀ ks (acc ++ [none]) := by
  have := ha.append_nones [0]
  simpa using this

theorem ReadInv.sub {h0 h : List (BState × Act)} {b0 : BState} {i n₀ : Nat} {req : Req} {pc : CPc} (hs : Sub h0 h)
    (hr : ReadInv h0 b0 i n₀ req pc) : ReadInv h b0 i n₀ req pc := by
  cases req with
  | get k =>
    rcases hr with h1 | h1 | ⟨v, h1, h2⟩
    · exact Or.inl h1
    · exact Or.inr (Or.inl h1)
    · exact Or.inr (Or.inr ⟨v, h1, h2.sub hs⟩)
  | getRef k =>
    rcases hr with h1 | h1 | ⟨v, h1, h2⟩
    · exact Or.inl h1
    · exact Or.inr (Or.inl h1)
    · exact Or.inr (Or.inr ⟨v, h1, h2.sub hs⟩)
  | mget ks iter =>
    rcases hr with h1 | ⟨k, rest, acc, h1, h2, h3⟩ | ⟨k, v, rest, acc, h1, h2, h3⟩ | ⟨outer, rest, acc, h1, h2, h3⟩
    · exact Or.inl h1
    · exact Or.inr (Or.inl ⟨k, rest, acc, h1, h2, h3.sub hs⟩)
    · exact Or.inr (Or.inr (Or.inl ⟨k, v, rest, acc, h1, h2, h3.sub hs⟩))
    · exact Or.inr (Or.inr (Or.inr ⟨outer, rest, acc, h1, h2, h3.sub hs⟩))
  | _ => trivial

theorem pc_of_set {cl : List CPc} {i : Nat} {x pc' : CPc} (h : (cl.set i x)[i]? = some pc') : pc' = x := by
  by_cases hlt : i < cl.length
  · rw [List.getElem?_set_self hlt] at h
    exact (Option.some.inj h).symm
  · rw [List.getElem?_eq_none (by simp; omega)] at h; cases h

/-- the `pool.add` action of a `get_ref(k)` finishes the call with exactly the value picked up at `store.get` -/
theorem ref_pool_step {b b' : BState} {i k v : Nat} {o o' : Oracle} (hpc : b.cl[i]? = some (.refPool k v))
    (h : clientAct b i o = .ok (b', o')) :
    b'.cl = b.cl.set i .idle ∧ b'.res = b.res.set i (.value (some v) :: b.res.getD i []) := by
  unfold clientAct at h
  simp only [hpc] at h
  split at h
  · simp only [Except.ok.injEq, Prod.mk.injEq] at h; obtain ⟨rfl, rfl⟩ := h
    exact ⟨rfl, rfl⟩
  · cases h

/-- the first action of a read call -/
theorem read_start_step {b b' : BState} {i : Nat} {r : Req} {o o' : Oracle} (hpc : b.cl[i]? = some (.start r))
    (h : clientAct b i o = .ok (b', o')) :
    (∀ k, r = .get k → b' = finishCall b i (.value none) ∨ b' = setClient b i (.getStore k)) ∧
    (∀ k, r = .getRef k → b' = finishCall b i (.value none) ∨ b' = setClient b i (.refStore k)) ∧
    (∀ ks iter, r = .mget ks iter → b' = finishCall b i (.values []) ∨ b' = setClient b i (.mgetFlag true ks [] iter)) := by
  unfold clientAct at h
  simp only [hpc] at h
  refine ⟨?_, ?_, ?_⟩
  · rintro k rfl
    split at h <;> (simp only [Except.ok.injEq, Prod.mk.injEq] at h; obtain ⟨rfl, rfl⟩ := h)
    · exact Or.inl rfl
    · exact Or.inr rfl
  · rintro k rfl
    split at h <;> (simp only [Except.ok.injEq, Prod.mk.injEq] at h; obtain ⟨rfl, rfl⟩ := h)
    · exact Or.inl rfl
    · exact Or.inr rfl
  · rintro ks iter rfl
    have hb : b' = mgetStart b i ks iter := by
      split at h <;> (simp only [Except.ok.injEq, Prod.mk.injEq] at h; exact h.1.symm)
    rcases mgetStart_spec b i ks iter with ⟨_, _, e⟩ | ⟨_, e⟩
    · exact Or.inl (hb.trans e)
    · exact Or.inr (hb.trans e)

/-- where `mgetNext` leaves the client, with the position invariant -/
theorem readInv_mgetNext {H : List (BState × Act)} {b0 : BState} {i n₀ : Nat} {ks : List Nat} {iter : Bool}
    (bX : BState) (rest : List Nat) (acc : List (Option Nat)) (hd : ks.drop acc.length = rest)
    (hok : AccReg H b0 i n₀ ks acc) {pc' : CPc} (hpc' : (mgetNext bX i rest acc iter).cl[i]? = some pc') :
    pc' = .idle ∨ ReadInv H b0 i n₀ (.mget ks iter) pc' := by
  rcases mgetNext_spec bX i rest acc iter with ⟨out, e⟩ | ⟨k, rest', hr, e⟩
  · rw [e] at hpc'
    exact Or.inl (pc_of_set hpc')
  · rw [e] at hpc'
    have := pc_of_set hpc'
    subst this
    exact Or.inr (Or.inr (Or.inr (Or.inr ⟨iter, k :: rest', acc, rfl, by rw [hd, hr], hok⟩)))

/-- **one action of client `i` inside a read call keeps the position invariant** (or returns) -/
theorem readInv_client_step {h : List (BState × Act)} {b0 b b' : BState} {i n₀ : Nat} {o o' : Oracle} {req : Req}
    {pc pc' : CPc} (hsrc : SrcInv h b0 b) (hs : clientAct b i o = .ok (b', o')) (hpc : b.cl[i]? = some pc)
    (hr : ReadInv h b0 i n₀ req pc) (hn0 : n₀ < h.length) (hpc' : b'.cl[i]? = some pc') :
    pc' = .idle ∨ ReadInv ((b, .client i) :: h) b0 i n₀ req pc' := by
  have hsub : Sub h ((b, .client i) :: h) := Sub.cons _ _
  cases req with
  | get k =>
    rcases hr with rfl | rfl | ⟨v, rfl, hp⟩
    · rcases (read_start_step hpc hs).1 k rfl with rfl | rfl
      · exact Or.inl (pc_of_set hpc')
      · exact Or.inr (Or.inr (Or.inl (pc_of_set hpc')))
    · rcases (C02_layerB_get_store hpc hs).1 with ⟨e, he, hal, hcl, _⟩ | ⟨_, hcl, _⟩
      · rw [hcl] at hpc'
        have := pc_of_set hpc'; subst this
        exact Or.inr (Or.inr (Or.inr ⟨e.value, rfl, h.length, e, hn0,
          ⟨b, at_cons_self _ _, Or.inl hpc, he, hal⟩, rfl, (hsrc k e he).sub hsub (Nat.le_refl _)⟩))
      · rw [hcl] at hpc'
        exact Or.inl (pc_of_set hpc')
    · rw [(C02_layerB_get_pool hpc hs).1] at hpc'
      exact Or.inl (pc_of_set hpc')
  | getRef k =>
    rcases hr with rfl | rfl | ⟨v, rfl, hp⟩
    · rcases (read_start_step hpc hs).2.1 k rfl with rfl | rfl
      · exact Or.inl (pc_of_set hpc')
      · exact Or.inr (Or.inr (Or.inl (pc_of_set hpc')))
    · rcases (C02_layerB_ref_store hpc hs).1 with ⟨e, he, hal, hcl, _⟩ | ⟨_, hcl, _⟩
      · rw [hcl] at hpc'
        have := pc_of_set hpc'; subst this
        exact Or.inr (Or.inr (Or.inr ⟨e.value, rfl, h.length, e, hn0,
          ⟨b, at_cons_self _ _, Or.inr hpc, he, hal⟩, rfl, (hsrc k e he).sub hsub (Nat.le_refl _)⟩))
      · rw [hcl] at hpc'
        exact Or.inl (pc_of_set hpc')
    · rw [(ref_pool_step hpc hs).1] at hpc'
      exact Or.inl (pc_of_set hpc')
  | mget ks iter =>
    rcases hr with rfl | ⟨k, rest, acc, rfl, hd, hok⟩ | ⟨k, v, rest, acc, rfl, hd, hok⟩ |
      ⟨outer, rest, acc, rfl, hd, hok⟩
    rotate_right
    · -- a load of the shutdown flag: the results gathered so far are carried along (a `get` that finds the flag set
      -- adds a `None`)
      obtain ⟨rfl, _⟩ := clientAct_mgetFlag hpc hs
      rcases mgetFlagAct_spec b i outer rest acc iter with ⟨_, e⟩ | ⟨k, rest', rfl, _, _, e⟩ | ⟨k, rest', rfl, _, _, e⟩ |
        ⟨k, rest', rfl, _, _, e⟩
      · rw [e] at hpc'
        exact Or.inl (pc_of_set hpc')
      · rw [e] at hpc'
        have := pc_of_set hpc'; subst this
        exact Or.inr (Or.inr (Or.inr (Or.inr ⟨false, k :: rest', acc, rfl, hd, hok.sub hsub⟩)))
      · obtain ⟨hd1, _, _⟩ := drop_succ_of_drop_cons hd
        rw [e] at hpc'
        exact readInv_mgetNext _ rest' (acc ++ [none]) (by simpa using hd1) (hok.sub hsub).snoc_none hpc'
      · rw [e] at hpc'
        have := pc_of_set hpc'; subst this
        exact Or.inr (Or.inr (Or.inl ⟨k, rest', acc, rfl, hd, hok.sub hsub⟩))
    · rcases (read_start_step hpc hs).2.2 ks iter rfl with rfl | rfl
      · exact Or.inl (pc_of_set hpc')
      · have := pc_of_set hpc'; subst this
        exact Or.inr (Or.inr (Or.inr (Or.inr ⟨true, ks, [], rfl, rfl, AccReg.nil _ _ _ _ _⟩)))
    · obtain ⟨hd1, hk, _⟩ := drop_succ_of_drop_cons hd
      rcases (C02_layerB_mget_store hpc hs).1 with ⟨e, he, hal, hcl, _⟩ | ⟨_, rfl⟩
      · rw [hcl] at hpc'
        have := pc_of_set hpc'; subst this
        refine Or.inr (Or.inr (Or.inr (Or.inl ⟨k, e.value, rest, acc, rfl, hd, ?_⟩)))
        intro j v hj
        by_cases hjl : j < acc.length
        · rw [List.getElem?_append_left hjl] at hj
          exact (hok.sub hsub) j v hj
        · have hje : j = acc.length := by
            rcases Nat.lt_or_ge acc.length j with h' | h'
            · rw [List.getElem?_eq_none (by simp; omega)] at hj; cases hj
            · omega
          subst hje
          simp only [List.getElem?_append_right (Nat.le_refl _), Nat.sub_self, List.getElem?_cons_zero,
            Option.some.injEq] at hj
          subst hj
          exact ⟨k, hk, h.length, e, hn0, ⟨b, rest, acc, iter, at_cons_self _ _, hpc, rfl, he, hal⟩, rfl,
            (hsrc k e he).sub hsub (Nat.le_refl _)⟩
      · exact readInv_mgetNext _ rest (acc ++ [none]) (by simpa using hd1) (hok.sub hsub).snoc_none hpc'
    · obtain ⟨hd1, hk, _⟩ := drop_succ_of_drop_cons hd
      obtain ⟨g1, _, rfl⟩ := C02_layerB_mget_pool hpc hs
      exact readInv_mgetNext _ rest (acc ++ [some v]) (by simpa using hd1) (hok.sub hsub) hpc'
  | _ => exact Or.inr trivial

theorem readInv_start (h : List (BState × Act)) (b0 : BState) (i n₀ : Nat) (r : Req) :
    ReadInv h b0 i n₀ r (.start r) := by
  cases r <;> first | trivial | exact Or.inl rfl

/-- **one action of any thread keeps `CallsInv`**, the action added to the history -/
theorem callsInv_step {h : List (BState × Act)} {b0 b b' : BState} {a : Act} {o o' : Oracle} (hsrc : SrcInv h b0 b)
    (hc : CallsInv h b0 b) (hs : stepB b a o = .ok (b', o')) : CallsInv ((b, a) :: h) b0 b' := by
  intro i pc' hpc'
  have hsub : Sub h ((b, a) :: h) := Sub.cons _ _
  by_cases ha : a = .client i
  · subst ha
    simp only [stepB] at hs
    cases hpc : b.cl[i]? with
    | none => simp [clientAct, hpc] at hs
    | some pc =>
      rcases hc i pc hpc with rfl | ⟨n₀, req, hiss, hno, hread⟩
      · simp [clientAct, hpc] at hs
      · have hn0 : n₀ < h.length := by obtain ⟨s, hx⟩ := hiss; exact hx.lt
        rcases readInv_client_step hsrc hs hpc hread hn0 hpc' with hidle | hr'
        · exact Or.inl hidle
        · refine Or.inr ⟨n₀, req, hiss.sub hsub, ?_, hr'⟩
          intro q s r hq hx
          rcases at_cons.mp hx with ⟨_, e⟩ | hx
          · cases e
          · exact hno q s r hq hx
  · by_cases hiss : ∃ r, a = .issue i r
    · obtain ⟨r, rfl⟩ := hiss
      simp only [stepB] at hs
      split at hs
      · rename_i b1 hi1
        simp only [Except.ok.injEq, Prod.mk.injEq] at hs; obtain ⟨rfl, rfl⟩ := hs
        unfold issue at hi1
        split at hi1
        · simp only [Except.ok.injEq] at hi1; subst hi1
          have := pc_of_set hpc'; subst this
          refine Or.inr ⟨h.length, r, ⟨b, at_cons_self _ _⟩, ?_, readInv_start _ _ _ _ _⟩
          intro q s r' hq hx
          have := hx.lt
          simp only [List.length_cons] at this
          omega
        · cases hi1
      · cases hs
    · have hx : ∀ r, a ≠ .issue i r := fun r hr => hiss ⟨r, hr⟩
      rw [other_threads_keep_pc hs ha hx] at hpc'
      rcases hc i pc' hpc' with hidle | ⟨n₀, req, hiss', hno, hread⟩
      · exact Or.inl hidle
      · refine Or.inr ⟨n₀, req, hiss'.sub hsub, ?_, hread.sub hsub⟩
        intro q s r hq hxq
        rcases at_cons.mp hxq with ⟨_, e⟩ | hxq
        · exact hx r (congrArg Prod.snd e).symm
        · exact hno q s r hq hxq

/-- the two invariants along every run that starts with every client idle -/
theorem inv_run {b0 b : BState} {h : List (BState × Act)} (hrun : RunH b0 h b) (hidle : ∀ pc ∈ b0.cl, pc = .idle) :
    SrcInv h b0 b ∧ CallsInv h b0 b := by
  induction hrun with
  | nil =>
    refine ⟨srcInv_run (.nil _), ?_⟩
    intro i pc hpc
    exact Or.inl (hidle pc (List.mem_of_getElem? hpc))
  | step hprev hs ih => exact ⟨srcInv_step ih.1 hs, callsInv_step ih.1 ih.2 hs⟩

/-! ### the RETURN of a call -/

/-- the `n`-th action is the action of client `i` that RETURNS its call: after it the client is idle again, and `out`
    has been recorded as the call's result (`b`: the final state of the run) -/
def Returned (h : List (BState × Act)) (b : BState) (i n : Nat) (out : Out) : Prop :=
  ∃ s s', At h n (s, .client i) ∧ StateAt h b (n + 1) s' ∧ s'.cl[i]? = some .idle ∧
    s'.res[i]? = some (out :: s.res.getD i [])

theorem res_set_head {res : List (List Out)} {i : Nat} {out out' : Out} {l l' : List Out}
    (h : (res.set i (out :: l))[i]? = some (out' :: l')) : out = out' := by
  by_cases hi : i < res.length
  · rw [List.getElem?_set_self hi] at h
    injection h with h
    injection h
  · rw [List.getElem?_eq_none (by simp; omega)] at h; cases h

theorem alive_not_soft {e : Entry} {now : Nat} (h : e.alive now = true) : e.soft = false := by
  unfold Entry.alive at h
  split at h
  · cases h
  · rename_i hs; simpa using hs

/-- a single-key read that returns `Some(v)` picked `v` up at its lookup -/
theorem single_return {h : List (BState × Act)} {b0 b b' : BState} {i n₀ k v : Nat} {o o' : Oracle} {req : Req}
    {pc : CPc} {l' : List Out} (hreq : req = .get k ∨ req = .getRef k) (hs : clientAct b i o = .ok (b', o'))
    (hpc : b.cl[i]? = some pc) (hr : ReadInv h b0 i n₀ req pc) (hidle : b'.cl[i]? = some .idle)
    (hres : b'.res[i]? = some (.value (some v) :: l')) : Picked h b0 i n₀ k v := by
  rcases hreq with rfl | rfl
  · rcases hr with rfl | rfl | ⟨v', rfl, hp⟩
    · rcases (read_start_step hpc hs).1 k rfl with rfl | rfl
      · have := res_set_head hres; cases this
      · have := pc_of_set hidle; cases this
    · rcases (C02_layerB_get_store hpc hs).1 with ⟨e, _, _, hcl, _⟩ | ⟨_, _, hres'⟩
      · rw [hcl] at hidle; have := pc_of_set hidle; cases this
      · rw [hres'] at hres; have := res_set_head hres; cases this
    · rw [(C02_layerB_get_pool hpc hs).2] at hres
      have := res_set_head hres
      cases this
      exact hp
  · rcases hr with rfl | rfl | ⟨v', rfl, hp⟩
    · rcases (read_start_step hpc hs).2.1 k rfl with rfl | rfl
      · have := res_set_head hres; cases this
      · have := pc_of_set hidle; cases this
    · rcases (C02_layerB_ref_store hpc hs).1 with ⟨e, _, _, hcl, _⟩ | ⟨_, _, hres', _⟩
      · rw [hcl] at hidle; have := pc_of_set hidle; cases this
      · rw [hres'] at hres; have := res_set_head hres; cases this
    · rw [(ref_pool_step hpc hs).2] at hres
      have := res_set_head hres
      cases this
      exact hp

/-- when `mgetNext` returns the call, the results are exactly the ones gathered (no key was left) -/
theorem mgetNext_idle {b : BState} {i : Nat} {ks : List Nat} {acc : List (Option Nat)} {iter : Bool}
    (h : (mgetNext b i ks acc iter).cl[i]? = some .idle) :
    mgetNext b i ks acc iter = finishCall b i (.values acc) := by
  rcases mgetNext_spec b i ks acc iter with ⟨_, e⟩ | ⟨k, rest, _, e⟩
  · exact e
  · rw [e] at h
    have := pc_of_set h
    cases this

theorem mgetNext_return {H : List (BState × Act)} {b0 : BState} {i n₀ : Nat} {ks : List Nat} {iter : Bool}
    (bX : BState) (rest : List Nat) (acc : List (Option Nat)) (hok : AccReg H b0 i n₀ ks acc)
    {outs : List (Option Nat)} {l' : List Out} (hidle : (mgetNext bX i rest acc iter).cl[i]? = some .idle)
    (hres : (mgetNext bX i rest acc iter).res[i]? = some (.values outs :: l')) : AccReg H b0 i n₀ ks outs := by
  rw [mgetNext_idle hidle] at hres
  have := res_set_head hres
  cases this
  exact hok

/-- a multi-key read that returns `outs`: every value among them was picked up at the lookup of its own position -/
theorem mget_return {h : List (BState × Act)} {b0 b b' : BState} {i n₀ : Nat} {o o' : Oracle} {ks : List Nat}
    {iter : Bool} {pc : CPc} {outs : List (Option Nat)} {l' : List Out} (hs : clientAct b i o = .ok (b', o'))
    (hpc : b.cl[i]? = some pc) (hr : ReadInv h b0 i n₀ (.mget ks iter) pc) (hidle : b'.cl[i]? = some .idle)
    (hres : b'.res[i]? = some (.values outs :: l')) : AccReg h b0 i n₀ ks outs := by
  rcases hr with rfl | ⟨k, rest, acc, rfl, hd, hok⟩ | ⟨k, v, rest, acc, rfl, hd, hok⟩ | ⟨outer, rest, acc, rfl, hd, hok⟩
  · rcases (read_start_step hpc hs).2.2 ks iter rfl with rfl | rfl
    · have := res_set_head hres
      cases this
      exact AccReg.nil _ _ _ _ _
    · have := pc_of_set hidle; cases this
  · rcases (C02_layerB_mget_store hpc hs).1 with ⟨e, _, _, hcl, _⟩ | ⟨_, rfl⟩
    · rw [hcl] at hidle; have := pc_of_set hidle; cases this
    · exact mgetNext_return _ rest (acc ++ [none]) hok.snoc_none hidle hres
  · obtain ⟨g1, _, rfl⟩ := C02_layerB_mget_pool hpc hs
    exact mgetNext_return _ rest (acc ++ [some v]) hok hidle hres
  · obtain ⟨rfl, _⟩ := clientAct_mgetFlag hpc hs
    rcases mgetFlagAct_spec b i outer rest acc iter with ⟨_, e⟩ | ⟨k, rest', rfl, _, _, e⟩ | ⟨k, rest', rfl, _, _, e⟩ |
      ⟨k, rest', rfl, _, _, e⟩
    · rw [e] at hres
      have := res_set_head hres
      cases this
      exact hok
    · rw [e] at hidle; have := pc_of_set hidle; cases this
    · rw [e] at hidle hres
      exact mgetNext_return _ rest' (acc ++ [none]) hok.snoc_none hidle hres
    · rw [e] at hidle; have := pc_of_set hidle; cases this

/-- **The call a client action belongs to.**  In a run that starts with every client idle: if client `i` began the
    call `req` at `n₀`, began no other call before `n₂`, and the `n₂`-th action is an action of client `i`, then that
    action is a step of the model, and in the run up to it (`h0`, the first `n₂` actions) the client stands at a
    position of that very call, about which the history says `ReadInv`. -/
theorem call_at {b0 b : BState} {h : List (BState × Act)} (hidle : ∀ pc ∈ b0.cl, pc = .idle) (hrun : RunH b0 h b)
    {i n₀ n₂ : Nat} {req : Req} {s : BState} (hiss : Issued h i req n₀) (hx : At h n₂ (s, .client i)) (hlt : n₀ < n₂)
    (hsame : ∀ q r, n₀ < q → q < n₂ → ¬ Issued h i r q) :
    ∃ s' o o' h0 pc, clientAct s i o = .ok (s', o') ∧ StateAt h b (n₂ + 1) s' ∧ Sub h0 h ∧ h0.length = n₂ ∧
      s.cl[i]? = some pc ∧ ReadInv h0 b0 i n₀ req pc := by
  obtain ⟨s', o, o', h0, hs, hst, hr0, hlen, hsub⟩ := runH_at hrun hx
  simp only [stepB] at hs
  obtain ⟨_, hcalls⟩ := inv_run hr0 hidle
  cases hpc : s.cl[i]? with
  | none => simp [clientAct, hpc] at hs
  | some pc =>
    rcases hcalls i pc hpc with rfl | ⟨n₀', req', hiss', hno', hread'⟩
    · simp [clientAct, hpc] at hs
    · obtain ⟨s0, hx0⟩ := hiss
      have hx0' : At h0 n₀ (s0, .issue i req) := (hsub _ _).mpr ⟨by omega, hx0⟩
      have h1 : ¬ n₀' < n₀ := fun hl => hno' n₀ s0 req hl hx0'
      have hn0' : n₀' < n₂ := by obtain ⟨s1, hx1⟩ := hiss'; have := hx1.lt; omega
      have h2 : ¬ n₀ < n₀' := fun hl => hsame n₀' req' hl hn0' (hiss'.sub hsub)
      have he : n₀' = n₀ := by omega
      subst he
      obtain ⟨s1, hx1⟩ := hiss'
      have := hx1.inj hx0'
      cases this
      exact ⟨s', o, o', h0, pc, hs, hst, hsub, hlen, rfl, hread'⟩

/-! ## 5  every put under way was issued by a call of the history -/

/-- the call `req` writes the value `v` for the key `k`: `put*(k, v)` or `put_or_update(k, Some(v), ..)` -/
def WritesReq (req : Req) (k v : Nat) : Prop :=
  (∃ w ttl, req = .putW k v w ttl) ∨ (∃ w ttl rm, req = .upsert k (some v) w ttl rm)

/-- key and value of a put command -/
def cmdKV : Cmd → Option (Nat × Nat)
  | .put _ _ _ k v => some (k, v)
  | .putTtl _ _ _ k v _ => some (k, v)
  | _ => none

/-- key and value a client carries towards a write point -/
def pcKV : CPc → Option (Nat × Nat)
  | .start (.putW k v _ _) => some (k, v)
  | .start (.upsert k (some v) _ _ _) => some (k, v)
  | .putPresent k v _ _ => some (k, v)
  | .idNext k v _ _ => some (k, v)
  | .send cmd => cmdKV cmd
  | .upUpdate k (some v) _ _ _ => some (k, v)
  | _ => none

/-- WHERE A WRITE COMES FROM: a call of the history that writes `v` for `k` — or (NAMED alternatives) a put command of
    `(k, v)` that stood in the queue of the start state `b0`, or that the worker of `b0` was in the middle of -/
def Origin (h : List (BState × Act)) (b0 : BState) (k v : Nat) : Prop :=
  (∃ j m req, Issued h j req m ∧ WritesReq req k v) ∨
  (∃ p ∈ b0.g.queue, cmdKV p.1 = some (k, v)) ∨
  (∃ c, b0.w.cmd? = some c ∧ c.k = k ∧ c.v = v)

theorem Origin.sub {h0 h : List (BState × Act)} {b0 : BState} {k v : Nat} (hs : Sub h0 h) (ho : Origin h0 b0 k v) :
    Origin h b0 k v := by
  rcases ho with ⟨j, m, req, h1, h2⟩ | h1 | h1
  · exact Or.inl ⟨j, m, req, h1.sub hs, h2⟩
  · exact Or.inr (Or.inl h1)
  · exact Or.inr (Or.inr h1)

def ProvInv (h : List (BState × Act)) (b0 b : BState) : Prop :=
  (∀ (i : Nat) (pc : CPc) (k v : Nat), b.cl[i]? = some pc → pcKV pc = some (k, v) → Origin h b0 k v) ∧
  (∀ p ∈ b.g.queue, ∀ k v, cmdKV p.1 = some (k, v) → Origin h b0 k v) ∧
  (∀ c, b.w.cmd? = some c → Origin h b0 c.k c.v)

theorem cmdKV_cmdOfPut (c : PutCmd) : cmdKV (cmdOfPut c) = some (c.k, c.v) := by
  unfold cmdOfPut; split <;> rfl

theorem pcKV_start {r : Req} {k v : Nat} (h : pcKV (.start r) = some (k, v)) : WritesReq r k v := by
  cases r with
  | putW k' v' w ttl => simp only [pcKV, Option.some.injEq, Prod.mk.injEq] at h; obtain ⟨rfl, rfl⟩ := h; exact Or.inl ⟨w, ttl, rfl⟩
  | upsert k' v' w ttl rm =>
    cases v' with
    | none => simp [pcKV] at h
    | some x => simp only [pcKV, Option.some.injEq, Prod.mk.injEq] at h; obtain ⟨rfl, rfl⟩ := h; exact Or.inr ⟨w, ttl, rm, rfl⟩
  | _ => simp [pcKV] at h

set_option linter.unusedSimpArgs false in
/-- the worker takes its put from the queue and carries it unchanged; it never adds to the queue -/
theorem wtrans_prov {b b' : BState} (h : WTrans b b') :
    (∀ p ∈ b'.g.queue, p ∈ b.g.queue) ∧
    (∀ c, b'.w.cmd? = some c → b.w.cmd? = some c ∨ ∃ q, b.g.queue = (cmdOfPut c, c.h) :: q) := by
  cases h
  case recvPut c q hw hq =>
    refine ⟨fun p hp => by rw [hq]; exact List.mem_cons_of_mem _ hp, fun c' hc' => ?_⟩
    simp only [WPc.cmd?, Option.some.injEq] at hc'; subst hc'
    exact Or.inr ⟨q, hq⟩
  case recvUpdate id w hh q hw hq =>
    exact ⟨fun p hp => by rw [hq]; exact List.mem_cons_of_mem _ hp, fun c' hc' => by simp [WPc.cmd?] at hc'⟩
  case recvDelete k hh q hw hq =>
    exact ⟨fun p hp => by rw [hq]; exact List.mem_cons_of_mem _ hp, fun c' hc' => by simp [WPc.cmd?] at hc'⟩
  case recvShutdown hh q hw hq =>
    exact ⟨fun p hp => by rw [hq]; exact List.mem_cons_of_mem _ hp, fun c' hc' => by simp [WPc.cmd?] at hc'⟩
  case drain cmd hh q hw hq =>
    exact ⟨fun p hp => by rw [hq]; exact List.mem_cons_of_mem _ hp, fun c' hc' => by simp [WPc.cmd?] at hc'⟩
  all_goals
    refine ⟨fun p hp => (by first
      | (simp [finishCmd, rejectCmd, ttlPut, ttlDelete] at hp; done)
      | (simp [finishCmd, rejectCmd, ttlPut, ttlDelete] at hp; exact hp)), fun c' hc' => ?_⟩
    first
      | (exfalso; simp [WPc.cmd?, finishCmd, rejectCmd] at hc'; done)
      | (left; simp_all [WPc.cmd?, finishCmd, rejectCmd])

/-- a client action from a position other than `start` and `upsert.update` -/
theorem client_pcKV_other {b b' : BState} {i : Nat} {pc pc' : CPc} {kv : Nat × Nat} (ht : CTrans b i b')
    (hpc : b.cl[i]? = some pc) (hpc' : b'.cl[i]? = some pc') (hkv : pcKV pc' = some kv)
    (h1 : ∀ r, pc ≠ .start r) (h2 : ∀ k v w ttl rm, pc ≠ .upUpdate k v w ttl rm) : pcKV pc = some kv := by
  have hne : ∀ {x : CPc}, b.cl[i]? = some x → pc = x := fun hx => Option.some.inj (hpc.symm.trans hx)
  cases ht
  case startPut k v w ttl hpc0 _ => exact absurd (hne hpc0) (h1 _)
  case startPlain r pc1 hpc0 _ => exact absurd (hne hpc0) (h1 _)
  case upPut k v w ttl rm val weight hpc0 _ _ => exact absurd (hne hpc0) (h2 _ _ _ _ _)
  case upUpdate k v w ttl rm e ne uw hpc0 _ _ => exact absurd (hne hpc0) (h2 _ _ _ _ _)
  case putPresentOk k v w ttl hpc0 =>
    have := hne hpc0; subst this
    have := pc_of_set hpc'; subst this
    exact hkv
  case idNext k v w ttl hpc0 =>
    have := hne hpc0; subst this
    have := pc_of_set hpc'; subst this
    cases ttl <;> exact hkv
  case upWeightOfTtl id uw old new pc1 hpc0 hu _ _ =>
    have := pc_of_set hpc'; subst this
    cases pc' <;> simp [CPc.usedId?, pcKV] at hu hkv
  case shutLocal pc0 pc1 g' hpc0 _ hac hg =>
    have := pc_of_set hpc'; subst this
    clear hg
    cases pc' <;> simp [CPc.afterCas, pcKV] at hac hkv
  case mgetStep pc0 pc1 g' hpc0 _ hm hg =>
    have := pc_of_set hpc'; subst this
    clear hg
    cases pc' <;> simp [CPc.isMget, pcKV] at hm hkv
  case upAfterSame id uw old new hpc0 =>
    rcases upAfterIndex_spec b i id uw with ⟨_, e⟩ | ⟨_, _, e⟩ | e <;> rw [e] at hpc' <;>
      (have := pc_of_set hpc'; subst this; simp [pcKV, cmdKV] at hkv)
  case upAfterPut pc0 id e uw _ _ _ =>
    rcases upAfterIndex_spec { b with g := ttlPut b.g id e } i id uw with ⟨_, e⟩ | ⟨_, _, e⟩ | e <;> rw [e] at hpc' <;>
      (have := pc_of_set hpc'; subst this; simp [pcKV, cmdKV] at hkv)
  case upAfterDelete id e uw _ _ =>
    rcases upAfterIndex_spec { b with g := ttlDelete b.g id e } i id uw with ⟨_, e⟩ | ⟨_, _, e⟩ | e <;>
      rw [e] at hpc' <;> (have := pc_of_set hpc'; subst this; simp [pcKV, cmdKV] at hkv)
  all_goals
    have := pc_of_set hpc'
    subst this
    simp [pcKV, cmdKV] at hkv

/-- **what a client carries towards a write point, it carried before its action** -/
theorem client_pcKV {b b' : BState} {i : Nat} {o o' : Oracle} {pc pc' : CPc} {kv : Nat × Nat}
    (hs : clientAct b i o = .ok (b', o')) (hpc : b.cl[i]? = some pc) (hpc' : b'.cl[i]? = some pc')
    (hkv : pcKV pc' = some kv) : pcKV pc = some kv := by
  by_cases h1 : ∃ r, pc = .start r
  · obtain ⟨r, rfl⟩ := h1
    unfold clientAct at hs
    simp only [hpc] at hs
    split at hs
    · cases r <;> simp only [Except.ok.injEq, Prod.mk.injEq] at hs <;> obtain ⟨rfl, rfl⟩ := hs <;>
        first
        | (have := pc_of_set hpc'; subst this; simp [pcKV] at hkv)
        | (rcases mgetStart_spec b i _ _ with ⟨_, _, e⟩ | ⟨_, e⟩ <;> rw [e] at hpc' <;>
            (have := pc_of_set hpc'; subst this; simp [pcKV] at hkv))
    · cases r with
      | putW k v w ttl =>
        simp only [] at hs
        split at hs <;> simp only [Except.ok.injEq, Prod.mk.injEq] at hs <;> obtain ⟨rfl, rfl⟩ := hs <;>
          (have := pc_of_set hpc'; subst this)
        · simp [pcKV] at hkv
        · exact hkv
      | upsert k v w ttl rm =>
        simp only [Except.ok.injEq, Prod.mk.injEq] at hs; obtain ⟨rfl, rfl⟩ := hs
        have := pc_of_set hpc'; subst this
        cases v <;> exact hkv
      | mget ks iter =>
        simp only [Except.ok.injEq, Prod.mk.injEq] at hs; obtain ⟨rfl, rfl⟩ := hs
        rcases mgetStart_spec b i ks iter with ⟨_, _, e⟩ | ⟨_, e⟩ <;> rw [e] at hpc' <;>
          (have := pc_of_set hpc'; subst this; simp [pcKV] at hkv)
      | _ =>
        simp only [Except.ok.injEq, Prod.mk.injEq] at hs; obtain ⟨rfl, rfl⟩ := hs
        have := pc_of_set hpc'; subst this
        simp [pcKV] at hkv
  by_cases h2 : ∃ k v w ttl rm, pc = .upUpdate k v w ttl rm
  · obtain ⟨k, v, w, ttl, rm, rfl⟩ := h2
    unfold clientAct at hs
    simp only [hpc] at hs
    split at hs
    · cases hs
    · split at hs
      · split at hs
        · rename_i val weight
          split at hs <;> simp only [Except.ok.injEq, Prod.mk.injEq] at hs <;> obtain ⟨rfl, rfl⟩ := hs <;>
            (have := pc_of_set hpc'; subst this)
          · simp [pcKV] at hkv
          · exact hkv
        · simp only [Except.ok.injEq, Prod.mk.injEq] at hs; obtain ⟨rfl, rfl⟩ := hs
          have := pc_of_set hpc'; subst this
          simp [pcKV] at hkv
      · split at hs <;> simp only [Except.ok.injEq, Prod.mk.injEq] at hs <;> obtain ⟨rfl, rfl⟩ := hs <;>
          (have := pc_of_set hpc'; subst this; simp [pcKV] at hkv)
  · exact client_pcKV_other (clientAct_trans hs) hpc hpc' hkv (fun r e => h1 ⟨r, e⟩)
      (fun k v w ttl rm e => h2 ⟨k, v, w, ttl, rm, e⟩)

/-- **one action of any thread keeps `ProvInv`**, the action added to the history -/
theorem provInv_step {h : List (BState × Act)} {b0 b b' : BState} {a : Act} {o o' : Oracle} (hi : ProvInv h b0 b)
    (hs : stepB b a o = .ok (b', o')) : ProvInv ((b, a) :: h) b0 b' := by
  have hsub : Sub h ((b, a) :: h) := Sub.cons _ _
  obtain ⟨hcl, hq, hw⟩ := hi
  -- a client other than the one that acts keeps its position
  have hother : ∀ (i : Nat) (pc : CPc) (k v : Nat), b'.cl[i]? = b.cl[i]? → b'.cl[i]? = some pc → pcKV pc = some (k, v) →
      Origin ((b, a) :: h) b0 k v := fun i pc k v he hpc hkv => (hcl i pc k v (he ▸ hpc) hkv).sub hsub
  cases a with
  | issue j r =>
    simp only [stepB] at hs
    split at hs
    · rename_i b1 hi1
      simp only [Except.ok.injEq, Prod.mk.injEq] at hs; obtain ⟨rfl, rfl⟩ := hs
      unfold issue at hi1
      split at hi1
      · simp only [Except.ok.injEq] at hi1; subst hi1
        refine ⟨?_, fun p hp k v hkv => (hq p hp k v hkv).sub hsub, fun c hc => (hw c hc).sub hsub⟩
        intro i pc k v hpc hkv
        by_cases hij : j = i
        · subst hij
          have := pc_of_set hpc; subst this
          exact Or.inl ⟨j, h.length, r, ⟨b, at_cons_self _ _⟩, pcKV_start hkv⟩
        · exact hother i pc k v (by simp [setClient, List.getElem?_set_ne hij]) hpc hkv
      · cases hi1
    · cases hs
  | client j =>
    simp only [stepB] at hs
    have ht := clientAct_trans hs
    refine ⟨?_, ?_, ?_⟩
    · intro i pc' k v hpc' hkv
      by_cases hij : j = i
      · subst hij
        cases hpc : b.cl[j]? with
        | none => simp [clientAct, hpc] at hs
        | some pc => exact (hcl j pc k v hpc (client_pcKV hs hpc hpc' hkv)).sub hsub
      · exact hother i pc' k v
          (other_threads_keep_pc (a := .client j) (by simpa [stepB] using hs) (fun e => hij (by cases e; rfl))
            (fun r e => by cases e)) hpc' hkv
    · intro p hp k v hkv
      rcases ctrans_cstep ht with ⟨hq', _⟩ | ⟨_, hq', _⟩ | ⟨cmd, hpc, hq', _⟩ | ⟨_, _, hq', _⟩
      · rw [hq'] at hp; exact (hq p hp k v hkv).sub hsub
      · rw [hq'] at hp; exact (hq p hp k v hkv).sub hsub
      · rw [hq'] at hp
        rcases List.mem_append.mp hp with hp | hp
        · exact (hq p hp k v hkv).sub hsub
        · simp only [List.mem_singleton] at hp; subst hp
          exact (hcl j _ k v hpc hkv).sub hsub
      · rw [hq'] at hp
        rcases List.mem_append.mp hp with hp | hp
        · exact (hq p hp k v hkv).sub hsub
        · simp only [List.mem_singleton] at hp; subst hp
          simp [cmdKV] at hkv
    · intro c hc
      rw [(ctrans_frame ht).1] at hc
      exact (hw c hc).sub hsub
  | worker =>
    simp only [stepB] at hs
    have ht := workerAct_trans hs
    obtain ⟨hq', hw'⟩ := wtrans_prov ht
    refine ⟨?_, fun p hp k v hkv => (hq p (hq' p hp) k v hkv).sub hsub, ?_⟩
    · intro i pc k v hpc hkv
      exact hother i pc k v (by rw [(wtrans_cl ht).1]) hpc hkv
    · intro c hc
      rcases hw' c hc with hc0 | ⟨q, hq0⟩
      · exact (hw c hc0).sub hsub
      · exact (hq (cmdOfPut c, c.h) (by rw [hq0]; exact List.mem_cons_self) c.k c.v (cmdKV_cmdOfPut c)).sub hsub
  | sweeper v =>
    simp only [stepB] at hs
    split at hs
    · rename_i b1 hs'
      simp only [Except.ok.injEq, Prod.mk.injEq] at hs; obtain ⟨rfl, rfl⟩ := hs
      obtain ⟨h1, h2, h3, _⟩ := strans_frame (sweeperAct_trans hs')
      refine ⟨fun i pc k v hpc hkv => hother i pc k v (by rw [h2]) hpc hkv,
        fun p hp k v hkv => (hq p (h3 ▸ hp) k v hkv).sub hsub, fun c hc => (hw c (h1 ▸ hc)).sub hsub⟩
    · cases hs
  | consumer =>
    simp only [stepB] at hs
    split at hs
    · rename_i g' out o1 hc
      simp only [Except.ok.injEq, Prod.mk.injEq] at hs; obtain ⟨rfl, rfl⟩ := hs
      have hqe : g'.queue = b.g.queue := by rw [consumerStep_frame hc]
      refine ⟨fun i pc k v hpc hkv => hother i pc k v rfl hpc hkv,
        fun p hp k v hkv => (hq p (by rw [← hqe]; exact hp) k v hkv).sub hsub, fun c hc => (hw c hc).sub hsub⟩
    · cases hs
  | advance d =>
    simp only [stepB, Except.ok.injEq, Prod.mk.injEq] at hs; obtain ⟨rfl, rfl⟩ := hs
    exact ⟨fun i pc k v hpc hkv => hother i pc k v rfl hpc hkv,
      fun p hp k v hkv => (hq p hp k v hkv).sub hsub, fun c hc => (hw c hc).sub hsub⟩

theorem provInv_run {b0 b : BState} {h : List (BState × Act)} (hrun : RunH b0 h b) (hidle : ∀ pc ∈ b0.cl, pc = .idle) :
    ProvInv h b0 b := by
  induction hrun with
  | nil =>
    refine ⟨?_, fun p hp k v hkv => Or.inr (Or.inl ⟨p, hp, hkv⟩), fun c hc => Or.inr (Or.inr ⟨c, hc, rfl, rfl⟩)⟩
    intro i pc k v hpc hkv
    rw [hidle pc (List.mem_of_getElem? hpc)] at hkv
    simp [pcKV] at hkv
  | step _ hs ih => exact provInv_step ih hs

/-- **Every write point was begun by a call**: in a run that starts with every client idle, the `p`-th action being a
    write point of `k` with value `v`, a call `put*(k, v)` / `put_or_update(k, Some(v), ..)` was ISSUED at some `m < p`
    — or (named) the put command was already queued, or under the worker's hands, in the start state. -/
theorem write_origin {b0 b : BState} {h : List (BState × Act)} (hidle : ∀ pc ∈ b0.cl, pc = .idle) (hrun : RunH b0 h b)
    {p k v : Nat} {x : BState × Act} (hx : At h p x) (hw : isWrite k v x) :
    (∃ j m req, m < p ∧ Issued h j req m ∧ WritesReq req k v) ∨
    (∃ c ∈ b0.g.queue, cmdKV c.1 = some (k, v)) ∨ (∃ c, b0.w.cmd? = some c ∧ c.k = k ∧ c.v = v) := by
  obtain ⟨s, a⟩ := x
  obtain ⟨s', o, o', h0, _, _, hr0, hlen, hsub⟩ := runH_at hrun hx
  obtain ⟨hcl, _, hwk⟩ := provInv_run hr0 hidle
  have key : Origin h0 b0 k v := by
    rcases hw with ⟨id, _, c, exp, hw, rfl, rfl, _⟩ | ⟨i, w, ttl, rm, e, exp, _, hpc, _⟩
    · exact hwk c (by simp only at hw; rw [hw]; rfl)
    · exact hcl i _ k v hpc rfl
  rcases key with ⟨j, m, req, h1, h2⟩ | h1 | h1
  · refine Or.inl ⟨j, m, req, ?_, h1.sub hsub, h2⟩
    obtain ⟨_, hm⟩ := h1
    have := hm.lt; omega
  · exact Or.inr (Or.inl h1)
  · exact Or.inr (Or.inr h1)

end Hist
end B
end Cached
