/-
  Helper file of LayerB/IndexStep.lean: the vocabulary (`IdxIs`, `InStep`, the per-id views of the thread positions:
  `cview` clients inside the index part of `put_or_update`, `wview` the worker between `store.put` and `ttl.put`, `kview`
  the sweeper between `sweep.entry` and its check, `eview` the sweeper past its check), the per-id invariant `KInvId`,
  the per-key invariant `KInv`, the seriality condition `SerialCore`, the frame lemmas, and the preservation of `KInv`
  by every action of every thread (`kinv_worker`, `kinv_sweeper`, `kinv_client`, `kinv_step`).
-/
import CachedProofs.LayerB.Sweep
import CachedProofs.LayerB.Upsert
import CachedProofs.LayerB.Bijection

namespace Cached
namespace B

/-! ## 1  the index of one key id -/

/-- the key id is charged (it has an entry in `key_weights`) -/
def Charged (b : BState) (id : Nat) : Prop := (b.g.adm.kw.get? id).isSome = true

instance (b : BState) (id : Nat) : Decidable (Charged b id) := by unfold Charged; infer_instance

theorem charged_iff {b : BState} {id : Nat} : Charged b id ↔ ∃ wk, b.g.adm.kw.get? id = some wk := by
  unfold Charged
  cases b.g.adm.kw.get? id <;> simp

/-- what the expiry index holds for the key id `id`: with `some d`, exactly ONE entry — `(shardOf d, id) ↦ d`, in the
    shard of the deadline `d` — and no entry for `id` in any other shard; with `none`, no entry for `id` in any shard -/
def IdxIs (cfg : Cfg) (t : AMap (Nat × Nat) Nat) (id : Nat) : Option Nat → Prop
  | some d => t.get? (shardOf cfg d, id) = some d ∧ ∀ sh, sh ≠ shardOf cfg d → t.get? (sh, id) = none
  | none => ∀ sh, t.get? (sh, id) = none

theorem idxIs_congr {cfg : Cfg} {t t' : AMap (Nat × Nat) Nat} {id : Nat} (h : ∀ sh, t'.get? (sh, id) = t.get? (sh, id))
    (y : Option Nat) : IdxIs cfg t' id y ↔ IdxIs cfg t id y := by
  cases y <;> simp only [IdxIs, h]

theorem idxIs_set_other {cfg : Cfg} {t : AMap (Nat × Nat) Nat} {id : Nat} {p : Nat × Nat} (v : Nat) (h : p.2 ≠ id)
    (y : Option Nat) : IdxIs cfg (t.set p v) id y ↔ IdxIs cfg t id y :=
  idxIs_congr (fun sh => AMap.get?_set_other _ _ (fun hh => h (by rw [hh]))) y

theorem idxIs_del_other {cfg : Cfg} {t : AMap (Nat × Nat) Nat} {id : Nat} {p : Nat × Nat} (h : p.2 ≠ id)
    (y : Option Nat) : IdxIs cfg (t.del p) id y ↔ IdxIs cfg t id y :=
  idxIs_congr (fun sh => AMap.get?_del_other _ (fun hh => h (by rw [hh]))) y

/-- `ttl.put` of `(id, n)` on an index that holds nothing for `id` -/
theorem idxIs_put {cfg : Cfg} {t : AMap (Nat × Nat) Nat} {id n : Nat} (h : IdxIs cfg t id none) :
    IdxIs cfg (t.set (shardOf cfg n, id) n) id (some n) := by
  refine ⟨AMap.get?_set_same _ _ _, fun sh hsh => ?_⟩
  rw [AMap.get?_set_other _ _ (fun hh => hsh (by cases hh; rfl))]
  exact h sh

/-- `ttl.delete` of `(id, o)` on an index that holds exactly the entry of deadline `o` for `id` -/
theorem idxIs_del {cfg : Cfg} {t : AMap (Nat × Nat) Nat} {id o : Nat} (h : IdxIs cfg t id (some o)) :
    IdxIs cfg (t.del (shardOf cfg o, id)) id none := by
  intro sh
  rw [AMap.get?_del]
  split
  · rfl
  · rename_i hne
    exact h.2 sh (fun hh => hne (by rw [hh]))

/-- an entry found in the index of an id that is in step with the deadline `x`: it is THE entry of `x` -/
theorem idxIs_get {cfg : Cfg} {t : AMap (Nat × Nat) Nat} {id sh v : Nat} {x : Option Nat} (h : IdxIs cfg t id x)
    (hg : t.get? (sh, id) = some v) : x = some v ∧ sh = shardOf cfg v := by
  cases x with
  | none => rw [h sh] at hg; cases hg
  | some d =>
    by_cases hsh : sh = shardOf cfg d
    · subst hsh
      rw [h.1] at hg
      cases hg
      exact ⟨rfl, rfl⟩
    · rw [h.2 sh hsh] at hg; cases hg

/-- the sweeper's removal of the visited entry `(sh, id)` -/
theorem idxIs_del_found {cfg : Cfg} {t : AMap (Nat × Nat) Nat} {id sh v : Nat} {x : Option Nat} (h : IdxIs cfg t id x)
    (hg : t.get? (sh, id) = some v) : IdxIs cfg (t.del (sh, id)) id none := by
  obtain ⟨rfl, rfl⟩ := idxIs_get h hg
  exact idxIs_del h

/-- **`InStep b k`: index and store are in step for key `k`.**  For the entry `e` stored under `k` (if any) whose key id
    is charged: a stored deadline `t` has its index entry `(shardOf t, e.id) ↦ t` and no other shard holds an entry for
    `e.id`; without a stored deadline no shard holds an entry for `e.id`. -/
def InStep (b : BState) (k : Nat) : Prop :=
  ∀ e, b.g.store.get? k = some e → Charged b e.id → IdxIs b.g.cfg b.g.ttl e.id e.expiry

/-- `InStep`, spelled out -/
theorem inStep_iff {b : BState} {k : Nat} : InStep b k ↔
    ∀ e, b.g.store.get? k = some e → (∃ wk, b.g.adm.kw.get? e.id = some wk) →
      (∀ t, e.expiry = some t → b.g.ttl.get? (shardOf b.g.cfg t, e.id) = some t ∧
        ∀ sh, sh ≠ shardOf b.g.cfg t → b.g.ttl.get? (sh, e.id) = none) ∧
      (e.expiry = none → ∀ sh, b.g.ttl.get? (sh, e.id) = none) := by
  unfold InStep
  constructor
  · intro h e hk hc
    have := h e hk (charged_iff.mpr hc)
    cases hx : e.expiry with
    | none => rw [hx] at this; exact ⟨fun t ht => (by cases ht), fun _ => this⟩
    | some d => rw [hx] at this; exact ⟨fun t ht => (by cases ht; exact this), fun hh => (by cases hh)⟩
  · intro h e hk hc
    obtain ⟨h1, h2⟩ := h e hk (charged_iff.mp hc)
    cases hx : e.expiry with
    | none => exact h2 hx
    | some d => exact h1 d hx

/-! ## 2  the thread positions that are in the middle of an index update, seen from one key id -/

/-- a client inside `put_or_update` after its `upsert.update`: the key id, what ITS call takes the index to hold for the
    id at this point (the deadline it read, until its `ttl.delete` / `ttl.update.remove` has run; nothing before its
    `ttl.put` / `ttl.update.insert`), and the deadline it wrote into the store -/
def CPc.idx? : CPc → Option (Nat × Option Nat × Option Nat)
  | .upWeightOf id _ old new => some (id, old, new)
  | .upTtlPut id n _ => some (id, none, some n)
  | .upTtlDelete id o _ => some (id, some o, none)
  | .upTtlRemove id o n _ => some (id, some o, some n)
  | .upTtlInsert id n _ => some (id, none, some n)
  | _ => none

/-- the worker between `store.put` (done) and `ttl.put` of a put with a time-to-live: the key id and the deadline -/
def WPc.idx? : WPc → Option (Nat × Nat)
  | .ttlPut c t => some (c.id, t)
  | _ => none

/-- the worker inside a `Delete` after its `store.remove`: the id of the removed entry -/
def WPc.delId? : WPc → Option Nat
  | .delKw id _ _ | .delSub id _ _ _ | .delTtl id _ _ => some id
  | _ => none

/-- the sweeper between `sweep.entry` (the visited index entry is removed) and its check at `kw.remove`:
    the key id and the time read at `sweep.begin` -/
def SPc.chk? : SPc → Option (Nat × Nat)
  | .kwRemove now _ _ id => some (id, now)
  | _ => none

/-- the sweeper past its check, carrying the eviction on (`wu.sub`, `store.remove`): the key id and the time -/
def SPc.ev? : SPc → Option (Nat × Nat)
  | .sub now _ _ id _ | .store now _ _ id _ => some (id, now)
  | _ => none

/-- a client position seen from the key id `id` -/
def pcview (id : Nat) (pc : CPc) : Option (Option Nat × Option Nat) :=
  match pc.idx? with
  | some (i, y) => if i = id then some y else none
  | none => none

/-- client `j` seen from `id`: `some (idx, st)` iff it stands inside a `put_or_update` that read the id `id` -/
def cview (b : BState) (id j : Nat) : Option (Option Nat × Option Nat) := (b.cl[j]?).bind (pcview id)

/-- the worker seen from `id`: `some t` iff it stands at `ttl.put` of the put that created `id` (deadline `t`) -/
def wview (b : BState) (id : Nat) : Option Nat :=
  match b.w.idx? with
  | some (i, t) => if i = id then some t else none
  | none => none

/-- the sweeper seen from `id`: `some now` iff it stands at `kw.remove` of `id` -/
def kview (b : BState) (id : Nat) : Option Nat :=
  match b.sw.chk? with
  | some (i, n) => if i = id then some n else none
  | none => none

/-- the sweeper seen from `id`: `some now` iff it stands at `wu.sub` / `store.remove` of the eviction of `id` -/
def eview (b : BState) (id : Nat) : Option Nat :=
  match b.sw.ev? with
  | some (i, n) => if i = id then some n else none
  | none => none

theorem pcview_eq_none {id : Nat} {pc : CPc} (h : pc.idx? = none) : pcview id pc = none := by
  simp [pcview, h]

theorem pcview_some {id : Nat} {pc : CPc} {y : Option Nat × Option Nat} :
    pcview id pc = some y ↔ pc.idx? = some (id, y) := by
  unfold pcview
  cases h : pc.idx? with
  | none => simp
  | some p =>
    obtain ⟨i, z⟩ := p
    by_cases hi : i = id
    · subst hi; simp
    · simp only [hi, if_false, Option.some.injEq, Prod.mk.injEq, false_and, reduceCtorEq]

theorem pcview_usedId {id : Nat} {pc : CPc} : pcview id pc ≠ none ↔ pc.usedId? = some id := by
  cases pc <;> simp [pcview, CPc.idx?, CPc.usedId?]

theorem cview_some {b : BState} {id j : Nat} {y : Option Nat × Option Nat} :
    cview b id j = some y ↔ ∃ pc, b.cl[j]? = some pc ∧ pc.idx? = some (id, y) := by
  unfold cview
  cases h : b.cl[j]? with
  | none => simp
  | some pc => simp [pcview_some]

theorem cview_congr {b b' : BState} (h : b'.cl = b.cl) (id j : Nat) : cview b' id j = cview b id j := by
  unfold cview; rw [h]

theorem wview_congr {b b' : BState} (h : b'.w = b.w) (id : Nat) : wview b' id = wview b id := by
  unfold wview; rw [h]

theorem kview_congr {b b' : BState} (h : b'.sw = b.sw) (id : Nat) : kview b' id = kview b id := by
  unfold kview; rw [h]

theorem eview_congr {b b' : BState} (h : b'.sw = b.sw) (id : Nat) : eview b' id = eview b id := by
  unfold eview; rw [h]

theorem wview_none {b : BState} {id : Nat} (h : b.w.idx? = none) : wview b id = none := by
  simp [wview, h]

theorem wview_some {b : BState} {id t : Nat} : wview b id = some t ↔ ∃ c, b.w = .ttlPut c t ∧ c.id = id := by
  constructor
  · intro h
    unfold wview at h
    cases hw : b.w with
    | ttlPut c e =>
      rw [hw] at h
      simp only [WPc.idx?] at h
      split at h
      · cases h; exact ⟨c, rfl, by assumption⟩
      · cases h
    | _ => rw [hw] at h; simp [WPc.idx?] at h
  · rintro ⟨c, hw, rfl⟩
    simp [wview, hw, WPc.idx?]

theorem kview_none {b : BState} {id : Nat} (h : b.sw.chk? = none) : kview b id = none := by
  simp [kview, h]

theorem kview_some {b : BState} {id now : Nat} :
    kview b id = some now ↔ ∃ sh rest, b.sw = .kwRemove now sh rest id := by
  constructor
  · intro h
    unfold kview at h
    cases hs : b.sw with
    | kwRemove n sh rest i =>
      rw [hs] at h
      simp only [SPc.chk?] at h
      split at h
      · cases h; rename_i hi; subst hi; exact ⟨sh, rest, rfl⟩
      · cases h
    | _ => rw [hs] at h; simp [SPc.chk?] at h
  · rintro ⟨sh, rest, hs⟩
    simp [kview, hs, SPc.chk?]

theorem eview_none {b : BState} {id : Nat} (h : b.sw.ev? = none) : eview b id = none := by
  simp [eview, h]

theorem eview_some {b : BState} {id now : Nat} :
    eview b id = some now ↔ ∃ sh rest wk, b.sw = .sub now sh rest id wk ∨ b.sw = .store now sh rest id wk := by
  constructor
  · intro h
    unfold eview at h
    cases hs : b.sw with
    | sub n sh rest i wk =>
      rw [hs] at h
      simp only [SPc.ev?] at h
      split at h
      · cases h; rename_i hi; subst hi; exact ⟨sh, rest, wk, Or.inl rfl⟩
      · cases h
    | store n sh rest i wk =>
      rw [hs] at h
      simp only [SPc.ev?] at h
      split at h
      · cases h; rename_i hi; subst hi; exact ⟨sh, rest, wk, Or.inr rfl⟩
      · cases h
    | _ => rw [hs] at h; simp [SPc.ev?] at h
  · rintro ⟨sh, rest, wk, hs | hs⟩ <;> simp [eview, hs, SPc.ev?]

/-- the view of the clients after client `i` has moved from `pc` to `pc'`, both invisible from `id` -/
theorem cview_set_none {b b' : BState} {i id : Nat} {pc pc' : CPc} (hpc : b.cl[i]? = some pc)
    (hcl : b'.cl = b.cl.set i pc') (h1 : pcview id pc = none) (h2 : pcview id pc' = none) (j : Nat) :
    cview b' id j = cview b id j := by
  unfold cview
  rw [hcl]
  by_cases hj : i = j
  · subst hj
    rw [List.getElem?_set_self (upsB_lt hpc), hpc]
    simp [h1, h2]
  · rw [List.getElem?_set_ne hj]

/-- the view of the clients after client `i` has moved to `pc'`: its own view is that of `pc'`, the others keep theirs -/
theorem cview_set {b b' : BState} {i id : Nat} {pc pc' : CPc} (hpc : b.cl[i]? = some pc)
    (hcl : b'.cl = b.cl.set i pc') (j : Nat) :
    cview b' id j = if j = i then pcview id pc' else cview b id j := by
  unfold cview
  rw [hcl]
  by_cases hj : i = j
  · subst hj
    rw [List.getElem?_set_self (upsB_lt hpc)]
    simp
  · rw [List.getElem?_set_ne hj]
    have : ¬ j = i := fun h => hj h.symm
    simp [this]

/-! ## 3  the invariant of one key id, and of one key -/

/-- `IdxIs … none` survives any removal -/
theorem idxIs_none_del {cfg : Cfg} {t : AMap (Nat × Nat) Nat} {id : Nat} (p : Nat × Nat)
    (h : IdxIs cfg t id none) : IdxIs cfg (t.del p) id none := by
  intro sh
  rw [AMap.get?_del]
  split
  · rfl
  · exact h sh

/-- what a client in the middle of its index update knows when the sweeper has taken the entry it expected
    (`idx`) out of the index: while the sweeper still stands at its check (`kw.remove`, time `n` read at `sweep.begin`)
    that entry was due (`n > o`); once the sweeper has left — it SKIPPED, the stored value being unexpired — the deadline
    the client wrote (`st`) differs from the one it read (`idx`): its remaining index actions will put the index right -/
def Gap (kv : Option Nat) (idx st : Option Nat) : Prop :=
  match kv with
  | none => idx ≠ st
  | some n => ∀ o, idx = some o → n > o

/-- the index of an id nobody but (possibly) the sweeper's check is busy with: in step with the stored deadline `x` —
    or, while the sweeper stands at its check, empty with `x` a deadline that had passed when the sweep began -/
def QuietIdx (cfg : Cfg) (t : AMap (Nat × Nat) Nat) (id : Nat) (kv : Option Nat) (x : Option Nat) : Prop :=
  match kv with
  | none => IdxIs cfg t id x
  | some n => IdxIs cfg t id x ∨ (IdxIs cfg t id none ∧ ∃ d, x = some d ∧ n > d)

theorem quietIdx_of_idx {cfg : Cfg} {t : AMap (Nat × Nat) Nat} {id : Nat} {x : Option Nat} (kv : Option Nat)
    (h : IdxIs cfg t id x) : QuietIdx cfg t id kv x := by
  cases kv with
  | none => exact h
  | some n => exact Or.inl h

/-- **The index of the key id `id`, whose stored deadline is `x`, by thread position.**
    * `idle`     nobody is in the middle of an index update of `id`: the index is in step with `x`;
    * `client`   a client inside `put_or_update` past its `upsert.update` (which read `id`): the stored deadline is the
                 one IT wrote (`st`), and the index is where ITS remaining index actions expect it (`idx`) — or the
                 sweeper has meanwhile taken that very entry out (`Gap`);
    * `worker`   the worker between `store.put` and `ttl.put` of the put that created `id`: the stored deadline is the
                 put's, the index holds nothing for `id` yet, and the sweeper is not checking `id`;
    * `sweeper`  the sweeper between `sweep.entry` and its check at `kw.remove` of `id`, no client busy with `id`: the
                 index holds nothing for `id` and the stored deadline had passed when the sweep began — or a
                 `put_or_update` has come and gone since the visit and the index is in step again;
    * `delGone`  the worker is not inside a `Delete` that removed the entry of `id`. -/
structure KInvId (b : BState) (id : Nat) (x : Option Nat) : Prop where
  idle : (∀ j, cview b id j = none) → wview b id = none → kview b id = none → IdxIs b.g.cfg b.g.ttl id x
  client : ∀ j idx st, cview b id j = some (idx, st) →
    x = st ∧ (IdxIs b.g.cfg b.g.ttl id idx ∨ (IdxIs b.g.cfg b.g.ttl id none ∧ Gap (kview b id) idx st))
  worker : ∀ t, wview b id = some t → x = some t ∧ IdxIs b.g.cfg b.g.ttl id none ∧ kview b id = none
  sweeper : ∀ now, kview b id = some now → (∀ j, cview b id j = none) →
    IdxIs b.g.cfg b.g.ttl id x ∨ (IdxIs b.g.cfg b.g.ttl id none ∧ ∃ d, x = some d ∧ now > d)
  delGone : b.w.delId? ≠ some id

/-- the invariant of key `k`: `KInvId` for the (charged) id of the entry stored under `k` -/
def KInv (b : BState) (k : Nat) : Prop :=
  ∀ e, b.g.store.get? k = some e → Charged b e.id → KInvId b e.id e.expiry

/-- **Serial (core form), for one id**: a client inside `put_or_update` past its `upsert.update` of `id` is the only
    CLIENT in the middle of an index update of `id`, and the worker is not between `store.put` and `ttl.put` of `id`.
    (The sweeper MAY stand between `sweep.entry` and its check of `id`.) -/
def SerialCoreId (b : BState) (id : Nat) : Prop :=
  ∀ j, cview b id j ≠ none → (∀ j', cview b id j' ≠ none → j' = j) ∧ wview b id = none

/-- **Serial (core form), for one key**: `SerialCoreId` for the (charged) id of the entry stored under `k` -/
def SerialCore (b : BState) (k : Nat) : Prop :=
  ∀ e, b.g.store.get? k = some e → Charged b e.id → SerialCoreId b e.id

/-- everything `KInvId` looks at is the same in `b'` as in `b` -/
structure SameView (b b' : BState) (id : Nat) : Prop where
  c : ∀ j, cview b' id j = cview b id j
  w : wview b' id = wview b id
  k : kview b' id = kview b id
  d : b'.w.delId? ≠ some id
  idx : ∀ y, IdxIs b'.g.cfg b'.g.ttl id y ↔ IdxIs b.g.cfg b.g.ttl id y

theorem KInvId.transfer {b b' : BState} {id : Nat} {x : Option Nat} (hi : KInvId b id x) (hv : SameView b b' id) :
    KInvId b' id x := by
  refine ⟨?_, ?_, ?_, ?_, hv.d⟩
  · intro h1 h2 h3
    exact (hv.idx x).mpr (hi.idle (fun j => by rw [← hv.c]; exact h1 j) (by rw [← hv.w]; exact h2) (by rw [← hv.k]; exact h3))
  · intro j idx st h
    obtain ⟨h1, h2⟩ := hi.client j idx st (by rw [← hv.c]; exact h)
    refine ⟨h1, ?_⟩
    rcases h2 with h2 | ⟨h2, h3⟩
    · exact Or.inl ((hv.idx idx).mpr h2)
    · exact Or.inr ⟨(hv.idx none).mpr h2, by rw [hv.k]; exact h3⟩
  · intro t h
    obtain ⟨h1, h2, h3⟩ := hi.worker t (by rw [← hv.w]; exact h)
    exact ⟨h1, (hv.idx none).mpr h2, by rw [hv.k]; exact h3⟩
  · intro now h hc
    rcases hi.sweeper now (by rw [← hv.k]; exact h) (fun j => by rw [← hv.c]; exact hc j) with h1 | ⟨h1, h2⟩
    · exact Or.inl ((hv.idx x).mpr h1)
    · exact Or.inr ⟨(hv.idx none).mpr h1, h2⟩

/-- **Frame.**  An action after which the entry of `k` (if there still is one) has the id and the deadline it had, that
    charges no stored id, and that leaves the views of that id alone, preserves `KInv`. -/
theorem KInv.frame {b b' : BState} {k : Nat} (hi : KInv b k)
    (hst : ∀ e', b'.g.store.get? k = some e' → ∃ e, b.g.store.get? k = some e ∧ e.id = e'.id ∧ e.expiry = e'.expiry)
    (hkw : ∀ e, b.g.store.get? k = some e → Charged b' e.id → Charged b e.id)
    (hv : ∀ e, b.g.store.get? k = some e → b'.g.store.get? k ≠ none → Charged b e.id → Charged b' e.id →
      SameView b b' e.id) : KInv b' k := by
  intro e' hk' hc'
  obtain ⟨e, hk, hid, hexp⟩ := hst e' hk'
  rw [← hid] at hc' ⊢
  rw [← hexp]
  have hc := hkw e hk hc'
  exact (hi e hk hc).transfer (hv e hk (by rw [hk']; simp) hc hc')

/-! ### the ways to establish `KInvId` with ONE thread (or none) in the middle of an index update -/

/-- no client, no worker: idle, or only the sweeper's check -/
theorem KInvId.mk_quiet {b : BState} {id : Nat} {x : Option Nat}
    (hq : QuietIdx b.g.cfg b.g.ttl id (kview b id) x) (hc : ∀ j, cview b id j = none) (hw : wview b id = none)
    (hd : b.w.delId? ≠ some id) : KInvId b id x := by
  refine ⟨?_, ?_, ?_, ?_, hd⟩
  · intro _ _ hk; rw [hk] at hq; exact hq
  · intro j idx st h; rw [hc j] at h; cases h
  · intro t h; rw [hw] at h; cases h
  · intro now h _; rw [h] at hq; exact hq

theorem KInvId.mk_idle {b : BState} {id : Nat} {x : Option Nat} (hidx : IdxIs b.g.cfg b.g.ttl id x)
    (hc : ∀ j, cview b id j = none) (hw : wview b id = none) (hd : b.w.delId? ≠ some id) : KInvId b id x :=
  KInvId.mk_quiet (quietIdx_of_idx _ hidx) hc hw hd

theorem KInvId.mk_client {b : BState} {id : Nat} {x : Option Nat} (j : Nat) {idx st : Option Nat}
    (hcj : cview b id j = some (idx, st)) (hx : x = st)
    (hidx : IdxIs b.g.cfg b.g.ttl id idx ∨ (IdxIs b.g.cfg b.g.ttl id none ∧ Gap (kview b id) idx st))
    (hc : ∀ j', cview b id j' ≠ none → j' = j) (hw : wview b id = none)
    (hd : b.w.delId? ≠ some id) : KInvId b id x := by
  refine ⟨?_, ?_, ?_, ?_, hd⟩
  · intro h; rw [h j] at hcj; cases hcj
  · intro j' idx' st' h
    have := hc j' (by rw [h]; simp)
    subst this
    rw [hcj] at h
    cases h
    exact ⟨hx, hidx⟩
  · intro t h; rw [hw] at h; cases h
  · intro now _ h; rw [h j] at hcj; cases hcj

theorem KInvId.mk_worker {b : BState} {id t : Nat} {x : Option Nat} (hwv : wview b id = some t) (hx : x = some t)
    (hidx : IdxIs b.g.cfg b.g.ttl id none) (hc : ∀ j, cview b id j = none) (hk : kview b id = none)
    (hd : b.w.delId? ≠ some id) : KInvId b id x := by
  refine ⟨?_, ?_, ?_, ?_, hd⟩
  · intro _ h; rw [h] at hwv; cases hwv
  · intro j idx st h; rw [hc j] at h; cases h
  · intro t' h; rw [hwv] at h; cases h; exact ⟨hx, hidx, hk⟩
  · intro now h; rw [hk] at h; cases h

/-- under `SerialCoreId`, a busy client is the only busy client, and the worker is not busy -/
theorem SerialCoreId.alone {b : BState} {id j : Nat} {y : Option Nat × Option Nat} (hs : SerialCoreId b id)
    (h : cview b id j = some y) : (∀ j', cview b id j' ≠ none → j' = j) ∧ wview b id = none :=
  hs j (by rw [h]; simp)

/-- under `SerialCoreId`, with the worker in the middle of the index update of `id`, no client is -/
theorem SerialCoreId.noClientW {b : BState} {id t : Nat} (hs : SerialCoreId b id) (h : wview b id = some t) (j : Nat) :
    cview b id j = none := by
  cases hc : cview b id j with
  | none => rfl
  | some y =>
    have := (hs.alone hc).2
    rw [h] at this; cases this

/-! ## 4  fresh ids are invisible -/

theorem idx_usedId {pc : CPc} {id : Nat} {y : Option Nat × Option Nat} (h : pc.idx? = some (id, y)) :
    pc.usedId? = some id := by
  cases pc <;> simp only [CPc.idx?, Option.some.injEq, Prod.mk.injEq, reduceCtorEq] at h
  all_goals simp only [CPc.usedId?, h.1]

/-- the id of the put the worker is applying (up to `store.put`) is nobody's handle -/
theorem fresh_not_used {b : BState} (hb : BInv b) {f : Nat} (hf : b.w.freshId? = some f) : f ∉ usedIds b := by
  intro hu
  have h0 := (hb.freshIds.2.2.2.2.1 f hu).1
  have : 0 < occ b f := by simp [occ, hf]
  omega

theorem not_used_store {b : BState} {f : Nat} (hf : f ∉ usedIds b) {k : Nat} {e : Entry}
    (hk : b.g.store.get? k = some e) : e.id ≠ f := by
  intro h
  apply hf
  rw [mem_usedIds]
  exact Or.inl ⟨(k, e), AMap.mem_of_get? hk, h⟩

theorem not_used_idx {b : BState} {f : Nat} (hf : f ∉ usedIds b) : IdxIs b.g.cfg b.g.ttl f none := by
  intro sh
  rw [AMap.get?_eq_none_iff]
  intro hm
  obtain ⟨p, hp, hpe⟩ := List.mem_map.mp hm
  apply hf
  rw [mem_usedIds]
  exact Or.inr (Or.inl ⟨p, hp, by rw [hpe]⟩)

theorem not_used_cview {b : BState} {f : Nat} (hf : f ∉ usedIds b) (j : Nat) : cview b f j = none := by
  cases h : cview b f j with
  | none => rfl
  | some y =>
    obtain ⟨pc, hpc, hi⟩ := cview_some.mp h
    exact absurd (mem_usedIds_of_client hpc (idx_usedId hi)) hf

theorem not_used_kview {b : BState} {f : Nat} (hf : f ∉ usedIds b) : kview b f = none := by
  cases h : kview b f with
  | none => rfl
  | some n =>
    obtain ⟨sh, rest, hs⟩ := kview_some.mp h
    exfalso
    apply hf
    rw [mem_usedIds]
    refine Or.inr (Or.inr (Or.inl ?_))
    rw [hs]
    simp [SPc.ids]

/-! ## 5  the worker -/

theorem hst_same {b b' : BState} {k : Nat} (h : b'.g.store = b.g.store) :
    ∀ e', b'.g.store.get? k = some e' → ∃ e, b.g.store.get? k = some e ∧ e.id = e'.id ∧ e.expiry = e'.expiry :=
  fun e' he => ⟨e', by rw [← h]; exact he, rfl, rfl⟩

theorem hst_del {b b' : BState} {k k0 : Nat} (h : b'.g.store = b.g.store.del k0) :
    ∀ e', b'.g.store.get? k = some e' → ∃ e, b.g.store.get? k = some e ∧ e.id = e'.id ∧ e.expiry = e'.expiry := by
  intro e' he
  rw [h, AMap.get?_del] at he
  split at he
  · cases he
  · exact ⟨e', he, rfl, rfl⟩

theorem hkw_same {b b' : BState} {k : Nat} (h : b'.g.adm.kw = b.g.adm.kw) :
    ∀ e, b.g.store.get? k = some e → Charged b' e.id → Charged b e.id := by
  intro e _ hc
  unfold Charged at *
  rw [← h]; exact hc

theorem hkw_del {b b' : BState} {k x : Nat} (h : b'.g.adm.kw = b.g.adm.kw.del x) :
    ∀ e, b.g.store.get? k = some e → Charged b' e.id → Charged b e.id := by
  intro e _ hc
  unfold Charged at *
  rw [h, AMap.get?_del] at hc
  split at hc
  · cases hc
  · exact hc

/-- frame for an action of the worker that is no index action and no `store.put` -/
theorem KInv.frameW {b b' : BState} {k : Nat} (hi : KInv b k) (hcl : b'.cl = b.cl) (hsw : b'.sw = b.sw)
    (hcfg : b'.g.cfg = b.g.cfg) (httl : b'.g.ttl = b.g.ttl)
    (hst : ∀ e', b'.g.store.get? k = some e' → ∃ e, b.g.store.get? k = some e ∧ e.id = e'.id ∧ e.expiry = e'.expiry)
    (hkw : ∀ e, b.g.store.get? k = some e → Charged b' e.id → Charged b e.id)
    (hw : b.w.idx? = none) (hw' : b'.w.idx? = none) (hd : b'.w.delId? = b.w.delId? ∨ b'.w.delId? = none) :
    KInv b' k := by
  refine hi.frame hst hkw (fun e hk _ hc _ =>
    ⟨fun j => cview_congr hcl _ _, ?_, kview_congr hsw _, ?_, fun y => by rw [hcfg, httl]⟩)
  · rw [wview_none hw, wview_none hw']
  · rcases hd with hd | hd
    · rw [hd]; exact (hi e hk hc).delGone
    · rw [hd]; simp

/-- **Every action of the worker preserves `KInv`** (given `SerialCore` before it). -/
theorem kinv_worker {b b' : BState} {k : Nat} (hb : BInv b) (hj : BBij b) (hi : KInv b k) (hs : SerialCore b k)
    (h : WTrans b b') : KInv b' k := by
  cases h
  case storePutPlain c hw hc hwr =>
    have hf := fresh_not_used hb (f := c.id) (by rw [hw]; rfl)
    by_cases hkk : c.k = k
    · intro e' hk' hc'
      simp only [finishCmd] at hk'
      rw [hkk, AMap.get?_set_same] at hk'
      cases hk'
      have h1 : IdxIs b.g.cfg b.g.ttl c.id none := not_used_idx hf
      exact KInvId.mk_idle h1 (fun j => (cview_congr rfl _ _).trans (not_used_cview (b := b) hf j)) (wview_none rfl)
        (by simp [finishCmd, WPc.delId?])
    · refine hi.frameW rfl rfl rfl rfl ?_ (hkw_same rfl) (by rw [hw]; rfl) rfl (Or.inr rfl)
      intro e' he
      simp only [finishCmd] at he
      rw [AMap.get?_set_other _ _ hkk] at he
      exact ⟨e', he, rfl, rfl⟩
  case storePutTtl c t e hw hc hwr =>
    have hf := fresh_not_used hb (f := c.id) (by rw [hw]; rfl)
    by_cases hkk : c.k = k
    · intro e' hk' hc'
      simp only [] at hk'
      rw [hkk, AMap.get?_set_same] at hk'
      cases hk'
      have h1 : IdxIs b.g.cfg b.g.ttl c.id none := not_used_idx hf
      exact KInvId.mk_worker (t := e) (wview_some.mpr ⟨c, rfl, rfl⟩) rfl h1
        (fun j => (cview_congr rfl _ _).trans (not_used_cview (b := b) hf j)) ((kview_congr rfl _).trans (not_used_kview (b := b) hf))
        (by simp [WPc.delId?])
    · refine hi.frame ?_ (hkw_same rfl) ?_
      · intro e' he
        simp only [] at he
        rw [AMap.get?_set_other _ _ hkk] at he
        exact ⟨e', he, rfl, rfl⟩
      · intro e0 hk0 _ hc0 _
        have hne : c.id ≠ e0.id := fun hh => not_used_store hf hk0 hh.symm
        refine ⟨fun j => cview_congr rfl _ _, ?_, kview_congr rfl _, by simp [WPc.delId?], fun y => Iff.rfl⟩
        rw [wview_none (b := b) (by rw [hw]; rfl)]
        simp [wview, WPc.idx?, hne]
  case ttlPut c t hw hfree =>
    intro e' hk' hc'
    have hk : b.g.store.get? k = some e' := hk'
    have hc : Charged b e'.id := hc'
    have hK := hi e' hk hc
    by_cases hid : c.id = e'.id
    · have hwv : wview b e'.id = some t := wview_some.mpr ⟨c, hw, hid⟩
      obtain ⟨hx, hidx, hkv⟩ := hK.worker t hwv
      have hcv := (hs e' hk hc).noClientW hwv
      refine KInvId.mk_idle ?_ (fun j => (cview_congr rfl _ _).trans (hcv j)) (wview_none rfl)
        (by simp [finishCmd, WPc.delId?])
      rw [hx, ← hid]
      rw [← hid] at hidx
      exact idxIs_put hidx
    · refine hK.transfer ⟨fun j => cview_congr rfl _ _, ?_, kview_congr rfl _, by simp [finishCmd, WPc.delId?], ?_⟩
      · rw [wview_none (b := finishCmd _ _ _) rfl]
        simp [wview, hw, WPc.idx?, hid]
      · intro y
        exact idxIs_set_other (p := (shardOf b.g.cfg t, c.id)) t hid y
  case delTtl id t hh hw hfree =>
    intro e' hk' hc'
    have hk : b.g.store.get? k = some e' := hk'
    have hc : Charged b e'.id := hc'
    have hK := hi e' hk hc
    have hid : id ≠ e'.id := by
      have := hK.delGone
      rw [hw] at this
      intro hh'; apply this; rw [hh']; rfl
    refine hK.transfer ⟨fun j => cview_congr rfl _ _, ?_, kview_congr rfl _, by simp [finishCmd, WPc.delId?], ?_⟩
    · rw [wview_none (b := finishCmd _ _ _) rfl, wview_none (b := b) (by rw [hw]; rfl)]
    · intro y
      exact idxIs_del_other (p := (shardOf b.g.cfg t, id)) hid y
  case delStoreSome k0 hh e0 hw hk0 hwr =>
    intro e' hk' hc'
    simp only [] at hk'
    rw [AMap.get?_del] at hk'
    split at hk'
    · cases hk'
    · rename_i hne
      have hc : Charged b e'.id := hc'
      have hK := hi e' hk' hc
      refine hK.transfer ⟨fun j => cview_congr rfl _ _, ?_, kview_congr rfl _, ?_, fun y => Iff.rfl⟩
      · rw [wview_none (b := b) (by rw [hw]; rfl)]
        exact wview_none rfl
      · simp only [WPc.delId?, ne_eq, Option.some.injEq]
        intro hid
        exact hne (hj.storeIdInj k0 k e0 e' hk0 hk' hid)
  case insert c hw =>
    have hf := fresh_not_used hb (f := c.id) (by rw [hw]; rfl)
    refine hi.frameW rfl rfl rfl rfl (hst_same rfl) ?_ (by rw [hw]; rfl) rfl (Or.inr rfl)
    intro e hk hc
    unfold Charged at *
    simp only [] at hc
    rw [AMap.get?_set] at hc
    split at hc
    · rename_i hid
      exact absurd hid.symm (not_used_store hf hk)
    · exact hc
  case updateApplied id w hh wk hw hfree hg =>
    refine hi.frameW rfl rfl rfl rfl (hst_same rfl) ?_ (by rw [hw]; rfl) rfl (Or.inr rfl)
    intro e hk hc
    unfold Charged at *
    simp only [finishCmd] at hc
    rw [AMap.get?_set] at hc
    split at hc
    · rename_i hid
      rw [← hid, hg]; rfl
    · exact hc
  case evStore c e s id wk hw hwr =>
    exact hi.frameW rfl rfl (applyEvict_cfg _ _) (applyEvict_ttl _ _) (hst_del (applyEvict_store _ _))
      (hkw_same (by simp)) (by rw [hw]; rfl) rfl (Or.inr rfl)
  case evRemoveSome c e s victim wk hw hg =>
    exact hi.frameW rfl rfl rfl rfl (hst_same rfl) (hkw_del rfl) (by rw [hw]; rfl) rfl (Or.inr rfl)
  case delKwSome id exp hh wk hw hg =>
    exact hi.frameW rfl rfl rfl rfl (hst_same rfl) (hkw_del rfl) (by rw [hw]; rfl) rfl (Or.inl (by rw [hw]; rfl))
  all_goals
    exact hi.frameW rfl rfl rfl rfl (hst_same rfl) (hkw_same rfl) (by simp [WPc.idx?, *]) (by simp [WPc.idx?, finishCmd, rejectCmd])
      (by simp [WPc.delId?, finishCmd, rejectCmd, *])

/-! ## 6  the sweeper -/

@[simp] theorem sweepNext_cl (b : BState) (n s : Nat) (r : List (Nat × Nat)) : (sweepNext b n s r).cl = b.cl := by
  unfold sweepNext; split <;> rfl

@[simp] theorem sweepNext_chk (b : BState) (n s : Nat) (r : List (Nat × Nat)) : (sweepNext b n s r).sw.chk? = none := by
  unfold sweepNext; split <;> rfl

@[simp] theorem sweepNext_ev (b : BState) (n s : Nat) (r : List (Nat × Nat)) : (sweepNext b n s r).sw.ev? = none := by
  unfold sweepNext; split <;> rfl

/-- frame for an action of the sweeper that neither leaves nor enters the check position -/
theorem KInv.frameS {b b' : BState} {k : Nat} (hi : KInv b k) (hcl : b'.cl = b.cl) (hw : b'.w = b.w)
    (hcfg : b'.g.cfg = b.g.cfg) (httl : b'.g.ttl = b.g.ttl)
    (hst : ∀ e', b'.g.store.get? k = some e' → ∃ e, b.g.store.get? k = some e ∧ e.id = e'.id ∧ e.expiry = e'.expiry)
    (hkw : ∀ e, b.g.store.get? k = some e → Charged b' e.id → Charged b e.id)
    (hk : b.sw.chk? = none) (hk' : b'.sw.chk? = none) : KInv b' k := by
  refine hi.frame hst hkw (fun e hke _ hc _ =>
    ⟨fun j => cview_congr hcl _ _, wview_congr hw _, ?_, ?_, fun y => by rw [hcfg, httl]⟩)
  · rw [kview_none hk, kview_none hk']
  · rw [hw]; exact (hi e hke hc).delGone

/-- **Every action of the sweeper preserves `KInv`** (no seriality needed). -/
theorem kinv_sweeper {b b' : BState} {k : Nat} {v : Option Nat} (hj : BBij b) (hsi : SweepInv b)
    (hclk : ∀ t, b.sw.now? = some t → t ≤ b.g.now) (hi : KInv b k)
    (h : sweeperAct b v = .ok b') : KInv b' k := by
  cases hsw : b.sw with
  | begin =>
    obtain ⟨_, rfl⟩ := swB_begin_spec hsw h
    exact hi.frameS (by simp) (by simp) (by simp) (by simp) (hst_same (by simp)) (hkw_same (by simp))
      (by rw [hsw]; rfl) (by simp)
  | fin =>
    have := swB_fin_spec hsw h
    subst this
    exact hi.frameS rfl rfl rfl rfl (hst_same rfl) (hkw_same rfl) (by rw [hsw]; rfl) rfl
  | sub now sh rest id wk =>
    obtain ⟨_, rfl⟩ := swB_sub_spec hsw h
    exact hi.frameS rfl rfl rfl rfl (hst_same rfl) (hkw_same rfl) (by rw [hsw]; rfl) rfl
  | store now sh rest id wk =>
    obtain ⟨_, rfl⟩ := swB_store_spec hsw h
    refine hi.frameS (by simp) (by simp) (by simp) (by simp) ?_ (hkw_same (by simp)) (by rw [hsw]; rfl) (by simp)
    intro e' he
    simp only [sweepNext_g] at he
    exact ⟨e', applyEvictId_get?_sub _ _ he, rfl, rfl⟩
  | entry now sh rest =>
    obtain ⟨id, ei, _, hf, ⟨hdue, hb'⟩ | ⟨_, rfl⟩⟩ := swB_entry_spec hsw h
    · have hlist : b.g.ttl.get? (sh, id) = some ei :=
        hsi.listed now sh rest (by rw [hsw]; rfl) id ei (List.mem_of_find?_eq_some hf)
      have hsw' : b'.sw = .kwRemove now sh (rest.filter (fun p => p.1 != id)) id := by rw [hb']
      have hcl' : b'.cl = b.cl := by rw [hb']
      have hw' : b'.w = b.w := by rw [hb']
      have hst' : b'.g.store = b.g.store := by rw [hb']
      have hkw' : b'.g.adm.kw = b.g.adm.kw := by rw [hb']
      have hcfg' : b'.g.cfg = b.g.cfg := by rw [hb']
      have httl' : b'.g.ttl = b.g.ttl.del (sh, id) := by rw [hb']
      intro e' hk' hc'
      have hk : b.g.store.get? k = some e' := by rw [← hst']; exact hk'
      have hc : Charged b e'.id := by unfold Charged at *; rw [← hkw']; exact hc'
      have hK := hi e' hk hc
      have hd' : b'.w.delId? ≠ some e'.id := by rw [hw']; exact hK.delGone
      by_cases hid : id = e'.id
      · subst hid
        have hkv' : kview b' e'.id = some now := kview_some.mpr ⟨sh, _, hsw'⟩
        have hkv : kview b e'.id = none := kview_none (by rw [hsw]; rfl)
        have hwv : wview b e'.id = none := by
          cases hwv : wview b e'.id with
          | none => rfl
          | some t =>
            have := (hK.worker t hwv).2.1 sh
            rw [hlist] at this; cases this
        have hnone : ∀ {x : Option Nat}, IdxIs b.g.cfg b.g.ttl e'.id x → IdxIs b'.g.cfg b'.g.ttl e'.id none := by
          intro x hx
          rw [hcfg', httl']
          exact idxIs_del_found hx hlist
        refine ⟨?_, ?_, ?_, ?_, hd'⟩
        · intro _ _ hk0; rw [hkv'] at hk0; cases hk0
        · intro j idx st hcv
          rw [cview_congr hcl'] at hcv
          obtain ⟨hx, hdisj⟩ := hK.client j idx st hcv
          refine ⟨hx, ?_⟩
          rcases hdisj with hidx | ⟨hidx, _⟩
          · obtain ⟨rfl, _⟩ := idxIs_get hidx hlist
            refine Or.inr ⟨hnone hidx, ?_⟩
            rw [hkv']
            intro o ho
            cases ho
            exact hdue
          · rw [hidx sh] at hlist; cases hlist
        · intro t hwv'
          rw [wview_congr hw', hwv] at hwv'; cases hwv'
        · intro now' hkv'' hcv
          rw [hkv'] at hkv''
          cases hkv''
          have hidle := hK.idle (fun j => (cview_congr hcl' _ _).symm.trans (hcv j)) hwv hkv
          obtain ⟨hx, _⟩ := idxIs_get hidle hlist
          exact Or.inr ⟨hnone hidle, ei, hx, hdue⟩
      · refine hK.transfer ⟨fun j => cview_congr hcl' _ _, wview_congr hw' _, ?_, hd', ?_⟩
        · rw [kview_none (b := b) (by rw [hsw]; rfl)]
          simp [kview, hsw', SPc.chk?, hid]
        · intro y
          rw [hcfg', httl']
          exact idxIs_del_other (p := (sh, id)) hid y
    · exact hi.frameS (by simp) (by simp) (by simp) (by simp) (hst_same (by simp)) (hkw_same (by simp))
        (by rw [hsw]; rfl) (by simp)
  | kwRemove now sh rest id =>
    rcases swB_kwRemove_spec hsw h with ⟨wk, ⟨hg, hu⟩, rfl⟩ | ⟨hcase, rfl⟩
    · refine hi.frame (hst_same rfl) (hkw_del rfl) ?_
      intro e hk _ hc hc'
      have hid : id ≠ e.id := by
        intro hid
        unfold Charged at hc'
        simp only [] at hc'
        rw [hid, AMap.get?_del_same] at hc'
        cases hc'
      refine ⟨fun j => cview_congr rfl _ _, wview_congr rfl _, ?_, (hi e hk hc).delGone, fun y => Iff.rfl⟩
      rw [kview_none (b := { b with g := _, sw := _ }) rfl]
      simp [kview, hsw, SPc.chk?, hid]
    · intro e' hk' hc'
      simp only [sweepNext_g] at hk' hc'
      have hc : Charged b e'.id := by unfold Charged at *; simpa using hc'
      have hK := hi e' hk' hc
      have hd' : (sweepNext b now sh rest).w.delId? ≠ some e'.id := by rw [sweepNext_w]; exact hK.delGone
      have hkv' : kview (sweepNext b now sh rest) e'.id = none := kview_none (by simp)
      by_cases hid : id = e'.id
      · subst hid
        have hkv : kview b e'.id = some now := kview_some.mpr ⟨sh, rest, hsw⟩
        have hlive : ∀ t, e'.expiry = some t → ¬ b.g.now > t := by
          rcases hcase with hn | ⟨wk, hg, hu⟩
          · unfold Charged at hc
            rw [hn] at hc; cases hc
          · obtain ⟨e2, hk2, hid2, hlive⟩ := (unexpiredWithId_eq_true_iff _ _ _).mp hu
            have hkey := hj.storeIdInj wk.key k e2 e' hk2 hk' hid2
            rw [hkey, hk'] at hk2
            cases hk2
            exact hlive
        have hnow := hclk now (by rw [hsw]; rfl)
        have hidx : ∀ y, IdxIs (sweepNext b now sh rest).g.cfg (sweepNext b now sh rest).g.ttl e'.id y ↔
            IdxIs b.g.cfg b.g.ttl e'.id y := fun y => by rw [sweepNext_g]
        refine ⟨?_, ?_, ?_, ?_, hd'⟩
        · intro hcv _ _
          rcases hK.sweeper now hkv (fun j => (cview_congr (by simp) _ _).symm.trans (hcv j)) with h1 | ⟨_, d, hx, hgt⟩
          · exact (hidx _).mpr h1
          · exact absurd (by omega) (hlive d hx)
        · intro j idx st hcv
          rw [cview_congr (b := b) (by simp)] at hcv
          obtain ⟨hx, hdisj⟩ := hK.client j idx st hcv
          refine ⟨hx, ?_⟩
          rcases hdisj with h1 | ⟨h1, hgap⟩
          · exact Or.inl ((hidx _).mpr h1)
          · rw [hkv] at hgap
            cases idx with
            | none => exact Or.inl ((hidx _).mpr h1)
            | some o =>
              refine Or.inr ⟨(hidx _).mpr h1, ?_⟩
              rw [hkv']
              intro hst
              have := hgap o rfl
              exact hlive o (by rw [hx, ← hst]) (by omega)
        · intro t hwv
          rw [wview_congr (b := b) (by simp)] at hwv
          have := (hK.worker t hwv).2.2
          rw [hkv] at this; cases this
        · intro now' hk0; rw [hkv'] at hk0; cases hk0
      · refine hK.transfer ⟨fun j => cview_congr (by simp) _ _, wview_congr (by simp) _, ?_, hd',
          fun y => by rw [sweepNext_g]⟩
        rw [hkv']
        simp [kview, hsw, SPc.chk?, hid]

/-! ## 7  the clients -/

theorem typeOfExpiryUpdate_added {old new : Option Nat} {n : Nat} (h : typeOfExpiryUpdate old new = .added n) :
    old = none ∧ new = some n := by
  unfold typeOfExpiryUpdate at h
  split at h
  · cases h
  · cases h; exact ⟨rfl, rfl⟩
  · cases h
  · split at h <;> cases h

theorem typeOfExpiryUpdate_deleted {old new : Option Nat} {o : Nat} (h : typeOfExpiryUpdate old new = .deleted o) :
    old = some o ∧ new = none := by
  unfold typeOfExpiryUpdate at h
  split at h
  · cases h
  · cases h
  · cases h; exact ⟨rfl, rfl⟩
  · split at h <;> cases h

theorem typeOfExpiryUpdate_updated {old new : Option Nat} {o n : Nat} (h : typeOfExpiryUpdate old new = .updated o n) :
    old = some o ∧ new = some n := by
  unfold typeOfExpiryUpdate at h
  split at h
  · cases h
  · cases h
  · cases h
  · split at h
    · cases h; exact ⟨rfl, rfl⟩
    · cases h

theorem typeOfExpiryUpdate_nothing {old new : Option Nat} (h : typeOfExpiryUpdate old new = .nothing) : old = new := by
  unfold typeOfExpiryUpdate at h
  split at h
  · rfl
  · cases h
  · cases h
  · split at h
    · cases h
    · rename_i hn; simp only [ne_eq, Decidable.not_not] at hn; rw [hn]

/-- the tail of `put_or_update`: the client leaves the chain, nothing the invariant looks at changes -/
theorem upAfterIndex_shape (b0 : BState) (i id : Nat) (uw : Option Int) :
    ∃ pc', pc'.idx? = none ∧ (upAfterIndex b0 i id uw).cl = b0.cl.set i pc' ∧ (upAfterIndex b0 i id uw).w = b0.w ∧
      (upAfterIndex b0 i id uw).sw = b0.sw ∧ (upAfterIndex b0 i id uw).g.cfg = b0.g.cfg ∧
      (upAfterIndex b0 i id uw).g.store = b0.g.store ∧ (upAfterIndex b0 i id uw).g.adm = b0.g.adm ∧
      (upAfterIndex b0 i id uw).g.ttl = b0.g.ttl := by
  rcases upAfterIndex_spec b0 i id uw with ⟨out, h⟩ | ⟨w, _, h⟩ | h <;> rw [h]
  · exact ⟨.idle, rfl, rfl, rfl, rfl, rfl, rfl, rfl, rfl⟩
  · exact ⟨_, rfl, rfl, rfl, rfl, rfl, rfl, rfl, rfl⟩
  · exact ⟨.idle, rfl, rfl, rfl, rfl, rfl, rfl, rfl, rfl⟩

/-- frame for an action of client `i` that moves it between two positions invisible from the id of `k`'s entry -/
theorem KInv.frameC {b b' : BState} {k i : Nat} {pc pc' : CPc} (hi : KInv b k) (hpc : b.cl[i]? = some pc)
    (hcl : b'.cl = b.cl.set i pc')
    (hv : ∀ e, b.g.store.get? k = some e → pcview e.id pc = none ∧ pcview e.id pc' = none)
    (hw : b'.w = b.w) (hsw : b'.sw = b.sw) (hcfg : b'.g.cfg = b.g.cfg) (httl : b'.g.ttl = b.g.ttl)
    (hst : ∀ e', b'.g.store.get? k = some e' → ∃ e, b.g.store.get? k = some e ∧ e.id = e'.id ∧ e.expiry = e'.expiry)
    (hkw : ∀ e, b.g.store.get? k = some e → Charged b' e.id → Charged b e.id) : KInv b' k := by
  refine hi.frame hst hkw (fun e hke _ hc _ =>
    ⟨cview_set_none hpc hcl (hv e hke).1 (hv e hke).2, wview_congr hw _, kview_congr hsw _, ?_,
      fun y => by rw [hcfg, httl]⟩)
  rw [hw]; exact (hi e hke hc).delGone

/-- an action of client `i` that changes neither store nor charges: what it does to the index of the id it works
    on (`hmove`: it stays in the chain — with the same expectation and an untouched index, or expecting nothing after a
    removal — or it leaves the chain — with an untouched index and `idx = st`, or having put the index in step with
    `st`), nothing to the index of any other id (`hother`) -/
theorem kinv_client_move {b b' : BState} {k i : Nat} {pc pc' : CPc} (hi : KInv b k) (hs : SerialCore b k)
    (hpc : b.cl[i]? = some pc) (hcl : b'.cl = b.cl.set i pc') (hw : b'.w = b.w) (hsw : b'.sw = b.sw)
    (hst : b'.g.store = b.g.store) (hkw : b'.g.adm.kw = b.g.adm.kw)
    (hmove : ∀ e, b.g.store.get? k = some e → ∀ idx st, pcview e.id pc = some (idx, st) →
      (∃ idx', pcview e.id pc' = some (idx', st) ∧
        ((idx' = idx ∧ ∀ y, IdxIs b'.g.cfg b'.g.ttl e.id y ↔ IdxIs b.g.cfg b.g.ttl e.id y) ∨
         (idx' = none ∧ (IdxIs b.g.cfg b.g.ttl e.id idx → IdxIs b'.g.cfg b'.g.ttl e.id none) ∧
            (IdxIs b.g.cfg b.g.ttl e.id none → IdxIs b'.g.cfg b'.g.ttl e.id none)))) ∨
      (pcview e.id pc' = none ∧
        ((idx = st ∧ ∀ y, IdxIs b'.g.cfg b'.g.ttl e.id y ↔ IdxIs b.g.cfg b.g.ttl e.id y) ∨
         ((IdxIs b.g.cfg b.g.ttl e.id idx → IdxIs b'.g.cfg b'.g.ttl e.id st) ∧
            (IdxIs b.g.cfg b.g.ttl e.id none → IdxIs b'.g.cfg b'.g.ttl e.id st)))))
    (hother : ∀ e, b.g.store.get? k = some e → pcview e.id pc = none →
      pcview e.id pc' = none ∧ ∀ y, IdxIs b'.g.cfg b'.g.ttl e.id y ↔ IdxIs b.g.cfg b.g.ttl e.id y) : KInv b' k := by
  intro e' hk' hc'
  have hk : b.g.store.get? k = some e' := by rw [← hst]; exact hk'
  have hc : Charged b e'.id := by unfold Charged at *; rw [← hkw]; exact hc'
  have hK := hi e' hk hc
  have hd' : b'.w.delId? ≠ some e'.id := by rw [hw]; exact hK.delGone
  have hci : cview b e'.id i = pcview e'.id pc := by unfold cview; rw [hpc]; rfl
  cases hpv : pcview e'.id pc with
  | none =>
    obtain ⟨h1, h2⟩ := hother e' hk hpv
    exact hK.transfer ⟨cview_set_none hpc hcl hpv h1, wview_congr hw _, kview_congr hsw _, hd', h2⟩
  | some y =>
    obtain ⟨idx, st⟩ := y
    have hcv : cview b e'.id i = some (idx, st) := by rw [hci, hpv]
    obtain ⟨hx, hdisj⟩ := hK.client i idx st hcv
    obtain ⟨halone, hwv⟩ := (hs e' hk hc).alone hcv
    have hwv' : wview b' e'.id = none := (wview_congr hw _).trans hwv
    have hkv' : kview b' e'.id = kview b e'.id := kview_congr hsw _
    rcases hmove e' hk idx st hpv with ⟨idx', hpv', hcase⟩ | ⟨hpv', hcase⟩
    · refine KInvId.mk_client i (idx := idx') (st := st) ?_ hx ?_ ?_ hwv' hd'
      · rw [cview_set hpc hcl, if_pos rfl, hpv']
      · rcases hcase with ⟨rfl, hiff⟩ | ⟨rfl, h1, h2⟩
        · rcases hdisj with h | ⟨h, hg⟩
          · exact Or.inl ((hiff _).mpr h)
          · exact Or.inr ⟨(hiff none).mpr h, by rw [hkv']; exact hg⟩
        · rcases hdisj with h | ⟨h, _⟩
          · exact Or.inl (h1 h)
          · exact Or.inl (h2 h)
      · intro j' hj'
        rw [cview_set hpc hcl] at hj'
        split at hj'
        · assumption
        · exact halone j' hj'
    · refine KInvId.mk_quiet ?_ ?_ hwv' hd'
      · rw [hkv', hx]
        rcases hcase with ⟨hidst, hiff⟩ | ⟨h1, h2⟩
        · rcases hdisj with h | ⟨h, hg⟩
          · exact quietIdx_of_idx _ ((hiff _).mpr (hidst ▸ h))
          · cases hkv : kview b e'.id with
            | none => rw [hkv] at hg; exact absurd hidst hg
            | some n =>
              rw [hkv] at hg
              cases idx with
              | none => exact Or.inl ((hiff _).mpr (hidst ▸ h))
              | some o => exact Or.inr ⟨(hiff none).mpr h, o, hidst.symm, hg o rfl⟩
        · rcases hdisj with h | ⟨h, _⟩
          · exact quietIdx_of_idx _ (h1 h)
          · exact quietIdx_of_idx _ (h2 h)
      · intro j
        rw [cview_set hpc hcl]
        split
        · exact hpv'
        · rename_i hji
          cases hcj : cview b e'.id j with
          | none => rfl
          | some z => exact absurd (halone j (by rw [hcj]; simp)) hji

theorem mark_get? (m : AMap Nat Entry) (k0 k : Nat) (e' : Entry)
    (h : (match m.get? k0 with | some e => m.set k0 { e with soft := true } | none => m).get? k = some e') :
    ∃ e, m.get? k = some e ∧ e.id = e'.id ∧ e.expiry = e'.expiry := by
  cases h0 : m.get? k0 with
  | none => rw [h0] at h; exact ⟨e', h, rfl, rfl⟩
  | some e =>
    rw [h0] at h
    simp only [] at h
    by_cases hk : k0 = k
    · subst hk
      rw [AMap.get?_set_same] at h
      cases h
      exact ⟨e, h0, rfl, rfl⟩
    · rw [AMap.get?_set_other _ _ hk] at h
      exact ⟨e', h, rfl, rfl⟩

theorem plain_idx {pc : CPc} (h : pc.plain) : pc.idx? = none := by
  cases pc <;> first | rfl | exact absurd h (by simp [CPc.plain])

theorem isMget_idx {pc : CPc} (h : pc.isMget = true) : pc.idx? = none := by
  cases pc <;> first | rfl | exact absurd h (by simp [CPc.isMget])

theorem afterCas_idx {pc : CPc} (h : pc.afterCas = true) : pc.idx? = none := by
  cases pc <;> first | rfl | exact absurd h (by simp [CPc.afterCas])

theorem usedId_idx {pc : CPc} {id : Nat} (h : pc.usedId? = some id) : pc.idx? ≠ none := by
  cases pc <;> simp [CPc.usedId?, CPc.idx?] at h ⊢

/-- `upsert.update` on a present key: the deadline is rewritten, the client enters the index part of the call -/
theorem kinv_upUpdate {b b' : BState} {k k0 i : Nat} {pc : CPc} {e : Entry} {uw : Option Int} {newExpiry : Option Nat}
    {val : Nat} (hj : BBij b) (hi : KInv b k) (hs' : SerialCore b' k) (hpc : b.cl[i]? = some pc)
    (hx : pc.idx? = none) (hk0 : b.g.store.get? k0 = some e)
    (hcl : b'.cl = b.cl.set i (.upWeightOf e.id uw e.expiry newExpiry))
    (hst : b'.g.store = b.g.store.set k0 { e with expiry := newExpiry, value := val })
    (hw : b'.w = b.w) (hsw : b'.sw = b.sw) (hcfg : b'.g.cfg = b.g.cfg) (httl : b'.g.ttl = b.g.ttl)
    (hkw : b'.g.adm.kw = b.g.adm.kw) : KInv b' k := by
  have hpv : ∀ id, pcview id pc = none := fun id => pcview_eq_none hx
  by_cases hkk : k0 = k
  · subst hkk
    intro e' hk' hc'
    have hk'' := hk'
    rw [hst, AMap.get?_set_same] at hk''
    cases hk''
    have hc : Charged b e.id := by unfold Charged at *; rw [← hkw]; exact hc'
    have hK := hi e hk0 hc
    have hcv' : cview b' e.id i = some (e.expiry, newExpiry) := by
      rw [cview_set hpc hcl, if_pos rfl]
      simp [pcview, CPc.idx?]
    obtain ⟨halone, hwv'⟩ := (hs' _ hk' hc').alone hcv'
    have hcv : ∀ j, cview b e.id j = none := by
      intro j
      by_cases hji : j = i
      · subst hji; unfold cview; rw [hpc]; exact hpv _
      · cases hcj : cview b e.id j with
        | none => rfl
        | some z =>
          refine absurd (halone j ?_) hji
          rw [cview_set hpc hcl, if_neg hji, hcj]; simp
    have hwv : wview b e.id = none := (wview_congr hw _).symm.trans hwv'
    refine KInvId.mk_client i hcv' rfl ?_ halone hwv' (by rw [hw]; exact hK.delGone)
    rw [hcfg, httl, kview_congr hsw]
    cases hkv : kview b e.id with
    | none => exact Or.inl (hK.idle hcv hwv hkv)
    | some n =>
      rcases hK.sweeper n hkv hcv with h | ⟨h, d, hxd, hgt⟩
      · exact Or.inl h
      · refine Or.inr ⟨h, ?_⟩
        intro o ho
        rw [hxd] at ho
        cases ho
        exact hgt
  · refine hi.frameC hpc hcl ?_ hw hsw hcfg httl ?_ (hkw_same hkw)
    · intro e1 hk1
      refine ⟨hpv _, ?_⟩
      have hne : e.id ≠ e1.id := fun hid => hkk (hj.storeIdInj k0 k e e1 hk0 hk1 hid)
      simp [pcview, CPc.idx?, hne]
    · intro e' he
      rw [hst, AMap.get?_set_other _ _ hkk] at he
      exact ⟨e', he, rfl, rfl⟩

/-- an action of a client that stands outside the index part of `put_or_update` (`upsert.update` included) -/
theorem kinv_client_plain {b b' : BState} {k i : Nat} {pc : CPc} (hb : BInv b) (hj : BBij b) (hi : KInv b k)
    (hs' : SerialCore b' k) (hsh : b'.g.shutting = false) (hpc : b.cl[i]? = some pc) (hx : pc.idx? = none)
    (ht : CTrans b i b') : KInv b' k := by
  have hpv : ∀ id, pcview id pc = none := fun id => pcview_eq_none hx
  cases ht
  case upUpdate k0 v w ttl rm e newExpiry uw hpc0 hk0 hwr =>
    exact kinv_upUpdate hj hi hs' hpc hx hk0 rfl rfl rfl rfl rfl rfl rfl
  case upWeightOfTtl id uw old new pc' hpc0 _ _ _ => rw [hpc] at hpc0; cases hpc0; cases hx
  case upAfterSame id uw old new hpc0 => rw [hpc] at hpc0; cases hpc0; cases hx
  case upAfterPut pc0 id e uw hpc0 hu hfree => rw [hpc] at hpc0; cases hpc0; exact absurd hx (usedId_idx hu)
  case upAfterDelete id e uw hpc0 hfree => rw [hpc] at hpc0; cases hpc0; cases hx
  case upTtlRemove id old new uw hpc0 hfree => rw [hpc] at hpc0; cases hpc0; cases hx
  case shutTtlClear hpc0 ho =>
    have := hb.shutFlag i _ hpc0 rfl
    simp only [finishCall] at hsh
    rw [this] at hsh; cases hsh
  case shutCas hpc0 hsh0 => simp [setClient] at hsh
  case delMark k0 hpc0 hwr =>
    refine hi.frameC hpc (pc' := .send (.delete k0)) rfl (fun e _ => ⟨hpv _, rfl⟩) rfl rfl rfl rfl ?_ (hkw_same rfl)
    intro e' he
    exact mark_get? _ _ _ _ he
  case getPool k0 v g1 o1 o2 hpc0 hp =>
    have hg := poolAdd_frame hp
    exact hi.frameC hpc (pc' := .idle) rfl (fun e _ => ⟨hpv _, rfl⟩) rfl rfl (by simp only [finishCall]; rw [hg])
      (by simp only [finishCall]; rw [hg]) (hst_same (by simp only [finishCall]; rw [hg]))
      (hkw_same (by simp only [finishCall]; rw [hg]))
  case refPool k0 v g1 o1 o2 hpc0 hp =>
    have hg := poolAdd_frame hp
    exact hi.frameC hpc (pc' := .idle) rfl (fun e _ => ⟨hpv _, rfl⟩) rfl rfl (by simp only [finishCall]; rw [hg])
      (by simp only [finishCall]; rw [hg]) (hst_same (by simp only [finishCall]; rw [hg]))
      (hkw_same (by simp only [finishCall]; rw [hg]))
  case shutLocal pc0 pc' g' hpc0 h1 h2 hg =>
    exact hi.frameC hpc (pc' := pc') rfl (fun e _ => ⟨hpv _, pcview_eq_none (afterCas_idx h2)⟩) rfl rfl
      (by simp only [setClient]; rw [hg]) (by simp only [setClient]; rw [hg])
      (hst_same (by simp only [setClient]; rw [hg])) (hkw_same (by simp only [setClient]; rw [hg]))
  case mgetStep pc0 pc' g' hpc0 h1 h2 hg =>
    exact hi.frameC hpc (pc' := pc') rfl (fun e _ => ⟨hpv _, pcview_eq_none (isMget_idx h2)⟩) rfl rfl
      (by simp only [setClient]; rw [hg]) (by simp only [setClient]; rw [hg])
      (hst_same (by simp only [setClient]; rw [hg])) (hkw_same (by simp only [setClient]; rw [hg]))
  case mgetFin pc0 g' out hpc0 h1 hg =>
    exact hi.frameC hpc (pc' := .idle) rfl (fun e _ => ⟨hpv _, rfl⟩) rfl rfl
      (by simp only [finishCall]; rw [hg]) (by simp only [finishCall]; rw [hg])
      (hst_same (by simp only [finishCall]; rw [hg])) (hkw_same (by simp only [finishCall]; rw [hg]))
  case startPlain r pc' hpc0 hpl =>
    exact hi.frameC hpc (pc' := pc') rfl (fun e _ => ⟨hpv _, pcview_eq_none (plain_idx hpl)⟩) rfl rfl rfl rfl
      (hst_same rfl) (hkw_same rfl)
  case shutStoreClear hpc0 hr =>
    refine hi.frameC hpc (pc' := .shutKwClear) rfl (fun e _ => ⟨hpv _, rfl⟩) rfl rfl rfl rfl ?_ (hkw_same rfl)
    intro e' he
    simp [setClient] at he
  case shutKwClear hpc0 =>
    refine hi.frameC hpc (pc' := .shutWuZero) rfl (fun e _ => ⟨hpv _, rfl⟩) rfl rfl rfl rfl (hst_same rfl) ?_
    intro e _ hc
    simp [Charged, setClient] at hc
  all_goals
    exact hi.frameC hpc rfl (fun e _ => ⟨hpv _, rfl⟩) rfl rfl rfl rfl (hst_same rfl) (hkw_same rfl)

/-- **Every action of a client preserves `KInv`** (given `SerialCore` before and after it, and the flag not set). -/
theorem kinv_client {b b' : BState} {k i : Nat} {o o' : Oracle} (hb : BInv b) (hj : BBij b) (hi : KInv b k)
    (hs : SerialCore b k) (hs' : SerialCore b' k) (hsh : b'.g.shutting = false)
    (h : stepB b (.client i) o = .ok (b', o')) : KInv b' k := by
  have hact : clientAct b i o = .ok (b', o') := h
  cases hpc : b.cl[i]? with
  | none => unfold clientAct at hact; simp [hpc] at hact
  | some pc =>
    by_cases hx : pc.idx? = none
    · exact kinv_client_plain hb hj hi hs' hsh hpc hx (clientAct_trans hact)
    · cases pc <;> (try exact absurd rfl hx)
      case upWeightOf id uw old new =>
        obtain ⟨_, hm⟩ := C08_layerB_weightOf_step hpc h
        have hother : ∀ (pc' : CPc) (e : Entry), (∀ id', id ≠ id' → pcview id' pc' = none) →
            pcview e.id (.upWeightOf id uw old new) = none →
            pcview e.id pc' = none ∧ ∀ y, IdxIs b.g.cfg b.g.ttl e.id y ↔ IdxIs b.g.cfg b.g.ttl e.id y := by
          intro pc' e hp hpv
          have hne : id ≠ e.id := by
            intro hh; subst hh; simp [pcview, CPc.idx?] at hpv
          exact ⟨hp _ hne, fun y => Iff.rfl⟩
        cases hty : typeOfExpiryUpdate old new with
        | added n =>
          rw [hty] at hm; simp only [] at hm
          obtain ⟨rfl, rfl⟩ := typeOfExpiryUpdate_added hty
          refine kinv_client_move hi hs hpc (by rw [hm]; rfl) (by rw [hm]; rfl) (by rw [hm]; rfl) (by rw [hm]; rfl)
            (by rw [hm]; rfl) ?_ ?_
          · intro e hk idx st hpv
            rw [pcview_some] at hpv
            simp only [CPc.idx?, Option.some.injEq, Prod.mk.injEq] at hpv
            obtain ⟨rfl, rfl, rfl⟩ := hpv
            exact Or.inl ⟨none, by simp [pcview, CPc.idx?], Or.inl ⟨rfl, fun y => by rw [hm]; exact Iff.rfl⟩⟩
          · intro e hk hpv
            rw [hm]
            exact hother _ e (fun id' hne => by simp [pcview, CPc.idx?, hne]) hpv
        | deleted d =>
          rw [hty] at hm; simp only [] at hm
          obtain ⟨rfl, rfl⟩ := typeOfExpiryUpdate_deleted hty
          refine kinv_client_move hi hs hpc (by rw [hm]; rfl) (by rw [hm]; rfl) (by rw [hm]; rfl) (by rw [hm]; rfl)
            (by rw [hm]; rfl) ?_ ?_
          · intro e hk idx st hpv
            rw [pcview_some] at hpv
            simp only [CPc.idx?, Option.some.injEq, Prod.mk.injEq] at hpv
            obtain ⟨rfl, rfl, rfl⟩ := hpv
            exact Or.inl ⟨some d, by simp [pcview, CPc.idx?], Or.inl ⟨rfl, fun y => by rw [hm]; exact Iff.rfl⟩⟩
          · intro e hk hpv
            rw [hm]
            exact hother _ e (fun id' hne => by simp [pcview, CPc.idx?, hne]) hpv
        | updated d n =>
          rw [hty] at hm; simp only [] at hm
          obtain ⟨rfl, rfl⟩ := typeOfExpiryUpdate_updated hty
          refine kinv_client_move hi hs hpc (by rw [hm]; rfl) (by rw [hm]; rfl) (by rw [hm]; rfl) (by rw [hm]; rfl)
            (by rw [hm]; rfl) ?_ ?_
          · intro e hk idx st hpv
            rw [pcview_some] at hpv
            simp only [CPc.idx?, Option.some.injEq, Prod.mk.injEq] at hpv
            obtain ⟨rfl, rfl, rfl⟩ := hpv
            exact Or.inl ⟨some d, by simp [pcview, CPc.idx?], Or.inl ⟨rfl, fun y => by rw [hm]; exact Iff.rfl⟩⟩
          · intro e hk hpv
            rw [hm]
            exact hother _ e (fun id' hne => by simp [pcview, CPc.idx?, hne]) hpv
        | nothing =>
          rw [hty] at hm; simp only [] at hm
          have hon := typeOfExpiryUpdate_nothing hty
          subst hon
          obtain ⟨pc', hpx, hcl, hw, hsw, hcfg, hst, hadm, httl⟩ :=
            upAfterIndex_shape b i id (upsB_uw2 b.g.cfg uw (chargedWeight? b.g id) old old)
          rw [← hm] at hcl hw hsw hcfg hst hadm httl
          refine kinv_client_move hi hs hpc hcl hw hsw hst (by rw [hadm]) ?_ ?_
          · intro e hk idx st hpv
            rw [pcview_some] at hpv
            simp only [CPc.idx?, Option.some.injEq, Prod.mk.injEq] at hpv
            obtain ⟨rfl, rfl, rfl⟩ := hpv
            exact Or.inr ⟨pcview_eq_none hpx, Or.inl ⟨rfl, fun y => by rw [hcfg, httl]⟩⟩
          · intro e hk hpv
            rw [hcfg, httl]
            exact hother _ e (fun id' _ => pcview_eq_none hpx) hpv
      case upTtlPut id n uw =>
        obtain ⟨_, _, hm, _⟩ := (C08_layerB_index_steps h).1 id n uw hpc
        obtain ⟨pc', hpx, hcl, hw, hsw, hcfg, hst, hadm, httl⟩ :=
          upAfterIndex_shape { b with g := ttlPut b.g id n } i id uw
        rw [← hm] at hcl hw hsw hcfg hst hadm httl
        have httl' : b'.g.ttl = b.g.ttl.set (shardOf b.g.cfg n, id) n := httl
        have hcfg' : b'.g.cfg = b.g.cfg := hcfg
        refine kinv_client_move hi hs hpc hcl hw hsw hst (by rw [hadm]; rfl) ?_ ?_
        · intro e hk idx st hpv
          rw [pcview_some] at hpv
          simp only [CPc.idx?, Option.some.injEq, Prod.mk.injEq] at hpv
          obtain ⟨rfl, rfl, rfl⟩ := hpv
          exact Or.inr ⟨pcview_eq_none hpx, Or.inr ⟨fun hh => by rw [hcfg', httl']; exact idxIs_put hh,
            fun hh => by rw [hcfg', httl']; exact idxIs_put hh⟩⟩
        · intro e hk hpv
          have hne : id ≠ e.id := by
            intro hh; subst hh; simp [pcview, CPc.idx?] at hpv
          refine ⟨pcview_eq_none hpx, fun y => ?_⟩
          rw [hcfg', httl']
          exact idxIs_set_other (p := (shardOf b.g.cfg n, id)) n hne y
      case upTtlInsert id n uw =>
        obtain ⟨_, _, hm, _⟩ := (C08_layerB_index_steps h).2.2.2 id n uw hpc
        obtain ⟨pc', hpx, hcl, hw, hsw, hcfg, hst, hadm, httl⟩ :=
          upAfterIndex_shape { b with g := ttlPut b.g id n } i id uw
        rw [← hm] at hcl hw hsw hcfg hst hadm httl
        have httl' : b'.g.ttl = b.g.ttl.set (shardOf b.g.cfg n, id) n := httl
        have hcfg' : b'.g.cfg = b.g.cfg := hcfg
        refine kinv_client_move hi hs hpc hcl hw hsw hst (by rw [hadm]; rfl) ?_ ?_
        · intro e hk idx st hpv
          rw [pcview_some] at hpv
          simp only [CPc.idx?, Option.some.injEq, Prod.mk.injEq] at hpv
          obtain ⟨rfl, rfl, rfl⟩ := hpv
          exact Or.inr ⟨pcview_eq_none hpx, Or.inr ⟨fun hh => by rw [hcfg', httl']; exact idxIs_put hh,
            fun hh => by rw [hcfg', httl']; exact idxIs_put hh⟩⟩
        · intro e hk hpv
          have hne : id ≠ e.id := by
            intro hh; subst hh; simp [pcview, CPc.idx?] at hpv
          refine ⟨pcview_eq_none hpx, fun y => ?_⟩
          rw [hcfg', httl']
          exact idxIs_set_other (p := (shardOf b.g.cfg n, id)) n hne y
      case upTtlDelete id d uw =>
        obtain ⟨_, _, hm, _⟩ := (C08_layerB_index_steps h).2.1 id d uw hpc
        obtain ⟨pc', hpx, hcl, hw, hsw, hcfg, hst, hadm, httl⟩ :=
          upAfterIndex_shape { b with g := ttlDelete b.g id d } i id uw
        rw [← hm] at hcl hw hsw hcfg hst hadm httl
        have httl' : b'.g.ttl = b.g.ttl.del (shardOf b.g.cfg d, id) := httl
        have hcfg' : b'.g.cfg = b.g.cfg := hcfg
        refine kinv_client_move hi hs hpc hcl hw hsw hst (by rw [hadm]; rfl) ?_ ?_
        · intro e hk idx st hpv
          rw [pcview_some] at hpv
          simp only [CPc.idx?, Option.some.injEq, Prod.mk.injEq] at hpv
          obtain ⟨rfl, rfl, rfl⟩ := hpv
          exact Or.inr ⟨pcview_eq_none hpx, Or.inr ⟨fun hh => by rw [hcfg', httl']; exact idxIs_del hh,
            fun hh => by rw [hcfg', httl']; exact idxIs_none_del _ hh⟩⟩
        · intro e hk hpv
          have hne : id ≠ e.id := by
            intro hh; subst hh; simp [pcview, CPc.idx?] at hpv
          refine ⟨pcview_eq_none hpx, fun y => ?_⟩
          rw [hcfg', httl']
          exact idxIs_del_other (p := (shardOf b.g.cfg d, id)) hne y
      case upTtlRemove id d n uw =>
        obtain ⟨_, _, hm, _⟩ := (C08_layerB_index_steps h).2.2.1 id d n uw hpc
        have httl' : b'.g.ttl = b.g.ttl.del (shardOf b.g.cfg d, id) := by rw [hm]; rfl
        have hcfg' : b'.g.cfg = b.g.cfg := by rw [hm]; rfl
        refine kinv_client_move hi hs hpc (pc' := .upTtlInsert id n uw) (by rw [hm]; rfl) (by rw [hm]; rfl)
          (by rw [hm]; rfl) (by rw [hm]; rfl) (by rw [hm]; rfl) ?_ ?_
        · intro e hk idx st hpv
          rw [pcview_some] at hpv
          simp only [CPc.idx?, Option.some.injEq, Prod.mk.injEq] at hpv
          obtain ⟨rfl, rfl, rfl⟩ := hpv
          exact Or.inl ⟨none, by simp [pcview, CPc.idx?], Or.inr ⟨rfl, fun hh => by rw [hcfg', httl']; exact idxIs_del hh,
            fun hh => by rw [hcfg', httl']; exact idxIs_none_del _ hh⟩⟩
        · intro e hk hpv
          have hne : id ≠ e.id := by
            intro hh; subst hh; simp [pcview, CPc.idx?] at hpv
          refine ⟨by simp [pcview, CPc.idx?, hne], fun y => ?_⟩
          rw [hcfg', httl']
          exact idxIs_del_other (p := (shardOf b.g.cfg d, id)) hne y

/-! ## 8  every action of every thread -/

/-- frame for an action that moves no thread and touches neither store, charges nor index -/
theorem KInv.frameG {b b' : BState} {k : Nat} (hi : KInv b k) (hcl : b'.cl = b.cl) (hw : b'.w = b.w)
    (hsw : b'.sw = b.sw) (hcfg : b'.g.cfg = b.g.cfg) (httl : b'.g.ttl = b.g.ttl) (hst : b'.g.store = b.g.store)
    (hkw : b'.g.adm.kw = b.g.adm.kw) : KInv b' k :=
  hi.frame (hst_same hst) (hkw_same hkw) (fun e hke _ hc _ =>
    ⟨fun j => cview_congr hcl _ _, wview_congr hw _, kview_congr hsw _, by rw [hw]; exact (hi e hke hc).delGone,
      fun y => by rw [hcfg, httl]⟩)

/-- **`KInv` is preserved by every action of every thread**, from a reachable state, when the state before and the
    state after the action are serial (core form) for `k` and the shutdown flag is not set after the action.
    (`SerialCore` of the state before is used by the worker's `ttl.put` and by the clients' index actions, of the state
    after by `upsert.update`; the sweeper's actions need neither.) -/
theorem kinv_step {cfg : Cfg} {now0 : Nat} {seeds : List Nat} {clients : Nat} {b b' : BState} {a : Act}
    {o o' : Oracle} {k : Nat} (hr : Reach cfg now0 seeds clients b) (hi : KInv b k) (hs : SerialCore b k)
    (hs' : SerialCore b' k) (hsh : b'.g.shutting = false) (h : stepB b a o = .ok (b', o')) : KInv b' k := by
  have hb := binv_reach hr
  have hj := bbij_reach hr (stepB_running_before h hsh)
  cases a with
  | issue i r =>
    simp only [stepB] at h
    split at h
    · rename_i b1 hiss
      simp only [Except.ok.injEq, Prod.mk.injEq] at h; obtain ⟨rfl, rfl⟩ := h
      unfold issue at hiss
      split at hiss
      · rename_i hpc
        simp only [Except.ok.injEq] at hiss; subst hiss
        exact hi.frameC hpc (pc' := .start r) rfl (fun e _ => ⟨rfl, rfl⟩) rfl rfl rfl rfl (hst_same rfl) (hkw_same rfl)
      · cases hiss
    · cases h
  | client i => exact kinv_client hb hj hi hs hs' hsh h
  | worker => exact kinv_worker hb hj hi hs (workerAct_trans h)
  | sweeper v =>
    exact kinv_sweeper hj (C10_layerB_sweepInv hr) (C10_layerB_sweep_clock hr) hi (swB_sweeper_step h)
  | consumer =>
    simp only [stepB] at h
    split at h
    · rename_i g' out o1 hc
      simp only [Except.ok.injEq, Prod.mk.injEq] at h; obtain ⟨rfl, rfl⟩ := h
      have hg := consumerStep_frame hc
      exact hi.frameG rfl rfl rfl (by simp only []; rw [hg]) (by simp only []; rw [hg]) (by simp only []; rw [hg])
        (by simp only []; rw [hg])
    · cases h
  | advance d =>
    simp only [stepB, Except.ok.injEq, Prod.mk.injEq] at h; obtain ⟨rfl, rfl⟩ := h
    exact hi.frameG rfl rfl rfl rfl rfl rfl rfl

end B
end Cached
