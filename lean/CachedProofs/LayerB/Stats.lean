/-
  C16 at ACTION granularity (Layer B, `CachedModel/LayerB.lean`), for EVERY interleaving:
  "Statistics are exact at quiescence."

  WHICH ACTION MOVES WHICH COUNTER (read off `stepB`)
    * `hits` / `misses`      at the `store.get` action of `get` (`.getStore`), `get_ref` (`.refStore`) and of each key of
                             a multi-key read (`.mgetStore`) — the SAME action that does the lookup;
    * `keysRejected`         in `rejectCmd`, i.e. at the worker actions `store.present` (too heavy), `sample.init` /
                             `sample.fill` (the popped victim is more popular) and the `wu.space` re-check of a dry sample
                             — the same action that answers the command; the two `KeyAlreadyExists` answers
                             (`spotFinish` of the caller, `finishCmd` of the worker) do not touch it;
    * `keysAdded`            at `store.put` (`.storePut`), the action that inserts the entry;
    * `keysDeleted`          at `store.remove` — of a Delete command (`.delStore`), of an eviction by the worker
                             (`.evStore`, `applyEvict`) or by the sweeper (`SPc.store`, `applyEvictId`: only if the key is still stored
                             under the evicted id) — the action that removes the entry;
    * `weightAdded`          at `wu.add` (`.add`, together with `used += w`) and at `kw.update` (`.update`, together
                             with `used += delta`; a decrease is added as its two's complement);
    * `weightRemoved`        at `wu.sub` of a Delete command (`.delSub`, together with `used -= w`), but for an EVICTION
                             one action LATER than `used -= w`: `wu.sub` (`.evSub` / `SPc.sub`) subtracts, the following
                             `store.remove` (`.evStore` / `SPc.store`, `applyEvict` / `applyEvictId`) counts the weight as removed.

  So three of the four identities need NO correction for work in flight; the weight identity needs one:

      weightAdded − weightRemoved  ≡  used + removedInFlight   (mod 2^64)

  where `removedInFlight b` is the weight of the victim the worker holds at `.evStore` plus the weight of the entry the
  sweeper holds at `SPc.store` (both own the `weight_used` lock there).

  Contents
    1  ghosts (`GhostB`, `ghostStepB`, `ReachGB`), `removedInFlight`, `StatB`
    2  helpers (`applyEvict`, `poolAdd`, association lists)
    3  the command worker   (`statB_workerAct`)
    4  the sweeper          (`statB_sweeperAct`)
    5  the clients          (`clientAct_cstat`, `statB_clientAct`)
    6  `statB_init`, `statB_step`, `statB_reach`
    7  what the ghost `refused` counts (`worker_reject_shape`)
  The final theorems are in `CachedProofs/LayerB/StatsTheorems.lean`.

  Scope: `b.g.shutting = false`.  `shutdown()` clears the store, `key_weights`, `weight_used` and the statistics in
  four separate actions; the worker and the sweeper preserve `StatB` unconditionally, only the client part needs the
  flag (through `ShutF`: a client past the CAS of `shutdown()` has set it).
-/
import CachedProofs.LayerB.Theorems
import CachedProofs.Lemmas.StatsInv

namespace Cached
namespace B

/-! ## 1  definitions -/

/-- ghost counters carried next to a Layer B state: key lookups performed, puts refused by admission -/
structure GhostB where
  lookups : Nat := 0
  refused : Nat := 0
  deriving DecidableEq, Repr

/-- the client stands at a `store.get`: of `get`, of `get_ref`, or of one key of a multi-key read -/
def CPc.isLookup : CPc → Bool
  | .getStore _ | .refStore _ | .mgetStore _ _ _ _ => true
  | _ => false

def WPc.isRecv : WPc → Bool
  | .recv => true
  | _ => false

/-- 1 at a `store.get`, else 0 -/
def CPc.lookN : CPc → Nat
  | .getStore _ | .refStore _ | .mgetStore _ _ _ _ => 1
  | _ => 0

theorem CPc.lookN_eq (pc : CPc) : pc.lookN = if pc.isLookup then 1 else 0 := by
  cases pc <;> rfl

/-- 1 when the next action of client `i` is a key lookup, else 0 -/
def lookupDelta (b : BState) (i : Nat) : Nat :=
  match b.cl[i]? with
  | some pc => pc.lookN
  | none => 0

/-- 1 for a worker action `b → b'` that ends the admission phase of a put without accepting it: the put has passed (or
    passes in this very action) the worker-side `contains` re-check, and the worker is back at `recv` without having
    reached `kw.insert`.  Defined from the positions only — not from the counter it is compared with, and not from the
    status; `C16_layerB_refused_counts_admission_only` shows that these are exactly the actions answering
    `rejected tooHeavy` / `rejected noSpace`. -/
def refusedDeltaB (b b' : BState) : Nat :=
  match b.w with
  | .present c => if b.g.store.contains c.k then 0 else if b'.w.isRecv then 1 else 0
  | .sampleInit _ _ _ | .fill _ _ _ _ | .emptySpace _ => if b'.w.isRecv then 1 else 0
  | _ => 0

/-- How the ghosts move with one successful step `stepB b a o = .ok (b', o')`. -/
def ghostStepB (gh : GhostB) (b : BState) (a : Act) (b' : BState) : GhostB :=
  match a with
  | .client i => { gh with lookups := gh.lookups + lookupDelta b i }
  | .worker => { gh with refused := gh.refused + refusedDeltaB b b' }
  | _ => gh

/-- Layer B reachability, with the ghosts. -/
inductive ReachGB (cfg : Cfg) (now : Nat) (seeds : List Nat) (clients : Nat) : BState → GhostB → Prop where
  | init (shardMap : List (Nat × Nat)) :
      ReachGB cfg now seeds clients { BState.init cfg now seeds clients with storeShard := shardMap } {}
  | step {b b' : BState} {gh : GhostB} {a : Act} {o o' : Oracle} :
      ReachGB cfg now seeds clients b gh → stepB b a o = .ok (b', o') →
      ReachGB cfg now seeds clients b' (ghostStepB gh b a b')

theorem ReachGB.reach {cfg : Cfg} {now : Nat} {seeds : List Nat} {clients : Nat} {b : BState} {gh : GhostB}
    (h : ReachGB cfg now seeds clients b gh) : Reach cfg now seeds clients b := by
  induction h with
  | init shardMap => exact .init shardMap
  | step _ hs ih => exact .step ih hs

/-- every reachable state is reachable with some value of the ghosts -/
theorem Reach.ghost {cfg : Cfg} {now : Nat} {seeds : List Nat} {clients : Nat} {b : BState}
    (h : Reach cfg now seeds clients b) : ∃ gh, ReachGB cfg now seeds clients b gh := by
  induction h with
  | init shardMap => exact ⟨{}, .init shardMap⟩
  | step _ hs ih => obtain ⟨gh, hg⟩ := ih; exact ⟨_, .step hg hs⟩

/-- the weight the worker has subtracted from `weight_used` (`wu.sub` of an eviction) and not yet counted as removed -/
def WPc.heldW : WPc → Int
  | .evStore _ _ _ _ wk => wk.weight
  | _ => 0

/-- the same for the sweeper -/
def SPc.heldW : SPc → Int
  | .store _ _ _ _ wk => wk.weight
  | _ => 0

/-- weight already out of `weight_used` but not yet in `weightRemoved`: between the `wu.sub` and the `store.remove` of
    an eviction, by the worker and by the sweeper -/
def removedInFlight (b : BState) : Int := b.w.heldW + b.sw.heldW

/-- the key of the put the worker is executing, from the position after the `contains` re-check up to `store.put`:
    the key is NOT in the store (nobody but the worker inserts keys) -/
def WPc.absentKey? : WPc → Option Nat
  | .space0 c | .sampleInit c _ _ | .evRemove c _ _ _ | .evSub c _ _ _ _ | .evStore c _ _ _ _
  | .evSpace c _ _ | .fill c _ _ _ | .emptySpace c | .insert c | .add c | .storePut c => some c.k
  | _ => none

/-- The statistics invariant of Layer B (valid while `b.g.shutting = false`, see the header). -/
structure StatB (b : BState) (gh : GhostB) : Prop where
  /-- C16: the counter moves in the action that does the lookup — no correction -/
  lookups : b.g.stats.hits + b.g.stats.misses = gh.lookups
  /-- C16: the counter moves in the action that refuses — no correction -/
  refused : b.g.stats.keysRejected = gh.refused
  /-- C16: the counters move in the actions that insert / remove the entry — no correction -/
  keys : b.g.stats.keysAdded = b.g.stats.keysDeleted + b.g.store.length
  /-- C16, modulo 2^64, with the weight of the evictions in flight -/
  weight : ((b.g.stats.weightAdded : Int) - (b.g.stats.weightRemoved : Int) - b.g.adm.used - removedInFlight b)
             % (u64Mod : Int) = 0
  storeNoDup : AMap.NoDup b.g.store
  /-- the key being put is absent from the re-check up to `store.put` -/
  putAbsent : ∀ k, b.w.absentKey? = some k → b.g.store.get? k = none

/-- the key part of `StatB` -/
structure KeyB (b : BState) : Prop where
  keys : b.g.stats.keysAdded = b.g.stats.keysDeleted + b.g.store.length
  storeNoDup : AMap.NoDup b.g.store
  putAbsent : ∀ k, b.w.absentKey? = some k → b.g.store.get? k = none

/-- the weight part of `StatB` -/
def WtB (b : BState) : Prop :=
  ((b.g.stats.weightAdded : Int) - (b.g.stats.weightRemoved : Int) - b.g.adm.used - (b.w.heldW + b.sw.heldW))
    % (u64Mod : Int) = 0

theorem statB_iff {b : BState} {gh : GhostB} :
    StatB b gh ↔ b.g.stats.hits + b.g.stats.misses = gh.lookups ∧ b.g.stats.keysRejected = gh.refused ∧
      KeyB b ∧ WtB b := by
  constructor
  · intro h; exact ⟨h.lookups, h.refused, ⟨h.keys, h.storeNoDup, h.putAbsent⟩, h.weight⟩
  · rintro ⟨h1, h2, h3, h4⟩; exact ⟨h1, h2, h3.keys, h4, h3.storeNoDup, h3.putAbsent⟩

/-! ## 2  helpers -/

/-- the delete hook, in numbers: one key less (if it was there), the weight counted as removed -/
theorem applyEvict_stats (g : State) (id k : Nat) (w : Int) :
    (applyEvict g (id, k, w)).stats =
      { g.stats with keysDeleted := g.stats.keysDeleted + (if g.store.contains k then 1 else 0),
                     weightRemoved := (g.stats.weightRemoved + w.toNat) % u64Mod } := by
  simp only [applyEvict]
  split <;> simp_all

theorem keys_applyEvict {g : State} (id k : Nat) (w : Int)
    (hk : g.stats.keysAdded = g.stats.keysDeleted + g.store.length) (hn : AMap.NoDup g.store) :
    (applyEvict g (id, k, w)).stats.keysAdded =
      (applyEvict g (id, k, w)).stats.keysDeleted + (applyEvict g (id, k, w)).store.length := by
  rw [applyEvict_stats, applyEvict_store]
  simp only []
  cases hc : g.store.get? k with
  | none =>
    have : g.store.contains k = false := by simp [AMap.contains, hc]
    rw [this, AMap.del_absent hc]; simpa using hk
  | some e =>
    have : g.store.contains k = true := by simp [AMap.contains, hc]
    have hl := AMap.length_del_present hn hc
    rw [this]; simp only [if_true]; omega

/-- the ticker's delete hook, in numbers: one key less if the key is stored under the evicted id, the weight counted
    as removed in any case -/
theorem applyEvictId_statsB (g : State) (id k : Nat) (w : Int) :
    (applyEvictId g (id, k, w)).stats =
      { g.stats with
        keysDeleted := g.stats.keysDeleted + (if (g.store.get? k).map (·.id) = some id then 1 else 0),
        weightRemoved := (g.stats.weightRemoved + w.toNat) % u64Mod } := by
  rw [Cached.applyEvictId_closed]

theorem applyEvictId_storeB (g : State) (id k : Nat) (w : Int) :
    (applyEvictId g (id, k, w)).store =
      if (g.store.get? k).map (·.id) = some id then g.store.del k else g.store := by
  rw [Cached.applyEvictId_closed]

theorem keys_applyEvictId {g : State} (id k : Nat) (w : Int)
    (hk : g.stats.keysAdded = g.stats.keysDeleted + g.store.length) (hn : AMap.NoDup g.store) :
    (applyEvictId g (id, k, w)).stats.keysAdded =
      (applyEvictId g (id, k, w)).stats.keysDeleted + (applyEvictId g (id, k, w)).store.length := by
  rw [applyEvictId_statsB, applyEvictId_storeB]
  simp only []
  by_cases hm : (g.store.get? k).map (·.id) = some id
  · simp only [hm, if_true]
    cases hc : g.store.get? k with
    | none => rw [hc] at hm; cases hm
    | some e =>
      have hl := AMap.length_del_present hn hc
      omega
  · simp only [hm, if_false]
    omega

theorem get?_del_none {m : AMap Nat Entry} {k : Nat} (h : m.get? k = none) (a : Nat) : (m.del a).get? k = none := by
  rw [AMap.get?_del]; split <;> simp [h]

theorem get?_set_present_none {m : AMap Nat Entry} {k a : Nat} {e : Entry} (h : m.get? k = none)
    (ha : m.get? a = some e) (e' : Entry) : (m.set a e').get? k = none := by
  have hne : a ≠ k := by intro he; subst he; rw [h] at ha; cases ha
  rw [AMap.get?_set_other m e' hne]; exact h

theorem updateWeightStats_other (st : Stats) (n o : Int) :
    (updateWeightStats st n o).hits = st.hits ∧ (updateWeightStats st n o).misses = st.misses ∧
    (updateWeightStats st n o).keysAdded = st.keysAdded ∧ (updateWeightStats st n o).keysDeleted = st.keysDeleted ∧
    (updateWeightStats st n o).keysRejected = st.keysRejected ∧
    (updateWeightStats st n o).weightRemoved = st.weightRemoved := by
  unfold updateWeightStats
  split <;> exact ⟨rfl, rfl, rfl, rfl, rfl, rfl⟩

/-! ## 3  the command worker -/

/-- `store.present` (the worker-side re-check), exactly -/
theorem workerAct_present {b b' : BState} {o o' : Oracle} {c : PutCmd} (hw : b.w = .present c)
    (h : workerAct b o = .ok (b', o')) :
    (b.g.store.contains c.k = true ∧ b' = finishCmd b c.h (.rejected .keyAlreadyExists)) ∨
    (b.g.store.contains c.k = false ∧ c.w > b.g.adm.max ∧ b' = rejectCmd b c.h (.rejected .tooHeavy)) ∨
    (b.g.store.contains c.k = false ∧ ¬ c.w > b.g.adm.max ∧ b' = { b with w := .space0 c }) := by
  simp only [workerAct, hw] at h
  split at h
  · rename_i hc
    simp only [Except.ok.injEq, Prod.mk.injEq] at h; obtain ⟨rfl, rfl⟩ := h
    exact Or.inl ⟨hc, rfl⟩
  · rename_i hc
    have hc' : b.g.store.contains c.k = false := by simpa using hc
    split at h
    all_goals simp only [Except.ok.injEq, Prod.mk.injEq] at h; obtain ⟨rfl, rfl⟩ := h
    · exact Or.inr (Or.inl ⟨hc', by assumption, rfl⟩)
    · exact Or.inr (Or.inr ⟨hc', by assumption, rfl⟩)

/-- `kw.update`, exactly (with the overflow check the applied branch has passed) -/
theorem workerAct_update {b b' : BState} {o o' : Oracle} {id : Nat} {w : Int} {hh : Option Nat}
    (hw : b.w = .update id w hh) (h : workerAct b o = .ok (b', o')) :
    (b.g.adm.kw.get? id = none ∧ b' = finishCmd b hh .accepted) ∨
    (∃ wk, b.g.adm.kw.get? id = some wk ∧ inI64 (w - wk.weight) = true ∧
      b' = finishCmd { b with g := { b.g with adm := { b.g.adm with used := b.g.adm.used + (w - wk.weight), kw := b.g.adm.kw.set id { wk with weight := w } }, stats := updateWeightStats { b.g.stats with keysUpdated := b.g.stats.keysUpdated + 1 } w wk.weight } } hh .accepted) ∨
    b' = { b with w := .dead, g := { b.g with worker := .dead, queue := [] } } := by
  simp only [workerAct, hw] at h
  split at h
  · cases h
  · unfold workerUpdateWeight at h
    cases hg : b.g.adm.kw.get? id with
    | none =>
      simp only [hg, Except.ok.injEq, Prod.mk.injEq] at h; obtain ⟨rfl, rfl⟩ := h
      exact Or.inl ⟨rfl, rfl⟩
    | some wk =>
      by_cases hc : (!inI64 (w - wk.weight) || !inI64 (b.g.adm.used + (w - wk.weight))) = true
      · simp only [hg, hc, if_true, Except.ok.injEq, Prod.mk.injEq] at h; obtain ⟨rfl, rfl⟩ := h
        exact Or.inr (Or.inr rfl)
      · simp only [hg, hc] at h; obtain ⟨rfl, rfl⟩ := h
        simp only [Bool.or_eq_true, Bool.not_eq_true', not_or, Bool.not_eq_false] at hc
        exact Or.inr (Or.inl ⟨wk, rfl, hc.1, rfl⟩)

/-- the worker leaves `hits` and `misses` alone -/
theorem wtrans_hm {b b' : BState} (h : WTrans b b') :
    b'.g.stats.hits = b.g.stats.hits ∧ b'.g.stats.misses = b.g.stats.misses := by
  cases h
  case evStore => simp [applyEvict_stats]
  case updateApplied id w hh wk _ _ _ =>
    obtain ⟨h1, h2, _⟩ := updateWeightStats_other { b.g.stats with keysUpdated := b.g.stats.keysUpdated + 1 } w wk.weight
    simp [finishCmd, h1, h2]
  all_goals exact ⟨rfl, rfl⟩

/-- `keysRejected` moves exactly with the ghost (all positions but `store.present`, which `WTrans` does not pin down) -/
theorem wtrans_refused {b b' : BState} (h : WTrans b b') (hnp : ∀ c, b.w ≠ .present c) :
    b'.g.stats.keysRejected = b.g.stats.keysRejected + refusedDeltaB b b' := by
  cases h
  case presentExists c hw => exact absurd hw (hnp c)
  case presentHeavy c hw => exact absurd hw (hnp c)
  case presentOk c hw => exact absurd hw (hnp c)
  case evStore c e s id wk hw _ => simp [refusedDeltaB, hw, applyEvict_stats]
  case updateApplied id w hh wk hw _ _ =>
    obtain ⟨_, _, _, _, h5, _⟩ := updateWeightStats_other { b.g.stats with keysUpdated := b.g.stats.keysUpdated + 1 } w wk.weight
    simp [refusedDeltaB, hw, finishCmd, h5]
  all_goals simp [refusedDeltaB, finishCmd, rejectCmd, WPc.isRecv, ttlPut, ttlDelete, *]

/-- the key part: `store.put` inserts an ABSENT key and counts it, the three `store.remove`s count what they remove -/
theorem wtrans_keys {b b' : BState} (h : WTrans b b') (hnp : ∀ c, b.w ≠ .present c) (hk : KeyB b) : KeyB b' := by
  obtain ⟨hk1, hk2, hk3⟩ := hk
  cases h
  case presentExists c hw => exact absurd hw (hnp c)
  case presentHeavy c hw => exact absurd hw (hnp c)
  case presentOk c hw => exact absurd hw (hnp c)
  case evStore c e s id wk hw _ =>
    refine ⟨keys_applyEvict id wk.key wk.weight hk1 hk2, ?_, ?_⟩
    · show AMap.NoDup (applyEvict b.g (id, wk.key, wk.weight)).store
      rw [applyEvict_store]; exact AMap.noDup_del hk2 _
    · intro k hk'
      show (applyEvict b.g (id, wk.key, wk.weight)).store.get? k = none
      rw [applyEvict_store]
      exact get?_del_none (hk3 k (by simpa [hw, WPc.absentKey?] using hk')) _
  case storePutPlain c hw _ _ =>
    have habs := hk3 c.k (by simp [hw, WPc.absentKey?])
    refine ⟨?_, AMap.noDup_set hk2 _ _, fun k hk' => by simp [finishCmd, WPc.absentKey?] at hk'⟩
    show b.g.stats.keysAdded + 1 = b.g.stats.keysDeleted + (b.g.store.set c.k _).length
    rw [AMap.length_set_absent habs]; omega
  case storePutTtl c t e hw _ _ =>
    have habs := hk3 c.k (by simp [hw, WPc.absentKey?])
    refine ⟨?_, AMap.noDup_set hk2 _ _, fun k hk' => by simp [WPc.absentKey?] at hk'⟩
    show b.g.stats.keysAdded + 1 = b.g.stats.keysDeleted + (b.g.store.set c.k _).length
    rw [AMap.length_set_absent habs]; omega
  case delStoreSome k hh e hw hg _ =>
    have hl := AMap.length_del_present hk2 hg
    refine ⟨?_, AMap.noDup_del hk2 _, fun k hk' => by simp [WPc.absentKey?] at hk'⟩
    show b.g.stats.keysAdded = b.g.stats.keysDeleted + 1 + (b.g.store.del k).length
    omega
  case updateApplied id w hh wk hw _ _ =>
    obtain ⟨_, _, h3, h4, _, _⟩ := updateWeightStats_other { b.g.stats with keysUpdated := b.g.stats.keysUpdated + 1 } w wk.weight
    refine ⟨?_, hk2, fun k hk' => by simp [finishCmd, WPc.absentKey?] at hk'⟩
    simp only [finishCmd, h3, h4]; exact hk1
  all_goals refine ⟨hk1, hk2, ?_⟩
  all_goals intro k hk'
  all_goals first
    | (simp [finishCmd, rejectCmd, WPc.absentKey?] at hk'; done)
    | (refine hk3 k ?_; simp_all [WPc.absentKey?])

/-- the weight part: `wu.add` and a Delete's `wu.sub` move `used` and a counter together; an eviction's `wu.sub` moves
    `used` and takes the weight in hand, its `store.remove` counts the weight as removed -/
theorem wtrans_weight {b b' : BState} (h : WTrans b b') (hnu : ∀ id w hh, b.w ≠ .update id w hh) (hb : BInv b)
    (hw : WtB b) : WtB b' := by
  obtain ⟨hadd, _, hvic, _⟩ := hb.pendingPos
  have hsw : b'.sw = b.sw := by cases h <;> rfl
  unfold WtB at hw ⊢
  rw [hsw]
  cases h
  case updateApplied id w hh wk hw' _ _ => exact absurd hw' (hnu id w hh)
  case add c hw' _ =>
    have hpos := hadd c hw'
    simp only [hw', WPc.heldW] at hw ⊢
    simp only [u64Mod] at hw ⊢
    omega
  case evSub c e s id wk hw' _ =>
    simp only [hw', WPc.heldW] at hw ⊢
    simp only [u64Mod] at hw ⊢
    omega
  case evStore c e s id wk hw' _ =>
    have hpos := hvic wk (by simp [hw', WPc.victim?])
    simp only [hw', WPc.heldW, applyEvict_stats, applyEvict_adm] at hw ⊢
    simp only [u64Mod] at hw ⊢
    omega
  case delSubTtl id wk e hh hw' _ =>
    have hpos := hvic wk (by simp [hw', WPc.victim?])
    simp only [hw', WPc.heldW] at hw ⊢
    simp only [u64Mod] at hw ⊢
    omega
  case delSubDone id wk hh hw' _ =>
    have hpos := hvic wk (by simp [hw', WPc.victim?])
    simp only [hw', WPc.heldW, finishCmd] at hw ⊢
    simp only [u64Mod] at hw ⊢
    omega
  all_goals simp_all [WPc.heldW, finishCmd, rejectCmd, ttlPut, ttlDelete]

theorem worker_refused {b b' : BState} {o o' : Oracle} (h : workerAct b o = .ok (b', o')) :
    b'.g.stats.keysRejected = b.g.stats.keysRejected + refusedDeltaB b b' := by
  by_cases hp : ∃ c, b.w = .present c
  · obtain ⟨c, hw⟩ := hp
    rcases workerAct_present hw h with ⟨hc, rfl⟩ | ⟨hc, _, rfl⟩ | ⟨hc, _, rfl⟩
    · simp [refusedDeltaB, hw, hc, finishCmd]
    · simp [refusedDeltaB, hw, hc, rejectCmd, finishCmd, WPc.isRecv]
    · simp [refusedDeltaB, hw, hc, WPc.isRecv]
  · exact wtrans_refused (workerAct_trans h) (fun c hw => hp ⟨c, hw⟩)

theorem worker_keys {b b' : BState} {o o' : Oracle} (h : workerAct b o = .ok (b', o')) (hk : KeyB b) : KeyB b' := by
  by_cases hp : ∃ c, b.w = .present c
  · obtain ⟨c, hw⟩ := hp
    obtain ⟨hk1, hk2, hk3⟩ := hk
    rcases workerAct_present hw h with ⟨hc, rfl⟩ | ⟨hc, _, rfl⟩ | ⟨hc, _, rfl⟩
    · exact ⟨hk1, hk2, fun k hk' => by simp [finishCmd, WPc.absentKey?] at hk'⟩
    · exact ⟨hk1, hk2, fun k hk' => by simp [rejectCmd, finishCmd, WPc.absentKey?] at hk'⟩
    · refine ⟨hk1, hk2, fun k hk' => ?_⟩
      simp only [WPc.absentKey?, Option.some.injEq] at hk'
      subst hk'
      exact AMap.contains_false_iff.mp hc
  · exact wtrans_keys (workerAct_trans h) (fun c hw => hp ⟨c, hw⟩) hk

theorem worker_weight {b b' : BState} {o o' : Oracle} (h : workerAct b o = .ok (b', o')) (hb : BInv b)
    (hw : WtB b) : WtB b' := by
  by_cases hp : ∃ id w hh, b.w = .update id w hh
  · obtain ⟨id, w, hh, hpc⟩ := hp
    unfold WtB at hw ⊢
    rcases workerAct_update hpc h with ⟨_, rfl⟩ | ⟨wk, hg, hfit, rfl⟩ | rfl
    · simpa [hpc, WPc.heldW, finishCmd] using hw
    · have hbd := inI64_bounds hfit
      obtain ⟨hmod, hshape⟩ := updateWeightStats_spec { b.g.stats with keysUpdated := b.g.stats.keysUpdated + 1 } w wk.weight
        (by simp only [u64Mod]; omega)
      obtain ⟨_, _, _, _, _, h6⟩ := updateWeightStats_other { b.g.stats with keysUpdated := b.g.stats.keysUpdated + 1 } w wk.weight
      simp only [hpc, WPc.heldW, finishCmd, h6] at hw ⊢
      generalize (updateWeightStats { b.g.stats with keysUpdated := b.g.stats.keysUpdated + 1 } w wk.weight).weightAdded = wa' at hmod ⊢
      simp only [u64Mod] at hw hmod ⊢
      omega
    · simpa [hpc, WPc.heldW] using hw
  · exact wtrans_weight (workerAct_trans h) (fun id w hh hpc => hp ⟨id, w, hh, hpc⟩) hb hw

/-- every action of the command worker preserves `StatB` (during a shutdown as well) -/
theorem statB_workerAct {b b' : BState} {gh : GhostB} {o o' : Oracle} (hb : BInv b) (hs : StatB b gh)
    (h : workerAct b o = .ok (b', o')) : StatB b' (ghostStepB gh b .worker b') := by
  obtain ⟨h1, h2, h3, h4⟩ := statB_iff.mp hs
  obtain ⟨e1, e2⟩ := wtrans_hm (workerAct_trans h)
  refine statB_iff.mpr ⟨?_, ?_, worker_keys h h3, worker_weight h hb h4⟩
  · show _ = gh.lookups
    rw [e1, e2]; exact h1
  · show _ = gh.refused + refusedDeltaB b b'
    rw [worker_refused h, h2]

/-! ## 4  the sweeper -/

@[simp] theorem sweepNext_heldW (b : BState) (n s : Nat) (r : List (Nat × Nat)) : (sweepNext b n s r).sw.heldW = 0 := by
  unfold sweepNext; split <;> rfl

/-- every action of the sweeper preserves `StatB` (during a shutdown as well): `wu.sub` takes the weight in hand,
    `store.remove` removes the entry, counts the key and counts the weight -/
theorem statB_sweeperAct {b b' : BState} {gh : GhostB} {v : Option Nat} (hb : BInv b) (hs : StatB b gh)
    (h : sweeperAct b v = .ok b') : StatB b' gh := by
  obtain ⟨h1, h2, ⟨hk1, hk2, hk3⟩, h4⟩ := statB_iff.mp hs
  obtain ⟨_, _, _, hvic⟩ := hb.pendingPos
  have ht := sweeperAct_trans h
  unfold WtB at h4
  refine statB_iff.mpr ⟨?_, ?_, ⟨?_, ?_, ?_⟩, ?_⟩
  all_goals (try unfold WtB)
  all_goals cases ht
  case refine_6.sub now shard rest id wk _ hsw =>
    simp only [hsw, SPc.heldW] at h4 ⊢
    simp only [u64Mod] at h4 ⊢
    omega
  case refine_1.store now shard rest id wk hsw _ => simpa [applyEvictId_statsB] using h1
  case refine_2.store now shard rest id wk hsw _ => simpa [applyEvictId_statsB] using h2
  case refine_3.store now shard rest id wk hsw _ =>
    simp only [sweepNext_g]; exact keys_applyEvictId id wk.key wk.weight hk1 hk2
  case refine_4.store now shard rest id wk hsw _ =>
    simp only [sweepNext_g]; exact Cached.applyEvictId_noDup _ _ hk2
  case refine_5.store now shard rest id wk hsw _ =>
    simp only [sweepNext_g, sweepNext_w]
    intro k hk'
    rw [applyEvictId_storeB]
    split
    · exact get?_del_none (hk3 k hk') _
    · exact hk3 k hk'
  case refine_6.store now shard rest id wk hsw _ =>
    have hpos := hvic wk (by simp [hsw, SPc.victim?])
    simp only [sweepNext_g, sweepNext_w, sweepNext_heldW]
    simp only [hsw, SPc.heldW, applyEvictId_statsB, applyEvictId_adm] at h4 ⊢
    simp only [u64Mod] at h4 ⊢
    omega
  all_goals simp only [sweepNext_g, sweepNext_w, sweepNext_heldW]
  all_goals first
    | assumption
    | simp_all [SPc.heldW]

/-! ## 5  the clients -/

/-- what a client action (other than the clearing actions of `shutdown()`) may do to the quantities of `StatB`:
    `n` lookups counted; the store unchanged or an EXISTING entry overwritten; nothing else -/
structure GStat (g g' : State) (n : Nat) : Prop where
  adm : g'.adm = g.adm
  look : g'.stats.hits + g'.stats.misses = g.stats.hits + g.stats.misses + n
  rej : g'.stats.keysRejected = g.stats.keysRejected
  ka : g'.stats.keysAdded = g.stats.keysAdded
  kd : g'.stats.keysDeleted = g.stats.keysDeleted
  wa : g'.stats.weightAdded = g.stats.weightAdded
  wr : g'.stats.weightRemoved = g.stats.weightRemoved
  store : g'.store = g.store ∨ ∃ k e e', g.store.get? k = some e ∧ g'.store = g.store.set k e'

theorem GStat.of_eq {g g' : State} (h1 : g'.adm = g.adm) (h2 : g'.stats = g.stats) (h3 : g'.store = g.store) :
    GStat g g' 0 :=
  ⟨h1, by rw [h2]; rfl, by rw [h2], by rw [h2], by rw [h2], by rw [h2], by rw [h2], Or.inl h3⟩

theorem GStat.refl (g : State) : GStat g g 0 := GStat.of_eq rfl rfl rfl

theorem GStat.acks {g g1 : State} {n : Nat} (h : GStat g g1 n) (a : List Status) : GStat g { g1 with acks := a } n :=
  ⟨h.adm, h.look, h.rej, h.ka, h.kd, h.wa, h.wr, h.store⟩

theorem gstat_hit (g : State) : GStat g { g with stats := { g.stats with hits := g.stats.hits + 1 } } 1 :=
  ⟨rfl, by simp only []; omega, rfl, rfl, rfl, rfl, rfl, Or.inl rfl⟩

theorem gstat_miss (g : State) : GStat g { g with stats := { g.stats with misses := g.stats.misses + 1 } } 1 :=
  ⟨rfl, by simp only []; omega, rfl, rfl, rfl, rfl, rfl, Or.inl rfl⟩

theorem gstat_touch (g : State) {k : Nat} {e : Entry} (hg : g.store.get? k = some e) (e' : Entry) :
    GStat g { g with store := g.store.set k e' } 0 :=
  ⟨rfl, rfl, rfl, rfl, rfl, rfl, rfl, Or.inr ⟨k, e, e', hg, rfl⟩⟩

theorem gstat_delMark (g : State) (k : Nat) :
    GStat g { g with store := match g.store.get? k with
                               | some e => g.store.set k { e with soft := true }
                               | none => g.store } 0 := by
  cases hg : g.store.get? k with
  | none => exact GStat.refl g
  | some e => exact gstat_touch g hg _

theorem acceptBuffer_gstat (g : State) (hs : List Nat) : GStat g (acceptBuffer g hs) 0 := by
  unfold acceptBuffer
  split <;> exact ⟨rfl, rfl, rfl, rfl, rfl, rfl, rfl, Or.inl rfl⟩

/-- `Pool::add` touches `accessAdded` / `accessDropped` only, of the ten counters -/
theorem poolAdd_gstat {g g1 : State} {h : Nat} {o o' : Oracle} (hp : poolAdd g h o = .ok (g1, o')) : GStat g g1 0 := by
  unfold poolAdd at hp
  split at hp
  · cases hp
  · split at hp
    · cases hp
    · simp only [] at hp
      split at hp
      · simp only [Except.ok.injEq, Prod.mk.injEq] at hp
        obtain ⟨rfl, _⟩ := hp
        have := acceptBuffer_gstat g ‹List Nat›
        exact ⟨this.adm, this.look, this.rej, this.ka, this.kd, this.wa, this.wr, this.store⟩
      · simp only [Except.ok.injEq, Prod.mk.injEq] at hp
        obtain ⟨rfl, _⟩ := hp
        exact GStat.of_eq rfl rfl rfl

/-- the client action leaves the worker and the sweeper where they are and does `GStat` to the shared state -/
def CFrame (b b' : BState) (n : Nat) : Prop := b'.w = b.w ∧ b'.sw = b.sw ∧ GStat b.g b'.g n

theorem CFrame.refl (b : BState) : CFrame b b 0 := ⟨rfl, rfl, GStat.refl b.g⟩

theorem cframe_finish {b : BState} {n : Nat} (b0 : BState) (i : Nat) (out : Out) (h : CFrame b b0 n) :
    CFrame b (finishCall b0 i out) n := h

theorem cframe_set {b : BState} {n : Nat} (b0 : BState) (i : Nat) (pc : CPc) (h : CFrame b b0 n) :
    CFrame b (setClient b0 i pc) n := h

theorem cframe_spot {b : BState} {n : Nat} (b0 : BState) (i : Nat) (st : Status) (h : CFrame b b0 n) :
    CFrame b (spotFinish b0 i st) n := ⟨h.1, h.2.1, h.2.2.acks _⟩

theorem cframe_upAfter {b : BState} {n : Nat} (b0 : BState) (i id : Nat) (uw : Option Int) (h : CFrame b b0 n) :
    CFrame b (upAfterIndex b0 i id uw) n := by
  rcases upAfterIndex_spec b0 i id uw with ⟨_, e⟩ | ⟨_, _, e⟩ | e <;> rw [e]
  · exact cframe_finish b0 i _ h
  · exact cframe_set b0 i _ h
  · exact cframe_spot b0 i _ h

theorem cframe_mgetNext {b : BState} {n : Nat} (b0 : BState) (i : Nat) (ks : List Nat) (acc : List (Option Nat))
    (iter : Bool) (h : CFrame b b0 n) : CFrame b (mgetNext b0 i ks acc iter) n := by
  rcases mgetNext_spec b0 i ks acc iter with ⟨out, e⟩ | ⟨k, rest, _, e⟩ <;> rw [e]
  · exact cframe_finish b0 i _ h
  · exact cframe_set b0 i _ h

theorem cframe_mgetStart {b : BState} {n : Nat} (b0 : BState) (i : Nat) (ks : List Nat) (iter : Bool)
    (h : CFrame b b0 n) : CFrame b (mgetStart b0 i ks iter) n := by
  rcases mgetStart_spec b0 i ks iter with ⟨_, _, e⟩ | ⟨_, e⟩ <;> rw [e]
  · exact cframe_finish b0 i _ h
  · exact cframe_set b0 i _ h

/-- a load of the shutdown flag inside a multi-key read counts nothing — also when it finds the flag set and the `get`
    answers `None` without a lookup -/
theorem cframe_mgetFlagAct {b : BState} {n : Nat} (b0 : BState) (i : Nat) (outer : Bool) (ks : List Nat)
    (acc : List (Option Nat)) (iter : Bool) (h : CFrame b b0 n) : CFrame b (mgetFlagAct b0 i outer ks acc iter) n := by
  rcases mgetFlagAct_spec b0 i outer ks acc iter with ⟨_, e⟩ | ⟨_, _, _, _, _, e⟩ | ⟨_, _, _, _, _, e⟩ |
    ⟨_, _, _, _, _, e⟩ <;> rw [e]
  · exact cframe_finish b0 i _ h
  · exact cframe_set b0 i _ h
  · exact cframe_mgetNext b0 i _ _ _ h
  · exact cframe_set b0 i _ h

/-- What one action of client `i` does to the quantities of `StatB`, position by position: either it is one of the
    actions of `shutdown()` behind its compare-and-swap, or it counts `pc.lookN` lookups, possibly overwrites an
    existing entry, and nothing else. -/
theorem clientAct_cstat {b b' : BState} {i : Nat} {o o' : Oracle} (h : clientAct b i o = .ok (b', o')) :
    ∃ pc, b.cl[i]? = some pc ∧ (pc.afterCas = true ∨ CFrame b b' pc.lookN) := by
  unfold clientAct at h
  simp only [] at h
  split at h
  · cases h
  · rename_i pc hpc
    refine ⟨pc, hpc, ?_⟩
    cases pc with
    | idle => cases h
    | start r =>
      simp only [] at h
      split at h
      · cases r <;> simp only [Except.ok.injEq, Prod.mk.injEq] at h <;> obtain ⟨rfl, rfl⟩ := h
        all_goals first
          | exact Or.inr (cframe_finish b i _ (CFrame.refl b))
          | exact Or.inr (cframe_set b i _ (CFrame.refl b))
          | exact Or.inr (cframe_mgetStart b i _ _ (CFrame.refl b))
      · cases r <;> simp only [] at h
        · split at h
          all_goals simp only [Except.ok.injEq, Prod.mk.injEq] at h; obtain ⟨rfl, rfl⟩ := h
          · exact Or.inr (cframe_finish b i _ (CFrame.refl b))
          · exact Or.inr (cframe_set b i _ (CFrame.refl b))
        all_goals simp only [Except.ok.injEq, Prod.mk.injEq] at h; obtain ⟨rfl, rfl⟩ := h
        case mget ks iter => exact Or.inr (cframe_mgetStart b i ks iter (CFrame.refl b))
        all_goals exact Or.inr (cframe_set b i _ (CFrame.refl b))
    | putPresent k v w ttl =>
      simp only [] at h
      split at h
      all_goals simp only [Except.ok.injEq, Prod.mk.injEq] at h; obtain ⟨rfl, rfl⟩ := h
      · exact Or.inr (cframe_spot b i _ (CFrame.refl b))
      · exact Or.inr (cframe_set b i _ (CFrame.refl b))
    | idNext k v w ttl =>
      simp only [Except.ok.injEq, Prod.mk.injEq] at h; obtain ⟨rfl, rfl⟩ := h
      exact Or.inr (cframe_set _ i _ ⟨rfl, rfl, GStat.of_eq rfl rfl rfl⟩)
    | send cmd =>
      simp only [] at h
      split at h
      · rename_i b1 hs
        simp only [Except.ok.injEq, Prod.mk.injEq] at h; obtain ⟨rfl, rfl⟩ := h
        unfold sendAct at hs
        simp only [] at hs
        split at hs
        · simp only [Except.ok.injEq] at hs; subst hs
          exact Or.inr (cframe_finish b i _ (CFrame.refl b))
        · split at hs
          · cases hs
          · simp only [Except.ok.injEq] at hs; subst hs
            exact Or.inr (cframe_finish _ i _ ⟨rfl, rfl, GStat.of_eq rfl rfl rfl⟩)
      · cases h
    | delMark k =>
      simp only [] at h
      split at h
      · cases h
      · simp only [Except.ok.injEq, Prod.mk.injEq] at h; obtain ⟨rfl, rfl⟩ := h
        exact Or.inr (cframe_set _ i _ ⟨rfl, rfl, gstat_delMark b.g k⟩)
    | getStore k =>
      simp only [] at h
      split at h
      · split at h
        all_goals simp only [Except.ok.injEq, Prod.mk.injEq] at h; obtain ⟨rfl, rfl⟩ := h
        · exact Or.inr (cframe_set _ i _ ⟨rfl, rfl, gstat_hit b.g⟩)
        · exact Or.inr (cframe_finish _ i _ ⟨rfl, rfl, gstat_miss b.g⟩)
      · simp only [Except.ok.injEq, Prod.mk.injEq] at h; obtain ⟨rfl, rfl⟩ := h
        exact Or.inr (cframe_finish _ i _ ⟨rfl, rfl, gstat_miss b.g⟩)
    | getPool k v =>
      simp only [] at h
      split at h
      · rename_i g1 o1 hp
        simp only [Except.ok.injEq, Prod.mk.injEq] at h; obtain ⟨rfl, rfl⟩ := h
        exact Or.inr (cframe_finish _ i _ ⟨rfl, rfl, poolAdd_gstat hp⟩)
      · cases h
    | weightRead =>
      simp only [] at h
      split at h
      · cases h
      · simp only [Except.ok.injEq, Prod.mk.injEq] at h; obtain ⟨rfl, rfl⟩ := h
        exact Or.inr (cframe_finish b i _ (CFrame.refl b))
    | upUpdate k v w ttl rm =>
      simp only [] at h
      split at h
      · cases h
      · split at h
        · split at h
          · split at h
            all_goals simp only [Except.ok.injEq, Prod.mk.injEq] at h; obtain ⟨rfl, rfl⟩ := h
            · exact Or.inr (cframe_finish b i _ (CFrame.refl b))
            · exact Or.inr (cframe_set b i _ (CFrame.refl b))
          · simp only [Except.ok.injEq, Prod.mk.injEq] at h; obtain ⟨rfl, rfl⟩ := h
            exact Or.inr (cframe_finish b i _ (CFrame.refl b))
        · rename_i e he
          split at h
          all_goals simp only [Except.ok.injEq, Prod.mk.injEq] at h; obtain ⟨rfl, rfl⟩ := h
          · exact Or.inr (cframe_finish b i _ (CFrame.refl b))
          · exact Or.inr (cframe_set _ i _ ⟨rfl, rfl, gstat_touch b.g he _⟩)
    | upWeightOf id uw old new =>
      simp only [] at h
      split at h
      all_goals simp only [Except.ok.injEq, Prod.mk.injEq] at h; obtain ⟨rfl, rfl⟩ := h
      · exact Or.inr (cframe_set b i _ (CFrame.refl b))
      · exact Or.inr (cframe_set b i _ (CFrame.refl b))
      · exact Or.inr (cframe_set b i _ (CFrame.refl b))
      · exact Or.inr (cframe_upAfter b i _ _ (CFrame.refl b))
    | upTtlPut id e uw =>
      simp only [] at h
      split at h
      · cases h
      · simp only [Except.ok.injEq, Prod.mk.injEq] at h; obtain ⟨rfl, rfl⟩ := h
        exact Or.inr (cframe_upAfter _ i _ _ ⟨rfl, rfl, GStat.of_eq rfl rfl rfl⟩)
    | upTtlDelete id e uw =>
      simp only [] at h
      split at h
      · cases h
      · simp only [Except.ok.injEq, Prod.mk.injEq] at h; obtain ⟨rfl, rfl⟩ := h
        exact Or.inr (cframe_upAfter _ i _ _ ⟨rfl, rfl, GStat.of_eq rfl rfl rfl⟩)
    | upTtlRemove id old new uw =>
      simp only [] at h
      split at h
      · cases h
      · simp only [Except.ok.injEq, Prod.mk.injEq] at h; obtain ⟨rfl, rfl⟩ := h
        exact Or.inr (cframe_set _ i _ ⟨rfl, rfl, GStat.of_eq rfl rfl rfl⟩)
    | upTtlInsert id new uw =>
      simp only [] at h
      split at h
      · cases h
      · simp only [Except.ok.injEq, Prod.mk.injEq] at h; obtain ⟨rfl, rfl⟩ := h
        exact Or.inr (cframe_upAfter _ i _ _ ⟨rfl, rfl, GStat.of_eq rfl rfl rfl⟩)
    | refStore k =>
      simp only [] at h
      split at h
      · split at h
        all_goals simp only [Except.ok.injEq, Prod.mk.injEq] at h; obtain ⟨rfl, rfl⟩ := h
        · exact Or.inr (cframe_set _ i _ ⟨rfl, rfl, gstat_hit b.g⟩)
        · exact Or.inr (cframe_finish _ i _ ⟨rfl, rfl, gstat_miss b.g⟩)
      · simp only [Except.ok.injEq, Prod.mk.injEq] at h; obtain ⟨rfl, rfl⟩ := h
        exact Or.inr (cframe_finish _ i _ ⟨rfl, rfl, gstat_miss b.g⟩)
    | refPool k v =>
      simp only [] at h
      split at h
      · rename_i g1 o1 hp
        simp only [Except.ok.injEq, Prod.mk.injEq] at h; obtain ⟨rfl, rfl⟩ := h
        exact Or.inr (cframe_finish _ i _ ⟨rfl, rfl, poolAdd_gstat hp⟩)
      · cases h
    | shutCas =>
      simp only [] at h
      split at h
      all_goals simp only [Except.ok.injEq, Prod.mk.injEq] at h; obtain ⟨rfl, rfl⟩ := h
      · exact Or.inr (cframe_finish b i _ (CFrame.refl b))
      · exact Or.inr (cframe_set _ i _ ⟨rfl, rfl, GStat.of_eq rfl rfl rfl⟩)
    | mgetStore k ks acc iter =>
      simp only [] at h
      split at h
      · split at h
        all_goals simp only [Except.ok.injEq, Prod.mk.injEq] at h; obtain ⟨rfl, rfl⟩ := h
        · exact Or.inr (cframe_set _ i _ ⟨rfl, rfl, gstat_hit b.g⟩)
        · exact Or.inr (cframe_mgetNext _ i _ _ _ ⟨rfl, rfl, gstat_miss b.g⟩)
      · simp only [Except.ok.injEq, Prod.mk.injEq] at h; obtain ⟨rfl, rfl⟩ := h
        exact Or.inr (cframe_mgetNext _ i _ _ _ ⟨rfl, rfl, gstat_miss b.g⟩)
    | mgetPool k v ks acc iter =>
      simp only [] at h
      split at h
      · rename_i g1 o1 hp
        simp only [Except.ok.injEq, Prod.mk.injEq] at h; obtain ⟨rfl, rfl⟩ := h
        exact Or.inr (cframe_mgetNext _ i _ _ _ ⟨rfl, rfl, poolAdd_gstat hp⟩)
      · cases h
    | mgetFlag outer ks acc iter =>
      simp only [Except.ok.injEq, Prod.mk.injEq] at h; obtain ⟨rfl, rfl⟩ := h
      exact Or.inr (cframe_mgetFlagAct b i _ _ _ _ (CFrame.refl b))
    | _ => exact Or.inl rfl

theorem lookupDelta_of {b : BState} {i : Nat} {pc : CPc} (h : b.cl[i]? = some pc) : lookupDelta b i = pc.lookN := by
  simp [lookupDelta, h]

/-- `CFrame` preserves `StatB`, the ghost moving by the lookups counted -/
theorem statB_of_cframe {b b' : BState} {gh : GhostB} {n : Nat} (hs : StatB b gh) (hf : CFrame b b' n) :
    StatB b' { gh with lookups := gh.lookups + n } := by
  obtain ⟨hw, hsw, hg⟩ := hf
  obtain ⟨h1, h2, h3, h4, h5, h6⟩ := hs
  refine ⟨?_, ?_, ?_, ?_, ?_, ?_⟩
  · show _ = gh.lookups + n
    rw [hg.look, h1]
  · show _ = gh.refused
    rw [hg.rej, h2]
  · rw [hg.ka, hg.kd]
    rcases hg.store with e | ⟨k, en, en', hk, e⟩ <;> rw [e]
    · exact h3
    · rw [AMap.length_set_present h5 hk]; exact h3
  · unfold removedInFlight at h4 ⊢
    rw [hg.wa, hg.wr, hg.adm, hw, hsw]; exact h4
  · rcases hg.store with e | ⟨k, en, en', hk, e⟩ <;> rw [e]
    · exact h5
    · exact AMap.noDup_set h5 _ _
  · intro k hk
    rw [hw] at hk
    have := h6 k hk
    rcases hg.store with e | ⟨k', en, en', hk', e⟩ <;> rw [e]
    · exact this
    · exact get?_set_present_none this hk' _

/-- every action of a client preserves `StatB` while the cache is running (`ShutF`, from `BInv`: the clearing actions
    of `shutdown()` come after its compare-and-swap has set the flag) -/
theorem statB_clientAct {b b' : BState} {gh : GhostB} {i : Nat} {o o' : Oracle} (hb : BInv b) (hs : StatB b gh)
    (hrun : b.g.shutting = false) (h : clientAct b i o = .ok (b', o')) :
    StatB b' (ghostStepB gh b (.client i) b') := by
  obtain ⟨pc, hpc, ha | hf⟩ := clientAct_cstat h
  · rw [hb.shutFlag i pc hpc ha] at hrun; cases hrun
  · show StatB b' { gh with lookups := gh.lookups + lookupDelta b i }
    rw [lookupDelta_of hpc]
    exact statB_of_cframe hs hf

/-! ## 6  the invariant holds initially and is preserved by every action -/

theorem statB_init (cfg : Cfg) (now : Nat) (seeds : List Nat) (clients : Nat) (shardMap : List (Nat × Nat)) :
    StatB { BState.init cfg now seeds clients with storeShard := shardMap } {} := by
  refine ⟨rfl, rfl, rfl, ?_, AMap.noDup_nil, ?_⟩
  · simp [BState.init, State.init, removedInFlight, WPc.heldW, SPc.heldW]
  · intro k hk
    simp [BState.init, WPc.absentKey?] at hk

/-- Every atomic action of every thread preserves `StatB` as long as the cache is running after it.
    (`BInv b` holds at every reachable state: `binv_reach`.) -/
theorem statB_step {b b' : BState} {gh : GhostB} {a : Act} {o o' : Oracle} (hb : BInv b) (hs : StatB b gh)
    (h : stepB b a o = .ok (b', o')) (hrun' : b'.g.shutting = false) : StatB b' (ghostStepB gh b a b') := by
  have hrun : b.g.shutting = false := stepB_running_before h hrun'
  cases a with
  | issue i r =>
    simp only [stepB] at h
    split at h
    · rename_i b1 hi
      simp only [Except.ok.injEq, Prod.mk.injEq] at h; obtain ⟨rfl, rfl⟩ := h
      unfold issue at hi
      split at hi
      · simp only [Except.ok.injEq] at hi; subst hi
        exact ⟨hs.lookups, hs.refused, hs.keys, hs.weight, hs.storeNoDup, hs.putAbsent⟩
      · cases hi
    · cases h
  | client i => exact statB_clientAct hb hs hrun h
  | worker => exact statB_workerAct hb hs h
  | sweeper v =>
    simp only [stepB] at h
    split at h
    · rename_i b1 hsw
      simp only [Except.ok.injEq, Prod.mk.injEq] at h; obtain ⟨rfl, rfl⟩ := h
      exact statB_sweeperAct hb hs hsw
    · cases h
  | consumer =>
    simp only [stepB] at h
    split at h
    · rename_i g' out o1 hc
      simp only [Except.ok.injEq, Prod.mk.injEq] at h; obtain ⟨rfl, rfl⟩ := h
      have hf := consumerStep_frame hc
      have e1 : g'.stats = b.g.stats := by rw [hf]
      have e2 : g'.store = b.g.store := by rw [hf]
      have e3 : g'.adm = b.g.adm := by rw [hf]
      refine ⟨?_, ?_, ?_, ?_, ?_, ?_⟩
      · show g'.stats.hits + g'.stats.misses = gh.lookups
        rw [e1]; exact hs.lookups
      · show g'.stats.keysRejected = gh.refused
        rw [e1]; exact hs.refused
      · show g'.stats.keysAdded = g'.stats.keysDeleted + g'.store.length
        rw [e1, e2]; exact hs.keys
      · have := hs.weight
        unfold removedInFlight at this ⊢
        show ((g'.stats.weightAdded : Int) - g'.stats.weightRemoved - g'.adm.used - (b.w.heldW + b.sw.heldW)) % _ = 0
        rw [e1, e3]; exact this
      · show AMap.NoDup g'.store
        rw [e2]; exact hs.storeNoDup
      · intro k hk
        show g'.store.get? k = none
        rw [e2]; exact hs.putAbsent k hk
    · cases h
  | advance d =>
    simp only [stepB, Except.ok.injEq, Prod.mk.injEq] at h; obtain ⟨rfl, rfl⟩ := h
    exact ⟨hs.lookups, hs.refused, hs.keys, hs.weight, hs.storeNoDup, hs.putAbsent⟩

/-- `StatB` holds at every reachable Layer B state at which the cache is running — every interleaving of any number
    of clients with the command worker, the sweeper and the access consumer. -/
theorem statB_reach {cfg : Cfg} {now : Nat} {seeds : List Nat} {clients : Nat} {b : BState} {gh : GhostB}
    (h : ReachGB cfg now seeds clients b gh) (hrun : b.g.shutting = false) : StatB b gh := by
  induction h with
  | init shardMap => exact statB_init cfg now seeds clients shardMap
  | step hr hs ih =>
    exact statB_step (binv_reach hr.reach) (ih (stepB_running_before hs hrun)) hs hrun

/-! ## 7  what the ghost `refused` counts -/

theorem refusedDeltaB_le (b b' : BState) : refusedDeltaB b b' ≤ 1 := by
  unfold refusedDeltaB
  split <;> (repeat' split) <;> omega

/-- outside `store.present`, the only worker actions with `refusedDeltaB = 1` are the three `rejected noSpace` ones -/
theorem wtrans_reject_shape {b b' : BState} (h : WTrans b b') (hnp : ∀ c, b.w ≠ .present c)
    (hd : refusedDeltaB b b' = 1) : ∃ c, b.w.cmd? = some c ∧ b' = rejectCmd b c.h (.rejected .noSpace) := by
  cases h
  case presentExists c hw => exact absurd hw (hnp c)
  case presentHeavy c hw => exact absurd hw (hnp c)
  case presentOk c hw => exact absurd hw (hnp c)
  case initReject c e space hw => exact ⟨c, by simp [hw, WPc.cmd?], rfl⟩
  case fillReject c e s space hw => exact ⟨c, by simp [hw, WPc.cmd?], rfl⟩
  case emptyReject c hw _ => exact ⟨c, by simp [hw, WPc.cmd?], rfl⟩
  all_goals exfalso
  all_goals simp [refusedDeltaB, WPc.isRecv, *] at hd

/-- a worker action with `refusedDeltaB = 1` answers the put it is executing `rejected tooHeavy` or `rejected noSpace`
    through `rejectCmd` (which also bumps `keysRejected`) -/
theorem worker_reject_shape {b b' : BState} {o o' : Oracle} (h : workerAct b o = .ok (b', o'))
    (hd : refusedDeltaB b b' = 1) :
    ∃ c, b.w.cmd? = some c ∧
      (b' = rejectCmd b c.h (.rejected .tooHeavy) ∨ b' = rejectCmd b c.h (.rejected .noSpace)) := by
  by_cases hp : ∃ c, b.w = .present c
  · obtain ⟨c, hw⟩ := hp
    rcases workerAct_present hw h with ⟨hc, rfl⟩ | ⟨hc, _, rfl⟩ | ⟨hc, _, rfl⟩
    · simp [refusedDeltaB, hw, hc] at hd
    · exact ⟨c, by simp [hw, WPc.cmd?], Or.inl rfl⟩
    · simp [refusedDeltaB, hw, hc, WPc.isRecv] at hd
  · obtain ⟨c, hc, e⟩ := wtrans_reject_shape (workerAct_trans h) (fun c hw => hp ⟨c, hw⟩) hd
    exact ⟨c, hc, Or.inr e⟩

end B
end Cached
