import CachedModel.Basic
import CachedModel.Sketch
import CachedModel.Admission
import CachedModel.State
import CachedModel.Iter
import CachedModel.Glue
import CachedModel.Driver
