#!/usr/bin/env python3
"""Regenerates MANIFEST.json from the table below (claims + not_applicable)."""
import json, os, subprocess
ROOT = os.path.dirname(os.path.abspath(__file__))
props = [json.loads(l) for l in open(os.path.join(ROOT, "properties.jsonl"))]
hooks_commits = subprocess.run(["git", "-C", "/repo", "log", "--format=%h %s"], capture_output=True, text=True).stdout.splitlines()
hook_shas = [l.split()[0] for l in hooks_commits if "verif hooks" in l]

TRUST = ("Lean 4.33.0 kernel; axioms propext, Quot.sound, Classical.choice only (audited per theorem on every run; no sorry/native_decide/bv_decide); "
         "the hand-written model is NOT trusted: every run executes model and real crate on the same inputs and diffs outputs and complete states after every step; "
         "trusted: that correspondence check (hooks under cargo feature cached_verif, harness scheduler, canonicaliser, differ, generators' reach), "
         "the rendering of the English property as Lean statements, and — modelled, not verified — atomicity of one DashMap operation / parking_lot critical section, "
         "FIFO+blocking semantics of crossbeam channels, bloomfilter 'no false negative', BinaryHeap::pop = an Ord-maximum, SystemTime/i64/u64 arithmetic, sequential consistency of atomic actions.")

CLAIMS = {
 "C01": ("Lean theorems over ALL Layer A histories (invariant Inv by induction over step): total = sum of charged weights >= 0; every ACCEPTED put ends at or below the limit from any state; the bound is preserved by every event except an UpdateWeight whose increase exceeds the free space (C01_bound_partial) — and C01_counterexample proves the unconditional bound false of the code (recorded known finding). Correspondence: model vs crate, whole state after every event, on generated pressure/burst/boundary histories; monitor 0 <= total <= limit after every event.",
         "Layer A: interleavings at call granularity (un-awaited bursts, parked sends, sweeps and worker steps in any order). Layer B (LayerB/Inv.lean, Theorems.lean): the accounting identity modulo in-flight locals, non-negativity and the partial bound at EVERY atomic action of EVERY interleaving of any number of clients with worker, sweeper and consumer, while the cache is running; tied by the action-by-action correspondence (conc mode) which probes the real lock of weight_used.", "7/C01"),
 "C02": ("Lean: a read returns exactly the value of the key's current alive store entry (all variants are one function); every stored (key,value) was written by a put/upsert of that key (ghost-history invariant); completed overwrites/deletes are reflected at once (C08_fieldwise, C04_released). Layer B: a read returns the value its store.get action found, at action granularity. Correspondence (Layer A, Layer B) + regularity monitor over histories with unique value tokens + stress.", "atomicity of one DashMap operation trusted", "7/C02"),
 "C03": ("Lean: frame theorems — a store entry disappears or changes only through delete of that key, a sweep after ITS current deadline, an eviction under real memory pressure (a put that does not fit), shutdown, or an upsert of that key; hence without pressure an accepted key stays readable (C03_retained). Correspondence on histories whose demanded weight fits; monitor: no eviction, no refusal, no loss.", "operations on the key itself issued one after another (as the property states); call-granularity interleavings", "7/C03"),
 "C04": ("Lean: delete marks the entry soft-deleted before it returns and every read then reports absent; the soft flag of an incarnation is never cleared (all events); an executed delete removes entry, charge, weight and index entry and nothing else; delete of an absent key is rejected and changes nothing; the key can then be put again by admission alone. Layer B: the soft flag is permanent under every atomic action. Correspondence (Layer A, Layer B) + monitors incl. free-running stress (a contended shard lock).", "", "7/C04"),
 "C05": ("Lean: invariant Inv over all Layer A histories (by induction over step, every event): total = sum of charged weights, charged ids <-> held store entries is a bijection (unless the worker has panicked), queued put ids are fresh and pairwise distinct — including un-awaited same-key bursts (repaired defect: worker-side presence re-check). Layer B: used = sum of charged weights - pendingAdd + pendingSub at every action of every interleaving, exact at rest. Correspondence compares per-id charged weights (Layer A and B); monitor at quiescent points.", "a worker killed by a panic (known finding under C17) voids the bijection; during/after shutdown() the identity is void (shutdown is not atomic w.r.t. the worker) and stated so", "7/C05"),
 "C06": ("Lean: full-strength theorems about maybe_add/create_space for all contents, weights, estimates, oracles (iteration order, heap ties, Bloom answers): fits => accepted, nothing evicted; heavier than the cache => rejected, nothing changed; otherwise the run satisfies the declarative eviction rule Evicts (coldest of the sample first, heavier first among equals, only while victim estimate <= incoming, stop as soon as space suffices), accepted iff space results; termination (fuel never exhausted). Correspondence: real maybe_add with tapped iteration order and pops validated as legal by the model; exhaustive SampledKey::cmp table.", "BinaryHeap::pop returns an Ord-maximum (validated per pop against the model's isMaxOf)", "7/C06"),
 "C07": ("Lean: a put (4 variants) of a physically present key is rejected on the spot and changes nothing; a put of a physically absent key is never rejected KeyAlreadyExists, neither on the spot nor by the worker (status is admission's). The property's second half is FALSE for expired-unswept keys: C07_counterexample + known finding. Correspondence + monitor over keys in every life-cycle state.", "'readable' is refined to 'physically present' for the first half (stronger); second half partial as stated", "7/C07"),
 "C08": ("Lean: field-wise effect of put_or_update on a present key for all request shapes (value/expiry exactly as requested, other field untouched, visible when the call returns, other keys untouched), expiry-index classification table, the exact UpdateWeight command and its effect, equality with the corresponding put on an absent key; FALSE on dead entries (expired-unswept, soft-deleted): two counterexample theorems + known findings. Correspondence incl. pure table of type_of_expiry_update; monitor.", "partial as stated for dead entries", "7/C08"),
 "C09": ("Lean: a read of an entry past its deadline reports absent regardless of sweeping; an alive, undeleted entry is returned by every completed read; boundary (now = deadline alive, +1 ns not); deadlines set exactly by put (worker clock) and upsert (caller clock), untouched otherwise. Correspondence with boundary clock moves; monitor with an independent deadline ledger.", "", "7/C09"),
 "C10": ("Lean: invariant TtlInv of the expiry index over all histories; a sweep removes from the index exactly the due entries of the visited shard, from store/weights exactly the charged keys whose CURRENT deadline passed, releases exactly their weight, never a key without TTL / with future or changed TTL; stale entries are dropped harmlessly; eventual removal given a sweep in the right shard; tick-fairness lemma. Correspondence + monitor.", "liveness is 'given that sweeps occur' (fairness of the ticker thread is an assumption)", "7/C10"),
 "C11": ("Lean: invariant QInv over all histories: queue handles strictly increasing (exactly once, in order), every unanswered handle is queued; send appends at the tail or parks (never drops/duplicates) and resume enqueues once; the worker removes exactly the head and completes exactly its handle; only worker steps complete handles; delete leaves the key absent. Correspondence with queue sizes 1..3 and un-awaited bursts; monitor.", "crossbeam bounded channel FIFO/blocking semantics modelled (checked by the order comparison every run)", "7/C11"),
 "C12": ("Lean: Layer B model of one acknowledgement at the granularity of the individual shared accesses, any number of pollers/polls, all interleavings: no poll yields Ready(Pending), results are Pending* then Ready(final)*, a Pending return precedes the flag store, the last waker registered before the wake section is woken exactly once, progress. Correspondence: EVERY interleaving of done() with the polls of 1-2 tasks executed on the real handle under the cooperative scheduler, every schedule prefix compared with the model. Repaired defect (status stored before flag).", "sequential consistency of the three cells (argued valid under acquire/release via the mutex hand-over); wakers that re-enter poll from wake_by_ref outside the model", "7/C12"),
 "C13": ("Lean: after the flag is set every write returns Err and every read absent/empty, the flag is permanent; a draining worker answers everything ShuttingDown, a running one the real status; with QInv: once the queue is drained no handle is pending; shutdown() parks only at its two sends and ONE step of the worker (resp. consumer) makes it resumable. Layer B: the eleven steps of shutdown() interleaved with everything else at action granularity (refusal after the flag, second shutdown returns at once, draining worker). Correspondence with queue size 1 and shutdown mid-burst (Layer A), shutdown interleaved action by action (Layer B), lock log; monitor.", "weak fairness of worker and consumer threads; a worker killed by a panic (C17 known finding) voids 'answers every pending command'", "7/C13"),
 "C14": ("Lean: byte-level facts decided by the kernel over all 256 bytes x 2 nibbles; row/sketch/TinyLFU theorems for all streams, hashes, seeds, sizes: never under-counts (any interleaving, any Bloom false positives), saturates at 15 (16 with doorkeeper), never wraps, increments disturb no other counter, ageing exactly at the threshold halves every counter and clears the doorkeeper; next_power_2 is the least power of two >= c (kernel-only proof), a fresh sketch is well formed, no index out of bounds. Correspondence: exhaustive byte tables, np2 around every power of two, random streams for 30 sizes against the real Row/FrequencyCounter/TinyLFU.", "bloomfilter crate: only 'no false negative' is assumed (and monitored); counters > 2^63 outside the model", "7/C14"),
 "C15": ("Lean: invariant SInv over all histories: hits = buffered + delivered + dropped and delivered = queued + applied (ghost), each successful read creates exactly one record, a miss none; reads never park and never touch sketch, queue or worker; a saturated/absent consumer makes whole buffers count as dropped. Correspondence with pool/buffer sizes 1..3 and a stalled consumer; monitor after every event.", "identities are void after shutdown() (it clears the statistics but not the pool) — stated in the theorem", "7/C15"),
 "C16": ("Lean: the four counter identities hold at EVERY reachable Layer A state before shutdown (ghost counters for lookups and admission refusals; weight identity modulo 2^64 with the wrapping decrease proved correct). The hit ratio is a float: the harness compares it bit-for-bit with hits/(hits+misses) and 'zero only if no hits' on a table and in every stats event. Repaired defect (all-hit ratio).", "float division is checked in Rust, not in Lean", "7/C16"),
 "C17": ("Lean: no-panic theorems for every client call, the worker, sweeper and consumer under explicit side conditions (positive weights, value present for absent-key upserts, now+ttl representable, weights +-24 within i64), lifted to runs; a counterexample theorem per side condition showing it is necessary — these are the recorded known findings (TTL removal on a light key, Duration::MAX, i64 boundary). Correspondence on a boundary-value stream with catch_unwind and panic-site classification; monitor flags every panic or dead background thread not in known_findings.json. Repaired defect (counters = 1).", "allocator failure, stack overflow and panics inside dependencies cannot be exhibited by the model: the boundary stream + panic hook cover them at run time only", "7/C17"),
 "C18": ("Lean: generic theorem for any number of threads: under rank-ordered acquisition, no lock held at a blocking channel operation and consumers that never send, some thread is enabled or all unfinished threads are consumers on their own empty queue; no wait cycle among any subset; the discipline is preserved by steps; the table of the crate's 16 programs satisfies it (decide); Layer B: the owner of weight_used / of an expiry shard / of a get_ref guard is always enabled, a shutdown in progress waits only for enabled owners. Correspondence: the lock log of an instrumented lock_api (every observed held->acquired pair and the locks held at every schedule point validated against the Lean table), watchdogs in every mode (queue size 1, parked sends, shutdown under load).", "the lock table is transcribed from the code (file:line) and validated against the observed lock log; parking_lot/dashmap/crossbeam fairness trusted; the get_ref-guard re-entrance by the SAME caller is excluded as the property states", "7/C18"),
}
NOT_YET = {}

checks = []
na = []
for p in props:
    pid = p["id"]
    prop_file = os.path.join(ROOT, "lean", "CachedProofs", "Properties", f"{pid}.lean")
    has_theorems = os.path.exists(prop_file) and "theorem" in open(prop_file).read()
    if pid in CLAIMS and has_theorems:
        text, note, ref = CLAIMS[pid]
        checks.append({
            "property_id": pid,
            "quick_cmd": f"./check {pid} --tier quick",
            "thorough_cmd": f"./check {pid} --tier thorough",
            "evidence_file": f"evidence/{pid}.json",
            "replay_cmd_template": f"./check {pid} --replay {{path}}",
            "engine": "lean-proof+correspondence",
            "level_claimed": {"category": "proof", "text": text, "design_ref": f"DESIGN.md section {ref}"},
            "level_note": (note + " | " if note else "") + TRUST,
            "technique": "Lean 4 theorems (induction / invariants over the model's step relation) + differential correspondence model vs crate",
        })
    else:
        na.append({"property_id": pid, "reason": "theorems for this property are still being proved in this build round (model, correspondence and monitor already run); not claimed until the Lean module exists"})

manifest = {
    "version": 1,
    "setup_cmd": "cd /verif && ./setup.sh",
    "hooks": {
        "guard": "cached_verif",
        "enable": "cargo feature: the harness crate /verif/harness depends on /repo with features = [\"cached_verif\"] (cargo build --offline in /verif/harness)",
        "baseline_off_cmd": "cd /repo && cargo test --workspace --no-fail-fast --offline",
        "source_commits": hook_shas,
        "add_only": True,
    },
    "engines": [
        {"name": "lean-proof+correspondence", "path": "check", "serves_properties": [c["property_id"] for c in checks],
         "kind_free_text": "Lean 4 model + theorems (lean/), Rust harness driving the real crate under a cooperative scheduler (harness/), Python driver diffing model and implementation and evaluating property monitors (checklib/)"},
    ],
    "checks": checks,
    "not_applicable": na,
    "notes": "Known findings (genuine defects recorded, not repaired) are in known_findings.json; repaired defects are 'fix:' commits in /repo listed there as fixed. See DESIGN.md.",
}
json.dump(manifest, open(os.path.join(ROOT, "MANIFEST.json"), "w"), indent=1)
print("claimed", [c["property_id"] for c in checks], "not yet", [n["property_id"] for n in na])
