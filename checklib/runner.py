import fcntl
import hashlib
import json
import os
import re
import shutil
import subprocess
import sys
import time
from concurrent.futures import ThreadPoolExecutor

from . import trace, monitors
from .plan import PLAN, TRIGGERS, DEPENDS

ROOT = os.path.dirname(os.path.dirname(os.path.abspath(__file__)))
LEAN = os.path.join(ROOT, "lean")
HARNESS = os.path.join(ROOT, "harness")
HARNESS_BIN = os.path.join(HARNESS, "target", "debug", "cached-verif-harness")
DRIVER = os.path.join(LEAN, ".lake", "build", "bin", "cached_driver")
WORK = os.path.join(ROOT, "work")
ALLOWED_AXIOMS = {"propext", "Quot.sound", "Classical.choice"}
FORBIDDEN = re.compile(r"\b(sorry|admit|native_decide|implemented_by|bv_decide)\b|^\s*axiom\s|unsafe\s|maxHeartbeats\s+0")
ENV = dict(os.environ, CARGO_NET_OFFLINE="true", CARGO_TERM_COLOR="never")


def sh(cmd, cwd=None, timeout=None):
    t0 = time.time()
    try:
        p = subprocess.run(cmd, cwd=cwd, shell=isinstance(cmd, str), capture_output=True, text=True, timeout=timeout, env=ENV)
        return p.returncode, p.stdout + p.stderr, time.time() - t0
    except subprocess.TimeoutExpired as e:
        return 124, f"timeout after {timeout}s: {cmd}\n{(e.stdout or b'').decode(errors='replace') if isinstance(e.stdout, bytes) else (e.stdout or '')}", time.time() - t0


class Lock:
    def __init__(self, name):
        os.makedirs(WORK, exist_ok=True)
        self.path = os.path.join(WORK, name)

    def __enter__(self):
        self.f = open(self.path, "w")
        fcntl.flock(self.f, fcntl.LOCK_EX)

    def __exit__(self, *a):
        fcntl.flock(self.f, fcntl.LOCK_UN)
        self.f.close()


def build_harness():
    with Lock(".cargo.lock"):
        lock_src, lock_dst = "/repo/Cargo.lock", os.path.join(HARNESS, "Cargo.lock")
        if not os.path.exists(lock_dst) and os.path.exists(lock_src):
            shutil.copy(lock_src, lock_dst)
        rc, out, dt = sh(["cargo", "build", "--offline"], cwd=HARNESS, timeout=1500)
    return rc == 0, out, dt


def build_lean(targets):
    with Lock(".lake.lock"):
        rc, out, dt = sh(["lake", "build"] + targets, cwd=LEAN, timeout=3000)
    return rc == 0, out, dt


def strip_comments(text):
    text = re.sub(r"/-.*?-/", "", text, flags=re.S)
    return "\n".join(l.split("--")[0] for l in text.splitlines())


def theorem_names(path):
    names = []
    ns = []
    for line in strip_comments(open(path).read()).splitlines():
        m = re.match(r"\s*namespace\s+(\S+)", line)
        if m:
            ns.append(m.group(1))
        m = re.match(r"\s*end\s+(\S+)", line)
        if m and ns and ns[-1] == m.group(1):
            ns.pop()
        m = re.match(r"\s*(?:@\[[^\]]*\]\s*)?(?:private\s+|protected\s+)?theorem\s+([A-Za-z0-9_.'!?]+)", line)
        if m:
            names.append(".".join(ns + [m.group(1)]))
    return names


# modules that state theorems ABOUT a property but sit above its module in the import graph (the abstract specification and
# its refinement theorem import C03): built and audited together with the property module
EXTRA_MODULES = {pid: ["CachedProofs.Spec.Refine", "CachedProofs.Spec.RefineB"] for pid in ("C02", "C03", "C04", "C09")}   # RefineB: the refinement for ALL interleavings
EXTRA_MODULES["C03"] = EXTRA_MODULES["C03"] + ["CachedProofs.LayerB.Entries"]       # C03 / C07 at action granularity
EXTRA_MODULES["C07"] = ["CachedProofs.LayerB.Entries"]
EXTRA_MODULES["C05"] = ["CachedProofs.LayerB.EvictId", "CachedProofs.LayerB.Bijection"]                                 # D11: the sweeper releases only the entry of the id it evicts
EXTRA_MODULES["C08"] = ["CachedProofs.LayerB.Upsert"]                                   # C08 at action granularity
EXTRA_MODULES["C09"] = EXTRA_MODULES["C09"] + ["CachedProofs.LayerB.Expiry"]            # C09 at action granularity
EXTRA_MODULES["C10"] = ["CachedProofs.Spec.RefineB"]                                    # sweptLive: what the sweeper may remove under interleaving
EXTRA_MODULES["C17"] = ["CachedProofs.LayerB.NoPanic", "CachedProofs.LayerB.Closed"]                                  # C17 at action granularity
EXTRA_MODULES["C16"] = ["CachedProofs.LayerB.StatsTheorems"]                          # C16 at action granularity
for _pid, _mods in {"C02": ["CachedProofs.LayerB.History"],                          # regularity of reads over histories (call begin / return events)
                    "C03": ["CachedProofs.LayerB.IndexStep", "CachedProofs.LayerB.Retained"], "C10": ["CachedProofs.LayerB.IndexStep", "CachedProofs.Extra.Ticks", "CachedProofs.Extra.Small"],
                    "C11": ["CachedProofs.LayerB.PutDelete"], "C13": ["CachedProofs.Extra.Progress", "CachedProofs.LayerB.NoDeadlock", "CachedProofs.LayerB.Terminates"], "C12": ["CachedProofs.Extra.Progress", "CachedProofs.LayerB.AckEffect", "CachedProofs.LayerB.Terminates"], "C04": ["CachedProofs.LayerB.AckEffect"], "C08": ["CachedProofs.LayerB.AckEffect"],   # the worker can always take its next step; the queue drains
                    "C18": ["CachedProofs.LayerB.NoDeadlock", "CachedProofs.LayerB.Terminates"],                        # no deadlock at action granularity: some internal action is always enabled; wait chains ≤ 3, acyclic
                    "C15": ["CachedProofs.Extra.Small"], "C16": ["CachedProofs.Extra.Small"], "C06": ["CachedProofs.Extra.Small"]}.items():
    EXTRA_MODULES[_pid] = EXTRA_MODULES.get(_pid, []) + _mods
for _pid in ("C12", "C13", "C18"):      # quiescent and the worker alive: every acknowledgement resolved; stability; the dead-worker counterexample
    EXTRA_MODULES[_pid] = EXTRA_MODULES.get(_pid, []) + ["CachedProofs.LayerB.AcksResolved"]
EXTRA_MODULES["C17"] = EXTRA_MODULES.get("C17", []) + ["CachedProofs.LayerB.ClosedRunning"]      # used <= i64Max from Reach; the closed theorem for runs without shutdown(), not vacuous at maxWeight = i64::MAX
for _pid in ("C18", "C02"):      # shutdown()'s own send is let in by the worker's recv too; the iterator scenarios on a REACHABLE state
    EXTRA_MODULES[_pid] = EXTRA_MODULES.get(_pid, []) + ["CachedProofs.LayerB.ReviewSmall"]
for _pid in ("C02", "C13", "C06"):      # multi-key reads after the flag under every interleaving; the admission rule per worker action
    EXTRA_MODULES[_pid] = EXTRA_MODULES.get(_pid, []) + ["CachedProofs.LayerB.MgetShutdown"]
for _pid in ("C02", "C04", "C09", "C13", "C15", "C16"):      # a `next()` of an iterator kept open IS the model's `get`; drained at once it is the multi-key read
    EXTRA_MODULES[_pid] = EXTRA_MODULES.get(_pid, []) + ["CachedProofs.Extra.Iter"]


def proof_check(pid, thorough):
    """Builds the property module, audits axioms of every theorem in it, scans sources. Returns dict."""
    res = {"ok": True, "obligations": [], "discharged": [], "problems": [], "axioms": {}, "wall": 0.0}
    prop_file = os.path.join(LEAN, "CachedProofs", "Properties", f"{pid}.lean")
    if not os.path.exists(prop_file):
        res["ok"] = False
        res["problems"].append(f"no property module {prop_file}")
        return res
    extra_modules = EXTRA_MODULES.get(pid, [])
    ok, out, dt = build_lean(["CachedModel", "cached_driver", f"CachedProofs.Properties.{pid}"] + extra_modules)
    res["wall"] += dt
    names = theorem_names(prop_file)
    # lemma modules the property imports (transitively, inside CachedProofs)
    lemma_files = []
    seen = set()
    stack = [prop_file]
    for m in extra_modules:
        p = os.path.join(LEAN, *m.split(".")) + ".lean"
        if os.path.exists(p):
            seen.add(p); lemma_files.append(p); stack.append(p)
    while stack:
        f = stack.pop()
        for m in re.finditer(r"^import\s+(CachedProofs\.[\w.]+)", open(f).read(), flags=re.M):
            p = os.path.join(LEAN, *m.group(1).split(".")) + ".lean"
            if p not in seen and os.path.exists(p):
                seen.add(p)
                lemma_files.append(p)
                stack.append(p)
    lemma_names = [n for f in lemma_files for n in theorem_names(f)]
    res["obligations"] = names + lemma_names
    # property theorems stated in imported modules (Layer B files) carry the property id as their prefix
    res["property_theorems"] = names + [n for n in lemma_names if (n.split(".")[-1].startswith(pid + "_") or (pid in ("C17", "C08") and n.split(".")[-1].startswith("G17_")) or (extra_modules and n.startswith("Cached.Spec."))) and n not in names]
    if not ok:
        res["ok"] = False
        err = "\n".join(l for l in out.splitlines() if "error" in l.lower())[:2000]
        res["problems"].append(f"lake build CachedProofs.Properties.{pid} failed:\n{err}")
        return res
    # source scan
    for f in [prop_file] + lemma_files + [os.path.join(LEAN, "CachedModel", x) for x in os.listdir(os.path.join(LEAN, "CachedModel")) if x.endswith(".lean")]:
        body = strip_comments(open(f).read())
        for i, line in enumerate(body.splitlines()):
            if FORBIDDEN.search(line):
                res["ok"] = False
                res["problems"].append(f"forbidden construct in {os.path.relpath(f, ROOT)}:{i + 1}: {line.strip()[:120]}")
    # axiom audit
    audit_dir = os.path.join(WORK, "audit")
    os.makedirs(audit_dir, exist_ok=True)
    audit = os.path.join(audit_dir, f"{pid}.lean")
    with open(audit, "w") as f:
        f.write(f"import CachedProofs.Properties.{pid}\n")
        for m in extra_modules:
            f.write(f"import {m}\n")
        for n in names + lemma_names:
            f.write(f"#print axioms {n}\n")
    with Lock(".lake.lock"):
        rc, out, dt = sh(["lake", "env", "lean", audit], cwd=LEAN, timeout=1200)
    res["wall"] += dt
    cur = None
    text = re.sub(r"\n[ \t]+", " ", out)   # a long name makes the list wrap, with one or two blanks of indentation
    for line in text.splitlines():
        m = re.match(r"'(.+)' depends on axioms: \[(.*)\]", line)
        if m:
            res["axioms"][m.group(1)] = [a.strip() for a in m.group(2).split(",") if a.strip()]
            continue
        m = re.match(r"'(.+)' does not depend on any axioms", line)
        if m:
            res["axioms"][m.group(1)] = []
    for n in names + lemma_names:
        ax = res["axioms"].get(n)
        if ax is None:
            res["ok"] = False
            res["problems"].append(f"axiom audit printed nothing for {n}: {out[:300]}")
        elif set(ax) - ALLOWED_AXIOMS:
            res["ok"] = False
            res["problems"].append(f"{n} depends on axioms outside the allowed set: {sorted(set(ax) - ALLOWED_AXIOMS)}")
        else:
            res["discharged"].append(n)
    if thorough:
        with Lock(".lake.lock"):
            # the property module, every module registered for the property and every CachedProofs module they import
            checked = [f"CachedProofs.Properties.{pid}"] + [os.path.relpath(f, LEAN)[:-5].replace(os.sep, ".") for f in lemma_files]
            rc, out, dt = sh(["lake", "env", "leanchecker"] + checked, cwd=LEAN, timeout=3000)
        res["wall"] += dt
        if "uncaught exception" in out or "Could not find" in out:
            rc = rc or 1
        res["leanchecker"] = f"ok ({len(checked)} modules)" if rc == 0 else out[-500:]
        if rc != 0:
            res["ok"] = False
            res["problems"].append(f"leanchecker rejected one of {len(checked)} modules of {pid}: {out[-300:]}")
    return res


def run_shard(args):
    mode, profile, seed, cases, prefix, extra = args
    if mode == "ack":
        cmd = [HARNESS_BIN, "ack", "--polls", str(cases), "--out", prefix]
    elif mode == "pure":
        cmd = [HARNESS_BIN, "pure", "--seed", str(seed), "--out", prefix] + extra
    elif mode in ("locks", "stress"):
        cmd = [HARNESS_BIN, mode, "--seed", str(seed), "--millis", str(cases), "--out", prefix]
    else:
        cmd = [HARNESS_BIN, mode, "--seed", str(seed), "--cases", str(cases), "--profile", profile, "--out", prefix] + extra
    rc, out, dt = sh(cmd, timeout=240)
    if os.path.exists(prefix + ".in"):
        with open(prefix + ".model", "w") as mf, open(prefix + ".in") as inf:
            subprocess.run([DRIVER], stdin=inf, stdout=mf, timeout=900)
    return prefix, rc, out


def replay_lines(lines, prefix):
    """Runs the given input lines on the implementation (harness replay) and the model; returns cases."""
    with open(prefix + ".rin", "w") as f:
        f.write("\n".join(lines) + "\n")
    ack_lines = [l for l in lines if l.startswith("A ")]
    if ack_lines:
        cases = []
        for n, l in enumerate(ack_lines):
            sub = f"{prefix}_a{n}"
            sh([HARNESS_BIN, "ack", "--out", sub, "--schedule", l[2:]], timeout=120)
            with open(sub + ".model", "w") as mf, open(sub + ".in") as inf:
                subprocess.run([DRIVER], stdin=inf, stdout=mf, timeout=120)
            cases += trace.load_cases(sub + ".in", sub + ".impl", sub + ".model")
        return cases, 0
    if any(l.startswith("S ") for l in lines):
        sh([HARNESS_BIN, "stress", "--seed", "1", "--millis", "800", "--out", prefix], timeout=300)
        with open(prefix + ".model", "w") as mf, open(prefix + ".in") as inf:
            subprocess.run([DRIVER], stdin=inf, stdout=mf, timeout=300)
        return trace.load_cases(prefix + ".in", prefix + ".impl", prefix + ".model"), 0
    if any(l.startswith("L ") for l in lines):
        sh([HARNESS_BIN, "locks", "--seed", "1", "--millis", "800", "--out", prefix], timeout=300)
        with open(prefix + ".model", "w") as mf, open(prefix + ".in") as inf:
            subprocess.run([DRIVER], stdin=inf, stdout=mf, timeout=300)
        return trace.load_cases(prefix + ".in", prefix + ".impl", prefix + ".model"), 0
    if any(l.startswith("P ") for l in lines):
        # pure inputs are regenerated, not replayed line by line
        sh([HARNESS_BIN, "pure", "--seed", "1", "--out", prefix], timeout=300)
        with open(prefix + ".model", "w") as mf, open(prefix + ".in") as inf:
            subprocess.run([DRIVER], stdin=inf, stdout=mf, timeout=300)
        return trace.load_cases(prefix + ".in", prefix + ".impl", prefix + ".model"), 0
    if any(l.startswith("BC ") for l in lines):
        # Layer B histories: the recorded SCHEDULE is replayed action by action on the real crate (`conc --script`; the
        # oracle suffixes are re-tapped; a step that is not enabled ends the case there), then compared with the model
        with open(prefix + ".rin", "w") as f:
            f.write("\n".join(lines) + "\n")
        rc, out, dt = sh([HARNESS_BIN, "conc", "--script", prefix + ".rin", "--out", prefix], timeout=300)
        if not os.path.exists(prefix + ".in"):
            return [], rc
        with open(prefix + ".model", "w") as mf, open(prefix + ".in") as inf:
            subprocess.run([DRIVER], stdin=inf, stdout=mf, timeout=300)
        return trace.load_cases(prefix + ".in", prefix + ".impl", prefix + ".model"), rc
    rc, out, dt = sh([HARNESS_BIN, "replay", "--in", prefix + ".rin", "--out", prefix], timeout=300)
    with open(prefix + ".model", "w") as mf, open(prefix + ".in") as inf:
        subprocess.run([DRIVER], stdin=inf, stdout=mf, timeout=300)
    return trace.load_cases(prefix + ".in", prefix + ".impl", prefix + ".model"), rc


def case_fails(case, pid, signature):
    """Does this (replayed) case still show the failure? signature None = any model/implementation divergence."""
    if any(s.out.startswith("disabled") for s in case.steps):
        return False
    if signature is None:
        return case.first_divergence() is not None or case.hang
    mon = monitors.MONITORS.get(signature.split("/")[0])
    return mon is not None and any(f["signature"] == signature for f in mon(case))


def shrink(case, pid, signature, workdir, budget_s=25):
    """ddmin over the events of a failing case. Returns the list of input lines of the smallest failing case found."""
    if not case.cfg_line or getattr(case, "layer_b", False):
        if getattr(case, "layer_b", False):
            # a Layer B case is kept whole, cut after the failing action
            cut = case.first_divergence() if signature is None else None
            if signature is not None:
                mon = monitors.MONITORS[signature.split("/")[0]]
                hits = [f["step"] for f in mon(case) if f["signature"] == signature]
                cut = min(hits) if hits else None
            return case.input_lines(cut if cut is not None and cut >= 0 else None), False
        # acknowledgement schedules and pure inputs are single self-contained lines: keep the failing ones
        if signature is None:
            bad = [s.ev for s in case.steps if s.impl != s.model][:5]
        else:
            mon = monitors.MONITORS[signature.split("/")[0]]
            hits = [f["step"] for f in mon(case) if f["signature"] == signature][:5]
            bad = [case.steps[i].ev for i in hits if i < len(case.steps)]
        return [case.header] + bad + [n for n in case.notes if n.startswith("# hang")], True
    t0 = time.time()
    head = [case.header, case.cfg_line]
    events = [s.ev for s in case.steps]
    # cut after the failure first
    cut = None
    if signature is None:
        cut = case.first_divergence()
    else:
        mon = monitors.MONITORS[signature.split("/")[0]]
        hits = [f["step"] for f in mon(case) if f["signature"] == signature]
        cut = min(hits) if hits else None
    if cut is not None and cut >= 0:
        events = events[: cut + 1]
    n = 2
    tries = 0
    prefix = os.path.join(workdir, "shrink")

    def fails(evs):
        nonlocal tries
        tries += 1
        cases, rc = replay_lines(head + evs, prefix)
        return bool(cases) and case_fails(cases[0], pid, signature)

    if not fails(events):
        return head + [s.ev for s in case.steps], False
    while len(events) >= 2 and time.time() - t0 < budget_s:
        chunk = max(1, len(events) // n)
        reduced = False
        for i in range(0, len(events), chunk):
            cand = events[:i] + events[i + chunk:]
            if cand and fails(cand):
                events = cand
                n = max(n - 1, 2)
                reduced = True
                break
            if time.time() - t0 > budget_s:
                break
        if not reduced:
            if chunk == 1:
                break
            n = min(len(events), n * 2)
    return head + events, True


def load_known():
    path = os.path.join(ROOT, "known_findings.json")
    if not os.path.exists(path):
        return []
    return json.load(open(path)).get("findings", [])


def write_json(path, obj):
    os.makedirs(os.path.dirname(path), exist_ok=True)
    tmp = path + ".tmp"
    with open(tmp, "w") as f:
        json.dump(obj, f, indent=1)
    os.replace(tmp, path)


def main(argv):
    if not argv:
        print(__doc__)
        return 2
    pid = argv[0]
    tier = os.environ.get("VERIF_TIER", "quick")
    seed = int(os.environ.get("VERIF_SEED", "1") or 1)
    replay = None
    i = 1
    while i < len(argv):
        if argv[i] == "--tier":
            tier = argv[i + 1]; i += 2
        elif argv[i] == "--seed":
            seed = int(argv[i + 1]); i += 2
        elif argv[i] == "--replay":
            replay = argv[i + 1]; i += 2
        else:
            i += 1
    if tier not in ("quick", "thorough"):
        print(f"unknown tier {tier!r}: running the quick tier", file=sys.stderr)
        tier = "quick"
    thorough = tier == "thorough"
    t_start = time.time()
    workdir = os.path.join(WORK, pid, tier if not replay else "replay")
    shutil.rmtree(workdir, ignore_errors=True)
    os.makedirs(workdir, exist_ok=True)
    replay_dir = os.path.join(ROOT, "replays")
    os.makedirs(replay_dir, exist_ok=True)
    violations = []     # dicts: kind, signature, what, replay
    known_seen = {}
    known = [k for k in load_known() if k.get("property") == pid]
    known_by_sig = {k["signature"]: k for k in known if k.get("status") == "known"}

    # ---- 1. builds
    ok_h, out_h, dt_h = build_harness()
    proof = proof_check(pid, thorough)
    plan = PLAN.get(pid, {})
    stats = {"evaluations": 0, "distinct_nontrivial": 0, "model_disagreements": 0, "impl_property_violations": 0,
             "traces_validated_against_impl": 0, "events": 0, "distribution": {}, "samples": []}
    if not ok_h:
        err = "\n".join(l for l in out_h.splitlines() if l.startswith("error"))[:1500]
        rp = os.path.join(replay_dir, f"{pid}-harness-build.json")
        write_json(rp, {"property": pid, "kind": "correspondence", "broken": "harness build against /repo with feature cached_verif",
                        "detail": err or out_h[-1500:]})
        violations.append({"kind": "correspondence", "signature": f"{pid}/harness-build", "what": "the harness no longer builds against /repo", "replay": rp, "no_input": True})

    if replay:
        if violations or not proof["ok"]:
            # a replay on a stale binary, or under proofs that no longer check, proves nothing: report what is broken
            for v in violations:
                print(f"VIOLATION property={pid} replay={v['replay']} [{v['kind']}] {v['what']} no-failing-input-found")
            for prob in ([] if proof["ok"] else proof["problems"][:5]):
                print(f"VIOLATION property={pid} replay={replay} [proof] {prob[:300]} no-failing-input-found")
            return 1
        return do_replay(pid, replay, workdir)

    # ---- 2. correspondence + monitors
    all_cases = []
    if ok_h and not os.path.exists(DRIVER):
        violations.append({"kind": "correspondence", "signature": f"{pid}/driver-missing", "what": f"the Lean driver {DRIVER} was not built: no correspondence run is possible", "replay": DRIVER, "no_input": True})
    if ok_h and os.path.exists(DRIVER):
        jobs = []
        for (mode, profile, quick_n, thorough_n, extra) in plan.get("runs", []):
            total = thorough_n if thorough else quick_n
            if mode in ("ack", "pure", "locks", "stress"):
                jobs.append((mode, profile, seed, total, os.path.join(workdir, f"{mode}_{profile}"), list(extra) + (["--thorough"] if thorough and mode == "pure" else [])))
                continue
            per = max(1, min(40, total // 8 or 1))
            shard = 0
            done = 0
            while done < total:
                n = min(per, total - done)
                prefix = os.path.join(workdir, f"{mode}_{profile}_{shard}")
                jobs.append((mode, profile, seed * 1000 + shard * 7 + abs(hash(profile)) % 5 * 0 + 1 + shard, n, prefix, list(extra)))
                shard += 1
                done += n
        # corpus first
        corpus_dir = os.path.join(ROOT, "corpus")
        corpus_files = []
        if os.path.isdir(corpus_dir):
            for f in sorted(os.listdir(corpus_dir)):
                tags = f.split(".")[0].split("_")
                if f.endswith(".in") and (pid in tags or "all" in tags):
                    corpus_files.append(os.path.join(corpus_dir, f))
        for cf in corpus_files:
            prefix = os.path.join(workdir, "corpus_" + os.path.basename(cf)[:-3])
            cases, rc = replay_lines(open(cf).read().splitlines(), prefix)
            if rc not in (0, 3) or not cases:
                violations.append({"kind": "correspondence", "signature": f"{pid}/corpus-replay-failed", "what": f"replaying the recorded history {os.path.basename(cf)} gave exit code {rc} and {len(cases)} case(s)", "replay": cf, "no_input": True})
            for c in cases:
                c.origin = cf
                # a recorded history may not be replayable to its end (the buffer index, the map iteration order and the
                # sketch seeds differ from run to run, so a recorded `consumer`/`resume`/... can find nothing to do):
                # compare the replayable prefix only
                for i, s_ in enumerate(c.steps):
                    if s_.out.startswith("disabled"):
                        del c.steps[i:]
                        break
            all_cases += cases
        with ThreadPoolExecutor(max_workers=16) as ex:
            results = list(ex.map(run_shard, jobs))
        for prefix, rc, out in results:
            if not os.path.exists(prefix + ".in"):
                violations.append({"kind": "correspondence", "signature": f"{pid}/harness-no-output", "what": f"a harness run wrote no input file {prefix}.in (exit code {rc}): {out[-300:]}", "replay": prefix + ".in", "no_input": True})
                continue
            mp = prefix + ".model" if os.path.exists(prefix + ".model") else None
            cases = trace.load_cases(prefix + ".in", prefix + ".impl", mp)
            for c in cases:
                c.origin = prefix
            all_cases += cases
            if rc not in (0, 3):
                violations.append({"kind": "correspondence", "signature": f"{pid}/harness-crashed", "what": f"harness exited with {rc}: {out[-300:]}", "replay": prefix + ".in", "no_input": True})

    if ok_h and plan.get("runs") and not all_cases and not any(v["signature"].endswith(("driver-missing", "harness-no-output")) for v in violations):
        violations.append({"kind": "correspondence", "signature": f"{pid}/no-cases", "what": "the planned correspondence runs produced no case at all: nothing was compared", "replay": workdir, "no_input": True})

    seen_hashes = set()
    trig = TRIGGERS.get(pid)
    mon = monitors.MONITORS.get(pid)
    dist = stats["distribution"]
    divergent = []
    mon_hits = []
    for c in all_cases:
        stats["evaluations"] += 1
        stats["events"] += len(c.steps)
        for s in c.steps:
            key = s.kind if s.kind != "worker" else "worker:" + (s.out.split()[1] if len(s.out.split()) > 1 else "?")
            if s.kind == "pure":
                key = "pure:" + (s.toks[0] if s.toks else "?")
            if s.kind == "locks":
                key = "locks:" + " ".join(s.toks[:3])
            if s.kind == "b":
                pcs = s.impl.split(" | ")[1] if s.impl.count(" | ") >= 2 else ""
                key = "B:" + (s.toks[0] if s.toks else "?")
                for t in pcs.split():
                    if t.startswith(("w=", "s=")):
                        dist["B-at:" + t] = dist.get("B-at:" + t, 0) + 1
            dist[key] = dist.get(key, 0) + 1
            o = s.out.split()
            if o and o[0] in ("panic", "workerpanic", "parked", "err"):
                dist["out:" + " ".join(o[:2])] = dist.get("out:" + " ".join(o[:2]), 0) + 1
            if s.kind == "worker" and "pops=" in s.out and s.out.split("pops=")[1].split()[0:1] and s.out.split("pops=")[1][0] not in " e":
                dist["admission:create_space"] = dist.get("admission:create_space", 0) + 1
        d = c.first_divergence()
        if d is None and not c.hang:
            stats["traces_validated_against_impl"] += 1
        else:
            divergent.append(c)
        h = hashlib.sha1("\n".join([re.sub(r"seeds=\S+", "", c.cfg_line or "")] + [s.ev for s in c.steps]).encode()).hexdigest()
        nontrivial = trig(c) if trig else True
        if nontrivial and h not in seen_hashes:
            seen_hashes.add(h)
            stats["distinct_nontrivial"] += 1
            if len(stats["samples"]) < 3:
                stats["samples"].append({"case": c.header, "cfg": c.cfg_line, "events": [s.ev for s in c.steps[:25]], "impl_outputs": [s.out for s in c.steps[:25]]})
        if mon:
            for f in mon(c):
                mon_hits.append((c, f))

    # ---- 3. classify monitor hits
    reported_sigs = set()
    shrink_deadline = time.time() + (45 if not thorough else 240)
    by_sig = {}
    for c, f in mon_hits:
        sig = f["signature"]
        if sig in known_by_sig:
            known_seen.setdefault(sig, (c, f))
            continue
        stats["impl_property_violations"] += 1
        # prefer the shortest case for each signature
        if sig not in by_sig or len(c.steps) < len(by_sig[sig][0].steps):
            by_sig[sig] = (c, f)
    for sig in sorted(by_sig, key=lambda x: len(by_sig[x][0].steps))[:6]:
        c, f = by_sig[sig]
        if time.time() < shrink_deadline:
            lines, shrunk = shrink(c, pid, sig, workdir, budget_s=15 if not thorough else 60)
        else:
            lines, shrunk = c.input_lines(), False
        rp = os.path.join(replay_dir, f"{pid}-{re.sub(r'[^A-Za-z0-9_.=-]', '_', sig)}.json")
        write_json(rp, {"property": pid, "kind": "implementation-violates-property", "signature": sig, "what": f["what"],
                        "found_in": c.header, "shrunk": shrunk, "input": lines,
                        "other_signatures_in_this_run": sorted(by_sig),
                        "how_to_replay": f"./check {pid} --replay {rp}"})
        violations.append({"kind": "monitor", "signature": sig, "what": f["what"], "replay": rp})

    # ---- 4. divergences
    stats["model_disagreements"] = len(divergent)
    if divergent:
        c = divergent[0]
        lines, shrunk = shrink(c, pid, None, workdir, budget_s=20 if not thorough else 90)
        cases = []
        for attempt in range(4):
            cases, _ = replay_lines(lines, os.path.join(workdir, "div"))
            if cases and case_fails(cases[0], pid, None):
                break
            cases = []
        if not cases:
            # the shrunk history does not replay deterministically (pool index, iteration order, seeds differ per run): keep the original
            lines, shrunk, cases = c.input_lines(), False, [c]
        detail = {}
        found_input = None
        if cases:
            sc = cases[0]
            d = sc.first_divergence()
            if d is not None and d >= 0:
                detail = {"event": sc.steps[d].ev, "implementation": sc.steps[d].impl, "model": sc.steps[d].model}
            elif sc.hang:
                detail = {"hang": sc.notes}
            # search: does any property monitor (this property's first) fail on the shrunk case or the original?
            for cand in (sc, c):
                if mon:
                    hits = [f for f in mon(cand) if f["signature"] not in known_by_sig]
                    if hits:
                        found_input = hits[0]
                        break
        components = DEPENDS.get(pid, [])
        rp = os.path.join(replay_dir, f"{pid}-correspondence.json")
        write_json(rp, {"property": pid, "kind": "model-disagrees-with-implementation",
                        "correspondence": f"Layer A model (CachedModel/State.lean; components {components}) vs /repo on the same events",
                        "found_in": c.header, "shrunk": shrunk, "input": lines, "first_difference": detail,
                        "diverging_cases": len(divergent), "failing_input_for_property": found_input,
                        "how_to_replay": f"./check {pid} --replay {rp}"})
        if not any(v["kind"] == "monitor" for v in violations):
            violations.append({"kind": "correspondence", "signature": f"{pid}/correspondence", "what": f"model and implementation differ on {len(divergent)} case(s): {json.dumps(detail)[:400]}", "replay": rp, "no_input": found_input is None})

    # ---- 5. proofs
    if not proof["ok"]:
        rp = os.path.join(replay_dir, f"{pid}-proof.json")
        write_json(rp, {"property": pid, "kind": "proof-obligation-broken", "theorems": proof.get("property_theorems", []), "problems": proof["problems"]})
        violations.append({"kind": "proof", "signature": f"{pid}/proof", "what": "; ".join(proof["problems"])[:400], "replay": rp, "no_input": True})

    # ---- 6. verdict + evidence
    for sig, (c, f) in known_seen.items():
        print(f"KNOWN-FINDING: property={pid} {sig}: {f['what']} (first seen in {c.header.strip('# ')} step {f['step']}; {known_by_sig[sig].get('witness', '')})")
    wall = time.time() - t_start
    level_note = plan.get("note", "")
    evidence = {
        "property_id": pid, "tier": tier, "seed": seed, "level": "proof",
        "coverage": {
            "obligations": len(proof["obligations"]), "discharged": len(proof["discharged"]),
            "checker_cmd": f"cd lean && lake build CachedProofs.Properties.{pid} && lake env lean <generated #print axioms file>" + (" && lake env leanchecker CachedProofs.Properties." + pid if thorough else ""),
            "trusted_base": ["Lean 4.33.0 kernel", "axioms: " + ", ".join(sorted({a for n in proof["axioms"] for a in proof["axioms"][n]}) or ["none"]),
                             "correspondence check (hooks in /repo under feature cached_verif, harness, canonicaliser, differ)",
                             "modelled not verified: DashMap/parking_lot/crossbeam/bloomfilter/BinaryHeap semantics, sequential consistency of atomic actions"],
            "theorems": proof.get("property_theorems", []), "axioms_by_theorem": {n: proof["axioms"].get(n) for n in proof.get("property_theorems", [])},
            "proof_problems": proof["problems"],
            "evaluations": stats["evaluations"], "distinct_nontrivial": stats["distinct_nontrivial"],
            "rule": plan.get("rule", "generated Layer A histories; distinct = different configuration+event sequence; non-trivial = reaches a branch the property depends on"),
            "samples": stats["samples"] or [{"note": "no correspondence cases ran"}],
            "traces_validated_against_impl": stats["traces_validated_against_impl"],
            "events_executed": stats["events"], "model_disagreements": stats["model_disagreements"],
            "impl_property_violations": stats["impl_property_violations"], "known_findings_seen": sorted(known_seen),
            "distribution": dict(sorted(dist.items())), "exhaustive": False,
            "proof_wall_s": round(proof["wall"], 1),
        },
        "assumptions": [level_note] if level_note else [],
        "wall_s": round(wall, 1), "violations": len(violations),
    }
    write_json(os.path.join(ROOT, "evidence", f"{pid}.json"), evidence)
    for v in violations:
        tail = " no-failing-input-found" if v.get("no_input") else ""
        print(f"VIOLATION property={pid} replay={v['replay']} [{v['kind']}] {v['what'][:300]}{tail}")
    print(f"{pid} {tier}: {stats['evaluations']} cases / {stats['events']} events, {stats['traces_validated_against_impl']} agree with the model, "
          f"{len(proof['discharged'])}/{len(proof['obligations'])} theorems checked, {len(known_seen)} known finding(s), {len(violations)} violation(s), {wall:.1f}s")
    return 1 if violations else 0


def do_replay(pid, path, workdir):
    data = json.load(open(path)) if path.endswith(".json") else {"input": open(path).read().splitlines()}
    if "input" not in data:
        print(json.dumps(data, indent=1))
        return 1
    cases, rc = replay_lines(data["input"], os.path.join(workdir, "replay"))
    bad = False
    known_sigs = {k["signature"] for k in load_known() if k.get("property") == pid and k.get("status") == "known"}
    for c in cases:
        # a recorded history need not be replayable to its end on another tree (an event it contains may no longer be
        # enabled — e.g. the worker step of a put that is now refused on the spot): compare the replayable prefix only
        for i, s_ in enumerate(c.steps):
            if s_.out.startswith("disabled"):
                print(f"   (the recorded event `{s_.ev}` is not enabled on this tree: the history is replayed up to here)")
                del c.steps[i:]
                break
        d = c.first_divergence()
        for s in c.steps:
            mark = "!=" if s.impl != s.model else "  "
            print(f"{mark} {s.ev}\n     impl : {s.out}")
            if s.impl != s.model:
                print(f"     model: {s.model}")
        if d is not None or c.hang:
            bad = True
        mon = monitors.MONITORS.get(pid)
        if mon:
            for f in mon(c):
                if f["signature"] in known_sigs:
                    print(f"KNOWN-FINDING: property={pid} {f['signature']}: {f['what']}")
                    continue
                print(f"MONITOR {f['signature']} at step {f['step']}: {f['what']}")
                if data.get("signature") in (None, f["signature"]):
                    bad = True
    if bad:
        print(f"VIOLATION property={pid} replay={path}")
    return 1 if bad else 0
