"""Which correspondence runs, triggers and components belong to which property."""


def _any(pred):
    return lambda case: any(pred(s) for s in case.steps)


def _out(s):
    return s.out.split()


S = "seq"
# (mode, profile, cases quick, cases thorough, extra args)
PLAN = {
    "C01": {"runs": [("conc", "interleave", 120, 3000, ["--ext"]), ("conc", "race", 240, 8000, []), ("locks", "stress", 300, 2000, []), ("stress", "threads", 400, 3000, []), (S, "pressure", 240, 6000, []), (S, "mixed", 120, 3000, []), (S, "burst", 80, 2000, []), (S, "boundary", 60, 1500, [])],
            "rule": "generated Layer A histories (profiles pressure/mixed/burst/boundary); non-trivial = a worker step that changed the total weight through eviction or UpdateWeight, or a sweep that evicted"},
    "C02": {"runs": [("conc", "interleave", 120, 3000, ["--ext"]), ("conc", "race", 240, 8000, []), ("locks", "stress", 300, 2000, []), ("stress", "threads", 400, 3000, []), (S, "mixed", 240, 6000, []), (S, "pressure", 120, 3000, []), (S, "ttl", 80, 2000, []), (S, "reads", 80, 2000, [])]},
    "C03": {"runs": [("conc", "interleave", 120, 3000, ["--ext"]), ("conc", "race", 240, 8000, []), ("locks", "stress", 300, 2000, []), ("stress", "threads", 400, 3000, []), (S, "nopressure", 320, 8000, []), (S, "ttl", 80, 2000, [])]},
    "C04": {"runs": [("conc", "interleave", 120, 3000, ["--ext"]), ("conc", "race", 240, 8000, []), ("locks", "stress", 300, 2000, []), ("stress", "threads", 400, 3000, []), (S, "mixed", 240, 6000, []), (S, "ttl", 120, 3000, []), (S, "burst", 120, 3000, [])]},
    "C05": {"runs": [("conc", "interleave", 120, 3000, ["--ext"]), ("conc", "race", 240, 8000, []), ("locks", "stress", 300, 2000, []), ("stress", "threads", 400, 3000, []), (S, "burst", 240, 6000, []), (S, "pressure", 160, 4000, []), (S, "mixed", 80, 2000, [])]},
    "C06": {"runs": [("pure", "tables", 1, 1, []), ("locks", "stress", 300, 2000, []), ("stress", "threads", 400, 3000, []), (S, "pressure", 400, 10000, []), (S, "reads", 80, 2000, [])]},
    "C07": {"runs": [("conc", "interleave", 120, 3000, ["--ext"]), ("conc", "race", 240, 8000, []), ("locks", "stress", 300, 2000, []), (S, "ttl", 240, 6000, []), (S, "mixed", 160, 4000, []), (S, "burst", 80, 2000, [])]},
    "C08": {"runs": [("pure", "tables", 1, 1, []), ("conc", "interleave", 120, 3000, ["--ext"]), ("conc", "race", 240, 8000, []), ("locks", "stress", 300, 2000, []), (S, "ttl", 240, 6000, []), (S, "mixed", 240, 6000, [])]},
    "C09": {"runs": [("conc", "interleave", 120, 3000, ["--ext"]), ("conc", "race", 240, 8000, []), ("locks", "stress", 300, 2000, []), (S, "ttl", 400, 10000, []), (S, "mixed", 80, 2000, [])]},
    "C10": {"runs": [("conc", "interleave", 120, 3000, ["--ext"]), ("conc", "race", 240, 8000, []), ("locks", "stress", 300, 2000, []), ("stress", "threads", 400, 3000, []), (S, "ttl", 400, 10000, []), (S, "pressure", 80, 2000, [])]},
    "C11": {"runs": [("conc", "interleave", 120, 3000, ["--ext"]), ("conc", "race", 240, 8000, []), ("locks", "stress", 300, 2000, []), ("stress", "threads", 400, 3000, []), (S, "burst", 400, 10000, []), (S, "mixed", 80, 2000, [])]},
    "C12": {"runs": [("ack", "polls", 2, 3, []), ("locks", "stress", 300, 2000, []), ("stress", "threads", 400, 3000, []), (S, "burst", 160, 4000, []), (S, "mixed", 80, 2000, [])],
            "rule": "every interleaving of done() with the polls of 1-2 tasks on the real acknowledgement (schedule points inside done/poll), every schedule prefix compared with CachedModel/Ack.lean; plus Layer A histories with polls; non-trivial = a schedule in which a poll overlaps done()"},
    "C13": {"runs": [("conc", "interleave", 160, 4000, ["--ext"]), ("conc", "race", 240, 8000, []), ("locks", "stress", 500, 4000, []), ("ack", "polls", 2, 3, []), (S, "burst", 400, 10000, []), (S, "mixed", 80, 2000, [])]},
    "C14": {"runs": [("pure", "tables", 1, 1, []), ("locks", "stress", 300, 2000, []), ("stress", "threads", 400, 3000, []), (S, "reads", 320, 8000, [])],
            "rule": "exhaustive tables: all 256 byte values x 3 neighbours x 7 positions for Row::increment_at/get_at/half/clear, next_power_2 around every power of two, FrequencyCounter / TinyLFU streams for 30 counter sizes; plus Layer A histories with the consumer; non-trivial = a case that exercises the sketch"},
    "C15": {"runs": [("conc", "interleave", 120, 3000, ["--ext"]), ("conc", "race", 240, 8000, []), ("locks", "stress", 300, 2000, []), ("stress", "threads", 400, 3000, []), (S, "reads", 400, 10000, []), (S, "bigbuf", 48, 1200, []), (S, "mixed", 80, 2000, [])]},
    "C16": {"runs": [("pure", "tables", 1, 1, []), ("locks", "stress", 300, 2000, []), ("stress", "threads", 400, 3000, []), (S, "mixed", 240, 6000, []), (S, "reads", 120, 3000, []), (S, "pressure", 120, 3000, [])]},
    "C17": {"runs": [("pure", "tables", 1, 1, []), ("stress", "threads", 400, 3000, []), ("conc", "interleave", 120, 3000, ["--ext"]), ("conc", "race", 240, 8000, []), (S, "boundary", 400, 10000, []), (S, "mixed", 80, 2000, [])]},
    "C18": {"runs": [("conc", "interleave", 120, 3000, ["--ext"]), ("conc", "race", 240, 8000, []), ("locks", "stress", 700, 6000, []), ("stress", "threads", 400, 3000, []), (S, "burst", 240, 6000, []), (S, "mixed", 160, 4000, [])],
            "rule": "free-running stress (4 client threads + worker + sweeper + consumer, 3 configurations incl. queue size 1, pool 1, 2 shards) with an instrumented lock_api: every observed (held lock class -> acquired lock class) pair and the locks held at every schedule point are validated against the Lean lock table (rank order, nothing held at blocking channel operations), a watchdog requires every thread to keep completing calls and shutdown() to return under load; plus Layer A histories with parked sends; non-trivial = a case with a nested acquisition or a parked call"},
}

TRIGGERS = {
    "C01": _any(lambda s: (s.kind == "worker" and ("UpdateWeight" in s.out or ("ev=" in s.out and s.out.split("ev=")[1].strip() != ""))) or (s.kind == "sweep" and s.out.strip() != "swept ev=")),
    "C02": _any(lambda s: s.kind in ("get", "mget") and any(ch.isdigit() for ch in s.out.split(" ", 1)[-1])),
    "C03": _any(lambda s: s.kind == "get" and len(_out(s)) > 1 and _out(s)[1] != "-"),
    "C04": _any(lambda s: s.kind == "worker" and " Delete " in s.out),
    "C05": _any(lambda s: s.kind == "worker"),
    "C06": _any(lambda s: s.kind == "worker" and "pops=" in s.out and s.out.split("pops=")[1][:1] not in (" ", "")),
    "C07": _any(lambda s: s.kind in ("put", "putw", "putttl", "putwttl") and "rejected:exists" in s.out),
    "C08": _any(lambda s: s.kind == "upsert" and s.out.startswith("ack")),
    "C09": _any(lambda s: s.kind in ("putttl", "putwttl") or (s.kind == "upsert" and s.toks[5] != "-")),
    "C10": _any(lambda s: s.kind == "sweep" and s.out.strip() != "swept ev="),
    "C11": _any(lambda s: s.kind == "worker"),
    "C12": _any(lambda s: s.kind == "poll" or (s.kind == "ack" and "lr:" in s.ev and ("ss" in s.ev.split() or "sf" in s.ev.split()))),
    "C13": _any(lambda s: s.kind == "shutdown"),
    "C14": _any(lambda s: s.kind in ("consumer", "pure")),
    "C15": _any(lambda s: s.kind == "consumer" or "out:" in s.out),
    "C16": _any(lambda s: s.kind == "stats"),
    "C17": _any(lambda s: s.out.startswith("panic") or s.out.startswith("workerpanic") or s.kind in ("putwttl", "putttl")),
    "C18": _any(lambda s: s.out.startswith("parked") or s.kind == "shutdown" or (s.kind == "locks" and s.toks and s.toks[0] == "edge")),
}

DEPENDS = {
    "C01": ["Weights", "Admission", "Store", "Ticker", "Queue"], "C02": ["Store", "Queue"], "C03": ["Weights", "Admission", "Store", "Ticker"],
    "C04": ["Store", "Weights", "Ticker", "Queue"], "C05": ["Weights", "Store", "Queue"], "C06": ["Sample", "Admission", "Weights", "Sketch"],
    "C07": ["Store", "Queue"], "C08": ["Store", "Ticker", "Weights"], "C09": ["Store"], "C10": ["Ticker", "Weights", "Store"],
    "C11": ["Queue", "Ack"], "C12": ["Ack"], "C13": ["Queue", "Ack", "Store"], "C14": ["Sketch"], "C15": ["Pool", "Sketch", "Stats"],
    "C16": ["Stats"], "C17": ["all"], "C18": ["lock table"],
}
