"""Parsing of harness / model traces (the line protocol of DESIGN.md section 5.2)."""
import re

SNAP_LIST_KEYS = ("store", "kw", "ttl", "acks")


def parse_snap(text):
    """'now=.. store=[..] kw=[..] wu=.. ...' -> dict"""
    out = {}
    for m in re.finditer(r"(\w+)=(\[[^\]]*\]|\S*)", text):
        key, val = m.group(1), m.group(2)
        out[key] = val
    snap = {}
    snap["now"] = int(out.get("now", "0"))
    store = {}
    body = out.get("store", "[]")[1:-1]
    if body:
        for item in body.split(","):
            k, v, i, e, s = item.split(":")
            store[int(k)] = {"value": int(v), "id": int(i), "expiry": None if e == "-" else int(e), "soft": s == "1"}
    snap["store"] = store
    kw = {}
    body = out.get("kw", "[]")[1:-1]
    if body:
        for item in body.split(","):
            i, k, h, w = item.split(":")
            kw[int(i)] = {"key": int(k), "hash": int(h), "weight": int(w)}
    snap["kw"] = kw
    snap["wu"] = int(out.get("wu", "0"))
    ttl = []
    body = out.get("ttl", "[]")[1:-1]
    if body:
        for item in body.split(","):
            sh, i, e = item.split(":")
            ttl.append((int(sh), int(i), int(e)))
    snap["ttl"] = ttl
    snap["q"] = None if out.get("q", "0") == "-" else int(out.get("q", "0"))
    body = out.get("acks", "[]")[1:-1]
    snap["acks"] = body.split(",") if body else []
    snap["incs"] = int(out.get("incs", "0"))
    snap["rows"] = out.get("rows", "").split(";")
    pool = out.get("pool", "")
    snap["pool"] = [[int(x) for x in b.split(".") if x] for b in pool.split("|")]
    snap["bufq"] = None if out.get("bufq", "0") == "-" else int(out.get("bufq", "0"))
    snap["stats"] = [int(x) for x in out.get("stats", "").split(",") if x]
    snap["shut"] = out.get("shut") == "1"
    snap["worker"] = out.get("worker") == "1"
    snap["consumer"] = out.get("consumer") == "1"
    snap["sweeper"] = out.get("sweeper") == "1"
    return snap


def parse_cfg(line):
    cfg = {}
    for tok in line.split()[1:]:
        if "=" in tok:
            k, v = tok.split("=", 1)
            cfg[k.lstrip("#")] = v
    for k in ("max", "shards", "cmdcap", "pool", "buf", "counters", "sample", "bufchan", "ttlentry", "hash", "wbase", "wmod", "now"):
        if k in cfg:
            cfg[k] = int(cfg[k])
    return cfg


def readable(entry, now):
    return entry is not None and not entry["soft"] and not (entry["expiry"] is not None and now > entry["expiry"])


class Step:
    __slots__ = ("ev", "impl", "model", "index", "toks", "out", "snap_text", "_snap")

    def __init__(self, ev, impl, model, index):
        self.ev, self.impl, self.model, self.index = ev, impl, model, index
        self.toks = [t for t in ev.split()[1:] if not t.startswith("#") and "=" not in t]
        body = impl[2:] if impl.startswith("R ") else impl
        if " | " in body:
            self.out, self.snap_text = body.split(" | ", 1)
        else:
            self.out, self.snap_text = body, ""
        # one `next()` of an open iterator is a read of the head key: the monitors see it as the `get` it is (the raw lines
        # `impl` / `model` — what the correspondence compares — are left alone); an iterator that answers "end" reads nothing
        if self.toks[:1] == ["iternext"]:
            if self.out.startswith("iter ") and not self.out.startswith("iter end") and len(self.toks) > 1 and self.toks[1] != "-":
                self.toks = ["get", self.toks[1]]
                self.out = "value " + self.out[len("iter "):]
            else:
                self.toks = ["iterend"] + self.toks[1:]
        self._snap = None

    @property
    def snap(self):
        if self._snap is None:
            self._snap = parse_snap(self.snap_text)
        return self._snap

    @property
    def kind(self):
        if self.ev.startswith("A "):
            return "ack"
        if self.ev.startswith("P "):
            return "pure"
        if self.ev.startswith("L "):
            return "locks"
        if self.ev.startswith("S "):
            return "stress"
        if self.ev.startswith("B "):
            return "b"
        return self.toks[0] if self.toks else "?"


class Case:
    def __init__(self, header):
        self.header = header
        self.cfg_line = None
        self.cfg = {}
        self.init_impl = None
        self.init_model = None
        self.steps = []
        self.notes = []   # '# panic ...', '# hang ...'
        self.layer_b = False
        self.hang = False

    def first_divergence(self):
        if self.init_impl != self.init_model:
            return -1
        for i, st in enumerate(self.steps):
            if st.impl != st.model:
                return i
        return None

    def input_lines(self, upto=None):
        lines = [self.header] + ([self.cfg_line] if self.cfg_line else [])
        steps = self.steps if upto is None else self.steps[: upto + 1]
        lines += [s.ev for s in steps]
        return [l for l in lines if l]


def load_cases(in_path, impl_path, model_path):
    ins = open(in_path).read().splitlines()
    impls = open(impl_path).read().splitlines()
    models = open(model_path).read().splitlines() if model_path else list(impls)
    cases = []
    cur = None
    n = max(len(ins), len(impls))
    for i in range(n):
        il = ins[i] if i < len(ins) else ""
        ml = impls[i] if i < len(impls) else ""
        dl = models[i] if i < len(models) else "<model output missing>"
        if il.startswith("# case"):
            cur = Case(il)
            cases.append(cur)
        elif cur is None:
            continue
        elif il.startswith("C ") or il.startswith("BC "):
            cur.cfg_line = il
            cur.cfg = parse_cfg(il)
            cur.layer_b = il.startswith("BC ")
            cur.init_impl, cur.init_model = ml, dl
        elif il.startswith("E ") or il.startswith("A ") or il.startswith("P ") or il.startswith("L ") or il.startswith("S ") or il.startswith("B "):
            cur.steps.append(Step(il, ml, dl, len(cur.steps)))
        elif il.startswith("#"):
            cur.notes.append(il)
            if il.startswith("# hang") or il.startswith("# engine-start-failed"):
                cur.hang = True
    return cases
