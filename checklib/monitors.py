"""Property predicates evaluated directly on what the implementation did (never on the model's output).

Each monitor walks one Layer A case (checklib.trace.Case) and yields findings
  {"property", "step", "what", "signature"}
A signature names the *cause*, so that a known finding suppresses only itself (DESIGN.md section 6).
"""
import re
from .trace import readable

WRITE_KINDS = ("put", "putw", "putttl", "putwttl", "upsert", "delete")


def ev_weight(cfg, toks):
    """explicit or derived weight of a put-like event (None when it cannot be known from the event alone)"""
    kind = toks[0]
    ttl_entry = cfg.get("ttlentry", 24)
    derived = lambda v, ttl: cfg["wbase"] + (int(v) % cfg["wmod"]) + (ttl_entry if ttl else 0)
    if kind == "put":
        return derived(toks[3], False)
    if kind == "putw":
        return int(toks[4])
    if kind == "putttl":
        return derived(toks[3], True)
    if kind == "putwttl":
        return int(toks[4])
    if kind == "upsert":
        v, w, t = toks[3], toks[4], toks[5]
        if w != "-":
            return int(w)
        if v != "-":
            return derived(v, t != "-")
    return None


def ev_ttl(toks):
    kind = toks[0]
    if kind == "putttl":
        return int(toks[4])
    if kind == "putwttl":
        return int(toks[5])
    if kind == "upsert" and toks[5] != "-":
        return int(toks[5])
    return None


class Walk:
    """Shared bookkeeping over a case: pre/post snapshots, the FIFO of queued commands, acks."""

    def __init__(self, case):
        self.case = case
        self.cfg = case.cfg
        from .trace import parse_snap
        init = case.init_impl or ""
        self.init_snap = parse_snap(init.split(" | ", 1)[1]) if " | " in init else parse_snap("")
        self.call_saw = {}

    def __iter__(self):
        pre = self.init_snap
        fifo = []          # queued commands in send order: {"ev": toks, "handle": h, "step": i} or {"shutdown": True}
        parked = {}        # client -> toks of the parked call
        for st in self.case.steps:
            if st.kind in ("ack", "pure", "locks", "stress", "b"):
                continue
            if st.out.startswith("disabled") or st.out.startswith("hang") or not st.snap_text:
                yield st, pre, pre, fifo, None
                continue
            post = st.snap
            toks = st.toks
            kind = st.kind
            executed = None
            otoks = st.out.split()
            if kind in WRITE_KINDS or kind in ("shutdown", "resume"):
                src = toks
                if kind == "resume":
                    src = parked.get(toks[1], toks)
                if otoks and otoks[0] == "parked":
                    parked[toks[1]] = src
                elif kind == "resume":
                    parked.pop(toks[1], None)
                if kind in WRITE_KINDS:
                    seen = pre["store"].get(int(toks[2]))
                    self.call_saw[tuple(toks)] = (seen["id"] if seen else None, st.index)
                if otoks and otoks[0] == "ack" and otoks[2] == "pending":
                    saw = self.call_saw.get(tuple(src), (None, st.index))
                    fifo.append({"ev": src, "handle": int(otoks[1]), "step": st.index, "saw_id": saw[0], "call_step": saw[1]})
                elif pre["q"] is not None and post["q"] is not None and post["q"] == pre["q"] + 1:
                    fifo.append({"shutdown": True, "step": st.index})
            if kind == "worker" and otoks and otoks[0] in ("worked", "workerpanic"):
                executed = fifo.pop(0) if fifo else None
                if otoks[0] == "workerpanic":
                    del fifo[:]
            yield st, pre, post, fifo, executed
            pre = post


def finding(prop, st, what, signature):
    return {"property": prop, "step": st.index, "what": what, "signature": signature}


def mon_C01(case):
    mx = case.cfg["max"]
    for st, pre, post, fifo, ex in Walk(case):
        if post is pre:
            continue
        if post["wu"] < 0:
            yield finding("C01", st, f"total weight {post['wu']} is negative", f"C01/total-negative/after={cause(st)}")
        if post["wu"] > mx and post["wu"] > pre["wu"]:
            why = cause(st)
            if why == "UpdateWeight":
                # D1 is "the new weight is applied without asking whether it fits": the step must have changed the total by
                # exactly (new charge - old charge) of ONE key id; anything else after an UpdateWeight is another defect
                changed = [(i, e["weight"] - pre["kw"][i]["weight"]) for i, e in post["kw"].items() if i in pre["kw"] and e["weight"] != pre["kw"][i]["weight"]]
                if not (len(changed) == 1 and set(post["kw"]) == set(pre["kw"]) and post["wu"] - pre["wu"] == changed[0][1]):
                    why = "UpdateWeight/not-the-unchecked-update"
            yield finding("C01", st, f"total weight {post['wu']} exceeds the limit {mx}", f"C01/total-exceeds-limit/after={why}")
        if st.kind == "weight":
            reported = int(st.out.split()[1])
            if reported < 0 or (reported > mx and post["wu"] <= mx):
                yield finding("C01", st, f"total_weight_used() = {reported}", "C01/reported-total-out-of-range")


def cause(st):
    o = st.out.split()
    if st.kind == "worker" and len(o) > 1 and o[0] == "worked":
        return o[1]
    return st.kind


def mon_C02(case):
    """Every value a read returns was written to that key, and no overwrite or delete applied after it had completed before the read."""
    writes = {}      # key -> list of (value, step at which the write took effect)
    overwrites = {}  # key -> steps at which the stored value was replaced or removed
    for st, pre, post, fifo, ex in Walk(case):
        if post is pre:
            continue
        t = st.toks
        o = st.out.split()
        if st.kind == "upsert" and t[3] != "-" and o and o[0] in ("ack", "parked", "err") and int(t[2]) in pre["store"] and not pre["shut"]:
            k = int(t[2])
            writes.setdefault(k, []).append((int(t[3]), st.index))
            overwrites.setdefault(k, []).append(st.index)
        if st.kind == "worker" and ex and "ev" in ex and o[0] == "worked" and o[2] == "accepted":
            e = ex["ev"]
            k = int(e[2])
            if o[1] in ("Put", "PutWithTTL"):
                writes.setdefault(k, []).append((int(e[3]), st.index))
                overwrites.setdefault(k, []).append(st.index)
            elif o[1] == "Delete":
                overwrites.setdefault(k, []).append(st.index)
        reads = []
        if st.kind == "get" and o and o[0] == "value":
            reads = [(int(t[1]), o[1] if len(o) > 1 else "-")]
        elif st.kind == "mget" and o and o[0] == "values":
            keys = [] if t[1] == "-" else [int(x) for x in t[1].split(",")]
            vals = o[1].split(",") if len(o) > 1 and o[1] else []
            if vals and len(vals) != len(keys):
                yield finding("C02", st, "multi read returned a different number of results than keys", "C02/multi-read-shape")
            reads = list(zip(keys, vals))
        for k, v in reads:
            if v == "-":
                continue
            v = int(v)
            rec = [w for w in writes.get(k, []) if w[0] == v]
            if not rec:
                yield finding("C02", st, f"read of key {k} returned {v}, which no applied write put there", "C02/foreign-or-unwritten-value")
                continue
            e = pre["store"].get(k)
            if e is not None and not readable(e, pre["now"]):
                why = "soft-deleted" if e["soft"] else "past its deadline"
                yield finding("C02", st, f"read of key {k} (variant {st.ev.split('#v')[-1] if '#v' in st.ev else '?'}) returned {v} from an entry that is {why}: stale, and the other read variants report absent", "C02/value-of-dead-entry")
            eff = rec[-1][1]
            later = [x for x in overwrites.get(k, []) if eff < x < st.index]
            if later:
                yield finding("C02", st, f"read of key {k} returned {v} (applied at step {eff}) although it was overwritten or deleted at step {later[0]}", "C02/stale-value")


def mon_C04(case):
    deleted_ids = {}  # id of an incarnation for which delete() has returned -> step of that call
    for st, pre, post, fifo, ex in Walk(case):
        if post is pre:
            continue
        t, o = st.toks, st.out.split()
        if st.kind == "delete" and o and o[0] in ("ack", "parked", "err") and int(t[2]) in pre["store"] and not pre["shut"]:
            deleted_ids[pre["store"][int(t[2])]["id"]] = st.index
        if st.kind == "worker" and ex and "ev" in ex and ex["ev"][0] == "delete" and o[0] == "worked" and o[1] == "Delete":
            k = int(ex["ev"][2])
            status = o[2]
            was_present = k in pre["store"]
            if was_present:
                e = pre["store"][k]
                w = pre["kw"].get(e["id"], {}).get("weight", 0)
                if status != "accepted":
                    yield finding("C04", st, f"delete of present key {k} answered {status}", "C04/present-key-not-accepted")
                if k in post["store"] or e["id"] in post["kw"] or post["wu"] != pre["wu"] - w:
                    yield finding("C04", st, f"accepted delete of key {k} did not release it completely", "C04/not-released")
                if any(i == e["id"] and x == e["expiry"] for (_, i, x) in post["ttl"]):
                    yield finding("C04", st, f"accepted delete of key {k} left its expiry entry behind", "C04/ttl-entry-left")
            else:
                if status != "rejected:nokey":
                    yield finding("C04", st, f"delete of absent key {k} answered {status}", "C04/absent-key-not-rejected")
                if (post["store"], post["kw"], post["wu"], post["ttl"]) != (pre["store"], pre["kw"], pre["wu"], pre["ttl"]):
                    yield finding("C04", st, f"delete of absent key {k} changed the cache", "C04/absent-delete-changed-state")
        if st.kind == "get" and o and o[0] == "value" and len(o) > 1 and o[1] != "-":
            k = int(t[1])
            e = pre["store"].get(k)
            if e is not None and e["id"] in deleted_ids:
                yield finding("C04", st, f"get({k}) returned {o[1]} of the incarnation (id {e['id']}) whose delete({k}) had returned at step {deleted_ids[e['id']]}", "C04/read-after-delete")


def quiescent(post):
    return post["q"] == 0 and all(a != "pending" for a in post["acks"]) and post["worker"]


def mon_C05(case):
    parked = set()
    for st, pre, post, fifo, ex in Walk(case):
        if post is pre:
            continue
        o = st.out.split()
        if o and o[0] == "parked":
            parked.add(st.toks[1])
        if st.kind == "resume" and o and o[0] != "parked":
            parked.discard(st.toks[1])
        if parked or not quiescent(post):
            continue
        total = sum(e["weight"] for e in post["kw"].values())
        if total != post["wu"]:
            yield finding("C05", st, f"total {post['wu']} differs from the sum of charged weights {total}", f"C05/total-differs-from-sum/after={cause(st)}")
        for i, e in post["kw"].items():
            held = post["store"].get(e["key"])
            if held is None or held["id"] != i:
                yield finding("C05", st, f"id {i} (key {e['key']}, weight {e['weight']}) is charged but the cache does not hold it", f"C05/charged-but-not-held/after={cause(st)}")
        for k, e in post["store"].items():
            if e["id"] not in post["kw"]:
                yield finding("C05", st, f"key {k} (id {e['id']}) is held but not charged", f"C05/held-but-not-charged/after={cause(st)}")


def key_state(pre, k):
    e = pre["store"].get(k)
    if e is None:
        return "absent"
    if e["soft"]:
        return "soft-deleted"
    if e["expiry"] is not None and pre["now"] > e["expiry"]:
        return "expired-unswept"
    return "readable"


def mon_C06(case):
    cfg = case.cfg
    mx = cfg["max"]
    for st, pre, post, fifo, ex in Walk(case):
        if post is pre or st.kind != "worker" or not ex or "ev" not in ex:
            continue
        o = st.out.split()
        if o[0] != "worked" or o[1] not in ("Put", "PutWithTTL"):
            continue
        status = o[2]
        if status == "rejected:exists":
            continue
        w = ev_weight(cfg, ex["ev"])
        if w is None:
            continue
        fields = dict(x.split("=", 1) for x in o[3:] if "=" in x)
        pops = [tuple(int(y) for y in p.split(":")) for p in fields.get("pops", "").split(";") if p]
        evs = [tuple(int(y) for y in p.split(":")) for p in fields.get("ev", "").split(";") if p]
        free = mx - pre["wu"]
        if w > mx:
            if status != "rejected:tooheavy" or post["kw"] != pre["kw"] or post["wu"] != pre["wu"]:
                yield finding("C06", st, f"put of weight {w} > limit {mx}: status {status}", "C06/too-heavy-not-rejected")
            continue
        if w <= free:
            if status != "accepted" or pops or evs or post["wu"] != pre["wu"] + w:
                yield finding("C06", st, f"put of weight {w} fits in free space {free}: status {status}, evicted {evs}", "C06/fitting-put-not-plainly-accepted")
            continue
        inc = int(fields.get("inc", "0")) if fields.get("inc", "-") != "-" else None
        space = free
        evicted_ids = [e[0] for e in evs]
        # the rule's sample: eviction starts from a sample of `sample` resident keys (all of them when fewer are resident);
        # the ids it was filled with are tapped (`ids=` of the event)
        tapped = [t for t in st.ev.split() if t.startswith("ids=")]
        sampled = [x for x in tapped[0][4:].split(",") if x] if tapped else None
        want = min(cfg.get("sample", 5), len(pre["kw"]))
        if sampled is not None and len(set(sampled)) < want:
            yield finding("C06", st, f"eviction started from a sample of {len(set(sampled))} key(s) although {len(pre['kw'])} are resident (the rule samples {cfg.get('sample', 5)})", "C06/sample-smaller-than-rule")
        for n, (pid, pw, pest) in enumerate(pops):
            if space >= w:
                yield finding("C06", st, f"victim {pid} taken although {space} already suffices for {w}", "C06/evicted-beyond-need")
            if pid in evicted_ids:
                if inc is not None and pest > inc:
                    yield finding("C06", st, f"victim {pid} with estimate {pest} evicted by a key with estimate {inc}", "C06/hotter-key-evicted")
                space += pw
            else:
                if n != len(pops) - 1:
                    yield finding("C06", st, f"popped key {pid} was spared but eviction went on", "C06/spared-key-not-last")
                if inc is not None and not (inc < pest) and pid in pre["kw"]:
                    yield finding("C06", st, f"candidate {pid} with estimate {pest} <= {inc} was not evicted", "C06/colder-key-spared")
        for a, b in zip(pops, pops[1:]):
            if a[0] in evicted_ids and b[2] < a[2] and False:
                pass
        if status == "rejected:nospace" and not pops and pre["kw"]:
            # the rule evicts one at a time for as long as the coldest candidate is no hotter than the incoming key: a put
            # that does not fit can only be refused after at least one resident key was considered (popped) and spared
            yield finding("C06", st, f"put of weight {w} (free {free}, {len(pre['kw'])} resident keys) refused without any candidate having been considered", "C06/rejected-without-considering-a-victim")
        if (status == "accepted") != (space >= w):
            yield finding("C06", st, f"status {status} with {space} free after evictions for weight {w}", "C06/status-disagrees-with-space")
        if status == "accepted" and post["wu"] != pre["wu"] - sum(e[2] for e in evs) + w:
            yield finding("C06", st, "total after the put does not add up", "C06/total-after-put")
        if status not in ("accepted", "rejected:nospace"):
            yield finding("C06", st, f"unexpected status {status}", "C06/unexpected-status")


def absent_state(pre, k):
    """key_state, with the expired-but-physically-present state split in two: the entry is still in the expiry
    index (the sweeper WILL remove it: the transient state of known finding D3) or it is not (nothing will ever
    remove it: the key is unreadable and un-puttable for good — a different failure)"""
    state = key_state(pre, k)
    if state == "expired-unswept":
        e = pre["store"][k]
        if not any(i == e["id"] and x == e["expiry"] for (_, i, x) in pre["ttl"]):
            return "expired-unsweepable"
    return state


def mon_C07(case):
    for st, pre, post, fifo, ex in Walk(case):
        if post is pre:
            continue
        o = st.out.split()
        if st.kind in ("put", "putw", "putttl", "putwttl") and o and o[0] == "ack":
            k = int(st.toks[2])
            state = absent_state(pre, k)
            exists = o[2] == "rejected:exists"
            if state == "readable":
                if not exists:
                    yield finding("C07", st, f"put of readable key {k} answered {o[2]}", "C07/readable-key-not-rejected")
                if (post["store"], post["kw"], post["wu"], post["ttl"]) != (pre["store"], pre["kw"], pre["wu"], pre["ttl"]):
                    yield finding("C07", st, f"rejected put of readable key {k} changed the cache", "C07/rejected-put-changed-state")
            elif exists and state != "soft-deleted":
                yield finding("C07", st, f"put of key {k} that reads as absent ({state}) rejected with 'key already exists'", f"C07/key-already-exists/state={state}")
        if st.kind == "worker" and ex and "ev" in ex and o[0] == "worked" and o[1] in ("Put", "PutWithTTL") and o[2] == "rejected:exists":
            k = int(ex["ev"][2])
            state = absent_state(pre, k)
            if state not in ("readable", "soft-deleted"):
                yield finding("C07", st, f"queued put of key {k} that reads as absent ({state}) rejected with 'key already exists'", f"C07/key-already-exists/state={state}")
        if st.kind == "worker" and ex and "ev" in ex and o[0] == "worked" and o[1] in ("Put", "PutWithTTL") and o[2] == "accepted":
            k = int(ex["ev"][2])
            if key_state(pre, k) == "readable":
                yield finding("C07", st, f"queued put of key {k} overwrote a readable entry", "C07/put-overwrote")


def mon_C08(case):
    cfg = case.cfg
    for st, pre, post, fifo, ex in Walk(case):
        if post is pre:
            continue
        o = st.out.split()
        if st.kind == "upsert" and o and o[0] in ("ack", "parked"):
            t = st.toks
            k = int(t[2])
            v, w, ttl, rm = t[3], t[4], t[5], t[6] == "1"
            state = key_state(pre, k)
            e0, e1 = pre["store"].get(k), post["store"].get(k)
            if state == "readable":
                if e1 is None:
                    yield finding("C08", st, f"upsert of readable key {k} removed it", "C08/readable-key-removed")
                    continue
                want_value = int(v) if v != "-" else e0["value"]
                if e1["value"] != want_value:
                    yield finding("C08", st, f"value after upsert is {e1['value']}, requested {want_value}", "C08/value-not-as-requested")
                if rm:
                    want_exp = None
                elif ttl != "-":
                    want_exp = pre["now"] + int(ttl)
                else:
                    want_exp = e0["expiry"]
                if e1["expiry"] != want_exp:
                    yield finding("C08", st, f"expiry after upsert is {e1['expiry']}, requested {want_exp}", "C08/expiry-not-as-requested")
                if e1["id"] != e0["id"] or e1["soft"]:
                    yield finding("C08", st, "upsert changed the identity of the entry", "C08/identity-changed")
                has_entry = any(i == e1["id"] and x == e1["expiry"] for (_, i, x) in post["ttl"])
                if (e1["expiry"] is not None) != has_entry and e1["id"] in post["kw"]:
                    yield finding("C08", st, "expiry index does not follow the upsert", "C08/ttl-index-not-updated")
            elif state in ("expired-unswept", "soft-deleted"):
                if o[0] == "ack" and e1 is not None and (v != "-" or ttl != "-" or rm or w != "-"):
                    yield finding("C08", st, f"upsert of key {k} that reads as absent ({state}) updated the dead entry in place instead of acting as a put", f"C08/upsert-on-dead-entry/state={state}")
            else:
                if o[0] == "ack" and o[2] != "pending":
                    yield finding("C08", st, f"upsert of absent key {k} answered on the spot with {o[2]}", "C08/absent-key-answered-on-the-spot")
        if st.kind == "worker" and ex and "ev" in ex and ex["ev"][0] == "upsert" and o[0] == "worked":
            t = ex["ev"]
            if o[1] == "UpdateWeight" and t[4] != "-" and o[2] == "accepted":
                k = int(t[2])
                e = post["store"].get(k)
                if e is not None and e["id"] == ex.get("saw_id") and e["id"] in post["kw"] and e["id"] in pre["kw"] and post["kw"][e["id"]]["weight"] != int(t[4]):
                    # only when no later upsert is queued behind it for the same id
                    yield finding("C08", st, f"explicit weight {t[4]} is not the charged weight after acknowledgement", "C08/explicit-weight-not-charged")


def mon_C09(case):
    deadline = {}   # key id -> deadline (None = never) as derived from the operations, independent of the store's own field
    for st, pre, post, fifo, ex in Walk(case):
        if post is pre:
            continue
        o = st.out.split()
        t = st.toks
        if st.kind == "worker" and ex and "ev" in ex and o[0] == "worked" and o[2] == "accepted" and o[1] in ("Put", "PutWithTTL"):
            k = int(ex["ev"][2])
            e = post["store"].get(k)
            ttl = ev_ttl(ex["ev"])
            if e is not None:
                deadline[e["id"]] = (pre["now"] + ttl) if ttl is not None else None
        if st.kind == "upsert" and o and (o[0] in ("ack", "parked", "err") or o[:2] in (["panic", "weight-not-positive"], ["panic", "weight-overflow"])) and not pre["shut"]:
            k = int(t[2])
            e = pre["store"].get(k)
            if e is not None:
                if t[6] == "1":
                    deadline[e["id"]] = None
                elif t[5] != "-":
                    deadline[e["id"]] = pre["now"] + int(t[5])
        reads = []
        if st.kind == "get" and o and o[0] == "value":
            reads = [(int(t[1]), o[1] if len(o) > 1 else "-")]
        elif st.kind == "mget" and o and o[0] == "values" and len(o) > 1 and o[1]:
            keys = [] if t[1] == "-" else [int(x) for x in t[1].split(",")]
            reads = list(zip(keys, o[1].split(",")))
        for k, v in reads:
            e = pre["store"].get(k)
            if e is None or e["id"] not in deadline:
                continue
            d = deadline[e["id"]]
            expired = d is not None and pre["now"] > d
            if v != "-" and expired:
                yield finding("C09", st, f"key {k} served {pre['now'] - d} ns after its deadline", "C09/expired-value-served")
            if v == "-" and not expired and not e["soft"] and not pre["shut"]:
                yield finding("C09", st, f"key {k} hidden although its deadline {d} has not passed (now {pre['now']})", "C09/live-value-hidden")
        if st.kind == "sweep":
            for k, e in pre["store"].items():
                if k not in post["store"] and e["id"] in deadline and not post["shut"]:
                    d = deadline[e["id"]]
                    if d is None or pre["now"] <= d:
                        yield finding("C09", st, f"key {k} was removed by the sweeper although its deadline ({d}) has not passed (now {pre['now']}): hidden by expiry before its time", "C09/live-value-hidden-by-sweep")
        for k, e in post["store"].items():
            if e["id"] in deadline and e["expiry"] != deadline[e["id"]]:
                yield finding("C09", st, f"stored expiry {e['expiry']} of key {k} differs from the deadline {deadline[e['id']]} implied by the operations", "C09/stored-deadline-wrong")
                deadline[e["id"]] = e["expiry"]


def mon_C10(case):
    shards = case.cfg["shards"]
    lost = False
    for st, pre, post, fifo, ex in Walk(case):
        if post is not pre and not post["shut"] and not lost:
            # liveness side, call-atomic histories: every call updates store and index within ONE step, so after every step a
            # held, charged key whose own deadline has passed must be within reach of the sweeper — its id in the expiry index
            # under its deadline; otherwise no sweep will ever reclaim it (`TtlInv`; Layer B has the same clause with causes)
            for k, e in post["store"].items():
                if e["expiry"] is not None and post["now"] > e["expiry"] and e["id"] in post["kw"] and not any(i == e["id"] for (_sh, i, _x) in post["ttl"]):
                    lost = True
                    yield finding("C10", st, f"key {k} (id {e['id']}) has expired (deadline {e['expiry']}, clock {post['now']}) and is still held and charged, but the expiry index has no entry for its id: no sweep will ever remove it", "C10/expired-key-unsweepable/layerA")
                    break
        if post is pre or st.kind != "sweep" or not st.out.startswith("swept"):
            continue
        now = pre["now"]
        shard = (now // 1_000_000_000) % shards
        for k, e in pre["store"].items():
            gone = k not in post["store"]
            due = e["expiry"] is not None and now > e["expiry"] and (e["expiry"] // 1_000_000_000) % shards == shard
            indexed = any(sh == shard and i == e["id"] and x == e["expiry"] for (sh, i, x) in pre["ttl"])
            charged = e["id"] in pre["kw"]
            if gone and not (e["expiry"] is not None and now > e["expiry"]):
                why = "has no time-to-live" if e["expiry"] is None else "expires in the future"
                yield finding("C10", st, f"sweep removed key {k} which {why}", "C10/unexpired-key-removed")
            if due and indexed and charged and not gone:
                yield finding("C10", st, f"sweep of shard {shard} left expired key {k}", "C10/expired-key-left")
            if gone and charged:
                w = pre["kw"][e["id"]]["weight"]
                if e["id"] in post["kw"]:
                    yield finding("C10", st, f"swept key {k} is still charged", "C10/weight-not-reclaimed")
        want = pre["wu"] - sum(pre["kw"][i]["weight"] for i in pre["kw"] if i not in post["kw"])
        if post["wu"] != want:
            yield finding("C10", st, f"total after sweep is {post['wu']}, expected {want}", "C10/total-after-sweep")
        for (sh, i, x) in post["ttl"]:
            if sh == shard and now > x:
                yield finding("C10", st, f"expired entry ({i},{x}) left in the swept shard", "C10/expired-entry-left")
        for (sh, i, x) in pre["ttl"]:
            if not (sh == shard and now > x) and (sh, i, x) not in post["ttl"]:
                yield finding("C10", st, f"sweep dropped an entry that was not due: ({sh},{i},{x})", "C10/undue-entry-dropped")


def mon_C11(case):
    completed = []
    for st, pre, post, fifo, ex in Walk(case):
        if post is pre:
            continue
        o = st.out.split()
        if st.kind == "worker" and o[0] == "worked":
            if post["q"] is not None and pre["q"] is not None and post["q"] != pre["q"] - 1:
                yield finding("C11", st, f"queue length went from {pre['q']} to {post['q']} in one worker step", "C11/not-one-at-a-time")
            newly = [i for i, (a, b) in enumerate(zip(pre["acks"], post["acks"])) if a == "pending" and b != "pending"]
            if ex and "handle" in ex:
                if newly != [ex["handle"]]:
                    yield finding("C11", st, f"worker completed handles {newly}, the oldest queued command has handle {ex['handle']}", "C11/out-of-order-or-duplicate")
                completed.append(ex["handle"])
            elif newly:
                yield finding("C11", st, f"worker completed handles {newly} for a command without a handle", "C11/out-of-order-or-duplicate")
        elif st.kind != "worker":
            changed = [i for i, (a, b) in enumerate(zip(pre["acks"], post["acks"])) if a != b]
            if changed:
                yield finding("C11", st, f"acknowledgements {changed} changed outside a worker step", "C11/ack-changed-outside-worker")
        for i, (a, b) in enumerate(zip(pre["acks"], post["acks"])):
            if a != "pending" and a != b:
                yield finding("C11", st, f"acknowledgement {i} changed from {a} to {b}", "C11/ack-not-stable")
    # a put followed, without awaiting, by a delete of the same key leaves the key absent once both are applied
    steps = case.steps
    for i in range(len(steps) - 1):
        a, b = steps[i], steps[i + 1]
        if a.kind in ("put", "putw", "putttl", "putwttl") and b.kind == "delete" and a.toks[2] == b.toks[2] and a.out.startswith("ack") and a.out.split()[2] == "pending" and b.out.startswith("ack"):
            k = int(a.toks[2])
            hb = int(b.out.split()[1])
            for later in steps[i + 2:]:
                if later.kind in WRITE_KINDS and later.toks[2] == a.toks[2]:
                    break
                snap = later.snap
                if later.snap_text and hb < len(snap["acks"]) and snap["acks"][hb] != "pending":
                    if k in snap["store"] and snap["acks"][hb] != "shuttingdown":
                        yield finding("C11", later, f"key {k} is present after put({k}) and delete({k}) were both applied", "C11/delete-after-put-lost")
                    break


def ack_fields(out):
    return dict(x.split("=", 1) for x in out.split()[1:] if "=" in x)


def mon_C12_ack(case):
    for st in case.steps:
        if st.kind != "ack":
            continue
        head, _, acts = st.ev[2:].partition("|")
        final = head.split()[0]
        acts = acts.split()
        f = ack_fields(st.out)
        pollers = f.get("results", "").split("|")
        for p, res in enumerate(pollers):
            rs = [r for r in res.split(",") if r]
            for r in rs:
                if r == "ready:pending":
                    yield finding("C12", st, f"poll of task {p} returned Ready(Pending) under schedule {' '.join(acts)}", "C12/ready-pending")
                elif r.startswith("ready:") and r != "ready:" + final:
                    yield finding("C12", st, f"poll returned {r} but done() was given {final}", "C12/wrong-status")
            seen_ready = False
            for r in rs:
                if r.startswith("ready:"):
                    seen_ready = True
                elif seen_ready:
                    yield finding("C12", st, f"task {p} saw Pending after Ready: {rs}", "C12/not-stable")
        if f.get("cpc") == "finished":
            wakes = [w for w in f.get("wakes", "").split(",") if w]
            regs_before = []
            for a in acts:
                if a == "w":
                    break
                if a.startswith("lr:"):
                    regs_before.append(a.split(":")[2])
            want = regs_before[-1:]
            if wakes != want:
                yield finding("C12", st, f"done() woke {wakes}, the last waker registered before the wake section was {want}", "C12/wrong-or-missing-wake")
            if f.get("flag") != "1" or f.get("status") != final:
                yield finding("C12", st, "done() finished without publishing flag and status", "C12/not-published")
        # a poll that resolved implies the status cell already holds the real status
        if any("ready:" in r for r in pollers) and f.get("status") != final:
            yield finding("C12", st, "a poll resolved before the status was stored", "C12/resolved-before-status")


def mon_C13_ack(case):
    """C13 on the acknowledgement slice: whatever status the worker (or its drain loop) publishes, the task that is
    awaiting the acknowledgement — the last one that registered a waker before `done()` wakes — is woken, and a poll
    after `done()` resolves: no caller waits for ever."""
    for st in case.steps:
        if st.kind != "ack":
            continue
        head, _, acts = st.ev[2:].partition("|")
        final = head.split()[0]
        acts = acts.split()
        f = ack_fields(st.out)
        if f.get("cpc") != "finished":
            continue
        wakes = [w for w in f.get("wakes", "").split(",") if w]
        regs_before = []
        for a in acts:
            if a == "w":
                break
            if a.startswith("lr:"):
                regs_before.append(a.split(":")[2])
        want = regs_before[-1:]
        if want and want[0] not in wakes:
            yield finding("C13", st, f"done({final}) woke {wakes}: the task awaiting with waker {want[0]} is never woken and waits for ever", "C13/awaiting-task-never-woken")
        if f.get("flag") != "1" or f.get("status") != final:
            yield finding("C13", st, f"done({final}) finished without publishing flag and status", "C13/ack-not-resolved")


def mon_C12(case):
    yield from mon_C12_ack(case)
    for st, pre, post, fifo, ex in Walk(case):
        if post is pre or st.kind != "poll":
            continue
        h = int(st.toks[1])
        o = st.out.split()
        cell = pre["acks"][h] if h < len(pre["acks"]) else None
        if cell is None or len(o) < 2:
            continue
        if cell != "pending" and o[1] != cell:
            yield finding("C12", st, f"poll of a completed acknowledgement returned {o[1]}, its status is {cell}", "C12/poll-disagrees-with-status")
        if cell == "pending" and o[1] != "pending":
            yield finding("C12", st, f"poll returned {o[1]} before the command was executed", "C12/resolved-early")
    if case.steps and not case.hang:
        end = case.steps[-1].snap
        if end["q"] == 0 and end["worker"]:
            for i, a in enumerate(end["acks"]):
                if a == "pending":
                    yield finding("C12", case.steps[-1], f"acknowledgement {i} is still pending although the queue is drained", "C12/never-resolved")


def mon_C13(case):
    shut_done = False
    for st, pre, post, fifo, ex in Walk(case):
        if post is pre:
            continue
        o = st.out.split()
        if st.kind in ("shutdown", "resume") and o and o[0] == "none" and post["shut"]:
            src_is_shutdown = st.kind == "shutdown" or True
            if src_is_shutdown and post["shut"] and not any(True for _ in ()):
                pass
        if pre["shut"] and shutdown_returned(case, st.index):
            if st.kind in WRITE_KINDS and o and o[0] not in ("err", "panic"):
                yield finding("C13", st, f"{st.kind} after shutdown() returned answered {st.out}", "C13/write-after-shutdown")
            if st.kind == "get" and o and o[0] == "value" and len(o) > 1 and o[1] != "-":
                yield finding("C13", st, f"get after shutdown() returned {o[1]}", "C13/read-after-shutdown")
            if st.kind == "mget" and o and o[0] == "values" and len(o) > 1 and o[1]:
                yield finding("C13", st, f"multi read after shutdown() returned {o[1]}", "C13/read-after-shutdown")
    if case.steps and not case.hang:
        end = case.steps[-1].snap
        if end["shut"] and end["q"] == 0 and end["worker"]:
            for i, a in enumerate(end["acks"]):
                if a == "pending":
                    yield finding("C13", case.steps[-1], f"acknowledgement {i} was never answered although the worker drained the queue after shutdown", "C13/pending-after-shutdown")


def shutdown_returned(case, index):
    """True iff some shutdown() call had returned before step `index`."""
    parked_shutdown = set()
    for st in case.steps[:index]:
        o = st.out.split()
        if st.kind == "shutdown" and o:
            if o[0] == "none":
                return True
            if o[0] == "parked":
                parked_shutdown.add(st.toks[1])
        if st.kind == "resume" and o and st.toks[1] in parked_shutdown and o[0] == "none":
            return True
    return False


def mon_C15(case):
    for st, pre, post, fifo, ex in Walk(case):
        if post is pre or len(post["stats"]) < 10:
            continue
        if post["shut"]:
            continue
        hits, added, dropped = post["stats"][0], post["stats"][8], post["stats"][9]
        buffered = sum(len(b) for b in post["pool"])
        if hits != buffered + added + dropped:
            yield finding("C15", st, f"hits {hits} != buffered {buffered} + delivered {added} + dropped {dropped}", "C15/records-not-conserved")
        if st.kind in ("get", "mget"):
            dh = post["stats"][0] - pre["stats"][0]
            o = st.out.split()
            got = 0
            if o[0] == "value":
                got = 1 if len(o) > 1 and o[1] != "-" else 0
            elif o[0] == "values" and len(o) > 1 and o[1]:
                got = sum(1 for v in o[1].split(",") if v != "-")
            if dh != got:
                yield finding("C15", st, f"{got} successful reads but the hit counter moved by {dh}", "C15/hit-not-counted-once")
            moved = (sum(len(b) for b in post["pool"]) + post["stats"][8] + post["stats"][9]) - (sum(len(b) for b in pre["pool"]) + pre["stats"][8] + pre["stats"][9])
            if moved != got:
                yield finding("C15", st, f"{got} successful reads produced {moved} access records", "C15/record-count")
            if o[0] == "hang":
                yield finding("C15", st, "a read did not return", "C15/read-blocked")
        if st.kind == "consumer" and st.out.startswith("consumed") and pre["bufq"] is not None and post["bufq"] is not None:
            # every record of every buffer the consumer takes off its queue is applied to the sketch (one doorkeeper
            # `add_if_missing` per record: the tapped answers of this step) — "delivered" must not mean "thrown away"
            taken = pre["bufq"] - post["bufq"]
            applied = 0
            for tok in st.ev.split():
                if tok.startswith("dkadd="):
                    applied = len([x for x in tok[6:].split(",") if x != ""])
            size = case.cfg.get("buf", 0)
            if taken >= 1 and size and applied != taken * size:
                yield finding("C15", st, f"the consumer took {taken} buffer(s) of {size} record(s) off its queue but applied {applied} record(s) to the sketch", "C15/delivered-records-not-applied")


def mon_C16(case):
    for st in case.steps:
        if st.kind == "pure" and st.toks and st.toks[0] == "ratio" and "mismatch" in st.out:
            yield finding("C16", st, f"hit ratio after {st.toks[1]} hits and {st.toks[2]} misses: {st.out}", "C16/hit-ratio")
    lookups = 0
    refused = 0
    cleared = False
    for st, pre, post, fifo, ex in Walk(case):
        if post is pre or len(post["stats"]) < 10:
            continue
        o = st.out.split()
        if post["shut"]:
            cleared = True
        if cleared:
            continue
        if st.kind == "get" and o[0] == "value":
            lookups += 1
        if st.kind == "mget" and o[0] == "values":
            lookups += 0 if st.toks[1] == "-" else len(st.toks[1].split(","))
        if st.kind == "worker" and o[0] == "worked" and o[1] in ("Put", "PutWithTTL") and o[2] in ("rejected:nospace", "rejected:tooheavy"):
            refused += 1
        s = post["stats"]
        if s[0] + s[1] != lookups:
            yield finding("C16", st, f"hits {s[0]} + misses {s[1]} != lookups {lookups}", "C16/hits-plus-misses")
        if st.kind == "stats":
            if "ratio-mismatch" in st.out:
                yield finding("C16", st, f"hit ratio reported as {st.out.split('ratio-mismatch:')[1]}", "C16/hit-ratio")
            reported = [int(x) for x in o[1].split(",")]
            if reported != s:
                yield finding("C16", st, "stats_summary() differs from the counters", "C16/summary-differs")
        if not quiescent(post):
            continue
        if s[2] - s[3] != len(post["store"]):
            yield finding("C16", st, f"keys added {s[2]} - deleted {s[3]} != keys held {len(post['store'])}", "C16/keys-added-minus-deleted")
        if (s[6] - s[7]) % (1 << 64) != post["wu"] % (1 << 64):
            yield finding("C16", st, f"weight added {s[6]} - removed {s[7]} != total {post['wu']}", "C16/weight-added-minus-removed")
        if s[5] != refused:
            yield finding("C16", st, f"keys rejected {s[5]} != puts refused by admission {refused}", "C16/keys-rejected")


def mon_C17(case):
    cfg = case.cfg
    for st, pre, post, fifo, ex in Walk(case):
        o = st.out.split()
        if not o:
            continue
        if o[0] == "panic":
            site = o[1]
            if site == "weight-not-positive":
                w = ev_weight(cfg, st.toks)
                if w is not None and w <= 0:
                    continue    # documented precondition: positive weights
                t = st.toks
                if st.kind == "upsert" and t[6] == "1" and t[4] == "-":
                    held = pre["store"].get(int(t[2]))
                    charged = pre["kw"].get(held["id"], {}).get("weight") if held else None
                    if charged is not None and charged <= cfg.get("ttlentry", 24):
                        yield finding("C17", st, "removing the time-to-live of a light key panics in the caller (existing weight - 24 <= 0) after the store was changed", "C17/caller-panic/site=ttl-removal-weight")
                    else:
                        yield finding("C17", st, f"removing the time-to-live of a key charged {charged} panicked in the caller", "C17/caller-panic/site=ttl-removal-weight/charge-above-24")
                    continue
            if site == "upsert-value-missing":
                continue        # documented precondition: a well-formed upsert of an absent key carries a value
            if site == "time-overflow" and ev_ttl(st.toks) is not None:
                yield finding("C17", st, "now + time_to_live overflows in the caller", "C17/caller-panic/site=time-overflow")
                continue
            if site == "weight-overflow" and st.kind == "upsert":
                yield finding("C17", st, "existing weight + 24 overflows i64 in the caller", "C17/caller-panic/site=weight-overflow")
                continue
            if site in ("time-overflow", "weight-overflow"):
                yield finding("C17", st, f"{site} in the caller of a {st.kind}", f"C17/caller-panic/site={site}/call={st.kind}")
                continue
            yield finding("C17", st, f"call panicked: {st.out}", f"C17/caller-panic/site={site}")
        if o[0] == "workerpanic":
            cmd = "?"
            if ex and "ev" in ex:
                kind = ex["ev"][0]
                if kind == "delete":
                    cmd = "Delete"
                elif kind == "upsert" and ex.get("saw_id") is not None:
                    cmd = "UpdateWeight"
                else:
                    cmd = "PutWithTTL" if ev_ttl(ex["ev"]) is not None else "Put"
            yield finding("C17", st, f"the command worker died executing {cmd}: {o[1]}", f"C17/worker-died/site={o[1]}/cmd={cmd}")
        if post is not pre:
            if pre["consumer"] and not post["consumer"] and not post["shut"]:
                yield finding("C17", st, "the access-count consumer died", "C17/consumer-died")
            if pre["sweeper"] and not post["sweeper"] and not post["shut"]:
                yield finding("C17", st, "the sweeper died", "C17/sweeper-died")
    for note in case.notes:
        if note.startswith("# panic") and "thread=c" not in note and "thread=<unnamed>" in note:
            pass


def mon_C18(case):
    if case.hang:
        st = case.steps[-1] if case.steps else None
        what = "; ".join(n for n in case.notes if n.startswith("# hang") or n.startswith("# engine"))
        yield {"property": "C18", "step": st.index if st else 0, "what": f"a call or background step did not return: {what} {st.out if st else ''}", "signature": "C18/hang"}


def mon_C03(case):
    """Only meaningful on cases whose total demanded weight fits (profile nopressure): no key is ever lost."""
    cfg = case.cfg
    if "nopressure" not in case.header:
        return
    expect = {}   # key -> value expected to be readable (set on acknowledged accepted, cleared on delete / ttl ops)
    inflight = {}  # key -> number of unacknowledged writes
    for st, pre, post, fifo, ex in Walk(case):
        if post is pre:
            continue
        o = st.out.split()
        t = st.toks
        if st.kind == "worker" and o[0] == "worked" and o[1] in ("Put", "PutWithTTL") and o[2] in ("rejected:nospace",):
            yield finding("C03", st, "a put was refused for lack of space although the demanded weight fits the cache", "C03/refused-without-pressure")
        if st.kind == "worker" and o[0] == "worked" and "ev=" in st.out and st.out.split("ev=")[1].strip():
            yield finding("C03", st, f"eviction without memory pressure: {st.out}", "C03/evicted-without-pressure")
        if st.kind in WRITE_KINDS and o and o[0] == "ack":
            k = int(t[2])
            if o[2] == "pending":
                inflight[k] = inflight.get(k, 0) + 1
        if st.kind == "worker" and ex and "ev" in ex and o[0] == "worked":
            k = int(ex["ev"][2])
            inflight[k] = max(0, inflight.get(k, 0) - 1)
        if st.kind == "get" and o[0] == "value" and not pre["shut"]:
            k = int(t[1])
            e = pre["store"].get(k)
            # the key was accepted and is neither deleted nor expired, nothing in flight on it: it must be readable
            if e is not None and not e["soft"] and inflight.get(k, 0) == 0 and not (e["expiry"] is not None and pre["now"] > e["expiry"]):
                if len(o) < 2 or o[1] == "-":
                    yield finding("C03", st, f"accepted key {k} is not readable without memory pressure", "C03/lost-without-pressure")
        # a key may leave the store only through delete, expiry, or shutdown
        for k in pre["store"]:
            if k not in post["store"] and not post["shut"]:
                e = pre["store"][k]
                legit = (st.kind == "worker" and o[0] == "worked" and o[1] == "Delete") or (e["expiry"] is not None and pre["now"] > e["expiry"] and st.kind == "sweep")
                if not legit:
                    yield finding("C03", st, f"key {k} left the cache through {st.kind} without delete, expiry or pressure", "C03/spurious-loss")


def nibbles(hexrow):
    out = []
    for i in range(0, len(hexrow), 2):
        b = int(hexrow[i:i + 2], 16)
        out += [b & 15, b >> 4]
    return out


def mon_C14_pure(case):
    """The property itself, recomputed independently, on the exhaustive byte tables."""
    for st in case.steps:
        if st.kind != "pure" or not st.toks:
            continue
        t = st.toks
        o = st.out.split()
        if t[0] == "row.inc":
            before = nibbles(t[1]); pos = int(t[2])
            if pos >= len(before):
                if o[0] != "panic":
                    yield finding("C14", st, "increment beyond the row did not fail", "C14/out-of-bounds-accepted")
                continue
            if o[0] != "row":
                yield finding("C14", st, f"increment at a valid position failed: {st.out}", "C14/increment-failed")
                continue
            after = nibbles(o[1])
            want = list(before); want[pos] = min(before[pos] + 1, 15)
            if after != want:
                which = "the incremented counter" if after[pos] != want[pos] else "another counter"
                yield finding("C14", st, f"increment of counter {pos} in {t[1]} gave {o[1]}: {which} is wrong", "C14/increment-wrong" if after[pos] != want[pos] else "C14/increment-disturbs-neighbour")
        elif t[0] == "row.half" and o[0] == "row":
            if nibbles(o[1]) != [c // 2 for c in nibbles(t[1])]:
                yield finding("C14", st, f"ageing of {t[1]} gave {o[1]}", "C14/halving-wrong")
        elif t[0] == "row.get" and o[0] == "val":
            before = nibbles(t[1]); pos = int(t[2])
            if pos < len(before) and int(o[1]) != before[pos]:
                yield finding("C14", st, f"counter {pos} of {t[1]} read as {o[1]}", "C14/read-wrong")
        elif t[0] == "np2" and o[0] == "val":
            c, v = int(t[1]), int(o[1])
            if v < 2 or v & (v - 1) or v < c or (c >= 2 and v >= 2 * c):
                yield finding("C14", st, f"next_power_2({c}) = {v}", "C14/next-power-of-two")


def _oracle_bits(ev, name):
    m = re.search(r"\b" + name + r"=([01,]*)", ev)
    return [int(x) for x in m.group(1).split(",") if x != ""] if m else []


def mon_C14(case):
    """Within the whole-cache runs: counters never wrap (rows only grow inside an ageing window), and ageing clears the
    first-access filter: with nothing set since the last ageing, the filter must answer "absent" (a Bloom filter has
    false positives only once some bit is set) — so the access right after ageing is filtered, not counted, and an
    estimate taken right after ageing carries no +1.  The ageing instants are recomputed here from the configured
    counter count and the number of recorded accesses; nothing is taken from the model."""
    yield from mon_C14_pure(case)
    reset_at = max(int(case.cfg.get("counters", 0) or 0), 1)      # TinyLFU::new: reset_counters_at = counters (not rounded up)
    incs = 0
    empty = True           # nothing set in the filter since it was created / last cleared
    told = set()
    for st, pre, post, fifo, ex in Walk(case):
        if post is pre:
            continue
        if post["shut"] or pre["shut"]:
            break
        if st.kind == "worker":
            answers = _oracle_bits(st.ev, "dk")
            if empty and any(answers) and "has" not in told:
                told.add("has")
                yield finding("C14", st, "the first-access filter answered 'present' although nothing was recorded since the last ageing", "C14/filter-not-cleared")
            continue
        if st.kind != "consumer":
            continue
        aged = False
        for added in _oracle_bits(st.ev, "dkadd"):
            if empty and not added and "add" not in told:
                told.add("add")
                yield finding("C14", st, "the access right after ageing was counted instead of filtered: the first-access filter was not cleared", "C14/filter-not-cleared")
            empty = False
            incs += 1
            if incs >= reset_at:
                incs, empty, aged = 0, True, True
        if incs != post["incs"] and "incs" not in told:
            told.add("incs")
            yield finding("C14", st, f"{post['incs']} recorded accesses in the window, {incs} expected for ageing every {reset_at}", "C14/ageing-instant-wrong")
            incs = post["incs"]
        if not aged:
            for a, b in zip(pre["rows"], post["rows"]):
                if any(int(y, 16) < int(x, 16) for x, y in zip(a, b)):
                    yield finding("C14", st, f"a counter decreased without ageing: {a} -> {b}", "C14/counter-decreased")
                    break


_SEQ = {
    "C01": mon_C01, "C02": mon_C02, "C03": mon_C03, "C04": mon_C04, "C05": mon_C05, "C06": mon_C06,
    "C07": mon_C07, "C08": mon_C08, "C09": mon_C09, "C10": mon_C10, "C11": mon_C11, "C12": mon_C12,
    "C13": mon_C13, "C14": mon_C14, "C15": mon_C15, "C16": mon_C16, "C17": mon_C17, "C18": mon_C18,
}


def b_states(case):
    """(step, pcs dict, snapshot) for every action of a Layer B case"""
    from .trace import parse_snap
    for st in case.steps:
        if st.kind != "b" or st.impl.count(" | ") < 2:
            continue
        out, pcs, snap = st.impl[2:].split(" | ", 2)
        yield st, out, dict(t.split("=", 1) for t in pcs.split()), snap


def mon_B(case, pid):
    """Property predicates that stay meaningful at action granularity (any thread may be in the middle of a call)."""
    from .trace import parse_snap
    mx = case.cfg.get("max", 0)
    prev_total = 0
    seen = set()
    for st, out, pcs, snap_text in b_states(case):
        locked = "wu=locked" in snap_text
        snap = parse_snap(snap_text.replace("wu=locked", "wu=0"))
        clients = {k: v for k, v in pcs.items() if k.startswith("c")}
        if pid == "C01" and not locked and not snap["shut"]:
            total = snap["wu"]
            if total < 0 and "neg" not in seen:
                seen.add("neg")
                yield finding("C01", st, f"total weight {total} is negative in the middle of {pcs}", "C01/total-negative/layerB")
            if total > mx and total > prev_total:
                cause = "UpdateWeight" if st.ev.startswith("B worker") and "UpdateWeight" not in seen and True else "other"
                # the action that raised the total: the worker leaving kw.update is the known unchecked UpdateWeight
                prev_pcs = getattr(mon_B, "_prev", {}).get(id(case), {})
                cause = "UpdateWeight" if prev_pcs.get("w") == "kw.update" and st.ev.startswith("B worker") else ("Put" if prev_pcs.get("w") == "wu.add" else st.ev.split()[1])
                yield finding("C01", st, f"total weight {total} exceeds the limit {mx} (observed between actions; worker at {pcs.get('w')})", f"C01/total-exceeds-limit/after={cause}")
            prev_total = total
        mon_B._prev = {id(case): pcs}
        at_rest = pcs.get("w") in ("worker.recv", "worker.drain") and pcs.get("s") in ("sweep.begin", "sweep.end", "finished") and all(v == "client.idle" for v in clients.values()) and snap["q"] == 0
        if pid == "C05" and at_rest and not locked and not snap["shut"] and all(a != "pending" for a in snap["acks"]) and "C05" not in seen:
            total = sum(e["weight"] for e in snap["kw"].values())
            if total != snap["wu"]:
                seen.add("C05")
                yield finding("C05", st, f"at rest: total {snap['wu']} differs from the sum of charged weights {total}", "C05/total-differs-from-sum/layerB")
            for i, e in snap["kw"].items():
                held = snap["store"].get(e["key"])
                if (held is None or held["id"] != i) and "C05" not in seen:
                    seen.add("C05")
                    yield finding("C05", st, f"at rest: id {i} (key {e['key']}) is charged but not held", "C05/charged-but-not-held/layerB")
            for k, e in snap["store"].items():
                if e["id"] not in snap["kw"] and "C05" not in seen:
                    seen.add("C05")
                    yield finding("C05", st, f"at rest: key {k} is held but not charged", "C05/held-but-not-charged/layerB")
        if pid == "C05":
            # shutdown() clears the store, the charges and the total in three separate actions; a command (or an eviction
            # by the sweeper) in flight while they run is the cause of known finding D10
            busy = pcs.get("w") not in ("worker.recv", "worker.drain", "finished") or pcs.get("s") not in ("sweep.begin", "sweep.end", "finished")
            if busy and any(v in ("shutdown.store_clear", "shutdown.kw_clear", "shutdown.wu_zero") for v in clients.values()):
                seen.add("raced")
        if pid == "C05" and at_rest and not locked and snap["shut"] and all(a != "pending" for a in snap["acks"]) and "C05s" not in seen:
            total = sum(e["weight"] for e in snap["kw"].values())
            why = None
            if total != snap["wu"]:
                why = f"total {snap['wu']} differs from the sum of charged weights {total}"
            elif any((snap["store"].get(e["key"]) or {}).get("id") != i for i, e in snap["kw"].items()):
                why = "an id is charged but not held"
            elif any(e["id"] not in snap["kw"] for e in snap["store"].values()):
                why = "a key is physically held but not charged"
            if why:
                seen.add("C05s")
                cause = "raced-inflight-command" if "raced" in seen else "no-race"
                yield finding("C05", st, f"at rest after shutdown(): {why} (store {sorted(snap['store'])}, charged ids {sorted(snap['kw'])}, total {snap['wu']})", f"C05/accounting-void-after-shutdown/{cause}")
        if pid == "C15" and len(snap["stats"]) >= 10 and not snap["shut"] and "C15" not in seen:
            in_flight = sum(1 for v in clients.values() if v == "pool.add")
            hits, added, dropped = snap["stats"][0], snap["stats"][8], snap["stats"][9]
            buffered = sum(len(b) for b in snap["pool"])
            if hits != buffered + added + dropped + in_flight:
                seen.add("C15")
                yield finding("C15", st, f"hits {hits} != buffered {buffered} + delivered {added} + dropped {dropped} + reads between lookup and buffer {in_flight}", "C15/records-not-conserved/layerB")
        if "workerpanic" in out or "panic" in out:
            seen.add("panicked")
        if pid == "C13" and pcs.get("w") == "finished" and "panicked" not in seen and "C13gone" not in seen:
            # the worker thread only ends with the cache (the sender lives as long as the cache does): a worker that has
            # left while an acknowledgement it was handed is still unanswered leaves that caller waiting for ever
            pending = [i for i, a in enumerate(snap["acks"]) if a == "pending"]
            if pending:
                seen.add("C13gone")
                yield finding("C13", st, f"the command worker has ended although acknowledgement(s) {pending} are still unanswered: their callers wait for ever", "C13/worker-gone-with-pending-acknowledgements")
        if pid == "C13":
            sd = getattr(mon_B, "_sd", None)
            if sd is None or sd.get("case") is not case or st.index <= sd.get("last", -1):
                sd = {"case": case, "returned": False, "req": {}, "post": set()}
                mon_B._sd = sd
            sd["last"] = st.index
            t = st.ev.split()
            if len(t) >= 4 and t[1] == "issue":
                sd["req"][t[2]] = t[3:]
                if sd["returned"]:
                    sd["post"].add(t[2])
                else:
                    sd["post"].discard(t[2])
            for piece in out.split(";"):
                if ":" not in piece or piece == "-":
                    continue
                c, res = piece.split(":", 1)
                cid = c[1:]
                req = sd["req"].get(cid, ["?"])
                if req[0] == "shutdown" and res == "none":
                    sd["returned"] = True
                elif cid in sd["post"]:
                    if req[0] in ("putw", "delete", "upsert") and res != "err" and not res.startswith("panic"):
                        yield finding("C13", st, f"{req[0]} issued after shutdown() had returned answered {res}", "C13/write-after-shutdown/layerB")
                    if req[0] in ("get", "getref") and res != "value -":
                        yield finding("C13", st, f"{req[0]} issued after shutdown() had returned answered {res}", "C13/read-after-shutdown/layerB")
                    # a multi-key read issued after shutdown() had returned: the empty map / an iteration that yields nothing.
                    # (One that was IN FLIGHT when the flag was set may answer `None` for keys it never looked up — without
                    # a miss — or a prefix: every load of the flag is an action of its own, LayerB.lean `CPc.mgetFlag`.)
                    if req[0] == "mget" and res.strip() != "values":
                        yield finding("C13", st, f"{req[0]} issued after shutdown() had returned answered {res}", "C13/read-after-shutdown/layerB")
        if pid == "C17":
            # a call that panics in its caller, a background thread that ends while the cache is running
            cs = getattr(mon_B, "_c17", None)
            if cs is None or cs.get("case") is not case or st.index <= cs.get("last", -1):
                cs = {"case": case, "req": {}, "charge": {}, "present": {}, "prev_pcs": {}}
                mon_B._c17 = cs
            cs["last"] = st.index
            t = st.ev.split()
            if len(t) >= 4 and t[1] == "issue":
                cs["req"][t[2]] = t[3:]
                if t[3] == "upsert":
                    e = snap["store"].get(int(t[4]))
                    cs["present"][t[2]] = e is not None
                    cs["charge"][t[2]] = snap["kw"].get(e["id"], {}).get("weight") if e is not None else None
                    cs.setdefault("id", {})[t[2]] = e["id"] if e is not None else None
            for piece in out.split(";"):
                if ":panic " not in piece:
                    continue
                c, res = piece.split(":", 1)
                cid, site = c[1:], res.split()[1]
                req = cs["req"].get(cid, ["?"])
                if site == "weight-not-positive":
                    if req[0] == "putw" and int(req[3]) <= 0:
                        continue    # documented precondition: positive weights
                    if req[0] == "upsert" and req[3] == "-" and req[2] != "-":
                        cfg = case.cfg
                        computed = cfg.get("wbase", 1) + int(req[2]) % max(cfg.get("wmod", 1), 1) + (cfg.get("ttlentry", 24) if req[4] != "-" else 0)
                        if computed <= 0:
                            continue    # documented precondition: the configured weight function returns a positive weight
                    if req[0] == "upsert" and req[5] == "1" and req[3] == "-" and req[2] == "-":
                        charge = cs["charge"].get(cid)
                        now_charged = snap["kw"].get(cs.get("id", {}).get(cid), {}).get("weight")
                        if charge is not None and charge > case.cfg.get("ttlentry", 24) and now_charged is not None:
                            # D4 reached through a race: another client's accepted UpdateWeight lowered the charge in the middle of the call
                            yield finding("C17", st, f"put_or_update(remove_time_to_live) of key {req[1]}, charged {charge} when the call began, panicked in its caller: the charge had been lowered to {now_charged} by another client's weight update in the middle of the call ({now_charged} - 24 <= 0)", "C17/caller-panic/site=ttl-removal-weight/charge-lowered-during-call")
                        elif charge is not None and charge > case.cfg.get("ttlentry", 24):
                            yield finding("C17", st, f"put_or_update(remove_time_to_live) of key {req[1]}, charged {charge} when the call began, panicked in its caller: the charge was read after another thread had taken the key id out of the ledger in the middle of the call (0 - 24 <= 0)", "C17/caller-panic/site=ttl-removal-weight/charge-removed-during-call")
                        else:
                            yield finding("C17", st, "removing the time-to-live of a light key panics in the caller (existing weight - 24 <= 0) after the store was changed", "C17/caller-panic/site=ttl-removal-weight")
                        continue
                if site == "upsert-value-missing":
                    if req[0] == "upsert" and req[2] == "-" and cs["present"].get(cid):
                        yield finding("C17", st, f"put_or_update of key {req[1]} without a value panicked in its caller although the key was present when the call began: it was removed before the call looked it up", "C17/caller-panic/site=value-missing/key-removed-during-call")
                    continue        # otherwise the documented precondition: an upsert of an absent key carries a value
                if site == "time-overflow" and req[0] in ("putw", "upsert") and len(req) > 4 and req[4] != "-":
                    yield finding("C17", st, "now + time_to_live overflows in the caller", "C17/caller-panic/site=time-overflow")
                    continue
                if site == "weight-overflow" and req[0] == "upsert":
                    yield finding("C17", st, "existing weight + 24 overflows i64 in the caller", "C17/caller-panic/site=weight-overflow")
                    continue
                yield finding("C17", st, f"call panicked: {res}", f"C17/caller-panic/site={site}")
            before = cs["prev_pcs"]
            # a `shutdown()` that clears the store, the charges or the total while a command (or a sweep eviction) stands between
            # its own steps: the overlap of known finding D10 (the same test as in the C05 clause above)
            busy = pcs.get("w") not in ("worker.recv", "worker.drain", "finished") or pcs.get("s") not in ("sweep.begin", "sweep.end", "finished")
            if busy and any(v in ("shutdown.store_clear", "shutdown.kw_clear", "shutdown.wu_zero") for v in clients.values()):
                cs["raced"] = True
            # The command worker never ends inside a case (it ends with the cache, after the last step): `finished` reached from
            # any position is a death, whether or not `shutdown()` has been called - a command queued before the `Shutdown`
            # command is still executed, and its caller still waits for its acknowledgement.
            if before.get("w") not in (None, "finished") and pcs.get("w") == "finished":
                # the site is named by the worker's position AND by what the panic said (the `# panic` notes of the case; the
                # worker thread is unnamed): a death at the same position for another reason is another finding
                said = " ".join(n for n in case.notes if n.startswith("# panic") and not re.search(r"thread=c\d", n))
                expected = {"store.put": ("time-overflow", "PutWithTTL", "overflow_when_adding_duration"), "ttl.put": ("time-overflow", "PutWithTTL", "overflow_when_adding_duration"),
                            "kw.update": ("weight-overflow", "UpdateWeight", "with_overflow")}.get(before.get("w"))
                if expected and expected[2] in said:
                    site, cmd = expected[0], expected[1]
                elif before.get("w") == "wu.space" and re.search(r"cache_weight\.rs:\d+ msg=attempt_to_subtract_with_overflow", said):
                    # `is_space_available_for`: max_weight - weight_used outside i64. With 0 <= weight_used this cannot happen
                    # (theorem C17_layerB_space_overflow_needs_negative_total); a NEGATIVE total is what known finding D10 leaves
                    # when shutdown() zeroes weight_used under a delete / an eviction that has yet to subtract. Only that case is
                    # the recorded consequence of D10; the same panic with a total that was not negative, or without such an
                    # overlap in the case, is something else.
                    total_before = cs.get("prev_wu")
                    if total_before is not None and total_before < 0 and cs.get("raced"):
                        site, cmd = "space-overflow-after-shutdown-race", "Put"
                    else:
                        site, cmd = f"space-overflow/total-before={'negative' if (total_before or 0) < 0 else 'not-negative' if total_before is not None else 'locked'}/{'shutdown-race' if cs.get('raced') else 'no-shutdown-race'}", "Put"
                else:
                    where = re.search(r"at=(\S+) msg=(\S{0,60})", said)
                    site, cmd = f"{before.get('w')}/unclassified:{where.group(1).split('/')[-1] + ':' + where.group(2) if where else 'no-panic-note'}", "?"
                yield finding("C17", st, f"the command worker died at {before.get('w')}{' (total ' + str(cs.get('prev_wu')) + ' before the step, limit ' + str(mx) + ')' if before.get('w') == 'wu.space' else ''}: {said[:200]}", f"C17/worker-died/site={site}/cmd={cmd}")
            if not snap["shut"]:
                if before.get("s") not in (None, "finished") and pcs.get("s") == "finished":
                    yield finding("C17", st, f"the sweeper died at {before.get('s')}", "C17/sweeper-died")
                if snap["consumer"] is False and cs.get("consumer", True):
                    yield finding("C17", st, "the access-count consumer died", "C17/consumer-died")
            cs["prev_wu"] = None if locked else snap["wu"]
            cs["consumer"] = snap["consumer"]
            cs["prev_pcs"] = pcs
        if pid in ("C03", "C09", "C10"):
            # the sweeper's store.remove takes away an entry that a reader could still get: not soft-deleted and, by the deadline
            # STORED with it, not expired. (The sweeper decides on the deadline its index holds; put_or_update changes the stored
            # deadline and the index in separate steps.) The cause is named: an upsert of that key standing between its store
            # update and its index update (D13), or - with no call in flight - index and store left out of step by two upserts
            # of the key that overlapped earlier (D12); anything else is a new violation.
            lv = getattr(mon_B, "_live", None)
            if lv is None or lv.get("case") is not case or lv.get("pid") != pid or st.index <= lv.get("last", -1):
                lv = {"case": case, "pid": pid, "req": {}, "prev_pcs": {}, "prev_snap": None, "open": {}, "overlapped": set(), "updated_at": {}, "visit_at": -1}
                mon_B._live = lv
            lv["last"] = st.index
            t = st.ev.split()
            if len(t) >= 4 and t[1] == "issue":
                lv["req"][t[2]] = t[3:]
                if t[3] == "upsert":
                    k = int(t[4])
                    if lv["open"].get(k):
                        lv["overlapped"].add(k)
                    lv["open"].setdefault(k, set()).add(t[2])
            for cid, v in clients.items():
                rq = lv["req"].get(cid[1:])
                if v == "client.idle" and rq and rq[0] == "upsert" and lv["prev_pcs"].get(cid, "client.idle") != "client.idle":
                    lv["open"].get(int(rq[1]), set()).discard(cid[1:])
            if t[1:2] == ["sweeper"] and lv["prev_pcs"].get("s") == "sweep.entry":
                lv["visit_at"] = st.index
            if t[1:2] == ["client"] and lv["prev_pcs"].get("c" + t[2]) == "upsert.update" and lv["req"].get(t[2], ["?"])[0] == "upsert":
                lv["updated_at"][int(lv["req"][t[2]][1])] = st.index
                if lv["prev_pcs"].get("w") == "ttl.put":
                    # the worker stands between the store.put and the ttl.put of a put: an upsert of that key now updates an index
                    # entry that is not there yet, and the worker's ttl.put then writes the put's (old) deadline over it
                    lv.setdefault("overtook", set()).add(int(lv["req"][t[2]][1]))
            prev = lv["prev_snap"]
            if prev is not None and t[1:2] == ["sweeper"] and lv["prev_pcs"].get("s") == "store.remove":
                for k, e in prev["store"].items():
                    if k not in snap["store"] and not e["soft"] and not (e["expiry"] is not None and prev["now"] > e["expiry"]):
                        mid = [c for c, v in lv["prev_pcs"].items() if c.startswith("c") and v in ("upsert.weight_of", "ttl.put", "ttl.delete", "ttl.update.remove", "ttl.update.insert") and lv["req"].get(c[1:], ["?", "-1"])[0] == "upsert" and int(lv["req"][c[1:]][1]) == k]
                        cause = "upsert-between-store-and-index" if mid else ("index-out-of-step-after-overlapping-upserts" if k in lv["overlapped"] else
                                 ("index-out-of-step-after-upsert-overtook-the-put" if k in lv.get("overtook", set()) else "no-upsert-involved"))
                        if lv["updated_at"].get(k, -1) > lv["visit_at"] >= 0:
                            # the upsert rewrote the entry AFTER the sweeper had found it due: it rewrote an entry that was
                            # already expired (known finding D3: put_or_update updates an expired-but-unswept entry in place)
                            cause = "upsert-of-expired-entry-during-its-eviction"
                        dl = "no deadline" if e["expiry"] is None else f"deadline {e['expiry']}"
                        yield finding(pid, st, f"the sweeper removed key {k} (id {e['id']}, {dl}) at clock {prev['now']}: a reader could still get it", f"{pid}/live-key-removed-by-sweep/{cause}")
            if at_rest and not snap["shut"] and not any(lv["open"].values()):
                # an overlap explains an index that is out of step NOW; once store and index agree again on the key (at rest, no
                # upsert of it in flight) the explanation is used up, and a later loss on the same key is a new violation
                for k in list(lv["overlapped"] | lv.get("overtook", set())):
                    e = snap["store"].get(k)
                    in_step = e is None or (e["expiry"] is None and not any(i == e["id"] for (_sh, i, _e) in snap["ttl"])) or \
                        (e["expiry"] is not None and any(i == e["id"] and x == e["expiry"] for (_sh, i, x) in snap["ttl"]))
                    if in_step:
                        lv["overlapped"].discard(k)
                        lv.get("overtook", set()).discard(k)
            if pid == "C10" and at_rest and not snap["shut"] and "unsweepable" not in seen:
                # liveness side of C10: an entry whose own deadline has passed must still be in reach of the sweeper, i.e. its key
                # id must be in the expiry index (in whatever shard); otherwise no sweep will ever reclaim it
                indexed = {i for (_sh, i, _e) in snap["ttl"]}
                for k, e in snap["store"].items():
                    if e["expiry"] is not None and snap["now"] > e["expiry"] and e["id"] in snap["kw"] and e["id"] not in indexed:
                        seen.add("unsweepable")
                        cause = "index-entry-lost-after-overlapping-upserts" if k in lv["overlapped"] else ("index-entry-lost-after-upsert-overtook-the-put" if k in lv.get("overtook", set()) else "no-overlap")
                        yield finding("C10", st, f"key {k} (id {e['id']}) has expired (deadline {e['expiry']}, clock {snap['now']}) and is still held and charged, but the expiry index has no entry for its id: no sweep will ever remove it", f"C10/expired-key-unsweepable/{cause}")
                        break
            lv["prev_pcs"] = pcs
            lv["prev_snap"] = snap
        if pid == "C09":
            # a read (get / get_ref / every position of a multi-key read) that finds a value must have found an entry that was
            # alive at the moment of ITS lookup action, whatever the clock did before or does afterwards
            rs = getattr(mon_B, "_c09", None)
            if rs is None or rs.get("case") is not case or st.index <= rs.get("last", -1):
                rs = {"case": case, "req": {}, "pos": {}, "prev_pcs": {}, "prev_snap": None}
                mon_B._c09 = rs
            rs["last"] = st.index
            t = st.ev.split()
            if len(t) >= 4 and t[1] == "issue":
                rs["req"][t[2]] = t[3:]
                rs["pos"][t[2]] = 0
            if len(t) >= 3 and t[1] == "client":
                c = "c" + t[2]
                req = rs["req"].get(t[2], [])
                prev = rs["prev_snap"]
                if prev is not None and req and rs["prev_pcs"].get(c) == "store.get" and req[0] in ("get", "getref", "mget"):
                    if req[0] == "mget":
                        ks = [int(x) for x in req[1].split(",") if x]
                        pos = rs["pos"].get(t[2], 0)
                        k = ks[pos] if pos < len(ks) else None
                        rs["pos"][t[2]] = pos + 1
                    else:
                        k = int(req[1])
                    if k is not None and pcs.get(c) == "pool.add":
                        e = prev["store"].get(k)
                        if e is not None and e["expiry"] is not None and prev["now"] > e["expiry"]:
                            yield finding("C09", st, f"a read of key {k} found a value although the clock ({prev['now']}) was past the entry's deadline ({e['expiry']}) at the moment of the lookup", "C09/expired-value-served/layerB")
            rs["prev_pcs"] = pcs
            rs["prev_snap"] = snap
        if pid in ("C02", "C04"):
            # per-client bookkeeping of the request in progress
            st_state = getattr(mon_B, "_st", None)
            if st_state is None or st_state.get("case") is not case or st_state.get("pid") != pid or st.index <= st_state.get("last", -1):
                st_state = {"case": case, "pid": pid, "req": {}, "deleted": {}, "read": {}, "prev_pcs": {}, "prev_snap": None}
                mon_B._st = st_state
            st_state["last"] = st.index
            t = st.ev.split()
            if len(t) >= 4 and t[1] == "issue":
                st_state["req"][t[2]] = t[3:]
            if len(t) >= 3 and t[1] == "client":
                c = "c" + t[2]
                req = st_state["req"].get(t[2], [])
                before = st_state["prev_pcs"].get(c)
                prev = st_state["prev_snap"]
                if prev is not None and req:
                    if before == "delete.mark" and req[0] == "delete":
                        e = prev["store"].get(int(req[1]))
                        if e is not None:
                            st_state["deleted"][e["id"]] = st.index
                    if before == "store.get" and req[0] == "get":
                        k = int(req[1])
                        e = prev["store"].get(k)
                        now_at = pcs.get(c)
                        if now_at == "pool.add":
                            st_state["read"][c] = (k, e)
                            if e is None or not readable(e, prev["now"]):
                                yield finding("C02", st, f"a read of key {k} found a value although the entry is {'absent' if e is None else 'not alive'}", "C02/value-of-dead-entry/layerB") if pid == "C02" else finding("C04", st, f"a read of key {k} found a value although the entry is dead", "C04/read-of-dead-entry/layerB")
                            elif e["id"] in st_state["deleted"] and pid == "C04":
                                yield finding("C04", st, f"get({k}) read the incarnation (id {e['id']}) whose delete() had already marked it at action {st_state['deleted'][e['id']]}", "C04/read-after-delete/layerB")
                if out.startswith(c + ":value ") and pid == "C02":
                    got = out.split(":value ", 1)[1]
                    rd = st_state["read"].pop(c, None)
                    if got != "-" and rd is not None and rd[1] is not None and int(got) != rd[1]["value"]:
                        yield finding("C02", st, f"get({rd[0]}) returned {got}, the entry it looked up held {rd[1]['value']}", "C02/read-disagrees-with-store/layerB")
            st_state["prev_pcs"] = pcs
            st_state["prev_snap"] = snap


def mon_glue(case, pid):
    """Layer G (construction glue), recomputed independently of the model: a configuration the builder accepted must
    construct (C17); a request the upsert builder accepted must say what the calls said (C08)."""
    for st in case.steps:
        if st.kind != "pure" or not st.toks or not st.toks[0].startswith("glue."):
            continue
        t, o = st.ev.split()[1:], st.out.split()
        if pid == "C17" and t[0] == "glue.new" and o and o[0] == "panic":
            yield finding("C17", st, f"CacheD::new panicked on a configuration the builder accepted: {' '.join(t[1:])}", "C17/construction-panicked")
        if pid == "C17" and t[0] == "glue.weight" and o and o[0] == "weight" and int(o[1]) <= 0:
            yield finding("C17", st, f"the default weight function returned {o[1]} (put would panic on its assert)", "C17/default-weight-not-positive")
        if pid == "C08" and t[0] == "glue.upsert" and o and o[0] == "req":
            kv = dict(x.split("=", 1) for x in t[1:5])
            calls = t[6:] if len(t) > 6 else []
            want_value = "1" if "value" in calls else "0"
            weights = [c.split(":")[1] for c in calls if c.startswith("weight:")]
            ttls = [c.split(":")[1] for c in calls if c.startswith("ttl:")]
            want_weight = weights[-1] if weights else "-"
            want_ttl = ttls[-1] if ttls else "-"
            want_rm = "1" if "rm" in calls else "0"
            if weights:
                want_uw = weights[-1]
            elif want_value == "1":
                want_uw = str(int(kv["wbase"]) + int(kv["v"]) % int(kv["wmod"]) + (int(kv["ttlentry"]) if ttls else 0))
            else:
                want_uw = "-"
            got = dict(x.split("=", 1) for x in o[1:])
            want = {"value": want_value, "weight": want_weight, "ttl": want_ttl, "rm": want_rm, "uw": want_uw}
            if got != want:
                yield finding("C08", st, f"the request built by {' '.join(calls)} carries {got}, the calls said {want}", "C08/request-not-as-built")


PERSISTENT = ("C05", "C15", "C16")   # state predicates: once false they stay false; only the first step of a case names the cause


def _first_only(gen):
    seen = set()
    for f in gen:
        base = f["signature"].split("/after=")[0]
        if base in seen:
            continue
        seen.add(base)
        yield f


def _dispatch(pid):
    def run(case):
        if getattr(case, "layer_b", False):
            yield from mon_B(case, pid)
            if case.hang and pid in ("C13", "C15", "C18"):
                st = case.steps[-1] if case.steps else None
                what = "; ".join(n for n in case.notes if n.startswith("# hang") or n.startswith("# engine"))
                yield {"property": pid, "step": st.index if st else 0, "what": f"under a controlled interleaving a thread did not reach its next schedule point: {what}", "signature": f"{pid}/hang"}
            return
        if case.cfg_line:
            if pid in PERSISTENT:
                yield from _first_only(_SEQ[pid](case))
            else:
                yield from _SEQ[pid](case)
        elif pid == "C12":
            yield from mon_C12_ack(case)
        elif pid == "C13":
            yield from mon_C13_ack(case)
        elif pid == "C14":
            yield from mon_C14_pure(case)
        elif pid in ("C17", "C08"):
            yield from mon_glue(case, pid)
        elif pid == "C16":
            for st in case.steps:
                if st.kind == "pure" and st.toks and st.toks[0] == "ratio" and "mismatch" in st.out:
                    yield finding("C16", st, f"hit ratio after {st.toks[1]} hits and {st.toks[2]} misses: {st.out}", "C16/hit-ratio")
        for st in case.steps:
            if st.kind == "locks" and pid in ("C12", "C13") and st.ev.split()[1:2] == ["acks-after-shutdown"] and st.ev.split()[2] != "resolved":
                yield finding(pid, st, f"under free-running threads with shutdown() under load: acknowledgements handed out before or during shutdown() were never answered ({st.ev.split()[2]})", f"{pid}/never-resolved-after-shutdown")
            if st.kind == "stress" and st.out.startswith("violations"):
                for item in st.out[len("violations "):].split(" ;; "):
                    sig = item.split(" ")[0]
                    if sig.startswith(pid + "/"):
                        yield finding(pid, st, "under free-running threads: " + item, sig)
        if case.hang and pid in ("C13", "C15", "C18"):
            if pid != "C18" or not case.cfg_line:
                st = case.steps[-1] if case.steps else None
                what = "; ".join(n for n in case.notes if n.startswith("# hang") or n.startswith("# engine"))
                yield {"property": pid, "step": st.index if st else 0, "what": f"a call or background step did not return: {what}", "signature": f"{pid}/hang"}
    return run


MONITORS = {pid: _dispatch(pid) for pid in _SEQ}
